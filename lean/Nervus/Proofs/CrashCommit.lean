/-
  Proofs.CrashCommit — `WriteTxn::commit`: after every prefix of its I/O steps every crash image
  represents the old or the new committed list; once the log is synced, the new one.
-/
import Nervus.Proofs.CrashLog
import Nervus.Proofs.CrashPhase
namespace Nervus.Crash

theorem allNodes_snoc (T : List Tx) (tx : Tx) : allNodes (T ++ [tx]) = allNodes T ++ tx.nodes := by
  simp [allNodes]
theorem allEdges_snoc (T : List Tx) (tx : Tx) : allEdges (T ++ [tx]) = allEdges T ++ tx.edges := by
  simp [allEdges]
theorem allProps_snoc (T : List Tx) (tx : Tx) : allProps (T ++ [tx]) = allProps T ++ tx.props := by
  simp [allProps]

/-- the transaction's nodes are new and non-zero -/
structure FreshTx (T : List Tx) (tx : Tx) : Prop where
  nodup : (allNodes T ++ tx.nodes).Nodup
  nozero : 0 ∉ tx.nodes

/-- edges / properties of the runs the log replays, after one more data transaction -/
theorem logRuns_snoc_edges (ckpt : Nat) (cs : List CTx) (t base : Nat) (tx : Tx) (hnle : ¬ t ≤ ckpt) :
    (logRuns ckpt (cs ++ [⟨t, body base tx⟩])).flatMap (·.edges) = (logRuns ckpt cs).flatMap (·.edges) ++ tx.edges := by
  rw [logRuns_append, List.flatMap_append]
  congr 1
  by_cases hr : ((runOf ⟨t, body base tx⟩).edges.isEmpty && (runOf ⟨t, body base tx⟩).props.isEmpty) = true
  · have : tx.edges = [] := by
      simp [runOf, edgesOf_body] at hr
      exact hr.1
    simp [logRuns, hnle, hr, this]
  · have hl : logRuns ckpt [⟨t, body base tx⟩] = [runOf ⟨t, body base tx⟩] := by simp [logRuns, hnle, hr]
    rw [hl]; simp [runOf, edgesOf_body]

theorem logRuns_snoc_props (ckpt : Nat) (cs : List CTx) (t base : Nat) (tx : Tx) (hnle : ¬ t ≤ ckpt) :
    (logRuns ckpt (cs ++ [⟨t, body base tx⟩])).flatMap (·.props) = (logRuns ckpt cs).flatMap (·.props) ++ tx.props := by
  rw [logRuns_append, List.flatMap_append]
  congr 1
  by_cases hr : ((runOf ⟨t, body base tx⟩).edges.isEmpty && (runOf ⟨t, body base tx⟩).props.isEmpty) = true
  · have : tx.props = [] := by
      simp [runOf, propsOf_body] at hr
      exact hr.2
    simp [logRuns, hnle, hr, this]
  · have hl : logRuns ckpt [⟨t, body base tx⟩] = [runOf ⟨t, body base tx⟩] := by simp [logRuns, hnle, hr]
    rw [hl]; simp [runOf, propsOf_body]

theorem logOK_snoc {T : List Tx} {cs : List CTx} {c : Nat} (h : LogOK T cs c) (t : Nat) (tx : Tx)
    (ht : (scan cs).maxTxid < t) (hf : FreshTx T tx) :
    LogOK (T ++ [tx]) (cs ++ [⟨t, body (allNodes T).length tx⟩]) c := by
  have hsc := scan_snoc_body cs t (allNodes T).length tx
  have hck : (scan (cs ++ [⟨t, body (allNodes T).length tx⟩])).ckpt = (scan cs).ckpt := by rw [hsc]
  have hmx : (scan (cs ++ [⟨t, body (allNodes T).length tx⟩])).maxTxid = max (scan cs).maxTxid t := by rw [hsc]
  have hnle : ¬ t ≤ (scan cs).ckpt := by have := h.ckptle; omega
  refine ⟨?_, ?_, ?_, ?_, ?_, ?_, ?_⟩
  · rw [allNodes_snoc]; exact hf.nodup
  · rw [allNodes_snoc]; simp [h.nozero, hf.nozero]
  · rw [allNodes_snoc]; simp; have := h.cle; omega
  · rw [hck, flatOps_append, nodesOfOps_append, h.nodes, allNodes_snoc]
    have hfl : flatOps (scan cs).ckpt [⟨t, body (allNodes T).length tx⟩] = body (allNodes T).length tx := by
      simp [flatOps, hnle]
    rw [hfl]
    have hb : nodesOfOps (body (allNodes T).length tx) =
        (List.range tx.nodes.length).map (fun j => (getSlot tx.nodes j, (allNodes T).length + j)) := by
      simp [body, nodesOfOps_append, nodesOfOps_nodeRecs, nodesOfOps_edges, nodesOfOps_props]
    rw [hb]
    have hlen : (allNodes T ++ tx.nodes).length - c = ((allNodes T).length - c) + tx.nodes.length := by
      simp; have := h.cle; omega
    rw [hlen, seqFrom_append, seqFrom_append_left _ _ _ _ (by have := h.cle; omega)]
    congr 1
    have hc : c + ((allNodes T).length - c) = (allNodes T).length + 0 := by have := h.cle; omega
    rw [hc, seqFrom_tail _ _ _ 0 (by simp)]
    simp
  · rw [hck, hmx]; exact Nat.le_trans h.ckptle (Nat.le_max_left _ _)
  · unfold TxMono
    rw [List.pairwise_append]
    refine ⟨h.mono, by simp, ?_⟩
    intro a ha b hb
    simp only [List.mem_singleton] at hb
    subst hb
    have := h.maxle a ha
    show a.txid < t
    omega
  · intro x hx
    rw [hmx]
    rcases List.mem_append.mp hx with hx | hx
    · have := h.maxle x hx; omega
    · simp only [List.mem_singleton] at hx
      subst hx
      show t ≤ _
      omega

theorem TreeOK.mono {a a' cov : List Nat} {top : Bool} {t : TreeImg} (h : TreeOK a cov top t) (ha : ∀ q ∈ a, q ∈ a') :
    TreeOK a' cov top t := by
  obtain ⟨X, h1, h3, h4⟩ := h.shape
  exact ⟨⟨X, h1, fun q hq => ha q (h3 q hq), h4⟩⟩

theorem storeOK_snoc {T : List Tx} {cs : List CTx} {p : PImg} (h : StoreOK T cs p) (t base : Nat) (tx : Tx)
    (ht : (scan cs).ckpt < t) : StoreOK (T ++ [tx]) (cs ++ [⟨t, body base tx⟩]) p := by
  have hsc := scan_snoc_body cs t base tx
  have hnle : ¬ t ≤ (scan cs).ckpt := by omega
  have e1 : (scan (cs ++ [⟨t, body base tx⟩])).segs = (scan cs).segs := by rw [hsc]
  have e2 : (scan (cs ++ [⟨t, body base tx⟩])).ckpt = (scan cs).ckpt := by rw [hsc]
  have e3 : (scan (cs ++ [⟨t, body base tx⟩])).proot = (scan cs).proot := by rw [hsc]
  have e4 : (scan (cs ++ [⟨t, body base tx⟩])).ptop = (scan cs).ptop := by rw [hsc]
  refine ⟨by rw [e1]; exact h.segs, h.segKeys, h.treeKeys, ?_, ?_, ?_⟩
  · intro e
    rw [e1, e2, logRuns_snoc_edges _ _ _ _ _ hnle, allEdges_snoc, ← List.append_assoc, List.mem_append, h.edges e, List.mem_append]
  · intro q hq
    rw [e2, logRuns_snoc_props _ _ _ _ _ hnle] at hq
    rw [allProps_snoc]
    rcases List.mem_append.mp hq with hq | hq
    · exact List.mem_append_left _ (h.runProps q hq)
    · exact List.mem_append_right _ hq
  · obtain ⟨cov, h1, h2, h3⟩ := h.props
    refine ⟨cov, ?_, by rw [e3]; exact h2, ?_⟩
    · intro q hq
      rw [e2, logRuns_snoc_props _ _ _ _ _ hnle]
      rw [allProps_snoc] at hq
      rcases List.mem_append.mp hq with hq | hq
      · rcases h1 q hq with h' | h'
        · exact Or.inl (List.mem_append_left _ h')
        · exact Or.inr h'
      · exact Or.inl (List.mem_append_right _ hq)
    · rw [e3, e4]
      intro hne
      obtain ⟨tr, hf, hto⟩ := h3 hne
      exact ⟨tr, hf, hto.mono (fun q hq => by rw [allProps_snoc]; exact List.mem_append_left _ hq)⟩

theorem pagerOK_extend {N M : List Nat} {c : Nat} {p : PImg} (h : PagerOK N c p) : PagerOK (N ++ M) c p where
  booted := h.booted
  start := h.start
  lo := h.lo
  hi := by simp; have := h.hi; omega
  slots := fun i hi => by rw [h.slots i hi, getSlot_append_left N M i (by have := h.hi; omega)]

/-- **the log side of a commit**: `wf0` without torn tail, representing `T`; appended with the
    first `j` fragments of the transaction's records it still represents `T`, with all of them
    `T ++ [tx]`. -/
theorem rep_log_prefix {T : List Tx} {cs : List CTx} {c : Nat} {p : PImg} {wf0 : List Frag}
    (hclean : validLen wf0 = wf0.length) (hcom : committed (readAll wf0) = .ok cs) (hlog : LogOK T cs c)
    (hp : PagerOK (allNodes T) c p) (hst : StoreOK T cs p) (t : Nat) (tx : Tx) (ht : (scan cs).maxTxid < t)
    (hf : FreshTx T tx) (j : Nat) :
    let recs := txRecs t (allNodes T).length tx
    (j < 3 * recs.length → Rep T p (wf0 ++ (frames recs).take j)) ∧
    (3 * recs.length ≤ j → Rep (T ++ [tx]) p (wf0 ++ (frames recs).take j)) := by
  intro recs
  have hwf : wf0 = frames (readAll wf0) := clean_eq_frames wf0 hclean
  have hrl : recs.length = (body (allNodes T).length tx).length + 2 := by simp [recs, txRecs_eq]
  constructor
  · intro hj
    refine ⟨cs, c, ?_, hlog, hp, hst⟩
    rw [hwf, readAll_append_take]
    exact committed_partial hcom t _ tx (j / 3) (by omega)
  · intro hj
    refine ⟨cs ++ [⟨t, body (allNodes T).length tx⟩], c, ?_, logOK_snoc hlog t tx ht hf, ?_,
      storeOK_snoc hst t _ tx (by have := hlog.ckptle; omega)⟩
    · rw [List.take_of_length_le (by rw [frames_length]; omega), hwf, readAll_frames_append, readAll_frames]
      exact committed_full hcom t _ tx
    · rw [allNodes_snoc]; exact pagerOK_extend hp

/-! ### the log while the records are written -/

theorem steps_ww (fs : FS) (l : List Frag) :
    (fs.steps (l.map Step.ww)).wf = fs.wf ++ l ∧ (fs.steps (l.map Step.ww)).wdur = fs.wdur ∧
    (fs.steps (l.map Step.ww)).ren = fs.ren ∧ (fs.steps (l.map Step.ww)).pd = fs.pd ∧
    (fs.steps (l.map Step.ww)).pj = fs.pj := by
  induction l generalizing fs with
  | nil => simp [FS.steps]
  | cons f l ih =>
    have := ih (fs.step (.ww f))
    simp only [List.map_cons, FS.steps, List.foldl] at this ⊢
    simpa [FS.step] using this

/-- every image of the log that a power loss may leave has the same committed list `cs`: the
    durable prefix may be followed by unsynced complete records of an unfinished transaction -/
structure WalStable (cs : List CTx) (fs : FS) : Prop where
  ren : fs.ren = none
  wdur : fs.wdur ≤ fs.wf.length
  stable : ∀ n, fs.wdur ≤ n → committed (readAll (fs.wf.take n)) = .ok cs

theorem WalStable.of_quiet {cs : List CTx} {fs : FS} (hq : WalQuiet fs) (hcom : committed (readAll fs.wf) = .ok cs) :
    WalStable cs fs :=
  ⟨hq.ren, by rw [hq.wdur]; exact Nat.le_refl _, fun n hn => by rw [List.take_of_length_le (by rw [← hq.wdur]; exact hn)]; exact hcom⟩

theorem WalStable.com {cs : List CTx} {fs : FS} (h : WalStable cs fs) : committed (readAll fs.wf) = .ok cs := by
  have := h.stable fs.wf.length h.wdur
  rwa [List.take_length] at this

theorem WalStable.crashW {cs : List CTx} {fs : FS} (h : WalStable cs fs) (mode : CrashMode) :
    ∃ n, fs.wdur ≤ n ∧ fs.crashW mode = fs.wf.take n := by
  cases mode with
  | proc => exact ⟨fs.wf.length, h.wdur, by simp [FS.crashW]⟩
  | power sel wk lose => exact ⟨fs.wdur + wk, Nat.le_add_right _ _, by simp [FS.crashW, h.ren]⟩

/-- while only log fragments are appended, every crash image is the page file as it was and either
    a (durable-or-later) prefix of the old log or the old log plus some prefix of the fragments -/
theorem crash_during_ww (fs : FS) (hren : fs.ren = none) (hwd : fs.wdur ≤ fs.wf.length) (hpj : Inert fs.pj)
    (l : List Frag) (n : Nat) (mode : CrashMode) :
    (fs.steps ((l.map Step.ww).take n)).crashP mode = fs.pd ∧
    ((∃ k, fs.wdur ≤ k ∧ (fs.steps ((l.map Step.ww).take n)).crashW mode = fs.wf.take k) ∨
     (∃ j, j ≤ min n l.length ∧ (fs.steps ((l.map Step.ww).take n)).crashW mode = fs.wf ++ l.take j)) := by
  rw [← List.map_take]
  obtain ⟨hw, hd, hr, hpd, hpj'⟩ := steps_ww fs (l.take n)
  have hP : (fs.steps ((l.take n).map Step.ww)).crashP mode = fs.pd := by
    rw [crashP_inert _ (by rw [hpj']; exact hpj), hpd]
  refine ⟨hP, ?_⟩
  cases mode with
  | proc =>
    right
    refine ⟨min n l.length, Nat.le_refl _, ?_⟩
    simp only [FS.crashW, hw]
    congr 1
    rw [List.take_eq_take_iff]
    try omega
  | power sel wk lose =>
    simp only [FS.crashW, hr, hren, hw, hd]
    by_cases hle : fs.wdur + wk ≤ fs.wf.length
    · left
      exact ⟨fs.wdur + wk, Nat.le_add_right _ _, by rw [List.take_append_of_le_length hle]⟩
    · right
      refine ⟨min (fs.wdur + wk - fs.wf.length) (min n l.length), Nat.min_le_right _ _, ?_⟩
      rw [List.take_append, List.take_of_length_le (by omega)]
      congr 1
      rw [List.take_take, List.take_eq_take_iff]
      omega

/-! ### the appended records as I/O steps -/

theorem appendsA_nocut (cfg : Cfg) : ∀ (recs : List Rec) (ws : WS), ws.isOpen = true →
    (cfg.tailTolerant && !ws.checked) = false →
    ioSteps (appendsA cfg ws recs).1 = (frames recs).map Step.ww ∧ failOf (appendsA cfg ws recs).1 = none ∧
    memUpds (appendsA cfg ws recs).1 = [] ∧ (appendsA cfg ws recs).2.isOpen = true
  | [], ws, ho, _ => by simp [appendsA, ioSteps, failOf, memUpds, frames, ho]
  | r :: recs, ws, ho, hc => by
    have h1 : (appendA cfg ws r).2.isOpen = true := by simp [appendA, ho, hc]
    have h2 : (cfg.tailTolerant && !(appendA cfg ws r).2.checked) = false := by simpa [appendA, ho, hc] using hc
    obtain ⟨i1, i2, i3, i4⟩ := appendsA_nocut cfg recs (appendA cfg ws r).2 h1 h2
    have ha : (appendA cfg ws r).1 = [.io (.ww (.len r)) (if cfg.walRollback then [Step.wt ws.len] else []),
        .io (.ww (.crc r)) (if cfg.walRollback then [Step.wt ws.len] else []),
        .io (.ww (.body r)) (if cfg.walRollback then [Step.wt ws.len] else [])] := by
      simp [appendA, ho, hc]
    have hf : failOf (appendA cfg ws r).1 = none := by rw [ha]; rfl
    refine ⟨?_, ?_, ?_, i4⟩
    · show ioSteps ((appendA cfg ws r).1 ++ (appendsA cfg (appendA cfg ws r).2 recs).1) = _
      rw [ioSteps_append_noFail _ _ hf, i1, ha]
      simp [ioSteps, frames]
    · show failOf ((appendA cfg ws r).1 ++ (appendsA cfg (appendA cfg ws r).2 recs).1) = _
      rw [failOf_append, hf]; simpa using i2
    · show memUpds ((appendA cfg ws r).1 ++ (appendsA cfg (appendA cfg ws r).2 recs).1) = _
      rw [memUpds_append_noFail _ _ hf, i3, ha]
      simp [memUpds]

/-- the tail cut of the first append through a handle (C17's repair), as steps -/
def cutSteps (cfg : Cfg) (ws : WS) : List Step :=
  if (cfg.tailTolerant && !ws.checked) = true ∧ ws.valid < ws.len then [Step.wt ws.valid] else []

def cutUpds (cfg : Cfg) (ws : WS) : List MemUpd :=
  if (cfg.tailTolerant && !ws.checked) = true then [MemUpd.tailChecked] else []

theorem appendsA_steps (cfg : Cfg) (r : Rec) (recs : List Rec) (ws : WS) (ho : ws.isOpen = true) :
    ioSteps (appendsA cfg ws (r :: recs)).1 = cutSteps cfg ws ++ (frames (r :: recs)).map Step.ww ∧
    failOf (appendsA cfg ws (r :: recs)).1 = none ∧
    memUpds (appendsA cfg ws (r :: recs)).1 = cutUpds cfg ws ∧ (appendsA cfg ws (r :: recs)).2.isOpen = true := by
  by_cases hc : (cfg.tailTolerant && !ws.checked) = true
  · have h1 : (appendA cfg ws r).2.isOpen = true := by simp [appendA, ho]
    have h2 : (cfg.tailTolerant && !(appendA cfg ws r).2.checked) = false := by
      have : (appendA cfg ws r).2.checked = true := by simp [appendA, ho, hc]
      simp [this]
    obtain ⟨i1, i2, i3, i4⟩ := appendsA_nocut cfg recs (appendA cfg ws r).2 h1 h2
    have hf : failOf (appendA cfg ws r).1 = none := by
      by_cases hv : ws.valid < ws.len <;> simp [appendA, ho, hc, hv, failOf]
    refine ⟨?_, ?_, ?_, i4⟩
    · show ioSteps ((appendA cfg ws r).1 ++ (appendsA cfg (appendA cfg ws r).2 recs).1) = _
      rw [ioSteps_append_noFail _ _ hf, i1]
      by_cases hv : ws.valid < ws.len <;> simp [appendA, ho, hc, hv, ioSteps, frames, cutSteps]
    · show failOf ((appendA cfg ws r).1 ++ (appendsA cfg (appendA cfg ws r).2 recs).1) = _
      rw [failOf_append, hf]; simpa using i2
    · show memUpds ((appendA cfg ws r).1 ++ (appendsA cfg (appendA cfg ws r).2 recs).1) = _
      rw [memUpds_append_noFail _ _ hf, i3]
      by_cases hv : ws.valid < ws.len <;> simp [appendA, ho, hc, hv, memUpds, cutUpds]
  · have hc' : (cfg.tailTolerant && !ws.checked) = false := by simpa using hc
    obtain ⟨i1, i2, i3, i4⟩ := appendsA_nocut cfg (r :: recs) ws ho hc'
    exact ⟨by simp [cutSteps, hc', i1], i2, by simp [cutUpds, hc', i3], i4⟩

/-- the I/O steps of a commit: (tail cut,) the records fragment by fragment, the log sync, the
    node-table updates -/
theorem commitA_steps (cfg : Cfg) (m : Mem) (vol : PImg) (w : List Frag) (tx : Tx) (ho : m.walOpen = true) :
    ioSteps (commitA cfg m vol w tx) =
      cutSteps cfg (m.ws w) ++ ((frames (txRecs m.nextTxid m.idLen tx)).map Step.ww ++
        (Step.ws :: ioSteps (nodesA cfg (m.ps vol) { start := m.idStart, len := m.idLen } tx.nodes).1)) ∧
    failOf (commitA cfg m vol w tx) = none := by
  have hws : (m.ws w).isOpen = true := ho
  have hrecs : txRecs m.nextTxid m.idLen tx = .begin m.nextTxid :: (body m.idLen tx ++ [.commit m.nextTxid]) := by
    rw [txRecs_eq]; rfl
  obtain ⟨i1, i2, i3, i4⟩ := appendsA_steps cfg (.begin m.nextTxid) (body m.idLen tx ++ [.commit m.nextTxid]) (m.ws w) hws
  rw [← hrecs] at i1 i2 i3 i4
  obtain ⟨nf, _⟩ := (pagerActs_nodes cfg tx.nodes (m.ps vol) { start := m.idStart, len := m.idLen }).facts
  unfold commitA
  simp only [i4, if_true]
  constructor
  · simp only [List.append_assoc]
    rw [show ∀ (x : Action) (l : List Action), [x] ++ l = x :: l from fun _ _ => rfl]
    simp only [ioSteps]
    rw [ioSteps_append_noFail _ _ i2, i1]
    simp only [List.append_assoc, List.cons_append, List.nil_append, ioSteps]
    rw [ioSteps_append_noFail _ _ nf]
    congr 2
    by_cases hr : (tx.edges.isEmpty && tx.props.isEmpty) = true <;> simp [hr, ioSteps]
  · simp only [List.append_assoc, failOf_append, i2, nf]
    by_cases hr : (tx.edges.isEmpty && tx.props.isEmpty) = true <;> simp [hr, failOf]

end Nervus.Crash

namespace Nervus.Crash

/-- an open handle between two operations: files and memory agree on the committed list `T` -/
structure InvOpen (T : List Tx) (fs : FS) (m : Mem) (cs : List CTx) (c : Nat) : Prop where
  pj : Inert fs.pj
  wal : WalStable cs fs
  log : LogOK T cs c
  pager : PagerOK (allNodes T) c fs.pd
  store : StoreOK T cs fs.pd
  full : fs.pd.hdr.i2eLen = (allNodes T).length
  mpm : SameKey fs.pd.hdr m.pm
  mbm : fs.pd.bm ≤ m.bm
  mlen : m.idLen = (allNodes T).length
  mstart : m.idStart = fs.pd.hdr.i2eStart
  mexts : m.exts = allNodes T
  mruns : m.runs = logRuns (scan cs).ckpt cs
  msegs : m.segs = (scan cs).segs.map (fun k => (k, segEdges fs.pd k))
  mroot : m.proot = (scan cs).proot
  mptop : m.ptop = (scan cs).ptop
  mepoch : m.epoch = (scan cs).epoch
  mtxid : (scan cs).maxTxid < m.nextTxid
  mwal : m.walOpen = true

/-- the log has no torn tail, or the next append cuts it off (C17's repair) -/
def TailPre (cfg : Cfg) (fs : FS) (m : Mem) : Prop :=
  validLen fs.wf = fs.wf.length ∨ (cfg.tailTolerant && !m.tailChecked) = true

theorem InvOpen.pv {T : List Tx} {fs : FS} {m : Mem} {cs : List CTx} {c : Nat} (h : InvOpen T fs m cs c) :
    fs.pv = fs.pd := pv_inert fs h.pj

theorem InvOpen.rep {T : List Tx} {fs : FS} {m : Mem} {cs : List CTx} {c : Nat} (h : InvOpen T fs m cs c) :
    Rep T fs.pd fs.wf := ⟨cs, c, h.wal.com, h.log, h.pager, h.store⟩

/-- files whose every crash image has page file `pd` and a stable log represent `T` in every image -/
theorem safeFS_of_stable {T : List Tx} {fs : FS} {cs : List CTx} {c : Nat} (hpj : Inert fs.pj) (hw : WalStable cs fs)
    (hlog : LogOK T cs c) (hp : PagerOK (allNodes T) c fs.pd) (hs : StoreOK T cs fs.pd) : SafeFS [T] fs := by
  intro mode
  obtain ⟨n, hn, hW⟩ := hw.crashW mode
  refine ⟨T, by simp, cs, c, ?_, hlog, ?_, ?_⟩
  · rw [hW]; exact hw.stable n hn
  · rw [crashP_inert fs hpj]; exact hp
  · rw [crashP_inert fs hpj]; exact hs

theorem safeFS_of_rep {T : List Tx} {fs : FS} (hpj : Inert fs.pj) (hq : WalQuiet fs) (h : Rep T fs.pd fs.wf) :
    SafeFS [T] fs := by
  obtain ⟨cs, c, hcom, hlog, hp, hs⟩ := h
  exact safeFS_of_stable hpj (WalStable.of_quiet hq hcom) hlog hp hs

theorem safeFS_mono {A B : List (List Tx)} {fs : FS} (h : SafeFS A fs) (hab : ∀ T ∈ A, T ∈ B) : SafeFS B fs := by
  intro mode
  obtain ⟨T, hT, hr⟩ := h mode
  exact ⟨T, hab T hT, hr⟩

/-- state after the optional tail cut -/
theorem cut_state {cfg : Cfg} {T : List Tx} {fs : FS} {m : Mem} {cs : List CTx} {c : Nat}
    (h : InvOpen T fs m cs c) (ht : TailPre cfg fs m) :
    let fs0 := fs.steps (cutSteps cfg (m.ws fs.wf))
    SafeAlong (SafeFS [T]) fs (cutSteps cfg (m.ws fs.wf)) ∧
    fs0.pj = fs.pj ∧ fs0.pd = fs.pd ∧ WalStable cs fs0 ∧ validLen fs0.wf = fs0.wf.length := by
  intro fs0
  have hsafe : SafeFS [T] fs := safeFS_of_stable h.pj h.wal h.log h.pager h.store
  by_cases hcut : (cfg.tailTolerant && !(m.ws fs.wf).checked) = true ∧ (m.ws fs.wf).valid < (m.ws fs.wf).len
  · have hv : validLen fs.wf < fs.wf.length := hcut.2
    have hcs : cutSteps cfg (m.ws fs.wf) = [Step.wt (validLen fs.wf)] := by
      simp only [cutSteps, hcut, and_self, if_true]; rfl
    have hfs0 : fs0 = fs.step (.wt (validLen fs.wf)) := by simp [fs0, hcs, FS.steps]
    have hwf0 : fs0.wf = frames (readAll fs.wf) := by rw [hfs0]; simp [FS.step, take_validLen]
    have hwf0' : fs0.wf = fs.wf.take (validLen fs.wf) := by rw [hfs0]; rfl
    have hwd0 : fs0.wdur = min fs.wdur (validLen fs.wf) := by rw [hfs0]; rfl
    have hpj0 : fs0.pj = fs.pj := by rw [hfs0]; rfl
    have hpd0 : fs0.pd = fs.pd := by rw [hfs0]; rfl
    have hread : readAll fs0.wf = readAll fs.wf := by rw [hwf0, readAll_frames]
    have hst0 : WalStable cs fs0 := by
      refine ⟨by rw [hfs0]; simp [FS.step, h.wal.ren], ?_, ?_⟩
      · rw [hwd0, hwf0', List.length_take]; omega
      · intro n hn
        rw [hwd0] at hn
        rw [hwf0', List.take_take]
        by_cases hk : fs.wdur ≤ min n (validLen fs.wf)
        · exact h.wal.stable _ hk
        · have hmin : min n (validLen fs.wf) = validLen fs.wf := by omega
          rw [hmin, take_validLen, readAll_frames]
          exact h.wal.com
    refine ⟨?_, hpj0, hpd0, hst0, ?_⟩
    · rw [hcs]
      apply safeAlong_cons hsafe
      apply safeAlong_nil
      rw [← hfs0]
      exact safeFS_of_stable (by rw [hpj0]; exact h.pj) hst0 h.log (by rw [hpd0]; exact h.pager) (by rw [hpd0]; exact h.store)
    · rw [hwf0]
      have := validLen_frames_append (readAll fs.wf) []
      simp [validLen] at this
      rw [this, frames_length]
  · have hcs : cutSteps cfg (m.ws fs.wf) = [] := by simp only [cutSteps, hcut, if_false]
    have hfs0 : fs0 = fs := by simp [fs0, hcs, FS.steps]
    have hclean : validLen fs.wf = fs.wf.length := by
      rcases ht with hc | hc
      · exact hc
      · have h1 : ¬ validLen fs.wf < fs.wf.length := fun hlt => hcut ⟨hc, hlt⟩
        have := validLen_le fs.wf
        omega
    rw [hcs, hfs0]
    exact ⟨safeAlong_nil hsafe, rfl, rfl, h.wal, hclean⟩

/-- **commit is crash-safe at every I/O step**: after any prefix of the steps every crash image
    (process death or power loss with any subset of unsynced operations) represents the old or
    the new committed list; once the log sync has been performed, the new one. -/
theorem commit_safe {cfg : Cfg} {T : List Tx} {fs : FS} {m : Mem} {cs : List CTx} {c : Nat}
    (hsync : cfg.syncSlot = true) (h : InvOpen T fs m cs c) (ht : TailPre cfg fs m) (tx : Tx) (hf : FreshTx T tx) :
    let S := ioSteps (commitA cfg m fs.pv fs.wf tx)
    let nAck := (cutSteps cfg (m.ws fs.wf)).length + 3 * (txRecs m.nextTxid m.idLen tx).length
    SafeAlong (SafeFS [T, T ++ [tx]]) fs S ∧
    (∀ n, nAck < n → SafeFS [T ++ [tx]] (fs.steps (S.take n))) := by
  intro S nAck
  obtain ⟨hS, _⟩ := commitA_steps cfg m fs.pv fs.wf tx h.mwal
  obtain ⟨sa0, hpj0, hpd0, hst0, hclean0⟩ := cut_state h ht
  have hp0 : PagerOK (allNodes T) c (fs.steps (cutSteps cfg (m.ws fs.wf))).pd := by rw [hpd0]; exact h.pager
  have hs0 : StoreOK T cs (fs.steps (cutSteps cfg (m.ws fs.wf))).pd := by rw [hpd0]; exact h.store
  generalize hfs0 : fs.steps (cutSteps cfg (m.ws fs.wf)) = fs0 at sa0 hpj0 hpd0 hst0 hclean0 hp0 hs0
  have hcom0 := hst0.com
  have hrecs : txRecs m.nextTxid m.idLen tx = txRecs m.nextTxid (allNodes T).length tx := by rw [h.mlen]
  have hin0 : Inert fs0.pj := by rw [hpj0]; exact h.pj
  -- (1) while the records are written
  have sa1 : SafeAlong (SafeFS [T, T ++ [tx]]) fs0 ((frames (txRecs m.nextTxid m.idLen tx)).map Step.ww) := by
    intro n mode
    obtain ⟨hP, hW⟩ := crash_during_ww fs0 hst0.ren hst0.wdur hin0 (frames (txRecs m.nextTxid m.idLen tx)) n mode
    rw [hP]
    rcases hW with ⟨k, hk, hW⟩ | ⟨j, _, hW⟩
    · rw [hW]
      exact ⟨T, by simp, cs, c, hst0.stable k hk, h.log, hp0, hs0⟩
    · have hr := rep_log_prefix hclean0 hcom0 h.log hp0 hs0 m.nextTxid tx h.mtxid hf j
      rw [← hrecs] at hr
      rw [hW]
      by_cases hj : j < 3 * (txRecs m.nextTxid m.idLen tx).length
      · exact ⟨T, by simp, hr.1 hj⟩
      · exact ⟨T ++ [tx], by simp, hr.2 (by omega)⟩
  -- (2) all records written, then synced
  obtain ⟨hw1, hd1, hr1, hpd1, hpj1⟩ := steps_ww fs0 (frames (txRecs m.nextTxid m.idLen tx))
  generalize hfs1 : fs0.steps ((frames (txRecs m.nextTxid m.idLen tx)).map Step.ww) = fs1 at hw1 hd1 hr1 hpd1 hpj1
  have hrepNew : Rep (T ++ [tx]) fs0.pd (fs0.wf ++ frames (txRecs m.nextTxid m.idLen tx)) := by
    have hr := (rep_log_prefix hclean0 hcom0 h.log hp0 hs0 m.nextTxid tx h.mtxid hf
      (3 * (txRecs m.nextTxid m.idLen tx).length)).2
    rw [← hrecs] at hr
    have := hr (Nat.le_refl _)
    rwa [List.take_of_length_le (by rw [frames_length]; omega)] at this
  have hq2 : WalQuiet (fs1.step .ws) := ⟨by simp [FS.step], by simp [FS.step]⟩
  have hpj2 : (fs1.step .ws).pj = fs.pj := by simp [FS.step, hpj1, hpj0]
  have hpd2 : (fs1.step .ws).pd = fs.pd := by simp [FS.step, hpd1, hpd0]
  have hwf2 : (fs1.step .ws).wf = fs0.wf ++ frames (txRecs m.nextTxid m.idLen tx) := by simp [FS.step, hw1]
  -- (3) node phase on the synced log
  obtain ⟨cs', c', hcom', hlog', hpager', hstore'⟩ := hrepNew
  rw [hpd0] at hstore'
  have hcN : c' ≤ (allNodes T).length := by
    have h1 := hpager'.lo
    rw [hpd0, h.full] at h1
    exact h1
  have hB : AllImgs (fs1.step .ws) (NG (allNodes (T ++ [tx])) c' fs.pd (allNodes T).length) := by
    intro p' himg
    rw [hpj2, hpd2] at himg
    rw [isImg_inert _ h.pj _ _ himg]
    refine ⟨Frame.refl _, h.pager.start, ?_, ?_, ?_⟩
    · rw [h.full]; exact hcN
    · rw [h.full]; exact Nat.le_refl _
    · intro i hi
      rw [h.pager.slots i (by rw [h.full]; exact hi), allNodes_snoc, getSlot_append_left _ _ _ hi]
  have hpm : OKhdr c' fs.pd (allNodes T).length (m.ps fs.pv).pm := by
    show OKhdr c' fs.pd (allNodes T).length m.pm
    exact (⟨rfl, rfl, h.pager.start, by rw [h.full]; exact hcN, by rw [h.full]; exact Nat.le_refl _, Nat.le_refl _⟩ :
      OKhdr c' fs.pd (allNodes T).length fs.pd.hdr).sameKey h.mpm
  have hcomF : committed (readAll (fs1.step .ws).wf) = .ok cs' := by rw [hwf2]; exact hcom'
  have hdropF : (allNodes (T ++ [tx])).drop (allNodes T).length = tx.nodes ++ [] := by
    rw [allNodes_snoc]; simp
  have hSy : SyncedI (fs1.step .ws) (m.ps fs.pv) := ⟨by rw [hpj2]; exact h.pj, by rw [hpd2]; exact h.mpm, by rw [hpd2]; exact h.mbm⟩
  have hl1 : (m.ps fs.pv).pm.i2eLen = (allNodes T).length := by
    show m.pm.i2eLen = _
    rw [h.mpm.len, h.full]
  have hl2 : ({ start := m.idStart, len := m.idLen } : IdSt).start = (m.ps fs.pv).pm.i2eStart := by
    show m.idStart = m.pm.i2eStart
    rw [h.mstart, h.mpm.start]
  have hl3 : 1 ≤ (m.ps fs.pv).pm.nextPage := by
    show 1 ≤ m.pm.nextPage
    have := h.pager.booted.nextPage
    have := h.mpm.np
    omega
  have hl4 : (allNodes T).length ≤ (allNodes (T ++ [tx])).length := by rw [allNodes_snoc]; simp
  have sa3 := node_phase (cfg := cfg) (T := T ++ [tx]) (cs := cs') (c := c') (k := (allNodes T).length)
    h.pager.booted hsync (fs1.step .ws) (m.ps fs.pv) { start := m.idStart, len := m.idLen } tx.nodes []
    hq2 hcomF hlog' hstore' hdropF hB hSy hpm hl1 h.mlen hl2 hl3 hcN hl4
    h.mbm
  -- assemble
  have hmono : ∀ g, SafeFS [T ++ [tx]] g → SafeFS [T, T ++ [tx]] g := fun g hg => safeFS_mono hg (by simp)
  have hmono0 : ∀ g, SafeFS [T] g → SafeFS [T, T ++ [tx]] g := fun g hg => safeFS_mono hg (by simp)
  constructor
  · show SafeAlong (SafeFS [T, T ++ [tx]]) fs (ioSteps (commitA cfg m fs.pv fs.wf tx))
    rw [hS]
    apply safeAlong_append (safeAlong_mono sa0 hmono0)
    rw [hfs0]
    apply safeAlong_append sa1
    rw [hfs1]
    exact safeAlong_cons (by have := safeAlong_last sa1; rwa [hfs1] at this) (safeAlong_mono sa3 hmono)
  · intro n hn
    show SafeFS [T ++ [tx]] (fs.steps ((ioSteps (commitA cfg m fs.pv fs.wf tx)).take n))
    rw [hS]
    have hlenWW : ((frames (txRecs m.nextTxid m.idLen tx)).map Step.ww).length = 3 * (txRecs m.nextTxid m.idLen tx).length := by
      rw [List.length_map, frames_length]
    rw [List.take_append, List.take_of_length_le (by omega), steps_append, hfs0,
      List.take_append, List.take_of_length_le (by rw [hlenWW]; omega), steps_append, hfs1]
    have hn' : n - (cutSteps cfg (m.ws fs.wf)).length - ((frames (txRecs m.nextTxid m.idLen tx)).map Step.ww).length =
        (n - nAck - 1) + 1 := by rw [hlenWW]; omega
    rw [hn']
    simpa [FS.steps] using sa3 (n - nAck - 1)

end Nervus.Crash
