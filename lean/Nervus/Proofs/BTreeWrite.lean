/-
  C26: writes that stay inside one leaf — insert without split, delete.
  `WF` is preserved and the contents change exactly as the multimap spec says.
-/
import Nervus.Proofs.BTreeDescend
set_option linter.unusedSectionVars false
set_option linter.unusedVariables false
namespace Nervus.BTree
open Nervus KO

variable {κ : Type} [KeyOrd κ] [LawfulKeyOrd κ]

/-! ### spec-side list lemmas -/

theorem mm_insert_append (k : κ) (v : Nat) (A B : List (κ × Nat)) (hA : ∀ e ∈ A, Lt e.1 k)
    (hB : ∀ e ∈ B.head?, Le k e.1) : Multimap.insert k v (A ++ B) = A ++ (k, v) :: B := by
  induction A with
  | nil =>
    cases B with
    | nil => rfl
    | cons b bs =>
      have : KeyOrd.lt b.1 k = false := hB b (by simp)
      simp [Multimap.insert, this]
  | cons a as ih =>
    have h1 : KeyOrd.lt a.1 k = true := hA a (List.mem_cons_self ..)
    simp only [List.cons_append, Multimap.insert, h1, if_true]
    rw [ih (fun e he => hA e (List.mem_cons_of_mem _ he))]

theorem mm_match_iff (e : κ × Nat) (k : κ) (v : Nat) :
    (Multimap.keq e.1 k && e.2 == v) = true ↔ e = (k, v) := by
  rw [Bool.and_eq_true, keq_iff]
  constructor
  · rintro ⟨h1, h2⟩
    have : e.2 = v := by simpa using h2
    cases e; simp_all
  · intro h; subst h; simp

theorem mm_remove_none (k : κ) (v : Nat) (m : List (κ × Nat)) (h : ∀ e ∈ m, e ≠ (k, v)) :
    Multimap.remove k v m = none := by
  induction m with
  | nil => rfl
  | cons e es ih =>
    have h1 : (Multimap.keq e.1 k && e.2 == v) = false := by
      cases hb : (Multimap.keq e.1 k && e.2 == v) with
      | false => rfl
      | true => exact absurd ((mm_match_iff e k v).mp hb) (h e (List.mem_cons_self ..))
    simp only [Multimap.remove, h1]
    rw [ih (fun e he => h e (List.mem_cons_of_mem _ he))]
    rfl

theorem mm_remove_found (k : κ) (v : Nat) (X Y : List (κ × Nat)) (h : ∀ e ∈ X, e ≠ (k, v)) :
    Multimap.remove k v (X ++ (k, v) :: Y) = some (X ++ Y) := by
  induction X with
  | nil =>
    have : (Multimap.keq k k && v == v) = true := (mm_match_iff (k, v) k v).mpr rfl
    simp only [List.nil_append, Multimap.remove, this, if_true]
  | cons e es ih =>
    have h1 : (Multimap.keq e.1 k && e.2 == v) = false := by
      cases hb : (Multimap.keq e.1 k && e.2 == v) with
      | false => rfl
      | true => exact absurd ((mm_match_iff e k v).mp hb) (h e (List.mem_cons_self ..))
    simp only [List.cons_append, Multimap.remove, h1]
    rw [ih (fun e he => h e (List.mem_cons_of_mem _ he))]
    rfl

theorem mm_hasKey_false (k : κ) (m : List (κ × Nat)) (h : Multimap.hasKey k m = false) :
    ∀ e ∈ m, e.1 ≠ k := by
  intro e he hk
  have : Multimap.hasKey k m = true := by
    simp only [Multimap.hasKey, List.any_eq_true]
    exact ⟨e, he, (keq_iff e.1 k).mpr hk⟩
  rw [h] at this; cases this

/-! ### leaf-local lemmas -/

theorem SSorted_insert (es : List (κ × Nat)) (idx : Nat) (k : κ) (v : Nat) (hs : SSorted es)
    (hle : idx ≤ es.length) (hb : ∀ e ∈ es.take idx, Lt e.1 k) (ha : ∀ e ∈ es.drop idx, Lt k e.1) :
    SSorted (es.insertIdx idx (k, v)) := by
  rw [insertIdx_eq_take_drop _ _ _ hle]
  have hs' : SSorted (es.take idx ++ es.drop idx) := by rw [List.take_append_drop]; exact hs
  obtain ⟨h1, h2, h3⟩ := List.pairwise_append.mp hs'
  apply List.pairwise_append.mpr
  refine ⟨h1, ?_, ?_⟩
  · exact List.Pairwise.cons (fun e he => ha e he) h2
  · intro a ha' b hb'
    rcases List.mem_cons.mp hb' with rfl | hb'
    · exact hb a ha'
    · exact h3 a ha' b hb'

theorem kcmp_pat (es : List (κ × Nat)) (k : κ) (hs : SSorted es) : Pat (fun e : κ × Nat => kcmp e.1 k) es := by
  intro i j x y hij hx hy hne
  obtain ⟨hi, rfl⟩ := List.getElem?_eq_some_iff.mp hx
  obtain ⟨hj, rfl⟩ := List.getElem?_eq_some_iff.mp hy
  have hlt : Lt es[i].1 es[j].1 := (List.pairwise_iff_getElem.mp hs) i j hi hj hij
  have hle : Le es[j].1 k := by
    cases h : KeyOrd.lt k es[j].1 with
    | false => exact h
    | true =>
      have h2 : KeyOrd.lt es[j].1 k = false := lt_asymm h
      simp [kcmp, h, h2] at hne
  have : KeyOrd.lt es[i].1 k = true := lt_of_lt_of_le hlt hle
  simp [kcmp, this]

theorem pairCmp_pat (es : List (κ × Nat)) (k : κ) (v : Nat) (hs : SSorted es) :
    Pat (fun e : κ × Nat => pairCmp e k v) es := by
  intro i j x y hij hx hy hne
  obtain ⟨hi, rfl⟩ := List.getElem?_eq_some_iff.mp hx
  obtain ⟨hj, rfl⟩ := List.getElem?_eq_some_iff.mp hy
  have hlt : Lt es[i].1 es[j].1 := (List.pairwise_iff_getElem.mp hs) i j hi hj hij
  have hle : Le es[j].1 k := by
    cases h : KeyOrd.lt k es[j].1 with
    | false => exact h
    | true =>
      have h2 : KeyOrd.lt es[j].1 k = false := lt_asymm h
      simp [pairCmp, kcmp, h, h2] at hne
  have : KeyOrd.lt es[i].1 k = true := lt_of_lt_of_le hlt hle
  simp [pairCmp, kcmp, this]

theorem pairCmp_eq_iff (e : κ × Nat) (k : κ) (v : Nat) : pairCmp e k v = .eq ↔ e = (k, v) := by
  unfold pairCmp kcmp
  constructor
  · intro h
    by_cases h1 : KeyOrd.lt e.1 k = true
    · simp [h1] at h
    · by_cases h2 : KeyOrd.lt k e.1 = true
      · simp [h1, h2] at h
      · simp only [h1, h2, if_false] at h
        have hk : e.1 = k := eq_of_le_of_le (by simpa using h2) (by simpa using h1)
        have hv : e.2 = v := by
          have := Nat.compare_eq_eq.mp h
          exact this
        cases e; simp_all
  · intro h; subst h
    simp [LawfulKeyOrd.irrefl]

/-! ### frame lemmas for a leaf update -/

theorem kidsOfPage_upd_leaf (pg : Pg κ) (p : Nat) (es es' : List (κ × Nat)) (b b' r r' : Nat)
    (hp : pg p = some (.leaf es b r)) (q : Nat) :
    kidsOfPage (upd pg p (.leaf es' b' r')) q = kidsOfPage pg q := by
  by_cases h : q = p
  · subst h; simp [kidsOfPage, hp]
  · simp [kidsOfPage, upd_other _ _ _ _ h]

theorem contents_upd_notin (pg : Pg κ) (p : Nat) (n : Node κ) (X : List Nat) (h : p ∉ X) :
    contents (upd pg p n) X = contents pg X := by
  induction X with
  | nil => rfl
  | cons x xs ih =>
    have hx : x ≠ p := fun e => h (by rw [e]; exact List.mem_cons_self ..)
    rw [contents_cons, contents_cons, ih (fun hm => h (List.mem_cons_of_mem _ hm))]
    simp [entriesOf, upd_other _ _ _ _ hx]

/-- replacing the cells of one ghost leaf by cells that are again sorted and inside its range
    (same right sibling) keeps the invariant -/
theorem WF_upd_leaf {pg : Pg κ} {root next : Nat} {g : Ghost κ} (wf : WF pg root next g)
    (p : Nat) (lo hi : Option κ) (es es' : List (κ × Nat)) (b b' r : Nat)
    (hG : g.G p = some (0, lo, hi)) (hp : pg p = some (.leaf es b r))
    (hs : SSorted es') (hin : ∀ e ∈ es', bLo lo e.1 ∧ bHi e.1 hi) :
    WF (upd pg p (.leaf es' b' r)) root next g where
  root := wf.root
  rng := wf.rng
  lvl := wf.lvl
  int := by
    intro q l lo' hi' hq
    have hne : q ≠ p := by
      intro e; subst e; rw [hG] at hq; cases hq
    rw [upd_other _ _ _ _ hne]
    exact wf.int q l lo' hi' hq
  leaf := by
    intro q lo' hi' hq
    by_cases e : q = p
    · subst e
      rw [hG] at hq; cases hq
      exact ⟨es', b', r, by simp, hs, hin⟩
    · rw [upd_other _ _ _ _ e]
      exact wf.leaf q lo' hi' hq
  share := by
    intro p1 p2 c l1 lo1 hi1 l2 lo2 hi2 h1 h2 hc1 hc2
    rw [kidsOfPage_upd_leaf pg p es es' b b' r r hp] at hc1 hc2
    exact wf.share p1 p2 c l1 lo1 hi1 l2 lo2 hi2 h1 h2 hc1 hc2
  lnodup := wf.lnodup
  lmem := wf.lmem
  seg := by
    obtain ⟨p0, rest, hL, hseg⟩ := wf.seg
    refine ⟨p0, rest, hL, ?_⟩
    apply Seg_frame pg _ g.G g.G g.L _ p0 none 0 none hseg
    intro q _
    refine ⟨?_, rfl⟩
    by_cases e : q = p
    · subst e; simp [rightOf, hp]
    · simp [rightOf, upd_other _ _ _ _ e]
  fuel := wf.fuel

/-- contents after a leaf update -/
theorem contents_upd_leaf {pg : Pg κ} {root next : Nat} {g : Ghost κ} (wf : WF pg root next g)
    (p : Nat) (n : Node κ) (A B : List Nat) (hL : g.L = A ++ p :: B) :
    contents (upd pg p n) g.L = contents pg A ++ entriesOf (upd pg p n) p ++ contents pg B := by
  have hnd := wf.lnodup
  rw [hL] at hnd
  have hA : p ∉ A := by
    intro h
    have := (List.nodup_append.mp hnd).2.2 p h p (List.mem_cons_self ..)
    exact this rfl
  have hB : p ∉ B := by
    have := (List.nodup_append.mp hnd).2.1
    exact (List.nodup_cons.mp this).1
  rw [hL, contents_append, contents_cons, contents_upd_notin _ _ _ _ hA, contents_upd_notin _ _ _ _ hB,
    List.append_assoc]

/-! ### insert without split -/

/-- the decomposition of the contents around the leaf found for `k` -/
theorem contents_around {pg : Pg κ} {root next : Nat} {g : Ghost κ} (wf : WF pg root next g)
    (k : κ) (p : Nat) (es : List (κ × Nat)) (b r : Nat) (lo hi : Option κ)
    (hG : g.G p = some (0, lo, hi)) (hp : pg p = some (.leaf es b r)) (hlo : bLo lo k) (hhi : bHi k hi) :
    ∃ A B, g.L = A ++ p :: B ∧ contents pg g.L = contents pg A ++ es ++ contents pg B ∧
      (∀ e ∈ contents pg A, Lt e.1 k) ∧ (∀ e ∈ contents pg B, Lt k e.1) := by
  obtain ⟨A, B, p0, r', hL, hsegA, hr, hn, hsegB, hpos⟩ := chain_split wf p lo hi hG
  refine ⟨A, B, hL, ?_, ?_, ?_⟩
  · rw [hL, contents_append, contents_cons]; simp [entriesOf, hp]
  · intro e he; exact Seg_before wf.leafOK A p0 none p lo hsegA hpos e he k hlo
  · intro e he; exact Seg_after_hi wf.leafOK B r' hi hn hsegB e he k hhi

theorem insert_nosplit_spec (c : Cfg) (hc : c.Std) (t : Tree κ) (g : Ghost κ)
    (wf : WF t.pages.get t.root t.next g) (k : κ) (v : Nat)
    (hfresh : Multimap.hasKey k (contents t.pages.get g.L) = false)
    (p : Nat) (es : List (κ × Nat)) (b r : Nat) (lo hi : Option κ) (path : List (Nat × Nat))
    (hf : Found t.pages.get g t.root k p es b r lo hi path)
    (idx : Nat) (hidx : leafLowerBound c es k = some idx)
    (es' : List (κ × Nat)) (b' : Nat) (hins : leafInsertAt c es b idx k v = some (es', b')) :
    WF (t.pages.set p (.leaf es' b' r)).get t.root t.next g ∧
      contents (t.pages.set p (.leaf es' b' r)).get g.L = Multimap.insert k v (contents t.pages.get g.L) := by
  obtain ⟨es0, b0, r0, hp0, hsorted, hin⟩ := wf.leaf p lo hi hf.ghost
  rw [hf.page] at hp0; cases hp0
  obtain ⟨idx', hidx', hle, hbefore, hafter⟩ := leafLowerBound_spec c hc es hsorted.weak k
  rw [hidx] at hidx'; cases hidx'
  obtain ⟨hes', _⟩ := leafInsertAt_eq c es b idx k v _ hins
  simp only at hes'
  subst hes'
  obtain ⟨A, B, hL, hcont, hA, hB⟩ := contents_around wf k p es b r lo hi hf.ghost hf.page hf.lo hf.hi
  have hnokey := mm_hasKey_false k _ hfresh
  have hafter' : ∀ e ∈ es.drop idx, Lt k e.1 := by
    intro e he
    apply lt_of_le_of_ne (hafter e he)
    intro hk
    apply hnokey e _ hk.symm
    rw [hcont]
    exact List.mem_append_left _ (List.mem_append_right _ (List.mem_of_mem_drop he))
  rw [get_set_eq_upd]
  constructor
  · apply WF_upd_leaf wf p lo hi es _ b b' r hf.ghost hf.page
    · exact SSorted_insert es idx k v hsorted hle hbefore hafter'
    · intro e he
      rw [insertIdx_eq_take_drop _ _ _ hle] at he
      rcases List.mem_append.mp he with he | he
      · exact hin e (List.mem_of_mem_take he)
      · rcases List.mem_cons.mp he with rfl | he
        · exact ⟨hf.lo, hf.hi⟩
        · exact hin e (List.mem_of_mem_drop he)
  · rw [contents_upd_leaf wf p _ A B hL, hcont]
    simp only [entriesOf, upd_same]
    rw [insertIdx_eq_take_drop _ _ _ hle]
    have : contents t.pages.get A ++ es ++ contents t.pages.get B =
        (contents t.pages.get A ++ es.take idx) ++ (es.drop idx ++ contents t.pages.get B) := by
      simp only [List.append_assoc]
      rw [← List.append_assoc (es.take idx), List.take_append_drop]
    rw [this, mm_insert_append]
    · simp [List.append_assoc]
    · intro e he
      rcases List.mem_append.mp he with he | he
      · exact hA e he
      · exact hbefore e he
    · intro e he
      by_cases hd : es.drop idx = []
      · rw [hd, List.nil_append] at he
        exact le_of_lt (hB e (List.mem_of_mem_head? he))
      · rw [head?_append_ne _ _ hd] at he
        exact hafter e (List.mem_of_mem_head? he)

/-! ### delete -/

theorem delete_spec (c : Cfg) (hc : c.Std) (t : Tree κ) (g : Ghost κ)
    (wf : WF t.pages.get t.root t.next g) (k : κ) (v : Nat) :
    ∃ t' b, delete c t k v = (t', .found b) ∧ WF t'.pages.get t'.root t'.next g ∧
      (b, contents t'.pages.get g.L) = Multimap.delete k v (contents t.pages.get g.L) := by
  obtain ⟨p, es, b, r, lo, hi, path, hd, hf⟩ := descend_root c hc t g wf k
  obtain ⟨es0, b0, r0, hp0, hsorted, hin⟩ := wf.leaf p lo hi hf.ghost
  rw [hf.page] at hp0; cases hp0
  obtain ⟨A, B, hL, hcont, hA, hB⟩ := contents_around wf k p es b r lo hi hf.ghost hf.page hf.lo hf.hi
  obtain ⟨bs, hbs, hspec⟩ := rustBinarySearch_spec (fun e : κ × Nat => pairCmp e k v) es (pairCmp_pat es k v hsorted)
  have hneA : ∀ e ∈ contents t.pages.get A, e ≠ (k, v) := by
    intro e he h; subst h; exact lt_irrefl k (hA _ he)
  have hneB : ∀ e ∈ contents t.pages.get B, e ≠ (k, v) := by
    intro e he h; subst h; exact lt_irrefl k (hB _ he)
  cases bs with
  | missing i =>
    refine ⟨t, false, by simp [delete, hd, hbs], wf, ?_⟩
    obtain ⟨_, h1, h2⟩ := hspec
    have hnone : Multimap.remove k v (contents t.pages.get g.L) = none := by
      apply mm_remove_none
      rw [hcont]
      intro e he
      rcases List.mem_append.mp he with he | he
      · rcases List.mem_append.mp he with he | he
        · exact hneA e he
        · intro h
          obtain ⟨j, hj⟩ := List.mem_iff_getElem?.mp he
          have heq : pairCmp e k v = .eq := (pairCmp_eq_iff e k v).mpr h
          by_cases hji : j < i
          · have := h1 j e hji hj; rw [heq] at this; cases this
          · have := h2 j e (by omega) hj; rw [heq] at this; cases this
      · exact hneB e he
    simp [Multimap.delete, hnone]
  | found i =>
    obtain ⟨x, hx, hxe⟩ := hspec
    obtain ⟨hi', rfl⟩ := List.getElem?_eq_some_iff.mp hx
    have hxkv : es[i] = (k, v) := (pairCmp_eq_iff _ k v).mp hxe
    refine ⟨{ t with pages := t.pages.set p (.leaf (es.eraseIdx i) b r) }, true, by simp [delete, hd, hbs, hi'], ?_, ?_⟩
    · simp only
      rw [get_set_eq_upd]
      apply WF_upd_leaf wf p lo hi es _ b b r hf.ghost hf.page
      · exact List.Pairwise.sublist (List.eraseIdx_sublist es i) hsorted
      · intro e he; exact hin e (List.mem_of_mem_eraseIdx he)
    · simp only
      rw [get_set_eq_upd, contents_upd_leaf wf p _ A B hL, hcont]
      simp only [entriesOf, upd_same]
      have hsplit : es = es.take i ++ (k, v) :: es.drop (i + 1) := by
        rw [← hxkv]; simp
      have hbefore : ∀ e ∈ es.take i, e ≠ (k, v) := by
        intro e he h
        obtain ⟨j, hj, hje⟩ := List.mem_take_iff_getElem.mp he
        have hjl : j < es.length := by omega
        have := (List.pairwise_iff_getElem.mp hsorted) j i hjl hi' (by omega)
        rw [hje, h, hxkv] at this
        exact lt_irrefl k this
      have hfound : Multimap.remove k v (contents t.pages.get A ++ es ++ contents t.pages.get B) =
          some (contents t.pages.get A ++ es.eraseIdx i ++ contents t.pages.get B) := by
        have e1 : contents t.pages.get A ++ es ++ contents t.pages.get B =
            (contents t.pages.get A ++ es.take i) ++ (k, v) :: (es.drop (i + 1) ++ contents t.pages.get B) := by
          conv => lhs; rw [hsplit]
          simp [List.append_assoc]
        rw [e1, mm_remove_found]
        · rw [List.eraseIdx_eq_take_drop_succ]; simp [List.append_assoc]
        · intro e he
          rcases List.mem_append.mp he with he | he
          · exact hneA e he
          · exact hbefore e he
      unfold Multimap.delete
      rw [hfound]

end Nervus.BTree
