/-
  Proofs.CrashWal — the log at record granularity: a torn frame is the end of the log, the
  committed-transaction parser over complete / unfinished transaction blocks.
-/
import Nervus.Model.IOSteps
namespace Nervus.Crash

/-! ### frames / readAll / validLen -/

theorem readAll_frames_append (rs : List Rec) (t : List Frag) :
    readAll (frames rs ++ t) = rs ++ readAll t := by
  induction rs with
  | nil => simp [frames]
  | cons r rs ih => simp [frames, readAll, ih]

theorem readAll_frames (rs : List Rec) : readAll (frames rs) = rs := by
  have := readAll_frames_append rs []
  simpa [readAll] using this

theorem validLen_frames_append (rs : List Rec) (t : List Frag) :
    validLen (frames rs ++ t) = 3 * rs.length + validLen t := by
  induction rs with
  | nil => simp [frames]
  | cons r rs ih => simp [frames, validLen, ih]; omega

theorem frames_length (rs : List Rec) : (frames rs).length = 3 * rs.length := by
  induction rs with
  | nil => rfl
  | cons r rs ih => simp [frames, ih]; omega

theorem frames_append (a b : List Rec) : frames (a ++ b) = frames a ++ frames b := by
  induction a with
  | nil => rfl
  | cons r a ih => simp [frames, ih]

/-- the decodable prefix of any log is the framing of what the reader returns -/
theorem take_validLen : ∀ (w : List Frag), w.take (validLen w) = frames (readAll w)
  | [] => by simp [validLen, readAll, frames]
  | [_] => by simp [validLen, readAll, frames]
  | [_, _] => by simp [validLen, readAll, frames]
  | .len r :: .crc r' :: .body r'' :: rest => by
    by_cases h : r = r' ∧ r = r''
    · obtain ⟨rfl, rfl⟩ := h
      have ih := take_validLen rest
      simp [validLen, readAll, frames, ih, show 3 + validLen rest = validLen rest + 3 by omega]
    · simp [validLen, readAll, frames, h]
  | .crc _ :: _ :: _ :: _ => by simp [validLen, readAll, frames]
  | .body _ :: _ :: _ :: _ => by simp [validLen, readAll, frames]
  | .len _ :: .len _ :: _ :: _ => by simp [validLen, readAll, frames]
  | .len _ :: .body _ :: _ :: _ => by simp [validLen, readAll, frames]
  | .len _ :: .crc _ :: .len _ :: _ => by simp [validLen, readAll, frames]
  | .len _ :: .crc _ :: .crc _ :: _ => by simp [validLen, readAll, frames]

theorem validLen_le : ∀ (w : List Frag), validLen w ≤ w.length
  | [] => by simp [validLen]
  | [_] => by simp [validLen]
  | [_, _] => by simp [validLen]
  | .len r :: .crc r' :: .body r'' :: rest => by
    have := validLen_le rest
    simp only [validLen, List.length_cons]
    split <;> omega
  | .crc _ :: _ :: _ :: _ => by simp [validLen]
  | .body _ :: _ :: _ :: _ => by simp [validLen]
  | .len _ :: .len _ :: _ :: _ => by simp [validLen]
  | .len _ :: .body _ :: _ :: _ => by simp [validLen]
  | .len _ :: .crc _ :: .len _ :: _ => by simp [validLen]
  | .len _ :: .crc _ :: .crc _ :: _ => by simp [validLen]

/-- a log without a torn tail is the framing of its records -/
theorem clean_eq_frames (w : List Frag) (h : validLen w = w.length) : w = frames (readAll w) := by
  have := take_validLen w
  rw [h, List.take_length] at this
  exact this

/-- **a torn frame is the end of the log**: every fragment-prefix of a framed record list reads
    back as the records that are complete in it -/
theorem readAll_take_frames : ∀ (rs : List Rec) (n : Nat), readAll ((frames rs).take n) = rs.take (n / 3)
  | [], n => by simp [frames, readAll]
  | r :: rs, 0 => by simp [readAll]
  | r :: rs, 1 => by simp [frames, readAll]
  | r :: rs, 2 => by simp [frames, readAll]
  | r :: rs, n + 3 => by
    have ih := readAll_take_frames rs n
    have : (n + 3) / 3 = n / 3 + 1 := by omega
    simp [frames, readAll, ih, this]

theorem readAll_append_take (rs rs' : List Rec) (n : Nat) :
    readAll (frames rs ++ (frames rs').take n) = rs ++ rs'.take (n / 3) := by
  rw [readAll_frames_append, readAll_take_frames]

/-! ### the committed-transaction parser -/

/-- parser state after a list of records -/
def runP : List Rec → Option Nat → List Rec → List CTx → Except Err (Option Nat × List Rec × List CTx)
  | [], cur, pend, acc => .ok (cur, pend, acc)
  | .begin t :: rs, _, _, acc => runP rs (some t) [] acc
  | .commit t :: rs, cur, pend, acc =>
    if cur = some t then runP rs none [] (⟨t, pend.reverse⟩ :: acc) else .error .commitMismatch
  | r :: rs, cur, pend, acc =>
    match cur with
    | none => .error .opOutsideTx
    | some _ => runP rs cur (r :: pend) acc

theorem committedAux_eq_runP (rs : List Rec) (cur : Option Nat) (pend : List Rec) (acc : List CTx) :
    committedAux rs cur pend acc = (runP rs cur pend acc).map (fun s => s.2.2.reverse) := by
  induction rs generalizing cur pend acc with
  | nil => simp [committedAux, runP, Except.map]
  | cons r rs ih =>
    cases r <;> simp only [committedAux, runP]
    case begin t => exact ih _ _ _
    case commit t => split <;> simp [ih, Except.map]
    all_goals (cases cur <;> simp [ih, Except.map])

theorem runP_append (a b : List Rec) (cur : Option Nat) (pend : List Rec) (acc : List CTx) :
    runP (a ++ b) cur pend acc =
      (match runP a cur pend acc with
       | .ok (c, p, ac) => runP b c p ac
       | .error e => .error e) := by
  induction a generalizing cur pend acc with
  | nil => simp [runP]
  | cons r a ih =>
    cases r <;> simp only [List.cons_append, runP]
    case begin t => exact ih _ _ _
    case commit t => split <;> simp [ih]
    all_goals (cases cur <;> simp [ih])

/-- records that are neither BeginTx nor CommitTx -/
def IsOp : Rec → Prop
  | .begin _ => False
  | .commit _ => False
  | _ => True

theorem runP_ops (ops : List Rec) (hops : ∀ r ∈ ops, IsOp r) (t : Nat) (pend : List Rec) (acc : List CTx) :
    runP ops (some t) pend acc = .ok (some t, ops.reverse ++ pend, acc) := by
  induction ops generalizing pend with
  | nil => simp [runP]
  | cons r ops ih =>
    have hr := hops r (by simp)
    have hrest : ∀ r ∈ ops, IsOp r := fun r h => hops r (by simp [h])
    cases r <;> simp [IsOp] at hr <;> simp [runP, ih hrest]

/-- an unfinished transaction (BeginTx and some operations, no CommitTx) leaves the committed list alone -/
theorem runP_partial (ops : List Rec) (hops : ∀ r ∈ ops, IsOp r) (t : Nat)
    (cur : Option Nat) (pend : List Rec) (acc : List CTx) :
    runP (.begin t :: ops) cur pend acc = .ok (some t, ops.reverse, acc) := by
  simp [runP, runP_ops ops hops]

/-- a complete transaction block appends exactly one committed transaction, whatever unfinished
    transaction precedes it -/
theorem runP_block (ops : List Rec) (hops : ∀ r ∈ ops, IsOp r) (t : Nat)
    (cur : Option Nat) (pend : List Rec) (acc : List CTx) :
    runP (.begin t :: ops ++ [.commit t]) cur pend acc = .ok (none, [], ⟨t, ops⟩ :: acc) := by
  have : Rec.begin t :: ops ++ [Rec.commit t] = (.begin t :: ops) ++ [.commit t] := by simp
  rw [this, runP_append, runP_partial ops hops]
  simp [runP]

theorem committed_eq (rs : List Rec) :
    committed rs = (runP rs none [] []).map (fun s => s.2.2.reverse) := committedAux_eq_runP rs none [] []

end Nervus.Crash
