/-
  Proofs/EngineC06.lean — the history induction of the C06 refinement and the read-agreement
  consequences of the invariant.
-/
import Nervus.Proofs.EngineHist
namespace Nervus.Storage
open Nervus.GraphSpec (Graph TxOp Op Rel opWF txWF wfFrom txOnly anyCommitted txDeletesRelWithProps
  txLabelReAdd txEdgeAndEndpointDelete txExtZero)

/-- the invariant between the published engine state and the Spec graph (`abs s = g`, pointwise) -/
structure Sim (s : Engine) (g : Graph) : Prop where
  G : SimG s g
  L : SimL s g

/-- interning alone (an abandoned transaction) keeps the graph part -/
theorem SimG.ext {s0 g0 s} (hS : SimG s0 g0) (he : Ext s0 s) : SimG s g0 := by
  have hlen : s0.interner.length ≤ s.interner.length := he.pre.length_le
  refine { segs := by rw [he.segs]; exact hS.segs, root := by rw [he.root]; exact hS.root, nodup := he.nodup,
           dead := by rw [he.runs]; exact hS.dead, edges := ?_, runsOK := by rw [he.runs]; exact hS.runsOK,
           runsRel := ?_, relsInt := fun e h => he.pre.subset (hS.relsInt e h),
           nprops := by rw [he.runs]; exact hS.nprops, eprops := ?_, runsERel := ?_,
           epropsInt := fun p h => he.pre.subset (hS.epropsInt p h) }
  · intro r nm a b hr
    rw [he.runs]
    by_cases hlt : r < s0.interner.length
    · exact hS.edges r nm a b (old_of_lt he.pre hr hlt)
    · have hge := Nat.le_of_not_lt hlt
      rw [visE_zero_of_rel_ge _ _ _ hS.runsRel (by exact hge)]
      exact (mult_zero_of_typ_not_mem g0 _ hS.relsInt nm (not_mem_of_new he.pre he.nodup hr hge) a b).symm
  · intro run hr e h; rw [he.runs] at hr; exact Nat.lt_of_lt_of_le (hS.runsRel run hr e h) hlen
  · intro r nm a b k hr ha hb
    rw [he.runs]
    by_cases hlt : r < s0.interner.length
    · exact hS.eprops r nm a b k (old_of_lt he.pre hr hlt) ha hb
    · have hge := Nat.le_of_not_lt hlt
      rw [epropRuns_none_of_rel_ge _ _ _ _ hS.runsERel (by exact hge)]
      exact (eprop_none_of_typ_not_mem g0 _ hS.epropsInt nm (not_mem_of_new he.pre he.nodup hr hge) a b k).symm
  · intro run hr p h; rw [he.runs] at hr; exact Nat.lt_of_lt_of_le (hS.runsERel run hr p h) hlen

/-- interning alone keeps the idmap / label part -/
theorem SimL.ext {s0 g0 s} (hL : SimL s0 g0) (he : Ext s0 s) (hsmall : s.interner.length ≤ labelMax) :
    SimL s g0 := by
  have hlen : s0.interner.length ≤ s.interner.length := he.pre.length_le
  refine { lenE := by rw [he.idmap]; exact hL.lenE, lenL := by rw [he.idmap]; exact hL.lenL,
           e2i := by rw [he.idmap]; exact hL.e2i, extPt := by rw [he.idmap]; exact hL.extPt,
           extLt := hL.extLt, extNZ := hL.extNZ, extND := hL.extND, extIdND := hL.extIdND, labels := ?_,
           labelsInt := fun p h => he.pre.subset (hL.labelsInt p h), labelsLt := hL.labelsLt,
           deadLt := hL.deadLt, small := hsmall, i2lOK := ?_ }
  · intro n lid nm hr hn hd
    rw [he.idmap]
    by_cases hl : lid < s0.interner.length
    · exact hL.labels n lid nm (old_of_lt he.pre hr hl) hn hd
    · have hge := Nat.le_of_not_lt hl
      have hnew := not_mem_of_new he.pre he.nodup hr hge
      constructor
      · intro h
        rcases hL.i2lOK n lid h with h' | h'
        · have := lt_of_getElem?_eq_some hr; omega
        · omega
      · intro h; exact absurd (hL.labelsInt _ h) hnew
  · intro n l h
    rw [he.idmap] at h
    exact (hL.i2lOK n l h).imp id (fun h => Nat.lt_of_lt_of_le h hlen)

/-- the engine frame after all staged writes of a transaction, without any assumption on them -/
theorem fold_ext (c : Cfg) (s0 : Engine) (ops : List TxOp) :
    ∀ st : Engine × Txn, Ext s0 st.1 → Ext s0 (ops.foldl (stepTx c) st).1 ∧
      (ops.foldl (stepTx c) st).1.interner.length ≤ st.1.interner.length + ops.length := by
  induction ops with
  | nil => intro st he; exact ⟨he, Nat.le_refl _⟩
  | cons op ops ih =>
    intro st he
    obtain ⟨h1, h2, _⟩ : Ext s0 (stepTx c st op).1 ∧
        (stepTx c st op).1.interner.length ≤ st.1.interner.length + 1 ∧
        st.1.interner <+: (stepTx c st op).1.interner := stepTx_ext c s0 st.1 st.2 op he
    obtain ⟨h3, h4⟩ := ih (stepTx c st op) h1
    refine ⟨h3, ?_⟩
    simp only [List.foldl_cons, List.length_cons]
    omega

/-- a committed, well-formed transaction that triggers no known finding -/
theorem tx_commit (c : Cfg) {s0 g0} (h : Sim s0 g0) (ops : List TxOp)
    (hwf : txWF g0 ops = true) (hb : s0.interner.length + ops.length ≤ labelMax)
    (hz : txExtZero ops = false) (hra : txLabelReAdd ops = false) (hed : txEdgeAndEndpointDelete ops = false)
    (hrp : txDeletesRelWithProps g0 ops = false) :
    Sim (runTx c s0 ops true) (g0.apply ops) := by
  have hst := stage_ops c h.L ops s0.beginWrite.1 s0.beginWrite.2 g0 (St2.init h.G h.L) hwf hb hz hra hed hrp
    (by intro p hp; exact absurd hp (List.not_mem_nil))
    (by intro e he; exact absurd he (List.not_mem_nil))
  obtain ⟨m, hok, hL'⟩ := SimL.commit c h.L hst.L hst.G.ext
    (fun n hn => (hst.G.dead n).mpr (Or.inl hn))
  have hG' := SimG.commit c h.G hst.G m hok
  exact ⟨hG', hL'⟩

/-- an abandoned transaction (whatever it staged) -/
theorem tx_abort (c : Cfg) {s0 g0} (h : Sim s0 g0) (ops : List TxOp)
    (hb : s0.interner.length + ops.length ≤ labelMax) :
    Sim (runTx c s0 ops false) g0 := by
  obtain ⟨he, hlen⟩ := fold_ext c s0 ops s0.beginWrite
    ⟨rfl, rfl, rfl, rfl, List.prefix_refl _, h.G.nodup⟩
  have hlen' : (ops.foldl (stepTx c) s0.beginWrite).1.interner.length ≤ labelMax := by
    have : s0.beginWrite.1.interner = s0.interner := rfl
    rw [this] at hlen; omega
  exact ⟨h.G.ext he, h.L.ext he hlen'⟩

/-- number of staged writes of a history (each interns at most one name) -/
def histSize : List Op → Nat
  | [] => 0
  | .tx ops _ :: h => ops.length + histSize h
  | _ :: h => histSize h

theorem runTx_interner_le (c : Cfg) (s0 : Engine) (hn : s0.interner.Nodup) (ops : List TxOp) (b : Bool) :
    (runTx c s0 ops b).interner.length ≤ s0.interner.length + ops.length := by
  obtain ⟨_, hlen⟩ := fold_ext c s0 ops s0.beginWrite
    ⟨rfl, rfl, rfl, rfl, List.prefix_refl _, hn⟩
  have h0 : s0.beginWrite.1.interner = s0.interner := rfl
  rw [h0] at hlen
  unfold runTx
  simp only
  split
  · have : ∀ (s : Engine) (t : Txn), (s.commit c t).1.interner = s.interner := by
      intro s t; unfold Engine.commit; simp only; split <;> rfl
    rw [this]; exact hlen
  · exact hlen

/-- the induction over histories -/
theorem run_sim (c : Cfg) (h : List Op) :
    ∀ s g, Sim s g → txOnly h = true → wfFrom g h = true → s.interner.length + histSize h ≤ labelMax →
      anyCommitted txDeletesRelWithProps g h = false →
      anyCommitted (fun _ => txLabelReAdd) g h = false →
      anyCommitted (fun _ => txEdgeAndEndpointDelete) g h = false →
      anyCommitted (fun _ => txExtZero) g h = false →
      ∃ s', h.foldlM (runOp c) s = .ok s' ∧ Sim s' (h.foldl Graph.opStep g) := by
  induction h with
  | nil => intro s g hs _ _ _ _ _ _ _; exact ⟨s, rfl, hs⟩
  | cons op h ih =>
    intro s g hs htx hwf hb t1 t2 t3 t4
    cases op with
    | tx ops commit =>
      simp only [txOnly] at htx
      simp only [wfFrom, Bool.and_eq_true] at hwf
      simp only [histSize] at hb
      have hlen := runTx_interner_le c s hs.G.nodup ops commit
      cases commit with
      | true =>
        simp only [anyCommitted, Bool.or_eq_false_iff] at t1 t2 t3 t4
        have hs' := tx_commit c hs ops hwf.1 (by omega) t4.1 t2.1 t3.1 t1.1
        obtain ⟨s', hrun, hsim⟩ := ih (runTx c s ops true) (g.apply ops) hs' htx hwf.2 (by omega)
          t1.2 t2.2 t3.2 t4.2
        exact ⟨s', hrun, hsim⟩
      | false =>
        simp only [anyCommitted] at t1 t2 t3 t4
        have hs' := tx_abort c hs ops (by omega)
        obtain ⟨s', hrun, hsim⟩ := ih (runTx c s ops false) g hs' htx hwf.2 (by omega) t1 t2 t3 t4
        exact ⟨s', hrun, hsim⟩
    | compact => simp [txOnly] at htx
    | close => simp [txOnly] at htx
    | reopen => simp [txOnly] at htx

/-- the fresh database against the empty graph -/
theorem Sim.empty : Sim {} {} := by
  refine ⟨?_, ?_⟩
  · refine { segs := rfl, root := rfl, nodup := List.nodup_nil, dead := ?_, edges := ?_, runsOK := trivial,
             runsRel := ?_, relsInt := ?_, nprops := ?_, eprops := ?_, runsERel := ?_, epropsInt := ?_ }
    · intro n; simp [isTombNode]
    · intro r nm a b hr; simp at hr
    · intro run hr; cases hr
    · intro e he; cases he
    · intro n k _; rfl
    · intro r nm a b k hr; simp at hr
    · intro run hr; cases hr
    · intro p hp; cases hp
  · refine { lenE := rfl, lenL := rfl, e2i := fun _ => rfl, extPt := ?_, extLt := ?_, extNZ := ?_, extND := List.nodup_nil, extIdND := List.nodup_nil,
             labels := ?_, labelsInt := ?_, labelsLt := ?_, deadLt := ?_, small := by decide, i2lOK := ?_ }
    · intro n; rfl
    · intro p hp; cases hp
    · intro p hp; cases hp
    · intro n lid nm hr; simp at hr
    · intro p hp; cases hp
    · intro p hp; cases hp
    · intro n hn; cases hn
    · intro n l hl; simp at hl

end Nervus.Storage
