/-
  Proofs/ReopenRec.lean — the recovery invariant (C04): what `GraphEngine::open` computes from the log
  of a compaction-free engine, maintained transaction by transaction.  Part 1: the invariant, label
  mini-transactions, scan_recovery_state.
-/
import Nervus.Proofs.ReplayIdmap
import Nervus.Proofs.EngineHist
namespace Nervus.Storage
open Nervus.GraphSpec (TxOp Op)

/-- the per-transaction step of replay_graph_transactions -/
def replayStep (ckpt : Nat) (acc : IdMap × List Run) (tx : Nat × List WalRec) : Except OpenErr (IdMap × List Run) :=
  if tx.1 ≤ ckpt then .ok acc
  else do
    let (m, mt) ← tx.2.foldlM replayOp (acc.1, {})
    let run := mt.freeze tx.1
    pure (m, if run.isEmpty then acc.2 else acc.2 ++ [run])

theorem replayGraph_eq (txs : List (Nat × List WalRec)) (ckpt : Nat) (m : IdMap) :
    replayGraph txs ckpt m = txs.foldlM (replayStep ckpt) (m, []) := rfl

/-- records that carry recovery metadata or label definitions -/
def WalRec.isMeta : WalRec → Bool
  | .manifestSwitch _ _ _ => true
  | .checkpoint _ _ _ => true
  | _ => false

def WalRec.isLabelDef : WalRec → Bool
  | .createLabel _ _ => true
  | _ => false

/-- scan_recovery_state found neither manifest nor checkpoint -/
def ScanClean (txs : List (Nat × List WalRec)) : Prop :=
  (scanRecovery txs).epoch = 0 ∧ (scanRecovery txs).segs = [] ∧ (scanRecovery txs).ckptTxid = 0 ∧
  (scanRecovery txs).propsRoot = 0

def scanOp (st : Recovery) (op : WalRec) : Recovery :=
  match op with
  | .manifestSwitch epoch segs root =>
    if epoch ≥ st.epoch then { st with epoch, segs, ckptTxid := 0, propsRoot := root } else st
  | .checkpoint upTo epoch root =>
    if epoch == st.epoch then { st with ckptTxid := max st.ckptTxid upTo, propsRoot := root } else st
  | _ => st

def scanTx (st : Recovery) (tx : Nat × List WalRec) : Recovery :=
  tx.2.foldl scanOp { st with maxTxid := max st.maxTxid tx.1 }

theorem scanRecovery_eq (txs : List (Nat × List WalRec)) : scanRecovery txs = txs.foldl scanTx {} := by
  unfold scanRecovery
  congr 1

theorem scanOps_noMeta (ops : List WalRec) (st : Recovery) (h : ∀ r ∈ ops, r.isMeta = false) :
    (ops.foldl scanOp st).epoch = st.epoch ∧ (ops.foldl scanOp st).segs = st.segs ∧
    (ops.foldl scanOp st).ckptTxid = st.ckptTxid ∧ (ops.foldl scanOp st).propsRoot = st.propsRoot := by
  induction ops generalizing st with
  | nil => exact ⟨rfl, rfl, rfl, rfl⟩
  | cons r rs ih =>
    have hr := h r List.mem_cons_self
    have : scanOp st r = st := by
      cases r <;> simp only [WalRec.isMeta] at hr <;> first | rfl | cases hr
    rw [List.foldl_cons, this]
    exact ih st (fun x hx => h x (List.mem_cons_of_mem _ hx))

theorem ScanClean.append {txs : List (Nat × List WalRec)} (h : ScanClean txs) (tx : Nat × List WalRec)
    (hm : ∀ r ∈ tx.2, r.isMeta = false) : ScanClean (txs ++ [tx]) := by
  unfold ScanClean at *
  rw [scanRecovery_eq] at *
  rw [List.foldl_append, List.foldl_cons, List.foldl_nil]
  obtain ⟨h1, h2, h3, h4⟩ :=
    scanOps_noMeta tx.2 { (txs.foldl scanTx {}) with maxTxid := max (txs.foldl scanTx {}).maxTxid tx.1 } hm
  exact ⟨h1.trans h.1, h2.trans h.2.1, h3.trans h.2.2.1, h4.trans h.2.2.2⟩

/-! ### replay_label_transactions -/

def labelOp (t : Interner) (op : WalRec) : Except OpenErr Interner :=
  match op with
  | .createLabel name id =>
    match t.getId name with
    | some i => if i != id then .error .walProtocol else .ok t
    | none =>
      let gap := (List.range (id - t.length)).map (fun j => placeholderName (t.length + j))
      .ok (t ++ gap ++ [name])
  | _ => .ok t

def labelTx (t : Interner) (tx : Nat × List WalRec) : Except OpenErr Interner := tx.2.foldlM labelOp t

theorem replayLabels_eq (txs : List (Nat × List WalRec)) : replayLabels txs = txs.foldlM labelTx [] := by
  unfold replayLabels
  congr 1

theorem labelOps_noDef (ops : List WalRec) (t : Interner) (h : ∀ r ∈ ops, r.isLabelDef = false) :
    ops.foldlM labelOp t = .ok t := by
  induction ops with
  | nil => rfl
  | cons r rs ih =>
    have hr := h r List.mem_cons_self
    have : labelOp t r = .ok t := by
      cases r <;> simp only [WalRec.isLabelDef] at hr <;> first | rfl | cases hr
    rw [List.foldlM_cons, this]
    exact ih (fun x hx => h x (List.mem_cons_of_mem _ hx))

theorem replayLabels_append_noDef (txs : List (Nat × List WalRec)) (t : Interner) (h : replayLabels txs = .ok t)
    (tx : Nat × List WalRec) (hd : ∀ r ∈ tx.2, r.isLabelDef = false) : replayLabels (txs ++ [tx]) = .ok t := by
  rw [replayLabels_eq] at *
  rw [List.foldlM_append, h]
  show ([tx].foldlM labelTx t) = .ok t
  rw [List.foldlM_cons]
  unfold labelTx
  rw [labelOps_noDef _ _ hd]; rfl

theorem replayLabels_append_new (txs : List (Nat × List WalRec)) (t : Interner) (h : replayLabels txs = .ok t)
    (txid nm : Nat) (hn : t.getId nm = none) :
    replayLabels (txs ++ [(txid, [WalRec.createLabel nm t.length])]) = .ok (t ++ [nm]) := by
  rw [replayLabels_eq] at *
  rw [List.foldlM_append, h]
  show ([(txid, [WalRec.createLabel nm t.length])].foldlM labelTx t) = .ok (t ++ [nm])
  simp [labelTx, labelOp, hn]

end Nervus.Storage
