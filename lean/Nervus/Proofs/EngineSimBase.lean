/-
  Proofs/EngineSimBase.lean — basic facts for the C06 refinement: interning, name resolution,
  list helpers.
-/
import Nervus.Proofs.EngineProps
import Nervus.Spec.History
namespace Nervus.Storage
open Nervus.GraphSpec (Graph TxOp Op Rel)

/-! ### list helpers -/

theorem count_filter_ne {α} [DecidableEq α] (l : List α) (a b : α) :
    (l.filter (· != b)).count a = if a = b then 0 else l.count a := by
  by_cases h : a = b
  · subst h
    simp only [if_true]
    apply List.count_eq_zero.mpr
    simp
  · simp only [h, if_false]
    apply List.count_filter
    simpa using h

theorem count_append_singleton {α} [DecidableEq α] (l : List α) (a b : α) :
    (l ++ [b]).count a = l.count a + if a = b then 1 else 0 := by
  simp only [List.count_append, List.count_cons, List.count_nil, Nat.zero_add]
  by_cases h : a = b
  · subst h; simp
  · have : (b == a) = false := by simpa using (Ne.symm h)
    simp [h, this]

theorem mem_setInsert {α} [DecidableEq α] (a b : α) (s : List α) :
    b ∈ setInsert a s ↔ b = a ∨ b ∈ s := by
  unfold setInsert
  by_cases h : s.contains a = true
  · have ha : a ∈ s := by simpa using h
    simp only [h, if_true]
    constructor
    · exact Or.inr
    · rintro (rfl | h') <;> assumption
  · simp only [h, Bool.false_eq_true, if_false, List.mem_cons]

theorem lookup_upsert {κ ν} [DecidableEq κ] [BEq κ] [LawfulBEq κ] (k k' : κ) (v : ν) (m : List (κ × ν)) :
    (upsert k v m).lookup k' = if k' = k then some v else m.lookup k' := by
  unfold upsert
  by_cases h : k' = k
  · subst h; simp [List.lookup]
  · have hne : (k' == k) = false := by simpa using h
    simp only [List.lookup, hne, h, if_false]
    induction m with
    | nil => rfl
    | cons p ps ih =>
      obtain ⟨a, b⟩ := p
      simp only [List.filter_cons]
      by_cases hak : a = k
      · subst hak
        simp [List.lookup, hne, ih]
      · simp only [bne_iff_ne, ne_eq, hak, not_false_eq_true, decide_true, if_true, List.lookup]
        split <;> simp_all

theorem lookup_mapErase {κ ν} [DecidableEq κ] [BEq κ] [LawfulBEq κ] (k k' : κ) (m : List (κ × ν)) :
    (mapErase k m).lookup k' = if k' = k then none else m.lookup k' := by
  unfold mapErase
  induction m with
  | nil => simp
  | cons p ps ih =>
    obtain ⟨a, b⟩ := p
    simp only [List.filter_cons]
    by_cases hak : a = k
    · subst hak
      simp only [bne_self_eq_false, Bool.false_eq_true, if_false, ih, List.lookup]
      by_cases h : k' = a
      · subst h; simp
      · have : (k' == a) = false := by simpa using h
        simp [h, this]
    · simp only [bne_iff_ne, ne_eq, hak, not_false_eq_true, decide_true, if_true, List.lookup, ih]
      by_cases h : k' = a
      · subst h; simp [hak]
      · have : (k' == a) = false := by simpa using h
        simp [this]

theorem mem_filter_ne {α} [BEq α] [LawfulBEq α] (l : List α) (a b : α) :
    a ∈ l.filter (· != b) ↔ a ∈ l ∧ a ≠ b := by
  simp [List.mem_filter]

/-- lookup through a filter that keeps the key -/
theorem lookup_filter_keep {κ ν} [BEq κ] [LawfulBEq κ] (p : κ × ν → Bool) (m : List (κ × ν)) (k : κ)
    (h : ∀ v, p (k, v) = true) : (m.filter p).lookup k = m.lookup k := by
  induction m with
  | nil => rfl
  | cons q qs ih =>
    obtain ⟨a, b⟩ := q
    simp only [List.filter_cons]
    by_cases hka : k = a
    · subst hka; simp [h b, List.lookup]
    · have hne : (k == a) = false := by simpa using hka
      split
      · simp [List.lookup, hne, ih]
      · simp [List.lookup, hne, ih]

/-- lookup through a filter that drops every entry of the key -/
theorem lookup_filter_drop {κ ν} [BEq κ] [LawfulBEq κ] (p : κ × ν → Bool) (m : List (κ × ν)) (k : κ)
    (h : ∀ v, p (k, v) = false) : (m.filter p).lookup k = none := by
  induction m with
  | nil => rfl
  | cons q qs ih =>
    obtain ⟨a, b⟩ := q
    simp only [List.filter_cons]
    by_cases hka : k = a
    · subst hka; simp [h b, ih]
    · have hne : (k == a) = false := by simpa using hka
      split
      · simp [List.lookup, hne, ih]
      · exact ih

theorem mem_of_lookup_eq_some {κ ν} [BEq κ] [LawfulBEq κ] (m : List (κ × ν)) (k : κ) (v : ν)
    (h : m.lookup k = some v) : (k, v) ∈ m := by
  induction m with
  | nil => cases h
  | cons p ps ih =>
    obtain ⟨a', b'⟩ := p
    rw [List.lookup_cons] at h
    by_cases hk : k = a'
    · subst hk
      simp only [beq_self_eq_true] at h
      cases h; exact List.mem_cons_self
    · have : (k == a') = false := by simpa using hk
      simp only [this] at h
      exact List.mem_cons_of_mem _ (ih h)

theorem lookup_eq_none_of_not_mem_keys {κ ν} [BEq κ] [LawfulBEq κ] (m : List (κ × ν)) (k : κ)
    (h : ∀ p ∈ m, p.1 ≠ k) : m.lookup k = none := by
  cases hl : m.lookup k with
  | none => rfl
  | some v => exact absurd rfl (h _ (mem_of_lookup_eq_some _ _ _ hl))

/-! ### the interner -/

theorem getId_some_iff (t : Interner) (nm id : Nat) (hn : t.Nodup) :
    t.getId nm = some id ↔ t[id]? = some nm := by
  unfold Interner.getId
  constructor
  · intro h
    simp only at h
    split at h
    · rename_i hlt
      cases h
      rw [List.getElem?_eq_getElem hlt]
      simp
    · cases h
  · intro h
    have hlt : id < t.length := by
      rcases List.getElem?_eq_some_iff.mp h with ⟨hl, _⟩; exact hl
    have hget : t[id] = nm := by
      rcases List.getElem?_eq_some_iff.mp h with ⟨_, hg⟩; exact hg
    have hidx : t.idxOf nm = id := by
      subst hget
      exact hn.idxOf_getElem id hlt
    simp [hidx, hlt]

theorem getId_none_iff (t : Interner) (nm : Nat) : t.getId nm = none ↔ nm ∉ t := by
  unfold Interner.getId
  simp only
  constructor
  · intro h hmem
    have := List.idxOf_lt_length_iff.mpr hmem
    simp [this] at h
  · intro h
    have : ¬ t.idxOf nm < t.length := by
      intro hlt; exact h (List.idxOf_lt_length_iff.mp hlt)
    simp [this]

theorem name_inj (t : Interner) (hn : t.Nodup) (r r' nm : Nat) (h : t[r]? = some nm) (h' : t[r']? = some nm) :
    r = r' := by
  have h1 := (getId_some_iff t nm r hn).mpr h
  have h2 := (getId_some_iff t nm r' hn).mpr h'
  rw [h1] at h2; exact Option.some.inj h2

theorem prefix_getElem? {t0 t : Interner} (hp : t0 <+: t) (r nm : Nat) (h : t0[r]? = some nm) :
    t[r]? = some nm := by
  obtain ⟨x, rfl⟩ := hp
  rcases List.getElem?_eq_some_iff.mp h with ⟨hl, hg⟩
  rw [List.getElem?_append_left hl]; exact h

/-- everything `get_or_create_label` does -/
theorem getOrCreateLabel_spec (s : Engine) (nm : Nat) (hn : s.interner.Nodup) :
    let r := s.getOrCreateLabel nm
    r.1.interner[r.2]? = some nm ∧ s.interner <+: r.1.interner ∧ r.1.interner.Nodup ∧
    (∀ x ∈ r.1.interner, x ∈ s.interner ∨ x = nm) ∧
    r.1.runs = s.runs ∧ r.1.idmap = s.idmap ∧ r.1.segs = s.segs ∧ r.1.propsRoot = s.propsRoot ∧
    r.1.store = s.store ∧ r.1.vecs = s.vecs := by
  cases h : s.interner.getId nm with
  | some id =>
    simp only [Engine.getOrCreateLabel, h]
    refine ⟨(getId_some_iff _ _ _ hn).mp h, List.prefix_refl _, hn, fun x hx => Or.inl hx, ?_⟩
    simp
  | none =>
    have hnot := (getId_none_iff _ _).mp h
    simp only [Engine.getOrCreateLabel, h]
    refine ⟨by simp, List.prefix_append _ _, ?_, ?_, ?_⟩
    · rw [List.nodup_append]
      refine ⟨hn, by simp, ?_⟩
      intro a ha b hb
      simp only [List.mem_singleton] at hb
      subst hb; intro hab; subst hab; exact hnot ha
    · intro x hx
      simp only [List.mem_append, List.mem_singleton] at hx
      exact hx
    · simp

end Nervus.Storage
