import Nervus.Model.Savepoint
namespace Nervus.Savepoint

theorem replay_append (σ : Store) (a b : List (Nat × Option Nat)) : replay σ (a ++ b) = replay (replay σ a) b := by
  simp [replay, List.foldl_append]

/-- undoing newest-first the journal of `ws` from the state after `ws` gives back the state before `ws` -/
theorem undo_newest_first_restores (ws : Writes) : ∀ σ : Store,
    undoNewestFirst (applyWrites σ ws) (journal σ ws) = σ := by
  induction ws with
  | nil => intro σ; rfl
  | cons w ws ih =>
    intro σ
    obtain ⟨s, v⟩ := w
    simp only [applyWrites, journal, undoNewestFirst, List.reverse_cons, replay_append]
    have := ih (write σ s v)
    simp only [undoNewestFirst] at this
    rw [this]
    funext k
    simp only [replay, List.foldl_cons, List.foldl_nil, write]
    by_cases h : k = s
    · simp [h]
    · simp [h]

end Nervus.Savepoint
