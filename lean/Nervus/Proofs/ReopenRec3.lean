/-
  Proofs/ReopenRec3.lean — the recovery invariant, part 3: `commit` (current record order).
-/
import Nervus.Proofs.ReopenRec2
namespace Nervus.Storage
open Nervus.GraphSpec (TxOp Op)

theorem walRecords_current (t : Txn) (run : Run) :
    t.walRecords Cfg.current run = WalRec.beginTx t.txid :: (graphRecords t run ++ [WalRec.commitTx t.txid]) := by
  unfold Txn.walRecords graphRecords; simp

/-- the ten record kinds a commit writes between BeginTx and CommitTx -/
def WalRec.isGraph : WalRec → Bool
  | .createNode _ _ _ => true
  | .addNodeLabel _ _ => true
  | .removeNodeLabel _ _ => true
  | r => r.isMem

theorem graphRecords_isGraph (t : Txn) (run : Run) : ∀ r ∈ graphRecords t run, r.isGraph = true := by
  intro r hr
  rw [graphRecords_eq] at hr
  simp only [List.mem_append, List.mem_map, List.append_nil] at hr
  rcases hr with ⟨_, _, rfl⟩ | ⟨_, _, rfl⟩ | ⟨_, _, rfl⟩ | ⟨_, _, rfl⟩ | ⟨_, _, rfl⟩ | ⟨_, _, rfl⟩ |
    ⟨_, _, rfl⟩ | ⟨_, _, rfl⟩ | ⟨_, _, rfl⟩ | ⟨_, _, rfl⟩ <;> rfl

theorem isGraph_body (r : WalRec) (h : r.isGraph = true) :
    r.isBody = true ∧ r.isMeta = false ∧ r.isLabelDef = false := by
  cases r <;> simp [WalRec.isGraph, WalRec.isMem] at h <;> exact ⟨rfl, rfl, rfl⟩

/-! ### emptiness of read-equivalent runs -/

theorem isEmpty_of_mem_iff {α} (l l' : List α) (h : ∀ a, a ∈ l ↔ a ∈ l') : l.isEmpty = l'.isEmpty := by
  cases l with
  | nil =>
    cases l' with
    | nil => rfl
    | cons b bs => exact absurd ((h b).mpr List.mem_cons_self) List.not_mem_nil
  | cons a as =>
    cases l' with
    | nil => exact absurd ((h a).mp List.mem_cons_self) List.not_mem_nil
    | cons b bs => rfl

theorem isEmpty_of_lookup_eq {κ ν} [BEq κ] [LawfulBEq κ] (l l' : List (κ × ν))
    (h : ∀ k, l.lookup k = l'.lookup k) : l.isEmpty = l'.isEmpty := by
  cases l with
  | nil =>
    cases l' with
    | nil => rfl
    | cons b bs => have := h b.1; simp [List.lookup] at this
  | cons a as =>
    cases l' with
    | nil => have := h a.1; simp [List.lookup] at this
    | cons b bs => rfl

theorem RunEq.isEmpty {r r' : Run} (h : RunEq r r') : r.isEmpty = r'.isEmpty := by
  unfold Run.isEmpty
  rw [isEmpty_of_mem_iff _ _ (fun a => h.edges.mem_iff), isEmpty_of_mem_iff _ _ h.tombNodes,
    isEmpty_of_mem_iff _ _ h.tombEdges, isEmpty_of_lookup_eq _ _ h.nprops, isEmpty_of_lookup_eq _ _ h.eprops,
    isEmpty_of_mem_iff _ _ h.nDel, isEmpty_of_mem_iff _ _ h.eDel]

theorem lookup_reverse_of_nodup {κ ν} [BEq κ] [LawfulBEq κ] (l : List (κ × ν)) (hn : (l.map (·.1)).Nodup)
    (k : κ) (v : ν) (h : (k, v) ∈ l) : l.reverse.lookup k = some v := by
  induction l with
  | nil => cases h
  | cons p ps ih =>
    rw [List.map_cons, List.nodup_cons] at hn
    rw [List.reverse_cons, List.lookup_append]
    rw [List.mem_cons] at h
    rcases h with h | h
    · subst h
      have : ps.reverse.lookup k = none := by
        apply lookup_eq_none_of_not_mem_keys
        intro q hq heq
        exact hn.1 (List.mem_map.mpr ⟨q, List.mem_reverse.mp hq, heq⟩)
      rw [this]; simp [List.lookup]
    · rw [ih hn.2 h]; rfl

/-- what step 3 of commit computes, explicitly -/
def idmapAfter (m0 : IdMap) (t : Txn) : IdMap :=
  { e2i := (t.created.map (fun c => (c.1, c.2.2))).reverse ++ m0.e2i,
    i2l := delAll (addAll (m0.i2l ++ t.created.map (fun c => [c.2.1])) t.addL) t.delL,
    i2e := m0.i2e ++ t.created.map (fun c => ⟨c.1, c.2.1⟩) }

theorem applyIdmap_explicit (m0 : IdMap) (t : Txn)
    (hids : ∀ i c, t.created[i]? = some c → c.2.2 = m0.i2e.length + i)
    (hfresh : ∀ c ∈ t.created, m0.lookup c.1 = none) (hnd : (t.created.map (·.1)).Nodup)
    (hadd : ∀ p ∈ t.addL, p.1 < m0.i2l.length + t.created.length)
    (hdel : ∀ p ∈ t.delL, p.1 < m0.i2l.length + t.created.length) :
    applyIdmap m0 t.created t.addL t.delL = (idmapAfter m0 t, none) := by
  unfold applyIdmap
  rw [foldStop_create t.created m0 hids hfresh hnd]
  simp only
  rw [foldStop_add_eq t.addL _ (by intro p hp; simp only [List.length_append, List.length_map]; exact hadd p hp)]
  simp only
  rw [foldStop_remove_eq t.delL _ (by
    intro p hp; simp only [addAll_length, List.length_append, List.length_map]; exact hdel p hp)]
  rfl

/-- the memtable records of a commit (current order) -/
def memRecords (t : Txn) (run : Run) : List WalRec :=
  run.tombNodes.map WalRec.tombstoneNode ++
  (run.tombEdges.map WalRec.tombstoneEdge ++
  (run.edges.map WalRec.createEdge ++
  (t.mt.nprops.map (fun p => WalRec.setNodeProperty p.1.1 p.1.2 p.2) ++
  (t.mt.nDel.map (fun p => WalRec.removeNodeProperty p.1 p.2) ++
  (t.mt.eprops.map (fun p => WalRec.setEdgeProperty p.1.1 p.1.2 p.2) ++
  (t.mt.eDel.map (fun p => WalRec.removeEdgeProperty p.1 p.2) ++ []))))))

theorem graphRecords_split (t : Txn) (run : Run) :
    graphRecords t run =
      t.created.map (fun c => WalRec.createNode c.1 c.2.1 c.2.2) ++
      (t.addL.map (fun p => WalRec.addNodeLabel p.1 p.2) ++
      (t.delL.map (fun p => WalRec.removeNodeLabel p.1 p.2) ++ memRecords t run)) := graphRecords_eq t run

theorem memRecords_isMem (t : Txn) (run : Run) : ∀ r ∈ memRecords t run, r.isMem = true := by
  intro r hr
  unfold memRecords at hr
  simp only [List.mem_append, List.mem_map, List.append_nil] at hr
  rcases hr with ⟨_, _, rfl⟩ | ⟨_, _, rfl⟩ | ⟨_, _, rfl⟩ | ⟨_, _, rfl⟩ | ⟨_, _, rfl⟩ | ⟨_, _, rfl⟩ | ⟨_, _, rfl⟩ <;> rfl

theorem foldlM_append_ok {α β ε} (f : β → α → Except ε β) (l l' : List α) (a b : β)
    (h : l.foldlM f a = .ok b) : (l ++ l').foldlM f a = l'.foldlM f b := by
  rw [List.foldlM_append, h]; rfl

/-- `commit` maintains the recovery invariant -/
theorem Rec.commit {s : Engine} {t : Txn} (h : Rec s) (hwf : t.mt.WF) (htx : 1 ≤ t.txid)
    (hids : ∀ i c, t.created[i]? = some c → c.2.2 = s.idmap.i2e.length + i)
    (hfresh : ∀ c ∈ t.created, s.idmap.lookup c.1 = none) (hnd : (t.created.map (·.1)).Nodup)
    (hlen : s.idmap.i2l.length = s.idmap.i2e.length)
    (hadd : ∀ p ∈ t.addL, p.1 < s.idmap.i2l.length + t.created.length)
    (hdel : ∀ p ∈ t.delL, p.1 < s.idmap.i2l.length + t.created.length) :
    applyIdmap s.idmap t.created t.addL t.delL = (idmapAfter s.idmap t, none) ∧
    Rec (committed Cfg.current s t (idmapAfter s.idmap t)) := by
  have hok := applyIdmap_explicit s.idmap t hids hfresh hnd hadd hdel
  refine ⟨hok, ?_⟩
  obtain ⟨⟨txs, hb, hl, hs, hg⟩, hp⟩ := h
  have hgr := graphRecords_isGraph t (t.mt.freeze t.txid)
  refine ⟨⟨txs ++ [(t.txid, graphRecords t (t.mt.freeze t.txid))], ?_, ?_, ?_, ?_⟩, Nat.le_succ_of_le hp⟩
  · show Blocks (s.wal ++ t.walRecords Cfg.current (t.mt.freeze t.txid)) _
    rw [walRecords_current]
    exact hb.append t.txid _ (fun r hr => (isGraph_body r (hgr r hr)).1)
  · exact replayLabels_append_noDef txs _ hl _ (fun r hr => (isGraph_body r (hgr r hr)).2.2)
  · exact hs.append _ (fun r hr => (isGraph_body r (hgr r hr)).2.1)
  · intro m0 T hc hi
    have hM : (committed Cfg.current s t (idmapAfter s.idmap t)).idmap = idmapAfter s.idmap t := rfl
    rw [hM] at hc hi ⊢
    -- the idmap before this transaction is covered too
    have hc0 : ∀ x iid, s.idmap.lookup x = some iid → m0.lookup x = some iid := by
      intro x iid hx
      apply hc
      show ((t.created.map (fun c => (c.1, c.2.2))).reverse ++ s.idmap.e2i).lookup x = some iid
      rw [List.lookup_append]
      have : ((t.created.map (fun c => (c.1, c.2.2))).reverse).lookup x = none := by
        apply lookup_eq_none_of_not_mem_keys
        intro p hp' heq
        obtain ⟨c, hcm, rfl⟩ := List.mem_map.mp (List.mem_reverse.mp hp')
        simp only at heq
        have := hfresh c hcm
        rw [heq, hx] at this; cases this
      rw [this]; exact hx
    have hi0 : m0.i2l = s.idmap.i2e.map (fun r => [r.label]) ++ (t.created.map (fun c => [c.2.1]) ++ T) := by
      rw [hi]
      show (s.idmap.i2e ++ t.created.map (fun c => (⟨c.1, c.2.1⟩ : I2e))).map (fun r => [r.label]) ++ T = _
      rw [List.map_append, List.map_map, List.append_assoc]; rfl
    obtain ⟨R, hR, hE⟩ := hg m0 _ hc0 hi0
    -- replay of the new block
    let m1 : IdMap := { m0 with i2l := s.idmap.i2l ++ (t.created.map (fun c => [c.2.1]) ++ T) }
    have hseg1 : ∀ c ∈ t.created, m1.lookup c.1 = some c.2.2 := by
      intro c hcm
      show m0.lookup c.1 = some c.2.2
      apply hc
      show ((t.created.map (fun c => (c.1, c.2.2))).reverse ++ s.idmap.e2i).lookup c.1 = some c.2.2
      rw [List.lookup_append, lookup_reverse_of_nodup _ (by rw [List.map_map]; exact hnd) c.1 c.2.2
        (List.mem_map.mpr ⟨c, hcm, rfl⟩)]
      rfl
    have hA : s.idmap.i2l ++ (t.created.map (fun c => [c.2.1]) ++ T) =
        (s.idmap.i2l ++ t.created.map (fun c => [c.2.1])) ++ T := by rw [List.append_assoc]
    have hlenA : (s.idmap.i2l ++ t.created.map (fun c => [c.2.1])).length = s.idmap.i2l.length + t.created.length := by
      rw [List.length_append, List.length_map]
    have e1 := replay_createNodes t.created m1 {} hseg1
    have e2 := replay_addLabels t.addL m1 {} (by
      intro p hp'
      show p.1 < (s.idmap.i2l ++ (t.created.map (fun c => [c.2.1]) ++ T)).length
      rw [hA, List.length_append, hlenA]; have := hadd p hp'; omega)
    have e3 := replay_delLabels t.delL { m1 with i2l := addAll m1.i2l t.addL } {} (by
      intro p hp'
      show p.1 < (addAll (s.idmap.i2l ++ (t.created.map (fun c => [c.2.1]) ++ T)) t.addL).length
      rw [addAll_length, hA, List.length_append, hlenA]; have := hdel p hp'; omega)
    have e4 := replay_memRecs (memRecords t (t.mt.freeze t.txid))
      { m1 with i2l := delAll (addAll m1.i2l t.addL) t.delL } {} (memRecords_isMem t _)
    have hm2 : ({ m1 with i2l := delAll (addAll m1.i2l t.addL) t.delL } : IdMap) =
        { m0 with i2l := (idmapAfter s.idmap t).i2l ++ T } := by
      show ({ m0 with i2l := delAll (addAll (s.idmap.i2l ++ (t.created.map (fun c => [c.2.1]) ++ T)) t.addL) t.delL } : IdMap) = _
      rw [hA, addAll_append _ _ _ (by intro p hp'; rw [hlenA]; exact hadd p hp'),
        delAll_append _ _ _ (by intro p hp'; rw [addAll_length, hlenA]; exact hdel p hp')]
      rfl
    have hfold : (graphRecords t (t.mt.freeze t.txid)).foldlM replayOp (m1, {}) =
        .ok ({ m0 with i2l := (idmapAfter s.idmap t).i2l ++ T },
             (memRecords t (t.mt.freeze t.txid)).foldl memOp {}) := by
      rw [graphRecords_split, foldlM_append_ok _ _ _ _ _ e1, foldlM_append_ok _ _ _ _ _ e2,
        foldlM_append_ok _ _ _ _ _ e3, e4, hm2]
    have hrun := replay_commit_roundtrip t hwf t.txid _ _ _ hfold
    have hemp := hrun.isEmpty
    refine ⟨(if (((memRecords t (t.mt.freeze t.txid)).foldl memOp {}).freeze t.txid).isEmpty then R
             else R ++ [((memRecords t (t.mt.freeze t.txid)).foldl memOp {}).freeze t.txid]), ?_, ?_⟩
    · rw [replayGraph_eq, List.foldlM_append, ← replayGraph_eq, hR]
      show ([(t.txid, graphRecords t (t.mt.freeze t.txid))].foldlM (replayStep 0) (m1, R)) = _
      rw [List.foldlM_cons]
      have hpos : ¬ t.txid ≤ 0 := by omega
      simp only [replayStep, hpos, if_false, hfold]
      rfl
    · show RunsEq (if _ then R else R ++ [_]).reverse
        (if (t.mt.freeze t.txid).isEmpty then s.runs else t.mt.freeze t.txid :: s.runs)
      rw [hemp]
      split
      · exact hE
      · rw [List.reverse_append]; exact RunsEq.cons hrun hE

end Nervus.Storage
