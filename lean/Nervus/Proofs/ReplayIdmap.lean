/-
  Proofs/ReplayIdmap.lean — the idmap side of commit and of replay as pure functions on the label
  vectors, and the replay of one transaction's records segment by segment (C04).
-/
import Nervus.Proofs.EngineReplay2
import Nervus.Proofs.WalBlocks
namespace Nervus.Storage

/-- IdMap::apply_add_label on the label vectors -/
def addLabelL (L : List (List Nat)) (n l : Nat) : List (List Nat) :=
  match L[n]? with
  | none => L
  | some ls => L.set n (if ls.contains l then ls else isort (· ≤ ·) (ls ++ [l]))

/-- IdMap::apply_remove_label on the label vectors -/
def delLabelL (L : List (List Nat)) (n l : Nat) : List (List Nat) :=
  match L[n]? with
  | none => L
  | some ls => L.set n (ls.filter (· != l))

theorem addLabelL_length (L : List (List Nat)) (n l : Nat) : (addLabelL L n l).length = L.length := by
  unfold addLabelL; split <;> simp

theorem delLabelL_length (L : List (List Nat)) (n l : Nat) : (delLabelL L n l).length = L.length := by
  unfold delLabelL; split <;> simp

theorem addLabelL_append (A T : List (List Nat)) (n l : Nat) (h : n < A.length) :
    addLabelL (A ++ T) n l = addLabelL A n l ++ T := by
  unfold addLabelL
  rw [List.getElem?_append_left h, List.getElem?_eq_getElem h]
  simp only
  rw [List.set_append_left _ _ h]

theorem delLabelL_append (A T : List (List Nat)) (n l : Nat) (h : n < A.length) :
    delLabelL (A ++ T) n l = delLabelL A n l ++ T := by
  unfold delLabelL
  rw [List.getElem?_append_left h, List.getElem?_eq_getElem h]
  simp only
  rw [List.set_append_left _ _ h]

theorem applyAddLabel_ok (m : IdMap) (n l : Nat) (h : n < m.i2l.length) :
    m.applyAddLabel n l = .ok { m with i2l := addLabelL m.i2l n l } := by
  unfold IdMap.applyAddLabel addLabelL
  rw [List.getElem?_eq_getElem h]

theorem applyRemoveLabel_ok (m : IdMap) (n l : Nat) (h : n < m.i2l.length) :
    m.applyRemoveLabel n l = .ok { m with i2l := delLabelL m.i2l n l } := by
  unfold IdMap.applyRemoveLabel delLabelL
  rw [List.getElem?_eq_getElem h]

def addAll (L : List (List Nat)) (ps : List (Nat × Nat)) : List (List Nat) :=
  ps.foldl (fun L p => addLabelL L p.1 p.2) L

def delAll (L : List (List Nat)) (ps : List (Nat × Nat)) : List (List Nat) :=
  ps.foldl (fun L p => delLabelL L p.1 p.2) L

theorem addAll_length (ps : List (Nat × Nat)) (L : List (List Nat)) : (addAll L ps).length = L.length := by
  induction ps generalizing L with
  | nil => rfl
  | cons p ps ih => simp only [addAll, List.foldl_cons] at ih ⊢; rw [ih, addLabelL_length]

theorem delAll_length (ps : List (Nat × Nat)) (L : List (List Nat)) : (delAll L ps).length = L.length := by
  induction ps generalizing L with
  | nil => rfl
  | cons p ps ih => simp only [delAll, List.foldl_cons] at ih ⊢; rw [ih, delLabelL_length]

theorem addAll_append (ps : List (Nat × Nat)) (A T : List (List Nat)) (h : ∀ p ∈ ps, p.1 < A.length) :
    addAll (A ++ T) ps = addAll A ps ++ T := by
  induction ps generalizing A with
  | nil => rfl
  | cons p ps ih =>
    simp only [addAll, List.foldl_cons] at ih ⊢
    rw [addLabelL_append A T p.1 p.2 (h p List.mem_cons_self)]
    exact ih _ (fun q hq => by rw [addLabelL_length]; exact h q (List.mem_cons_of_mem _ hq))

theorem delAll_append (ps : List (Nat × Nat)) (A T : List (List Nat)) (h : ∀ p ∈ ps, p.1 < A.length) :
    delAll (A ++ T) ps = delAll A ps ++ T := by
  induction ps generalizing A with
  | nil => rfl
  | cons p ps ih =>
    simp only [delAll, List.foldl_cons] at ih ⊢
    rw [delLabelL_append A T p.1 p.2 (h p List.mem_cons_self)]
    exact ih _ (fun q hq => by rw [delLabelL_length]; exact h q (List.mem_cons_of_mem _ hq))

/-- commit's label additions, explicitly -/
theorem foldStop_add_eq (ps : List (Nat × Nat)) (m : IdMap) (h : ∀ p ∈ ps, p.1 < m.i2l.length) :
    foldStop (fun m (p : Nat × Nat) => m.applyAddLabel p.1 p.2) m ps = ({ m with i2l := addAll m.i2l ps }, none) := by
  induction ps generalizing m with
  | nil => rfl
  | cons p ps ih =>
    simp only [foldStop, applyAddLabel_ok m p.1 p.2 (h p List.mem_cons_self)]
    rw [ih _ (fun q hq => by simp only [addLabelL_length]; exact h q (List.mem_cons_of_mem _ hq))]
    rfl

theorem foldStop_remove_eq (ps : List (Nat × Nat)) (m : IdMap) (h : ∀ p ∈ ps, p.1 < m.i2l.length) :
    foldStop (fun m (p : Nat × Nat) => m.applyRemoveLabel p.1 p.2) m ps = ({ m with i2l := delAll m.i2l ps }, none) := by
  induction ps generalizing m with
  | nil => rfl
  | cons p ps ih =>
    simp only [foldStop, applyRemoveLabel_ok m p.1 p.2 (h p List.mem_cons_self)]
    rw [ih _ (fun q hq => by simp only [delLabelL_length]; exact h q (List.mem_cons_of_mem _ hq))]
    rfl

/-! ### replay of the record segments of one transaction -/

theorem replay_createNodes (cs : List (Nat × Nat × Nat)) (m : IdMap) (mt : MemTable)
    (h : ∀ c ∈ cs, m.lookup c.1 = some c.2.2) :
    (cs.map (fun c => WalRec.createNode c.1 c.2.1 c.2.2)).foldlM replayOp (m, mt) = .ok (m, mt) := by
  induction cs with
  | nil => rfl
  | cons c cs ih =>
    rw [List.map_cons, List.foldlM_cons]
    have hc := h c List.mem_cons_self
    have : replayOp (m, mt) (WalRec.createNode c.1 c.2.1 c.2.2) = .ok (m, mt) := by
      simp only [replayOp, hc, bne_self_eq_false, Bool.false_eq_true, if_false]
    rw [this]
    exact ih (fun c' hc' => h c' (List.mem_cons_of_mem _ hc'))

theorem replay_addLabels (ps : List (Nat × Nat)) (m : IdMap) (mt : MemTable) (h : ∀ p ∈ ps, p.1 < m.i2l.length) :
    (ps.map (fun p => WalRec.addNodeLabel p.1 p.2)).foldlM replayOp (m, mt) =
      .ok ({ m with i2l := addAll m.i2l ps }, mt) := by
  induction ps generalizing m with
  | nil => rfl
  | cons p ps ih =>
    rw [List.map_cons, List.foldlM_cons]
    have : replayOp (m, mt) (WalRec.addNodeLabel p.1 p.2) = .ok ({ m with i2l := addLabelL m.i2l p.1 p.2 }, mt) := by
      simp only [replayOp, applyAddLabel_ok m p.1 p.2 (h p List.mem_cons_self)]
    rw [this]
    have := ih { m with i2l := addLabelL m.i2l p.1 p.2 }
      (fun q hq => by simp only [addLabelL_length]; exact h q (List.mem_cons_of_mem _ hq))
    exact this

theorem replay_delLabels (ps : List (Nat × Nat)) (m : IdMap) (mt : MemTable) (h : ∀ p ∈ ps, p.1 < m.i2l.length) :
    (ps.map (fun p => WalRec.removeNodeLabel p.1 p.2)).foldlM replayOp (m, mt) =
      .ok ({ m with i2l := delAll m.i2l ps }, mt) := by
  induction ps generalizing m with
  | nil => rfl
  | cons p ps ih =>
    rw [List.map_cons, List.foldlM_cons]
    have : replayOp (m, mt) (WalRec.removeNodeLabel p.1 p.2) = .ok ({ m with i2l := delLabelL m.i2l p.1 p.2 }, mt) := by
      simp only [replayOp, applyRemoveLabel_ok m p.1 p.2 (h p List.mem_cons_self)]
    rw [this]
    have := ih { m with i2l := delLabelL m.i2l p.1 p.2 }
      (fun q hq => by simp only [delLabelL_length]; exact h q (List.mem_cons_of_mem _ hq))
    exact this

/-- records that only touch the memtable -/
def WalRec.isMem : WalRec → Bool
  | .createEdge _ => true
  | .tombstoneNode _ => true
  | .tombstoneEdge _ => true
  | .setNodeProperty _ _ _ => true
  | .setEdgeProperty _ _ _ => true
  | .removeNodeProperty _ _ => true
  | .removeEdgeProperty _ _ => true
  | _ => false

theorem replay_memRecs (recs : List WalRec) (m : IdMap) (mt : MemTable) (h : ∀ r ∈ recs, r.isMem = true) :
    recs.foldlM replayOp (m, mt) = .ok (m, recs.foldl memOp mt) := by
  induction recs generalizing mt with
  | nil => rfl
  | cons r rs ih =>
    rw [List.foldlM_cons, List.foldl_cons]
    have hr := h r List.mem_cons_self
    have : replayOp (m, mt) r = .ok (m, memOp mt r) := by
      cases r <;> simp only [WalRec.isMem] at hr <;> first | rfl | cases hr
    rw [this]
    exact ih _ (fun x hx => h x (List.mem_cons_of_mem _ hx))

end Nervus.Storage
