/-
  Proofs.OrderCompare — `order_compare_non_null` (the ORDER BY comparator) is a lawful partial three-way
  comparison: antisymmetric for ALL values (`ocnn_swap`), transitive on its `some` results for all
  well-formed values whose strings are compared transitively (`ocnn_trans`; `StrHyp`).  Numbers reduce to the
  comparison of exact dyadic values (`numCmpNanLast_exact`).  Core only.
-/
import Nervus.Proofs.Derived
import Nervus.Spec.Findings
namespace Nervus
open F64 Value Eval

theorem TKey.cmp_laws : CmpLaws TKey.cmp := by
  have h := CmpLaws.lex (α := TKey) cmpInt_laws
    (CmpLaws.lex (α := TKey) cmpInt_laws cmpInt_laws TKey.b TKey.c) TKey.a id
  exact h

section
variable (E : Env)

theorem strCmp_swap (x y : Str) : strCmp E x y = (strCmp E y x).swap := by
  unfold strCmp
  cases hx : E.temporalKey x with
  | none => cases hy : E.temporalKey y <;> simp [cmpBytes_laws.swap x y]
  | some p =>
    cases hy : E.temporalKey y with
    | none => simp [cmpBytes_laws.swap x y]
    | some q =>
      obtain ⟨k, a⟩ := p
      obtain ⟨k', b⟩ := q
      by_cases hk : k = k'
      · subst hk; simp [TKey.cmp_laws.swap a b]
      · have : ¬ k' = k := fun h => hk h.symm
        simp [hk, this, cmpBytes_laws.swap x y]

/-- a number as the exact dyadic value it denotes (NaN for non-numbers, never used there) -/
def numF : Value → F64
  | .int i => exact i
  | .float b => ofBits b
  | _ => .nan

def isNum : Value → Bool
  | .int _ | .float _ => true
  | _ => false

theorem numCmpNanLast_swap (a b : Value) : numCmpNanLast a b = (numCmpNanLast b a).swap := by
  cases a <;> cases b <;> simp only [numCmpNanLast] <;> try rfl
  case int.int x y => exact cmpInt_laws.swap x y
  case int.float x y => by_cases h : fNaN y <;> simp [h]
  case float.int x y => by_cases h : fNaN x <;> simp [h]
  case float.float x y => exact cmpTK_laws.swap _ _

/-- on well-formed numbers the ORDER BY comparison is the comparison of the exact values, NaN last -/
theorem numCmpNanLast_exact (a b : Value) (ha : isNum a) (hb : isNum b) (wa : a.wf) (wb : b.wf) :
    numCmpNanLast a b = cmpTK (numF a) (numF b) := by
  cases a <;> simp [isNum] at ha <;> cases b <;> simp [isNum] at hb <;>
    simp only [wf, i64Ok, Bool.and_eq_true, decide_eq_true_eq] at wa wb <;> simp only [numCmpNanLast, numF]
  case int.int x y =>
    rw [cmpTK_eq, tier_exact, tier_exact, skey_exact, skey_exact]
    simp only [cmpNat, Nat.lt_irrefl, if_false, if_true, Ordering.then]
    have hP := Pn_pos 1074
    unfold cmpInt
    by_cases h1 : x < y
    · have : x * Pn 1074 < y * Pn 1074 := Int.mul_lt_mul_of_pos_right h1 hP
      simp [h1, this]
    · by_cases h2 : x = y
      · subst h2; simp
      · have h3 : y < x := by omega
        have : y * Pn 1074 < x * Pn 1074 := Int.mul_lt_mul_of_pos_right h3 hP
        have n1 : ¬ x * Pn 1074 < y * Pn 1074 := by omega
        have n2 : ¬ x * Pn 1074 = y * Pn 1074 := by omega
        simp [h1, h2, n1, n2]
  case int.float x y =>
    by_cases h : fNaN y
    · simp only [h, if_true]
      have : ofBits y = .nan := by unfold fNaN at h; cases hh : ofBits y <;> simp_all [isNaN]
      rw [this]; simp [cmpTK, tier, exact]
    · simp only [h, Bool.false_eq_true, if_false]
      exact cmpIntFloat_exact x wa.1 wa.2 _ (by simpa [fNaN] using h)
  case float.int x y =>
    by_cases h : fNaN x
    · simp only [h, if_true]
      have : ofBits x = .nan := by unfold fNaN at h; cases hh : ofBits x <;> simp_all [isNaN]
      rw [this]; simp [cmpTK, tier, exact]
    · simp only [h, Bool.false_eq_true, if_false]
      rw [cmpIntFloat_exact y wb.1 wb.2 _ (by simpa [fNaN] using h), ← cmpTK_laws.swap]
  case float.float x y => rfl

/-- evaluate `order_compare_non_null` on two values of different kinds: the rank table decides -/
macro "rank_simp" : tactic => `(tactic|
  simp [orderCompareNonNull, rank, cmpNat, dcmp, vidx, Ordering.swap, Generated.rankNull, Generated.rankBool, Generated.rankInt,
    Generated.rankFloat, Generated.rankString, Generated.rankList, Generated.rankMap, Generated.rankNodeId,
    Generated.rankExternalId, Generated.rankEdgeKey, Generated.rankDateTime, Generated.rankBlob,
    Generated.rankPath])

theorem rank_ne_node : (cmpNat Generated.rankNodeId Generated.rankExternalId != .eq) = false := by decide
theorem rank_ne_node' : (cmpNat Generated.rankExternalId Generated.rankNodeId != .eq) = false := by decide

/-- comparison of two list elements inside `compare_lists_ordering` -/
def ocElem (x y : Value) : Option Ordering := listElemOrdering x y (orderCompareNonNull E x y)

theorem clo_cons (x y : Value) (xs ys : List Value) :
    compareListsOrdering E (x :: xs) (y :: ys) = thenP (ocElem E x y) (compareListsOrdering E xs ys) := by
  rw [compareListsOrdering]
  unfold ocElem thenP
  rfl

mutual
theorem ocnn_swap : ∀ (a b : Value), orderCompareNonNull E a b = (orderCompareNonNull E b a).map Ordering.swap
  | .list xs, b => by
    cases b <;> first | (simp only [orderCompareNonNull]; exact clo_swap xs _) | (rank_simp; done)
  | .null, b => by cases b <;> rank_simp
  | .bool x, b => by
    cases b <;> first | (simp only [orderCompareNonNull, Option.map]; rw [cmpBool_laws.swap]; done) | (rank_simp; done)
  | .int x, b => by
    cases b <;> first | (simp only [orderCompareNonNull, Option.map]; rw [numCmpNanLast_swap]; done) | (rank_simp; done)
  | .float x, b => by
    cases b <;> first | (simp only [orderCompareNonNull, Option.map]; rw [numCmpNanLast_swap]; done) | (rank_simp; done)
  | .str x, b => by
    cases b <;> first | (simp only [orderCompareNonNull, Option.map]; rw [strCmp_swap]; done) | (rank_simp; done)
  | .map xs, b => by
    cases b <;> first | (simp only [orderCompareNonNull]; exact dcmpMap_swap xs _) | (rank_simp; done)
  | .nodeId x, b => by
    cases b <;> first | (simp only [orderCompareNonNull, Option.map]; rw [cmpNat_laws.swap]; done) | (rank_simp; done) | (simp only [orderCompareNonNull, rank_ne_node, rank_ne_node', Bool.false_eq_true, if_false, Option.map]; rw [cmpNat_laws.swap]; done)
  | .externalId x, b => by
    cases b <;> first | (simp only [orderCompareNonNull, Option.map]; rw [cmpNat_laws.swap]; done) | (rank_simp; done) | (simp only [orderCompareNonNull, rank_ne_node, rank_ne_node', Bool.false_eq_true, if_false, Option.map]; rw [cmpNat_laws.swap]; done)
  | .edgeKey x, b => by
    cases b <;> first | (simp only [orderCompareNonNull, Option.map]; rw [cmpEKey_laws.swap]; done) | (rank_simp; done)
  | .dateTime x, b => by
    cases b <;> first | (simp only [orderCompareNonNull, Option.map]; rw [cmpInt_laws.swap]; done) | (rank_simp; done)
  | .blob x, b => by
    cases b <;> first | (simp only [orderCompareNonNull, Option.map]; rw [cmpBytes_laws.swap]; done) | (rank_simp; done)
  | .path n e, b => by
    cases b <;> try (rank_simp; done)
    rename_i n' e'
    simp only [orderCompareNonNull]
    rw [cmpNatList_laws.swap n n', cmpEKeyList_laws.swap e e']
    cases cmpNatList n' n <;> simp [Ordering.swap]
theorem clo_swap : ∀ (a b : List Value),
    compareListsOrdering E a b = (compareListsOrdering E b a).map Ordering.swap
  | [], b => by cases b <;> simp [compareListsOrdering, Ordering.swap]
  | x :: xs, b => by
    cases b with
    | nil => simp [compareListsOrdering, Ordering.swap]
    | cons y ys =>
      rw [clo_cons, clo_cons, thenP_swap, ← clo_swap xs ys]
      congr 1
      unfold ocElem listElemOrdering
      cases x <;> cases y <;> first | rfl | exact ocnn_swap _ _
end

/-- refute / simplify `rank x = rank y` for concrete constructors -/
macro "rank_absurd" h:ident : tactic => `(tactic|
  (simp [rank, Generated.rankNull, Generated.rankBool, Generated.rankInt,
    Generated.rankFloat, Generated.rankString, Generated.rankList, Generated.rankMap, Generated.rankNodeId,
    Generated.rankExternalId, Generated.rankEdgeKey, Generated.rankDateTime, Generated.rankBlob,
    Generated.rankPath] at $h:ident))

theorem ocnn_of_rank_ne (a b : Value) (h : rank a ≠ rank b) :
    orderCompareNonNull E a b = some (cmpNat (rank a) (rank b)) := by
  cases a <;> cases b <;> first | (rank_absurd h; done) | (rank_simp; done)

/-- transitivity across classes: decided by the class tag alone -/
theorem mixed_trans {α : Type} (c : α → α → Option Ordering) (tag : α → Nat)
    (hne : ∀ a b, tag a ≠ tag b → c a b = some (cmpNat (tag a) (tag b)))
    (a b d : α) (h : tag a ≠ tag b ∨ tag b ≠ tag d) (o1 o2 : Ordering)
    (h1 : c a b = some o1) (h2 : c b d = some o2) (n1 : o1 ≠ .gt) (n2 : o2 ≠ .gt) :
    c a d = some (o1.then o2) := by
  by_cases hab : tag a = tag b
  · have hbd : tag b ≠ tag d := by omega
    rw [hne b d hbd] at h2
    simp only [Option.some.injEq] at h2
    subst h2
    rw [cmpNat_ne_gt] at n2
    have : tag a < tag d := by omega
    rw [hne a d (by omega), cmpNat_lt.2 this, cmpNat_lt.2 (by omega : tag b < tag d)]
    cases o1 <;> simp_all [Ordering.then]
  · rw [hne a b hab] at h1
    simp only [Option.some.injEq] at h1
    subst h1
    rw [cmpNat_ne_gt] at n1
    have hlt : tag a < tag b := by omega
    rw [cmpNat_lt.2 hlt]
    by_cases hbd : tag b = tag d
    · rw [hne a d (by omega), cmpNat_lt.2 (by omega)]; rfl
    · rw [hne b d hbd] at h2
      simp only [Option.some.injEq] at h2
      subst h2
      rw [cmpNat_ne_gt] at n2
      rw [hne a d (by omega), cmpNat_lt.2 (by omega)]; rfl

theorem ocnn_num (a b : Value) (ha : isNum a) (hb : isNum b) :
    orderCompareNonNull E a b = some (numCmpNanLast a b) := by
  cases a <;> simp [isNum] at ha <;> cases b <;> simp [isNum] at hb <;> simp only [orderCompareNonNull]

theorem numF_laws : CmpLaws (fun x y : Value => cmpTK (numF x) (numF y)) where
  swap _ _ := cmpTK_laws.swap _ _
  trans _ _ _ := cmpTK_laws.trans _ _ _

theorem num_trans (a b d : Value) (ha : isNum a) (hb : isNum b) (hd : isNum d) (wa : a.wf) (wb : b.wf) (wd : d.wf)
    (o1 o2 : Ordering) (h1 : orderCompareNonNull E a b = some o1) (h2 : orderCompareNonNull E b d = some o2)
    (n1 : o1 ≠ .gt) (n2 : o2 ≠ .gt) : orderCompareNonNull E a d = some (o1.then o2) := by
  rw [ocnn_num E _ _ ha hb, numCmpNanLast_exact _ _ ha hb wa wb] at h1
  rw [ocnn_num E _ _ hb hd, numCmpNanLast_exact _ _ hb hd wb wd] at h2
  rw [ocnn_num E _ _ ha hd, numCmpNanLast_exact _ _ ha hd wa wd]
  exact some_trans numF_laws a b d o1 o2 h1 h2 n1 n2

/-- node-like values compare by their id -/
def nodeKeyN : Value → Nat
  | .nodeId n => n
  | .externalId n => n
  | _ => 0

def isNodeish : Value → Bool
  | .nodeId _ | .externalId _ => true
  | _ => false

theorem ocnn_node (a b : Value) (ha : isNodeish a) (hb : isNodeish b) :
    orderCompareNonNull E a b = some (cmpNat (nodeKeyN a) (nodeKeyN b)) := by
  cases a <;> simp [isNodeish] at ha <;> cases b <;> simp [isNodeish] at hb <;>
    simp only [orderCompareNonNull, rank_ne_node, rank_ne_node', Bool.false_eq_true, if_false, nodeKeyN]

theorem node_trans (a b d : Value) (ha : isNodeish a) (hb : isNodeish b) (hd : isNodeish d)
    (o1 o2 : Ordering) (h1 : orderCompareNonNull E a b = some o1) (h2 : orderCompareNonNull E b d = some o2)
    (n1 : o1 ≠ .gt) (n2 : o2 ≠ .gt) : orderCompareNonNull E a d = some (o1.then o2) := by
  rw [ocnn_node E _ _ ha hb] at h1
  rw [ocnn_node E _ _ hb hd] at h2
  rw [ocnn_node E _ _ ha hd]
  exact some_trans cmpNat_laws _ _ _ o1 o2 h1 h2 n1 n2

/-- the hypothesis on strings: the engine's string comparison is transitive on the strings of the three values -/
def StrHyp (a b d : List Str) : Prop :=
  ∀ x ∈ a, ∀ y ∈ b, ∀ z ∈ d, Spec.transAt (strCmp E) x y z = true

theorem StrHyp.mono {a b d a' b' d' : List Str} (h : StrHyp E a b d) (ha : ∀ x ∈ a', x ∈ a) (hb : ∀ x ∈ b', x ∈ b)
    (hd : ∀ x ∈ d', x ∈ d) : StrHyp E a' b' d' :=
  fun x hx y hy z hz => h x (ha x hx) y (hb y hy) z (hd z hz)

theorem ocElem_trans (x y z : Value)
    (ih : ∀ o1 o2, orderCompareNonNull E x y = some o1 → orderCompareNonNull E y z = some o2 →
      o1 ≠ .gt → o2 ≠ .gt → orderCompareNonNull E x z = some (o1.then o2))
    (o1 o2 : Ordering) (h1 : ocElem E x y = some o1) (h2 : ocElem E y z = some o2) (n1 : o1 ≠ .gt) (n2 : o2 ≠ .gt) :
    ocElem E x z = some (o1.then o2) := by
  unfold ocElem at *
  by_cases hx : x = .null
  · subst hx
    by_cases hy : y = .null
    · subst hy
      by_cases hz : z = .null
      · subst hz; simp only [listElemOrdering, Option.some.injEq] at h1 h2 ⊢; subst h1 h2; rfl
      · cases z <;> simp only [listElemOrdering, Option.some.injEq] at h2 <;> first | exact absurd rfl hz | (subst h2; exact absurd rfl n2)
    · cases y <;> simp only [listElemOrdering, Option.some.injEq] at h1 <;> first | exact absurd rfl hy | (subst h1; exact absurd rfl n1)
  · by_cases hy : y = .null
    · subst hy
      have e1 : o1 = .lt := by
        cases x <;> simp only [listElemOrdering, Option.some.injEq] at h1 <;> first | exact absurd rfl hx | exact h1.symm
      subst e1
      by_cases hz : z = .null
      · subst hz
        simp only [listElemOrdering, Option.some.injEq] at h2; subst h2
        cases x <;> first | exact absurd rfl hx | rfl
      · cases z <;> simp only [listElemOrdering, Option.some.injEq] at h2 <;> first | exact absurd rfl hz | (subst h2; exact absurd rfl n2)
    · by_cases hz : z = .null
      · subst hz
        have e2 : o2 = .lt := by
          cases y <;> simp only [listElemOrdering, Option.some.injEq] at h2 <;> first | exact absurd rfl hy | exact h2.symm
        subst e2
        have : listElemOrdering x .null (orderCompareNonNull E x .null) = some .lt := by
          cases x <;> first | exact absurd rfl hx | rfl
        rw [this]; cases o1 <;> first | rfl | exact absurd rfl n1
      · have r1 : listElemOrdering x y (orderCompareNonNull E x y) = orderCompareNonNull E x y := by
          cases x <;> cases y <;> first | exact absurd rfl hx | exact absurd rfl hy | rfl
        have r2 : listElemOrdering y z (orderCompareNonNull E y z) = orderCompareNonNull E y z := by
          cases y <;> cases z <;> first | exact absurd rfl hy | exact absurd rfl hz | rfl
        have r3 : listElemOrdering x z (orderCompareNonNull E x z) = orderCompareNonNull E x z := by
          cases x <;> cases z <;> first | exact absurd rfl hx | exact absurd rfl hz | rfl
        rw [r1] at h1; rw [r2] at h2; rw [r3]
        exact ih o1 o2 h1 h2 n1 n2

theorem ocnn_path (n : List Nat) (e : List EKey) (n' : List Nat) (e' : List EKey) :
    orderCompareNonNull E (.path n e) (.path n' e') = some ((cmpNatList n n').then (cmpEKeyList e e')) := by
  simp only [orderCompareNonNull]
  cases cmpNatList n n' <;> simp [Ordering.then]

theorem ocnn_null_null : orderCompareNonNull E .null .null = some .eq := by rank_simp

theorem stringsOf_list_cons (x : Value) (xs : List Value) :
    Spec.stringsOf (.list (x :: xs)) = Spec.stringsOf x ++ Spec.stringsOf (.list xs) := by
  simp [Spec.stringsOf, Spec.stringsOf.stringsOfList]

open Spec in
mutual
theorem ocnn_trans : ∀ (a b d : Value), a.wf = true → b.wf = true → d.wf = true →
    StrHyp E (stringsOf a) (stringsOf b) (stringsOf d) →
    ∀ (o1 o2 : Ordering), orderCompareNonNull E a b = some o1 → orderCompareNonNull E b d = some o2 →
      o1 ≠ .gt → o2 ≠ .gt → orderCompareNonNull E a d = some (o1.then o2)
  | .list xs, b, d, wa, wb, wd, hS, o1, o2, h1, h2, n1, n2 => by
    by_cases hm : rank (.list xs) ≠ rank b ∨ rank b ≠ rank d
    · exact mixed_trans (orderCompareNonNull E) rank (ocnn_of_rank_ne E) _ _ _ hm _ _ h1 h2 n1 n2
    · have e1 : rank (.list xs) = rank b := by omega
      have e2 : rank b = rank d := by omega
      cases b <;> try (rank_absurd e1; done)
      cases d <;> try (rank_absurd e2; done)
      simp only [orderCompareNonNull] at h1 h2 ⊢
      exact clo_trans xs _ _ wa wb wd hS o1 o2 h1 h2 n1 n2
  | .map xs, b, d, wa, wb, wd, hS, o1, o2, h1, h2, n1, n2 => by
    by_cases hm : rank (.map xs) ≠ rank b ∨ rank b ≠ rank d
    · exact mixed_trans (orderCompareNonNull E) rank (ocnn_of_rank_ne E) _ _ _ hm _ _ h1 h2 n1 n2
    · have e1 : rank (.map xs) = rank b := by omega
      have e2 : rank b = rank d := by omega
      cases b <;> try (rank_absurd e1; done)
      cases d <;> try (rank_absurd e2; done)
      simp only [orderCompareNonNull] at h1 h2 ⊢
      exact dcmpMap_trans xs _ _ o1 o2 h1 h2 n1 n2
  | .null, b, d, wa, wb, wd, hS, o1, o2, h1, h2, n1, n2 => by
    by_cases hm : rank .null ≠ rank b ∨ rank b ≠ rank d
    · exact mixed_trans (orderCompareNonNull E) rank (ocnn_of_rank_ne E) _ _ _ hm _ _ h1 h2 n1 n2
    · have e1 : rank .null = rank b := by omega
      have e2 : rank b = rank d := by omega
      cases b <;> try (rank_absurd e1; done)
      cases d <;> try (rank_absurd e2; done)
      rw [ocnn_null_null] at h1 h2 ⊢
      simp only [Option.some.injEq] at h1 h2 ⊢; subst h1 h2; rfl
  | .bool x, b, d, wa, wb, wd, hS, o1, o2, h1, h2, n1, n2 => by
    by_cases hm : rank (.bool x) ≠ rank b ∨ rank b ≠ rank d
    · exact mixed_trans (orderCompareNonNull E) rank (ocnn_of_rank_ne E) _ _ _ hm _ _ h1 h2 n1 n2
    · have e1 : rank (.bool x) = rank b := by omega
      have e2 : rank b = rank d := by omega
      cases b <;> try (rank_absurd e1; done)
      cases d <;> try (rank_absurd e2; done)
      simp only [orderCompareNonNull] at h1 h2 ⊢
      exact some_trans cmpBool_laws _ _ _ o1 o2 h1 h2 n1 n2
  | .int x, b, d, wa, wb, wd, hS, o1, o2, h1, h2, n1, n2 => by
    by_cases hm : rank (.int x) ≠ rank b ∨ rank b ≠ rank d
    · exact mixed_trans (orderCompareNonNull E) rank (ocnn_of_rank_ne E) _ _ _ hm _ _ h1 h2 n1 n2
    · have e1 : rank (.int x) = rank b := by omega
      have e2 : rank b = rank d := by omega
      cases b <;> try (rank_absurd e1; done)
      all_goals (cases d <;> try (rank_absurd e2; done))
      all_goals exact num_trans E _ _ _ rfl rfl rfl wa wb wd o1 o2 h1 h2 n1 n2
  | .float x, b, d, wa, wb, wd, hS, o1, o2, h1, h2, n1, n2 => by
    by_cases hm : rank (.float x) ≠ rank b ∨ rank b ≠ rank d
    · exact mixed_trans (orderCompareNonNull E) rank (ocnn_of_rank_ne E) _ _ _ hm _ _ h1 h2 n1 n2
    · have e1 : rank (.float x) = rank b := by omega
      have e2 : rank b = rank d := by omega
      cases b <;> try (rank_absurd e1; done)
      all_goals (cases d <;> try (rank_absurd e2; done))
      all_goals exact num_trans E _ _ _ rfl rfl rfl wa wb wd o1 o2 h1 h2 n1 n2
  | .str x, b, d, wa, wb, wd, hS, o1, o2, h1, h2, n1, n2 => by
    by_cases hm : rank (.str x) ≠ rank b ∨ rank b ≠ rank d
    · exact mixed_trans (orderCompareNonNull E) rank (ocnn_of_rank_ne E) _ _ _ hm _ _ h1 h2 n1 n2
    · have e1 : rank (.str x) = rank b := by omega
      have e2 : rank b = rank d := by omega
      cases b <;> try (rank_absurd e1; done)
      cases d <;> try (rank_absurd e2; done)
      rename_i y z
      simp only [orderCompareNonNull, Option.some.injEq] at h1 h2 ⊢
      have := hS x (by simp [stringsOf]) y (by simp [stringsOf]) z (by simp [stringsOf])
      simp only [transAt, Bool.or_eq_true, beq_iff_eq] at this
      subst h1 h2
      rcases this with (h | h) | h
      · exact absurd h n1
      · exact absurd h n2
      · exact h
  | .nodeId x, b, d, wa, wb, wd, hS, o1, o2, h1, h2, n1, n2 => by
    by_cases hm : rank (.nodeId x) ≠ rank b ∨ rank b ≠ rank d
    · exact mixed_trans (orderCompareNonNull E) rank (ocnn_of_rank_ne E) _ _ _ hm _ _ h1 h2 n1 n2
    · have e1 : rank (.nodeId x) = rank b := by omega
      have e2 : rank b = rank d := by omega
      cases b <;> try (rank_absurd e1; done)
      all_goals (cases d <;> try (rank_absurd e2; done))
      all_goals exact node_trans E _ _ _ rfl rfl rfl o1 o2 h1 h2 n1 n2
  | .externalId x, b, d, wa, wb, wd, hS, o1, o2, h1, h2, n1, n2 => by
    by_cases hm : rank (.externalId x) ≠ rank b ∨ rank b ≠ rank d
    · exact mixed_trans (orderCompareNonNull E) rank (ocnn_of_rank_ne E) _ _ _ hm _ _ h1 h2 n1 n2
    · have e1 : rank (.externalId x) = rank b := by omega
      have e2 : rank b = rank d := by omega
      cases b <;> try (rank_absurd e1; done)
      all_goals (cases d <;> try (rank_absurd e2; done))
      all_goals exact node_trans E _ _ _ rfl rfl rfl o1 o2 h1 h2 n1 n2
  | .edgeKey x, b, d, wa, wb, wd, hS, o1, o2, h1, h2, n1, n2 => by
    by_cases hm : rank (.edgeKey x) ≠ rank b ∨ rank b ≠ rank d
    · exact mixed_trans (orderCompareNonNull E) rank (ocnn_of_rank_ne E) _ _ _ hm _ _ h1 h2 n1 n2
    · have e1 : rank (.edgeKey x) = rank b := by omega
      have e2 : rank b = rank d := by omega
      cases b <;> try (rank_absurd e1; done)
      cases d <;> try (rank_absurd e2; done)
      simp only [orderCompareNonNull] at h1 h2 ⊢
      exact some_trans cmpEKey_laws _ _ _ o1 o2 h1 h2 n1 n2
  | .dateTime x, b, d, wa, wb, wd, hS, o1, o2, h1, h2, n1, n2 => by
    by_cases hm : rank (.dateTime x) ≠ rank b ∨ rank b ≠ rank d
    · exact mixed_trans (orderCompareNonNull E) rank (ocnn_of_rank_ne E) _ _ _ hm _ _ h1 h2 n1 n2
    · have e1 : rank (.dateTime x) = rank b := by omega
      have e2 : rank b = rank d := by omega
      cases b <;> try (rank_absurd e1; done)
      cases d <;> try (rank_absurd e2; done)
      simp only [orderCompareNonNull] at h1 h2 ⊢
      exact some_trans cmpInt_laws _ _ _ o1 o2 h1 h2 n1 n2
  | .blob x, b, d, wa, wb, wd, hS, o1, o2, h1, h2, n1, n2 => by
    by_cases hm : rank (.blob x) ≠ rank b ∨ rank b ≠ rank d
    · exact mixed_trans (orderCompareNonNull E) rank (ocnn_of_rank_ne E) _ _ _ hm _ _ h1 h2 n1 n2
    · have e1 : rank (.blob x) = rank b := by omega
      have e2 : rank b = rank d := by omega
      cases b <;> try (rank_absurd e1; done)
      cases d <;> try (rank_absurd e2; done)
      simp only [orderCompareNonNull] at h1 h2 ⊢
      exact some_trans cmpBytes_laws _ _ _ o1 o2 h1 h2 n1 n2
  | .path n e, b, d, wa, wb, wd, hS, o1, o2, h1, h2, n1, n2 => by
    by_cases hm : rank (.path n e) ≠ rank b ∨ rank b ≠ rank d
    · exact mixed_trans (orderCompareNonNull E) rank (ocnn_of_rank_ne E) _ _ _ hm _ _ h1 h2 n1 n2
    · have e1 : rank (.path n e) = rank b := by omega
      have e2 : rank b = rank d := by omega
      cases b <;> try (rank_absurd e1; done)
      cases d <;> try (rank_absurd e2; done)
      rename_i n2' e2' n3 e3
      rw [ocnn_path] at h1 h2 ⊢
      exact some_trans path_cmp_laws (n, e) (n2', e2') (n3, e3) o1 o2 h1 h2 n1 n2
theorem clo_trans : ∀ (a b d : List Value), (Value.list a).wf = true → (Value.list b).wf = true →
    (Value.list d).wf = true →
    StrHyp E (stringsOf (.list a)) (stringsOf (.list b)) (stringsOf (.list d)) →
    ∀ (o1 o2 : Ordering), compareListsOrdering E a b = some o1 → compareListsOrdering E b d = some o2 →
      o1 ≠ .gt → o2 ≠ .gt → compareListsOrdering E a d = some (o1.then o2)
  | [], b, d, wa, wb, wd, hS, o1, o2, h1, h2, n1, n2 => by
    cases b <;> cases d <;> simp only [compareListsOrdering, Option.some.injEq] at h1 h2 ⊢ <;> subst h1 <;>
      first | rfl | (subst h2; first | rfl | exact absurd rfl n2)
  | x :: xs, b, d, wa, wb, wd, hS, o1, o2, h1, h2, n1, n2 => by
    cases b with
    | nil => simp only [compareListsOrdering, Option.some.injEq] at h1; subst h1; exact absurd rfl n1
    | cons y ys =>
      cases d with
      | nil => simp only [compareListsOrdering, Option.some.injEq] at h2; subst h2; exact absurd rfl n2
      | cons z zs =>
        rw [clo_cons] at h1 h2 ⊢
        simp only [wf, wfList, Bool.and_eq_true] at wa wb wd
        rw [stringsOf_list_cons, stringsOf_list_cons, stringsOf_list_cons] at hS
        have hS1 : StrHyp E (stringsOf x) (stringsOf y) (stringsOf z) :=
          hS.mono E (fun _ h => List.mem_append_left _ h) (fun _ h => List.mem_append_left _ h)
            (fun _ h => List.mem_append_left _ h)
        have hS2 : StrHyp E (stringsOf (.list xs)) (stringsOf (.list ys)) (stringsOf (.list zs)) :=
          hS.mono E (fun _ h => List.mem_append_right _ h) (fun _ h => List.mem_append_right _ h)
            (fun _ h => List.mem_append_right _ h)
        exact thenP_trans (ocElem_trans E x y z (ocnn_trans x y z wa.1 wb.1 wd.1 hS1))
          (clo_trans xs ys zs wa.2 wb.2 wd.2 hS2) o1 o2 h1 h2 n1 n2
end
end
end Nervus
