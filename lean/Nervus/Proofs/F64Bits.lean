/-
  Proofs.F64Bits — the IEEE-754 field decoding `F64.ofBits` is monotone in the sign-magnitude reading of the
  bit pattern: the key `OKey.fkey` of C27's Spec compares non-NaN doubles exactly as the dyadic model does
  (`fkey_cmp`).  Core only.
-/
import Nervus.Proofs.F64
import Nervus.Spec.OrderedValue
namespace Nervus
open F64

/-- magnitude (scaled by 2^1074) of the finite double whose low 63 bits are `g` -/
def mval (g : Nat) : Nat :=
  if g / 4503599627370496 = 0 then g % 4503599627370496
  else (4503599627370496 + g % 4503599627370496) * 2 ^ (g / 4503599627370496 - 1)

theorem mval_zero : mval 0 = 0 := by decide

theorem mval_lt {g1 g2 : Nat} (h : g1 < g2) : mval g1 < mval g2 := by
  have m1 : g1 % 4503599627370496 < 4503599627370496 := Nat.mod_lt g1 (by decide)
  have m2 : g2 % 4503599627370496 < 4503599627370496 := Nat.mod_lt g2 (by decide)
  have hE : g1 / 4503599627370496 ≤ g2 / 4503599627370496 := Nat.div_le_div_right (Nat.le_of_lt h)
  unfold mval
  by_cases e1 : g1 / 4503599627370496 = 0
  · by_cases e2 : g2 / 4503599627370496 = 0
    · rw [if_pos e1, if_pos e2]; omega
    · rw [if_pos e1, if_neg e2]
      have : 1 ≤ 2 ^ (g2 / 4503599627370496 - 1) := Nat.one_le_two_pow
      calc g1 % 4503599627370496 < 4503599627370496 := m1
        _ ≤ 4503599627370496 + g2 % 4503599627370496 := Nat.le_add_right _ _
        _ = (4503599627370496 + g2 % 4503599627370496) * 1 := (Nat.mul_one _).symm
        _ ≤ (4503599627370496 + g2 % 4503599627370496) * 2 ^ (g2 / 4503599627370496 - 1) :=
            Nat.mul_le_mul_left _ this
  · have e2 : ¬ g2 / 4503599627370496 = 0 := by omega
    rw [if_neg e1, if_neg e2]
    by_cases ee : g1 / 4503599627370496 = g2 / 4503599627370496
    · rw [ee]
      exact Nat.mul_lt_mul_of_pos_right (by omega) (Nat.two_pow_pos _)
    · have p1 : 2 ^ (g1 / 4503599627370496 - 1) * 2 ≤ 2 ^ (g2 / 4503599627370496 - 1) := by
        rw [← Nat.pow_succ]
        exact Nat.pow_le_pow_right (by decide) (by omega)
      calc (4503599627370496 + g1 % 4503599627370496) * 2 ^ (g1 / 4503599627370496 - 1)
          < (4503599627370496 * 2) * 2 ^ (g1 / 4503599627370496 - 1) :=
            Nat.mul_lt_mul_of_pos_right (by omega) (Nat.two_pow_pos _)
        _ = 4503599627370496 * (2 ^ (g1 / 4503599627370496 - 1) * 2) := by
            rw [Nat.mul_assoc, Nat.mul_comm 2]
        _ ≤ 4503599627370496 * 2 ^ (g2 / 4503599627370496 - 1) := Nat.mul_le_mul_left _ p1
        _ ≤ (4503599627370496 + g2 % 4503599627370496) * 2 ^ (g2 / 4503599627370496 - 1) :=
            Nat.mul_le_mul_right _ (Nat.le_add_right _ _)

theorem mval_pos {g : Nat} (h : 0 < g) : 0 < mval g := by
  have := mval_lt h; rw [mval_zero] at this; exact this

/-- the +∞ bit pattern (without sign) -/
def infPat : Nat := 0x7FF0000000000000

/-- decoding of a non-NaN bit pattern in terms of its sign bit and its low 63 bits -/
theorem ofBits_decode (b : Nat) (hb : b < 18446744073709551616) (hn : b % 9223372036854775808 ≤ 9218868437227405312) :
    tier (ofBits b) = (if b % 9223372036854775808 = 9218868437227405312 then
        (if 9223372036854775808 ≤ b then 0 else 2) else 1) ∧
    skey (ofBits b) = (if b % 9223372036854775808 = 9218868437227405312 then 0
      else if 9223372036854775808 ≤ b then -((mval (b % 9223372036854775808) : Nat) : Int)
      else ((mval (b % 9223372036854775808) : Nat) : Int)) := by
  have hs : (9223372036854775808 ≤ b % 18446744073709551616) = (9223372036854775808 ≤ b) := by
    rw [Nat.mod_eq_of_lt hb]
  have he : (b / 4503599627370496) % 2048 = (b % 9223372036854775808) / 4503599627370496 := by omega
  have hm : b % 4503599627370496 = (b % 9223372036854775808) % 4503599627370496 := by omega
  simp only [ofBits, two52, two63, two64, hs, he, hm]
  generalize hg : b % 9223372036854775808 = g at *
  by_cases hi : g = 9218868437227405312
  · subst hi
    by_cases hsgn : 9223372036854775808 ≤ b <;> simp [hsgn, tier, skey]
  · have e1 : ¬ g / 4503599627370496 = 2047 := by omega
    simp only [e1, hi, if_false]
    by_cases e0 : g / 4503599627370496 = 0
    · simp only [e0, if_true, tier, skey, key, mval, Nat.pow_zero, Nat.mul_one]
      by_cases hsgn : 9223372036854775808 ≤ b <;> simp [hsgn]
    · simp only [e0, if_false, tier, skey, key, mval]
      by_cases hsgn : 9223372036854775808 ≤ b <;> simp [hsgn]

theorem okey_isNaN_iff (b : Nat) : OKey.isNaN b = false ↔ b % 9223372036854775808 ≤ 9218868437227405312 := by
  unfold OKey.isNaN OKey.fmag OKey.two63
  constructor <;> intro h <;> simp at * <;> omega

theorem cmpInt_congr {x y x' y' : Int} (h1 : x < y ↔ x' < y') (h2 : x = y ↔ x' = y') :
    cmpInt x y = cmpInt x' y' := by
  unfold cmpInt
  by_cases a : x < y
  · rw [if_pos a, if_pos (h1.1 a)]
  · have a' : ¬ x' < y' := fun c => a (h1.2 c)
    rw [if_neg a, if_neg a']
    by_cases b : x = y
    · rw [if_pos b, if_pos (h2.1 b)]
    · have b' : ¬ x' = y' := fun c => b (h2.2 c)
      rw [if_neg b, if_neg b']

/-- **C27 link**: the sign-magnitude key of C27's Spec orders non-NaN doubles exactly as the dyadic model
    does, and identifies exactly the IEEE-equal ones (±0.0) -/
theorem fkey_cmp (a b : Nat) (ha : a < 18446744073709551616) (hb : b < 18446744073709551616)
    (na : OKey.isNaN a = false) (nb : OKey.isNaN b = false) :
    cmpTK (ofBits a) (ofBits b) = cmpInt (OKey.fkey a) (OKey.fkey b) := by
  rw [okey_isNaN_iff] at na nb
  obtain ⟨ta, ka⟩ := ofBits_decode a ha na
  obtain ⟨tb, kb⟩ := ofBits_decode b hb nb
  rw [cmpTK_eq, ta, tb, ka, kb]
  simp only [OKey.fkey, OKey.fmag, OKey.two63]
  generalize hga : a % 9223372036854775808 = ga at *
  generalize hgb : b % 9223372036854775808 = gb at *
  have za : ga = 0 → ((mval ga : Nat) : Int) = 0 := fun h => by rw [h, mval_zero]; rfl
  have zb : gb = 0 → ((mval gb : Nat) : Int) = 0 := fun h => by rw [h, mval_zero]; rfl
  have pa : 0 < ga → (0 : Int) < ((mval ga : Nat) : Int) := fun h => Int.ofNat_lt.2 (mval_pos h)
  have pb : 0 < gb → (0 : Int) < ((mval gb : Nat) : Int) := fun h => Int.ofNat_lt.2 (mval_pos h)
  have m1 : ga < gb → ((mval ga : Nat) : Int) < ((mval gb : Nat) : Int) := fun h => Int.ofNat_lt.2 (mval_lt h)
  have m2 : gb < ga → ((mval gb : Nat) : Int) < ((mval ga : Nat) : Int) := fun h => Int.ofNat_lt.2 (mval_lt h)
  have m3 : ga = gb → ((mval ga : Nat) : Int) = ((mval gb : Nat) : Int) := fun h => by rw [h]
  generalize ((mval ga : Nat) : Int) = va at *
  generalize ((mval gb : Nat) : Int) = vb at *
  clear ta tb ka kb hga hgb
  by_cases ia : ga = 9218868437227405312 <;> by_cases ib : gb = 9218868437227405312 <;>
    by_cases sa : 9223372036854775808 ≤ a <;> by_cases sb : 9223372036854775808 ≤ b <;>
    simp only [ia, ib, sa, sb, if_true, if_false, cmpNat, Nat.lt_irrefl, Ordering.then,
      show (0:Nat) < 1 from by decide, show (0:Nat) < 2 from by decide, show (1:Nat) < 2 from by decide,
      show ¬ (1:Nat) < 0 from by decide, show ¬ (2:Nat) < 0 from by decide, show ¬ (2:Nat) < 1 from by decide,
      show ¬ (0:Nat) = 2 from by decide, show ¬ (2:Nat) = 0 from by decide, show ¬ (1:Nat) = 0 from by decide,
      show ¬ (0:Nat) = 1 from by decide, show ¬ (1:Nat) = 2 from by decide, show ¬ (2:Nat) = 1 from by decide] <;>
    first
      | (apply cmpInt_congr <;> omega)
      | (symm; rw [cmpInt_lt]; omega)
      | (symm; rw [cmpInt_gt]; omega)
      | (symm; rw [cmpInt_eq]; omega)
theorem ofBits_not_nan (b : Nat) (hb : b < 18446744073709551616) (hn : OKey.isNaN b = false) :
    (ofBits b).isNaN = false := by
  have h := (ofBits_decode b hb ((okey_isNaN_iff b).1 hn)).1
  cases hx : ofBits b with
  | nan =>
    rw [hx] at h
    simp only [tier] at h
    by_cases c1 : b % 9223372036854775808 = 9218868437227405312
    · by_cases c2 : 9223372036854775808 ≤ b <;> simp [c1, c2] at h
    · simp [c1] at h
  | inf _ => rfl
  | fin _ _ _ => rfl

/-- the Spec order of C27 on non-NaN doubles is `F64.lt` -/
theorem fkey_lt_iff (a b : Nat) (ha : a < 18446744073709551616) (hb : b < 18446744073709551616)
    (na : OKey.isNaN a = false) (nb : OKey.isNaN b = false) :
    OKey.fkey a < OKey.fkey b ↔ F64.lt (ofBits a) (ofBits b) = true := by
  have h := fkey_cmp a b ha hb na nb
  simp only [F64.lt, F64.cmp, ofBits_not_nan a ha na, ofBits_not_nan b hb nb, Bool.or_self, Bool.false_eq_true,
    if_false, h]
  rw [← cmpInt_lt]
  cases cmpInt (OKey.fkey a) (OKey.fkey b) <;> simp

/-- the Spec equality of C27 on non-NaN doubles is IEEE `==` (`F64.eqv`) -/
theorem fkey_eq_iff (a b : Nat) (ha : a < 18446744073709551616) (hb : b < 18446744073709551616)
    (na : OKey.isNaN a = false) (nb : OKey.isNaN b = false) :
    OKey.fkey a = OKey.fkey b ↔ F64.eqv (ofBits a) (ofBits b) = true := by
  have h := fkey_cmp a b ha hb na nb
  simp only [F64.eqv, F64.cmp, ofBits_not_nan a ha na, ofBits_not_nan b hb nb, Bool.or_self, Bool.false_eq_true,
    if_false, h]
  rw [← cmpInt_eq]
  cases cmpInt (OKey.fkey a) (OKey.fkey b) <;> simp

end Nervus
