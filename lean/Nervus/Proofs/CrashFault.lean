/-
  Proofs.CrashFault — an injected I/O error at step k of a program: which steps were performed,
  what the error path did, which memory updates happened; applied to the log phase of a commit.
-/
import Nervus.Proofs.CrashMain
namespace Nervus.Crash

/-- the error-path steps of the k-th I/O action -/
def onFailAt : List Action → Nat → List Step
  | [], _ => []
  | .io _ f :: _, 0 => f
  | .io _ _ :: rest, k + 1 => onFailAt rest k
  | .fail _ :: _, _ => []
  | .mem _ :: rest, k => onFailAt rest k

/-- the memory updates performed before the k-th I/O action -/
def memBefore : List Action → Nat → List MemUpd
  | [], _ => []
  | .io _ _ :: _, 0 => []
  | .io _ _ :: rest, k + 1 => memBefore rest k
  | .fail _ :: _, _ => []
  | .mem u :: rest, k => u :: memBefore rest k

theorem runActs_fault (acts : List Action) (k n : Nat) (fs : FS) (m : Mem) (log : List Step)
    (hk : n ≤ k) (hlt : k - n < (ioSteps acts).length) :
    (runActs acts (.faultAt k) n fs m log).err = some .io ∧
    (runActs acts (.faultAt k) n fs m log).dead = false ∧
    (runActs acts (.faultAt k) n fs m log).fs = (fs.steps ((ioSteps acts).take (k - n))).steps (onFailAt acts (k - n)) ∧
    (runActs acts (.faultAt k) n fs m log).mem = (memBefore acts (k - n)).foldl applyUpd m := by
  induction acts generalizing n fs m log with
  | nil => simp [ioSteps] at hlt
  | cons a acts ih =>
    cases a with
    | io s f =>
      simp only [runActs]
      by_cases hnk : n = k
      · subst hnk; simp [FS.steps, onFailAt, memBefore, ioSteps]
      · simp only [hnk, if_false]
        have h1 : k - n = (k - (n + 1)) + 1 := by omega
        have := ih (n + 1) (fs.step s) m (s :: log) (by omega) (by simp [ioSteps] at hlt; omega)
        rw [h1]
        simpa [ioSteps, FS.steps, onFailAt, memBefore] using this
    | mem u =>
      have := ih n fs (applyUpd m u) log hk (by simpa [ioSteps] using hlt)
      simpa [runActs, ioSteps, onFailAt, memBefore] using this
    | fail e => simp [ioSteps] at hlt

theorem run_fault (acts : List Action) (k : Nat) (fs : FS) (m : Mem) (hlt : k < (ioSteps acts).length) :
    (run acts (.faultAt k) fs m).err = some .io ∧
    (run acts (.faultAt k) fs m).fs = (fs.steps ((ioSteps acts).take k)).steps (onFailAt acts k) ∧
    (run acts (.faultAt k) fs m).mem = (memBefore acts k).foldl applyUpd m := by
  have := runActs_fault acts k 0 fs m [] (Nat.zero_le _) (by simpa using hlt)
  simpa [run] using ⟨this.1, this.2.2.1, this.2.2.2⟩

theorem onFailAt_append_left (a b : List Action) (k : Nat) (h : k < (ioSteps a).length) :
    onFailAt (a ++ b) k = onFailAt a k := by
  induction a generalizing k with
  | nil => simp [ioSteps] at h
  | cons x a ih =>
    cases x with
    | io s f =>
      cases k with
      | zero => rfl
      | succ k => simpa [onFailAt] using ih k (by simpa [ioSteps] using h)
    | mem u => simpa [onFailAt] using ih k (by simpa [ioSteps] using h)
    | fail e => simp [ioSteps] at h

theorem onFailAt_append_right (a b : List Action) (k : Nat) (hf : failOf a = none) :
    onFailAt (a ++ b) ((ioSteps a).length + k) = onFailAt b k := by
  induction a with
  | nil => simp [ioSteps]
  | cons x a ih =>
    cases x with
    | io s f =>
      have := ih (by simpa [failOf] using hf)
      simp only [List.cons_append, ioSteps, List.length_cons]
      rw [show (ioSteps a).length + 1 + k = ((ioSteps a).length + k) + 1 by omega]
      simpa [onFailAt] using this
    | mem u => simpa [onFailAt, ioSteps] using ih (by simpa [failOf] using hf)
    | fail e => simp [failOf] at hf

theorem memBefore_append_left (a b : List Action) (k : Nat) (h : k < (ioSteps a).length) :
    memBefore (a ++ b) k = memBefore a k := by
  induction a generalizing k with
  | nil => simp [ioSteps] at h
  | cons x a ih =>
    cases x with
    | io s f =>
      cases k with
      | zero => rfl
      | succ k => simpa [memBefore] using ih k (by simpa [ioSteps] using h)
    | mem u => simpa [memBefore] using ih k (by simpa [ioSteps] using h)
    | fail e => simp [ioSteps] at h

theorem memBefore_append_right (a b : List Action) (k : Nat) (hf : failOf a = none) :
    memBefore (a ++ b) ((ioSteps a).length + k) = memUpds a ++ memBefore b k := by
  induction a with
  | nil => simp [ioSteps, memUpds]
  | cons x a ih =>
    cases x with
    | io s f =>
      have := ih (by simpa [failOf] using hf)
      simp only [List.cons_append, ioSteps, List.length_cons, memUpds]
      rw [show (ioSteps a).length + 1 + k = ((ioSteps a).length + k) + 1 by omega]
      simpa [memBefore] using this
    | mem u => simpa [memBefore, ioSteps, memUpds] using ih (by simpa [failOf] using hf)
    | fail e => simp [failOf] at hf

/-! ### the error paths of the log phase of a commit -/

theorem appendA_nocut_eq (cfg : Cfg) (ws : WS) (r : Rec) (ho : ws.isOpen = true)
    (hc : (cfg.tailTolerant && !ws.checked) = false) :
    (appendA cfg ws r).1 = [.io (.ww (.len r)) (if cfg.walRollback then [Step.wt ws.len] else []),
        .io (.ww (.crc r)) (if cfg.walRollback then [Step.wt ws.len] else []),
        .io (.ww (.body r)) (if cfg.walRollback then [Step.wt ws.len] else [])] ∧
    (appendA cfg ws r).2 = { ws with len := ws.len + 3 } := by
  simp [appendA, ho, hc]

/-- without a tail cut, the error path of every fragment write of record `i` restores the start of
    that record, and no memory update happens in between -/
theorem onFail_appendsA_nocut (cfg : Cfg) : ∀ (recs : List Rec) (ws : WS) (i f : Nat), ws.isOpen = true →
    (cfg.tailTolerant && !ws.checked) = false → i < recs.length → f < 3 →
    onFailAt (appendsA cfg ws recs).1 (3 * i + f) = (if cfg.walRollback then [Step.wt (ws.len + 3 * i)] else []) ∧
    memBefore (appendsA cfg ws recs).1 (3 * i + f) = []
  | [], _, i, _, _, _, hi, _ => by simp at hi
  | r :: recs, ws, i, f, ho, hc, hi, hf => by
    obtain ⟨ha, hw⟩ := appendA_nocut_eq cfg ws r ho hc
    have hstep : ioSteps (appendA cfg ws r).1 = [.ww (.len r), .ww (.crc r), .ww (.body r)] := by rw [ha]; rfl
    have hfail : failOf (appendA cfg ws r).1 = none := by rw [ha]; rfl
    show onFailAt ((appendA cfg ws r).1 ++ (appendsA cfg (appendA cfg ws r).2 recs).1) (3 * i + f) = _ ∧
      memBefore ((appendA cfg ws r).1 ++ (appendsA cfg (appendA cfg ws r).2 recs).1) (3 * i + f) = _
    cases i with
    | zero =>
      have hlt : 3 * 0 + f < (ioSteps (appendA cfg ws r).1).length := by rw [hstep]; simpa using hf
      rw [onFailAt_append_left _ _ _ hlt, memBefore_append_left _ _ _ hlt, ha]
      have : f = 0 ∨ f = 1 ∨ f = 2 := by omega
      rcases this with rfl | rfl | rfl <;> simp [onFailAt, memBefore]
    | succ i =>
      have h1 : (appendA cfg ws r).2.isOpen = true := by rw [hw]; exact ho
      have h2 : (cfg.tailTolerant && !(appendA cfg ws r).2.checked) = false := by rw [hw]; exact hc
      obtain ⟨i1, i2⟩ := onFail_appendsA_nocut cfg recs (appendA cfg ws r).2 i f h1 h2 (by simpa using hi) hf
      have hidx : 3 * (i + 1) + f = (ioSteps (appendA cfg ws r).1).length + (3 * i + f) := by rw [hstep]; simp; omega
      rw [hidx, onFailAt_append_right _ _ _ hfail, memBefore_append_right _ _ _ hfail, i1, i2, hw]
      have hm : memUpds (appendA cfg ws r).1 = [] := by rw [ha]; rfl
      rw [hm]
      refine ⟨?_, rfl⟩
      by_cases hr : cfg.walRollback = true <;> simp [hr] <;> omega

/-- the log after the first `3*i` fragments of the records, then cut back to the start of record `i` -/
theorem take_take_frames (wf : List Frag) (l : List Frag) (k i : Nat) (hik : 3 * i ≤ k) :
    (wf ++ l.take k).take (wf.length + 3 * i) = wf ++ l.take (3 * i) := by
  rw [List.take_append, List.take_of_length_le (by omega), List.take_take]
  congr 2
  omega

/-- no tail cut is pending on this handle (always the case unless C17's repair is in the tree and
    this is the first append through the handle) -/
def NoCut (cfg : Cfg) (m : Mem) : Prop := (cfg.tailTolerant && !m.tailChecked) = false

/-- **a commit that fails in its log phase**: the error is reported, memory is untouched except for
    the transaction counter, and the files are back to a log whose every crash image represents
    `T` — nothing of the transaction can surface later. -/
theorem failed_commit_wal {cfg : Cfg} {T : List Tx} {fs : FS} {m : Mem} {cs : List CTx} {c : Nat}
    (hroll : cfg.walRollback = true) (h : InvOpen T fs m cs c) (hnc : NoCut cfg m)
    (hclean : validLen fs.wf = fs.wf.length) (tx : Tx) (hf : FreshTx T tx) (k : Nat)
    (hk : k ≤ 3 * (txRecs m.nextTxid m.idLen tx).length) :
    let out := run (commitA cfg m fs.pv fs.wf tx) (.faultAt k) fs m
    out.err = some .io ∧ out.mem = { m with nextTxid := m.nextTxid + 1 } ∧ SafeFS [T] out.fs ∧
    ((k < 3 ∨ k = 3 * (txRecs m.nextTxid m.idLen tx).length) →
      InvOpen T out.fs out.mem cs c ∧ validLen out.fs.wf = out.fs.wf.length) := by
  intro out
  obtain ⟨hS, hfailNone⟩ := commitA_steps cfg m fs.pv fs.wf tx h.mwal
  have hws : (m.ws fs.wf).isOpen = true := h.mwal
  have hcutf : (cfg.tailTolerant && !(m.ws fs.wf).checked) = false := hnc
  have hcs : cutSteps cfg (m.ws fs.wf) = [] := by simp [cutSteps, hcutf]
  rw [hcs, List.nil_append] at hS
  generalize hrecs : txRecs m.nextTxid m.idLen tx = recs at hS hk
  have hR : recs.length = (body m.idLen tx).length + 2 := by rw [← hrecs, txRecs_eq]; simp
  obtain ⟨i1, i2, i3, i4⟩ := appendsA_nocut cfg recs (m.ws fs.wf) hws hcutf
  have hlenS : k < (ioSteps (commitA cfg m fs.pv fs.wf tx)).length := by
    rw [hS]; simp [frames_length]; omega
  obtain ⟨e1, e2, e3⟩ := run_fault (commitA cfg m fs.pv fs.wf tx) k fs m hlenS
  -- the action list, split at the log sync
  have hacts : ∃ tl : List Action, onFailAt tl 0 = [Step.wt fs.wf.length] ∧ memBefore tl 0 = [] ∧
      commitA cfg m fs.pv fs.wf tx = memA .bumpTxid :: ((appendsA cfg (m.ws fs.wf) recs).1 ++ tl) := by
    refine ⟨[Action.io .ws [Step.wt fs.wf.length]] ++
          ((nodesA cfg (m.ps fs.pv) { start := m.idStart, len := m.idLen } tx.nodes).1 ++
            ((if tx.edges.isEmpty && tx.props.isEmpty then []
              else [memA (.pushRun { txid := m.nextTxid, edges := tx.edges, props := tx.props })]) ++ [memA .bumpTxid])), rfl, rfl, ?_⟩
    unfold commitA
    simp only [hrecs, i4, if_true, hroll, hcutf, List.append_assoc]
    rfl
  obtain ⟨tl, htl0, htlm, hacts⟩ := hacts
  have hioAw : (ioSteps (appendsA cfg (m.ws fs.wf) recs).1).length = 3 * recs.length := by
    rw [i1, List.length_map, frames_length]
  -- error path and memory at the fault
  have hof : (k < 3 * recs.length ∧ onFailAt (commitA cfg m fs.pv fs.wf tx) k = [Step.wt (fs.wf.length + 3 * (k / 3))]) ∨
      (k = 3 * recs.length ∧ onFailAt (commitA cfg m fs.pv fs.wf tx) k = [Step.wt fs.wf.length]) := by
    rw [hacts]
    show (_ ∧ onFailAt ((appendsA cfg (m.ws fs.wf) recs).1 ++ tl) k = _) ∨ (_ ∧ onFailAt ((appendsA cfg (m.ws fs.wf) recs).1 ++ tl) k = _)
    by_cases hlt : k < 3 * recs.length
    · left
      refine ⟨hlt, ?_⟩
      rw [onFailAt_append_left _ _ _ (by rw [hioAw]; exact hlt)]
      have := (onFail_appendsA_nocut cfg recs (m.ws fs.wf) (k / 3) (k % 3) hws hcutf (by omega) (by omega)).1
      rw [show 3 * (k / 3) + k % 3 = k by omega] at this
      rw [this, hroll]
      rfl
    · right
      have hke : k = 3 * recs.length := by omega
      refine ⟨hke, ?_⟩
      have := onFailAt_append_right (appendsA cfg (m.ws fs.wf) recs).1 tl 0 i2
      rw [hioAw, Nat.add_zero] at this
      rw [hke, this, htl0]
  have hmb : memBefore (commitA cfg m fs.pv fs.wf tx) k = [MemUpd.bumpTxid] := by
    rw [hacts]
    show MemUpd.bumpTxid :: memBefore ((appendsA cfg (m.ws fs.wf) recs).1 ++ tl) k = _
    by_cases hlt : k < 3 * recs.length
    · rw [memBefore_append_left _ _ _ (by rw [hioAw]; exact hlt)]
      have := (onFail_appendsA_nocut cfg recs (m.ws fs.wf) (k / 3) (k % 3) hws hcutf (by omega) (by omega)).2
      rw [show 3 * (k / 3) + k % 3 = k by omega] at this
      rw [this]
    · have hke : k = 3 * recs.length := by omega
      have := memBefore_append_right (appendsA cfg (m.ws fs.wf) recs).1 tl 0 i2
      rw [hioAw, Nat.add_zero] at this
      rw [hke, this, i3]
      rw [htlm]; rfl
  -- the files after the fault: the log is cut back to the start of record k/3 (or of the transaction)
  have htake : (ioSteps (commitA cfg m fs.pv fs.wf tx)).take k = ((frames recs).map Step.ww).take k := by
    rw [hS, List.take_append_of_le_length (by rw [List.length_map, frames_length]; exact hk)]
  obtain ⟨j, hj, hfsw⟩ : ∃ j, 3 * j ≤ k ∧ (j < recs.length ∧ (k < 3 ∨ k = 3 * recs.length → j = 0)) ∧
      out.fs = (fs.steps (((frames recs).map Step.ww).take k)).step (.wt (fs.wf.length + 3 * j)) := by
    rcases hof with ⟨hlt, hof⟩ | ⟨hke, hof⟩
    · exact ⟨k / 3, by omega, ⟨by omega, by intro hq; omega⟩, by show (run _ _ _ _).fs = _; rw [e2, htake, hof]; rfl⟩
    · exact ⟨0, by omega, ⟨by omega, fun _ => rfl⟩, by show (run _ _ _ _).fs = _; rw [e2, htake, hof]; rfl⟩
  obtain ⟨⟨hjR, hj0⟩, hfsw⟩ := hfsw
  rw [← List.map_take] at hfsw
  obtain ⟨hw, hd, hr, hpd, hpj⟩ := steps_ww fs ((frames recs).take k)
  have hwf' : out.fs.wf = fs.wf ++ (frames recs).take (3 * j) := by
    rw [hfsw]; simp only [FS.step, hw]; exact take_take_frames fs.wf (frames recs) k j hj
  have hwd' : out.fs.wdur = fs.wf.length := by
    rw [hfsw]; simp only [FS.step, hd, h.quiet.wdur]; omega
  have hren' : out.fs.ren = none := by rw [hfsw]; simp only [FS.step]; rw [hr]; exact h.quiet.ren
  have hpj' : out.fs.pj = [] := by rw [hfsw]; simp only [FS.step]; rw [hpj]; exact h.pj
  have hpd' : out.fs.pd = fs.pd := by rw [hfsw]; simp only [FS.step]; exact hpd
  have hmem : out.mem = { m with nextTxid := m.nextTxid + 1 } := by
    show (run _ _ _ _).mem = _
    rw [e3, hmb]; rfl
  have hrlp := fun jj => rep_log_prefix hclean h.com h.log h.pager m.nextTxid tx h.mtxid hf jj
  rw [← h.mlen, hrecs] at hrlp
  refine ⟨e1, hmem, ?_, ?_⟩
  · intro mode
    refine ⟨T, by simp, ?_⟩
    have hP : out.fs.crashP mode = fs.pd := by
      have := crashP_isImg out.fs mode
      rw [hpj', hpd'] at this
      exact isImg_nil _ _ this
    rw [hP]
    cases mode with
    | proc =>
      show Rep T fs.pd out.fs.wf
      rw [hwf']
      exact (hrlp (3 * j)).1 (by omega)
    | power sel wk lose =>
      simp only [FS.crashW, hren', hwf', hwd']
      rw [List.take_append, List.take_of_length_le (by omega), List.take_take]
      exact (hrlp (min (fs.wf.length + wk - fs.wf.length) (3 * j))).1 (by omega)
  · intro hq
    have hwfEq : out.fs.wf = fs.wf := by
      rw [hwf', hj0 hq]; simp
    refine ⟨{ pj := hpj', quiet := ⟨by rw [hwd', hwfEq], hren'⟩, com := by rw [hwfEq]; exact h.com, log := h.log,
              pager := by rw [hpd']; exact h.pager, full := by rw [hpd']; exact h.full,
              mpm := by rw [hmem, hpd']; exact h.mpm, mlen := by rw [hmem]; exact h.mlen,
              mstart := by rw [hmem, hpd']; exact h.mstart, mexts := by rw [hmem]; exact h.mexts,
              mruns := by rw [hmem]; exact h.mruns, msegs := by rw [hmem]; exact h.msegs,
              mroot := by rw [hmem]; exact h.mroot,
              mtxid := by rw [hmem]; show _ < m.nextTxid + 1; have := h.mtxid; omega,
              mwal := by rw [hmem]; exact h.mwal }, by rw [hwfEq]; exact hclean⟩

end Nervus.Crash
