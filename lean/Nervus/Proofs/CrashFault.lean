/-
  Proofs.CrashFault — an injected I/O error at step k of a program: which steps were performed,
  what the error path did, which memory updates happened; applied to the log phase of a commit.
-/
import Nervus.Proofs.CrashMain
namespace Nervus.Crash

/-! ### the error paths of the log phase of a commit -/

theorem appendA_nocut_eq (cfg : Cfg) (ws : WS) (r : Rec) (ho : ws.isOpen = true)
    (hc : (cfg.tailTolerant && !ws.checked) = false) :
    (appendA cfg ws r).1 = [.io (.ww (.len r)) (if cfg.walRollback then [Step.wt ws.len] else []),
        .io (.ww (.crc r)) (if cfg.walRollback then [Step.wt ws.len] else []),
        .io (.ww (.body r)) (if cfg.walRollback then [Step.wt ws.len] else [])] ∧
    (appendA cfg ws r).2 = { ws with len := ws.len + 3 } := by
  simp [appendA, ho, hc]

/-- without a tail cut, the error path of every fragment write of record `i` restores the start of
    that record, and no memory update happens in between -/
theorem onFail_appendsA_nocut (cfg : Cfg) : ∀ (recs : List Rec) (ws : WS) (i f : Nat), ws.isOpen = true →
    (cfg.tailTolerant && !ws.checked) = false → i < recs.length → f < 3 →
    onFailAt (appendsA cfg ws recs).1 (3 * i + f) = (if cfg.walRollback then [Step.wt (ws.len + 3 * i)] else []) ∧
    memBefore (appendsA cfg ws recs).1 (3 * i + f) = []
  | [], _, i, _, _, _, hi, _ => by simp at hi
  | r :: recs, ws, i, f, ho, hc, hi, hf => by
    obtain ⟨ha, hw⟩ := appendA_nocut_eq cfg ws r ho hc
    have hstep : ioSteps (appendA cfg ws r).1 = [.ww (.len r), .ww (.crc r), .ww (.body r)] := by rw [ha]; rfl
    have hfail : failOf (appendA cfg ws r).1 = none := by rw [ha]; rfl
    show onFailAt ((appendA cfg ws r).1 ++ (appendsA cfg (appendA cfg ws r).2 recs).1) (3 * i + f) = _ ∧
      memBefore ((appendA cfg ws r).1 ++ (appendsA cfg (appendA cfg ws r).2 recs).1) (3 * i + f) = _
    cases i with
    | zero =>
      have hlt : 3 * 0 + f < (ioSteps (appendA cfg ws r).1).length := by rw [hstep]; simpa using hf
      rw [onFailAt_append_left _ _ _ hlt, memBefore_append_left _ _ _ hlt, ha]
      have : f = 0 ∨ f = 1 ∨ f = 2 := by omega
      rcases this with rfl | rfl | rfl <;> simp [onFailAt, memBefore]
    | succ i =>
      have h1 : (appendA cfg ws r).2.isOpen = true := by rw [hw]; exact ho
      have h2 : (cfg.tailTolerant && !(appendA cfg ws r).2.checked) = false := by rw [hw]; exact hc
      obtain ⟨i1, i2⟩ := onFail_appendsA_nocut cfg recs (appendA cfg ws r).2 i f h1 h2 (by simpa using hi) hf
      have hidx : 3 * (i + 1) + f = (ioSteps (appendA cfg ws r).1).length + (3 * i + f) := by rw [hstep]; simp; omega
      rw [hidx, onFailAt_append_right _ _ _ hfail, memBefore_append_right _ _ _ hfail, i1, i2, hw]
      have hm : memUpds (appendA cfg ws r).1 = [] := by rw [ha]; rfl
      rw [hm]
      refine ⟨?_, rfl⟩
      by_cases hr : cfg.walRollback = true <;> simp [hr] <;> omega

/-! ### the appended records as actions (with their error paths) -/

/-- the three fragment writes of each record; on failure the start of that record is restored -/
def wwActs (cfg : Cfg) : Nat → List Rec → List Action
  | _, [] => []
  | start, r :: rs =>
    [.io (.ww (.len r)) (if cfg.walRollback then [Step.wt start] else []),
     .io (.ww (.crc r)) (if cfg.walRollback then [Step.wt start] else []),
     .io (.ww (.body r)) (if cfg.walRollback then [Step.wt start] else [])] ++ wwActs cfg (start + 3) rs

theorem appendsA_eq_wwActs (cfg : Cfg) : ∀ (recs : List Rec) (ws : WS), ws.isOpen = true →
    (cfg.tailTolerant && !ws.checked) = false → (appendsA cfg ws recs).1 = wwActs cfg ws.len recs
  | [], _, _, _ => rfl
  | r :: recs, ws, ho, hc => by
    obtain ⟨ha, hw⟩ := appendA_nocut_eq cfg ws r ho hc
    have ih := appendsA_eq_wwActs cfg recs (appendA cfg ws r).2 (by rw [hw]; exact ho) (by rw [hw]; exact hc)
    show (appendA cfg ws r).1 ++ (appendsA cfg (appendA cfg ws r).2 recs).1 = _
    rw [ih, ha, hw]
    rfl

/-- the tail cut of the first append through a handle, as actions -/
def cutActs (cfg : Cfg) (ws : WS) : List Action :=
  if (cfg.tailTolerant && !ws.checked) = true then
    (if ws.valid < ws.len then [ioA (.wt ws.valid)] else []) ++ [memA .tailChecked]
  else []

/-- where the records start after the cut -/
def startOf (cfg : Cfg) (ws : WS) : Nat :=
  if (cfg.tailTolerant && !ws.checked) = true then min ws.len ws.valid else ws.len

theorem appendsA_eq (cfg : Cfg) (r : Rec) (recs : List Rec) (ws : WS) (ho : ws.isOpen = true) :
    (appendsA cfg ws (r :: recs)).1 = cutActs cfg ws ++ wwActs cfg (startOf cfg ws) (r :: recs) := by
  by_cases hc : (cfg.tailTolerant && !ws.checked) = true
  · have h1 : (appendA cfg ws r).2.isOpen = true := by simp [appendA, ho]
    have h2 : (cfg.tailTolerant && !(appendA cfg ws r).2.checked) = false := by
      have : (appendA cfg ws r).2.checked = true := by simp [appendA, ho, hc]
      simp [this]
    have hlen : (appendA cfg ws r).2.len = min ws.len ws.valid + 3 := by simp [appendA, ho, hc]
    show (appendA cfg ws r).1 ++ (appendsA cfg (appendA cfg ws r).2 recs).1 = _
    rw [appendsA_eq_wwActs cfg recs _ h1 h2, hlen]
    simp only [cutActs, startOf, hc, if_true, wwActs]
    by_cases hv : ws.valid < ws.len <;> simp [appendA, ho, hc, hv]
  · have hc' : (cfg.tailTolerant && !ws.checked) = false := by simpa using hc
    rw [appendsA_eq_wwActs cfg (r :: recs) ws ho hc']
    simp [cutActs, startOf, hc']

theorem ioSteps_wwActs (cfg : Cfg) : ∀ (start : Nat) (recs : List Rec),
    ioSteps (wwActs cfg start recs) = (frames recs).map Step.ww ∧ failOf (wwActs cfg start recs) = none ∧
    memUpds (wwActs cfg start recs) = []
  | _, [] => ⟨rfl, rfl, rfl⟩
  | start, r :: rs => by
    obtain ⟨h1, h2, h3⟩ := ioSteps_wwActs cfg (start + 3) rs
    simp [wwActs, ioSteps, failOf, memUpds, frames, h1, h2, h3]

theorem onFail_wwActs (cfg : Cfg) : ∀ (recs : List Rec) (start i f : Nat), i < recs.length → f < 3 →
    onFailAt (wwActs cfg start recs) (3 * i + f) = (if cfg.walRollback then [Step.wt (start + 3 * i)] else []) ∧
    memBefore (wwActs cfg start recs) (3 * i + f) = []
  | [], _, i, _, hi, _ => by simp at hi
  | r :: recs, start, 0, f, _, hf => by
    have : f = 0 ∨ f = 1 ∨ f = 2 := by omega
    rcases this with rfl | rfl | rfl <;> simp [wwActs, onFailAt, memBefore]
  | r :: recs, start, i + 1, f, hi, hf => by
    obtain ⟨h1, h2⟩ := onFail_wwActs cfg recs (start + 3) i f (by simpa using hi) hf
    have hidx : 3 * (i + 1) + f = (3 * i + f) + 3 := by omega
    rw [hidx]
    simp only [wwActs, List.cons_append, List.nil_append, onFailAt, memBefore]
    rw [h1, h2]
    refine ⟨?_, rfl⟩
    by_cases hr : cfg.walRollback = true <;> simp [hr] <;> omega

theorem ioSteps_cutActs (cfg : Cfg) (ws : WS) :
    ioSteps (cutActs cfg ws) = cutSteps cfg ws ∧ failOf (cutActs cfg ws) = none ∧ memUpds (cutActs cfg ws) = cutUpds cfg ws := by
  unfold cutActs cutSteps cutUpds
  by_cases hc : (cfg.tailTolerant && !ws.checked) = true <;> by_cases hv : ws.valid < ws.len <;>
    simp [hc, hv, ioSteps, failOf, memUpds]

theorem take_take_frames (wf : List Frag) (l : List Frag) (k i : Nat) (hik : 3 * i ≤ k) :
    (wf ++ l.take k).take (wf.length + 3 * i) = wf ++ l.take (3 * i) := by
  rw [List.take_append, List.take_of_length_le (by omega), List.take_take]
  congr 2
  omega

theorem frames_take (recs : List Rec) (i : Nat) : frames (recs.take i) = (frames recs).take (3 * i) := by
  induction recs generalizing i with
  | nil => simp [frames]
  | cons r rs ih =>
    cases i with
    | zero => simp [frames]
    | succ i =>
      have : 3 * (i + 1) = 3 * i + 3 := by omega
      simp [frames, ih, this]

/-- **a commit that fails in its log phase** (any of the three writes of any record, the log sync,
    or the tail cut of the first append): the error is reported; memory is untouched except for the
    transaction counter and the tail flag; the log is back to what it was plus, at most, unsynced
    complete records of the unfinished transaction — files and handle again satisfy the invariant
    for the OLD list `T`, with a log without torn tail. -/
theorem failed_commit_wal {cfg : Cfg} {T : List Tx} {fs : FS} {m : Mem} {cs : List CTx} {c : Nat}
    (hroll : cfg.walRollback = true) (h : InvOpen T fs m cs c) (ht : TailPre cfg fs m) (tx : Tx) (hf : FreshTx T tx)
    (k : Nat) (hk : k ≤ (cutSteps cfg (m.ws fs.wf)).length + 3 * (txRecs m.nextTxid m.idLen tx).length) :
    let out := run (commitA cfg m fs.pv fs.wf tx) (.faultAt k) fs m
    out.err = some .io ∧ InvOpen T out.fs out.mem cs c ∧ TailPre cfg out.fs out.mem := by
  intro out
  obtain ⟨hS, _⟩ := commitA_steps cfg m fs.pv fs.wf tx h.mwal
  have hws : (m.ws fs.wf).isOpen = true := h.mwal
  generalize hrecs : txRecs m.nextTxid m.idLen tx = recs at hS hk
  have hR : recs.length = (body m.idLen tx).length + 2 := by rw [← hrecs, txRecs_eq]; simp
  have hrc : recs = .begin m.nextTxid :: (body m.idLen tx ++ [.commit m.nextTxid]) := by rw [← hrecs, txRecs_eq]; rfl
  obtain ⟨c1, c2, c3⟩ := ioSteps_cutActs cfg (m.ws fs.wf)
  obtain ⟨w1, w2, w3⟩ := ioSteps_wwActs cfg (startOf cfg (m.ws fs.wf)) recs
  have hlenS : k < (ioSteps (commitA cfg m fs.pv fs.wf tx)).length := by
    rw [hS]; simp [frames_length]; omega
  obtain ⟨e1, e2, e3⟩ := run_fault (commitA cfg m fs.pv fs.wf tx) k fs m hlenS
  -- the action list
  have hacts : ∃ tl : List Action, onFailAt tl 0 = [Step.wt (startOf cfg (m.ws fs.wf))] ∧ memBefore tl 0 = [] ∧
      commitA cfg m fs.pv fs.wf tx =
        memA .bumpTxid :: (cutActs cfg (m.ws fs.wf) ++ (wwActs cfg (startOf cfg (m.ws fs.wf)) recs ++ tl)) := by
    refine ⟨[Action.io .ws [Step.wt (startOf cfg (m.ws fs.wf))]] ++
          ((nodesA cfg (m.ps fs.pv) { start := m.idStart, len := m.idLen } tx.nodes).1 ++
            ((if tx.edges.isEmpty && tx.props.isEmpty then []
              else [memA (.pushRun { txid := m.nextTxid, edges := tx.edges, props := tx.props })]) ++ [memA .bumpTxid])), rfl, rfl, ?_⟩
    unfold commitA
    have hap := appendsA_eq cfg (.begin m.nextTxid) (body m.idLen tx ++ [.commit m.nextTxid]) (m.ws fs.wf) hws
    rw [← hrc] at hap
    have hop : (appendsA cfg (m.ws fs.wf) recs).2.isOpen = true := by
      rw [hrc]; exact (appendsA_steps cfg _ _ (m.ws fs.wf) hws).2.2.2
    simp only [hrecs, hap, hop, if_true, hroll, List.append_assoc]
    have hst : (if (cfg.tailTolerant && !(m.ws fs.wf).checked) = true then min (m.ws fs.wf).len (m.ws fs.wf).valid
        else (m.ws fs.wf).len) = startOf cfg (m.ws fs.wf) := rfl
    rw [hst]
    rfl
  obtain ⟨tl, htl0, htlm, hacts⟩ := hacts
  -- memory at the fault: the counter, and the tail flag if the cut was performed
  have hInvMem : ∀ (mm : Mem), (mm = { m with nextTxid := m.nextTxid + 1 } ∨
      mm = { m with nextTxid := m.nextTxid + 1, tailChecked := true }) →
      ∀ (g : FS), Inert g.pj → g.pd = fs.pd → WalStable cs g → InvOpen T g mm cs c := by
    intro mm hmm g hgj hgd hgw
    have hfields : mm.pm = m.pm ∧ mm.idLen = m.idLen ∧ mm.idStart = m.idStart ∧ mm.exts = m.exts ∧ mm.runs = m.runs ∧
        mm.segs = m.segs ∧ mm.proot = m.proot ∧ mm.ptop = m.ptop ∧ mm.epoch = m.epoch ∧ mm.nextTxid = m.nextTxid + 1 ∧
        mm.walOpen = m.walOpen ∧ mm.bm = m.bm := by
      rcases hmm with rfl | rfl <;> exact ⟨rfl, rfl, rfl, rfl, rfl, rfl, rfl, rfl, rfl, rfl, rfl, rfl⟩
    obtain ⟨f1, f2, f3, f4, f5, f6, f7, f8, f9, f10, f11, f12⟩ := hfields
    exact { pj := hgj, wal := hgw, log := h.log, pager := by rw [hgd]; exact h.pager, store := by rw [hgd]; exact h.store,
            full := by rw [hgd]; exact h.full, mpm := by rw [f1, hgd]; exact h.mpm, mbm := by rw [f12, hgd]; exact h.mbm, mlen := by rw [f2]; exact h.mlen,
            mstart := by rw [f3, hgd]; exact h.mstart, mexts := by rw [f4]; exact h.mexts, mruns := by rw [f5]; exact h.mruns,
            msegs := by rw [f6, hgd]; exact h.msegs, mroot := by rw [f7]; exact h.mroot, mptop := by rw [f8]; exact h.mptop,
            mepoch := by rw [f9]; exact h.mepoch, mtxid := by rw [f10]; have := h.mtxid; omega,
            mwal := by rw [f11]; exact h.mwal }
  by_cases hkc : k < (cutSteps cfg (m.ws fs.wf)).length
  · -- the tail cut itself fails: nothing happened
    have hcut1 : cutSteps cfg (m.ws fs.wf) = [Step.wt (m.ws fs.wf).valid] ∧ (cfg.tailTolerant && !(m.ws fs.wf).checked) = true ∧
        (m.ws fs.wf).valid < (m.ws fs.wf).len := by
      unfold cutSteps at hkc ⊢
      by_cases hc : (cfg.tailTolerant && !(m.ws fs.wf).checked) = true ∧ (m.ws fs.wf).valid < (m.ws fs.wf).len
      · rw [if_pos hc]; exact ⟨rfl, hc.1, hc.2⟩
      · rw [if_neg hc] at hkc; simp at hkc
    obtain ⟨hcs, hflag, hv⟩ := hcut1
    have hk0 : k = 0 := by rw [hcs] at hkc; simpa using hkc
    subst hk0
    have hca : cutActs cfg (m.ws fs.wf) = [ioA (.wt (m.ws fs.wf).valid), memA .tailChecked] := by
      simp [cutActs, hflag, hv]
    have hof : onFailAt (commitA cfg m fs.pv fs.wf tx) 0 = [] := by rw [hacts, hca]; rfl
    have hmb : memBefore (commitA cfg m fs.pv fs.wf tx) 0 = [MemUpd.bumpTxid] := by rw [hacts, hca]; rfl
    have hfs : out.fs = fs := by show (run _ _ _ _).fs = _; rw [e2, hof]; simp [FS.steps]
    have hmem : out.mem = { m with nextTxid := m.nextTxid + 1 } := by show (run _ _ _ _).mem = _; rw [e3, hmb]; rfl
    refine ⟨e1, ?_, ?_⟩
    · rw [hfs]; exact hInvMem _ (Or.inl hmem) fs h.pj rfl h.wal
    · right
      rw [hmem]
      exact hflag
  · -- the cut (if any) was performed; the fault is in the records or in the sync
    obtain ⟨_, hpj0, hpd0, hst0, hclean0⟩ := cut_state h ht
    generalize hfs0 : fs.steps (cutSteps cfg (m.ws fs.wf)) = fs0 at hpj0 hpd0 hst0 hclean0
    have hlen0 : fs0.wf.length = startOf cfg (m.ws fs.wf) := by
      rw [← hfs0]
      unfold cutSteps startOf
      have hvl := validLen_le fs.wf
      by_cases hc : (cfg.tailTolerant && !(m.ws fs.wf).checked) = true
      · by_cases hv : (m.ws fs.wf).valid < (m.ws fs.wf).len
        · have hv' : validLen fs.wf < fs.wf.length := hv
          simp only [hc, hv, and_self, if_true, FS.steps, List.foldl, FS.step, List.length_take]
          show min (validLen fs.wf) fs.wf.length = min fs.wf.length (validLen fs.wf)
          omega
        · have hv' : ¬ validLen fs.wf < fs.wf.length := hv
          simp only [hc, hv, and_false, if_false, if_true, FS.steps, List.foldl]
          show fs.wf.length = min fs.wf.length (validLen fs.wf)
          omega
      · simp only [hc, false_and, if_false, FS.steps, List.foldl]
        rfl
    obtain ⟨k', hk'⟩ : ∃ k', k = (cutSteps cfg (m.ws fs.wf)).length + k' := ⟨k - (cutSteps cfg (m.ws fs.wf)).length, by omega⟩
    have hk'le : k' ≤ 3 * recs.length := by omega
    have hioc : (ioSteps (cutActs cfg (m.ws fs.wf))).length = (cutSteps cfg (m.ws fs.wf)).length := by rw [c1]
    have hioW : (ioSteps (wwActs cfg (startOf cfg (m.ws fs.wf)) recs)).length = 3 * recs.length := by
      rw [w1, List.length_map, frames_length]
    have hof : ∃ j, j ≤ k' / 3 ∧ j < recs.length ∧ onFailAt (commitA cfg m fs.pv fs.wf tx) k = [Step.wt (fs0.wf.length + 3 * j)] := by
      rw [hacts, hk']
      show ∃ j, _ ∧ _ ∧ onFailAt (cutActs cfg (m.ws fs.wf) ++ _) _ = _
      rw [← hioc, onFailAt_append_right _ _ _ c2]
      by_cases hlt : k' < 3 * recs.length
      · refine ⟨k' / 3, Nat.le_refl _, by omega, ?_⟩
        rw [onFailAt_append_left _ _ _ (by rw [hioW]; exact hlt)]
        have := (onFail_wwActs cfg recs (startOf cfg (m.ws fs.wf)) (k' / 3) (k' % 3) (by omega) (by omega)).1
        rw [show 3 * (k' / 3) + k' % 3 = k' by omega] at this
        rw [this, hroll, hlen0]; rfl
      · refine ⟨0, Nat.zero_le _, by omega, ?_⟩
        have hke : k' = 3 * recs.length := by omega
        have := onFailAt_append_right (wwActs cfg (startOf cfg (m.ws fs.wf)) recs) tl 0 w2
        rw [hioW, Nat.add_zero] at this
        rw [hke, this, htl0, hlen0]; simp
    have hmb : memBefore (commitA cfg m fs.pv fs.wf tx) k = MemUpd.bumpTxid :: cutUpds cfg (m.ws fs.wf) := by
      rw [hacts, hk']
      show MemUpd.bumpTxid :: memBefore (cutActs cfg (m.ws fs.wf) ++ _) _ = _
      rw [← hioc, memBefore_append_right _ _ _ c2, c3]
      congr 1
      by_cases hlt : k' < 3 * recs.length
      · rw [memBefore_append_left _ _ _ (by rw [hioW]; exact hlt)]
        have := (onFail_wwActs cfg recs (startOf cfg (m.ws fs.wf)) (k' / 3) (k' % 3) (by omega) (by omega)).2
        rw [show 3 * (k' / 3) + k' % 3 = k' by omega] at this
        rw [this]; simp
      · have hke : k' = 3 * recs.length := by omega
        have := memBefore_append_right (wwActs cfg (startOf cfg (m.ws fs.wf)) recs) tl 0 w2
        rw [hioW, Nat.add_zero] at this
        rw [hke, this, w3, htlm]; simp
    obtain ⟨j, hjk, hjR, hof⟩ := hof
    have htake : (ioSteps (commitA cfg m fs.pv fs.wf tx)).take k =
        cutSteps cfg (m.ws fs.wf) ++ ((frames recs).map Step.ww).take k' := by
      rw [hS, hk', List.take_append, List.take_of_length_le (by omega), Nat.add_sub_cancel_left,
        List.take_append_of_le_length (by rw [List.length_map, frames_length]; exact hk'le)]
    have hfsw : out.fs = (fs0.steps (((frames recs).take k').map Step.ww)).step (.wt (fs0.wf.length + 3 * j)) := by
      show (run _ _ _ _).fs = _
      rw [e2, htake, steps_append, hfs0, hof, List.map_take]
      rfl
    obtain ⟨hw, hd, hr, hpd, hpj⟩ := steps_ww fs0 ((frames recs).take k')
    have hwf' : out.fs.wf = fs0.wf ++ (frames recs).take (3 * j) := by
      rw [hfsw]; simp only [FS.step, hw]; exact take_take_frames fs0.wf (frames recs) k' j (by omega)
    have hwd' : out.fs.wdur = fs0.wdur := by
      rw [hfsw]; simp only [FS.step, hd]; have := hst0.wdur; omega
    have hren' : out.fs.ren = none := by rw [hfsw]; simp only [FS.step]; rw [hr]; exact hst0.ren
    have hpj' : out.fs.pj = fs.pj := by rw [hfsw]; simp only [FS.step]; rw [hpj]; exact hpj0
    have hpd' : out.fs.pd = fs.pd := by rw [hfsw]; simp only [FS.step]; rw [hpd]; exact hpd0
    have hmem : out.mem = { m with nextTxid := m.nextTxid + 1 } ∨
        out.mem = { m with nextTxid := m.nextTxid + 1, tailChecked := true } := by
      have : out.mem = (MemUpd.bumpTxid :: cutUpds cfg (m.ws fs.wf)).foldl applyUpd m := by
        show (run _ _ _ _).mem = _; rw [e3, hmb]
      rcases cutUpds_cases cfg (m.ws fs.wf) with hcu | hcu
      · left; rw [this, hcu]; rfl
      · right; rw [this, hcu]; rfl
    have hcom0 := hst0.com
    have hwf0 : fs0.wf = frames (readAll fs0.wf) := clean_eq_frames _ hclean0
    have hstab : WalStable cs out.fs := by
      refine ⟨hren', by rw [hwd', hwf']; have := hst0.wdur; simp; omega, ?_⟩
      intro n hn
      rw [hwd'] at hn
      rw [hwf']
      by_cases hle : n ≤ fs0.wf.length
      · rw [List.take_append_of_le_length hle]; exact hst0.stable n hn
      · rw [List.take_append, List.take_of_length_le (by omega), List.take_take, hwf0, readAll_append_take]
        have hidx : min (n - (frames (readAll fs0.wf)).length) (3 * j) / 3 ≤ (body m.idLen tx).length + 1 := by omega
        rw [← hrecs]
        exact committed_partial hcom0 m.nextTxid m.idLen tx _ hidx
    have hclean' : validLen out.fs.wf = out.fs.wf.length := by
      rw [hwf', ← frames_take, hwf0, ← frames_append]
      have := validLen_frames_append (readAll fs0.wf ++ recs.take j) []
      simp [validLen] at this
      rw [this, frames_length, List.length_append, List.length_take]
    exact ⟨e1, hInvMem _ hmem out.fs (by rw [hpj']; exact h.pj) hpd' hstab, Or.inl hclean'⟩

end Nervus.Crash
