/-
  Proofs/WalBlocks.lean — the log as a sequence of complete transactions and abandoned fragments (C04,
  C07): what `Wal::replay_committed` returns for a log made of BeginTx … CommitTx blocks with, anywhere
  between them and at the end, BeginTx … fragments that never got their CommitTx (failed commit, crash).
-/
import Nervus.Model.EngineRun
namespace Nervus.Storage

/-- a record that is neither BeginTx nor CommitTx -/
def WalRec.isBody : WalRec → Bool
  | .beginTx _ => false
  | .commitTx _ => false
  | _ => true

/-- a log that consists of complete transactions and abandoned fragments, and the transactions a
    replay must see: exactly the complete ones, each with the records strictly between its BeginTx and
    ITS CommitTx -/
inductive Blocks : List WalRec → List (Nat × List WalRec) → Prop
  | nil : Blocks [] []
  | cons {t : Nat} {body w : List WalRec} {txs : List (Nat × List WalRec)} :
      (∀ r ∈ body, r.isBody = true) → Blocks w txs →
      Blocks (WalRec.beginTx t :: (body ++ WalRec.commitTx t :: w)) ((t, body) :: txs)
  | abandoned {t : Nat} {body w : List WalRec} {txs : List (Nat × List WalRec)} :
      (∀ r ∈ body, r.isBody = true) → Blocks w txs →
      Blocks (WalRec.beginTx t :: (body ++ w)) txs

/-- the grouping loop resets its buffer at BeginTx (regenerated fact) -/
theorem replay_resets_pending : Generated.replayResetsPendingAtBegin = true := by decide

theorem replayWith_body (reset : Bool) (body rest : List WalRec) (t : Nat) (pend : List WalRec)
    (hb : ∀ r ∈ body, r.isBody = true) :
    replayCommittedWith reset (body ++ rest) (some t) pend =
      replayCommittedWith reset rest (some t) (pend ++ body) := by
  induction body generalizing pend with
  | nil => simp
  | cons r rs ih =>
    have hr := hb r List.mem_cons_self
    have ih' := ih (pend ++ [r]) (fun x hx => hb x (List.mem_cons_of_mem _ hx))
    rw [List.cons_append]
    have key : replayCommittedWith reset (r :: (rs ++ rest)) (some t) pend =
        replayCommittedWith reset (rs ++ rest) (some t) (pend ++ [r]) := by
      cases r with
      | beginTx x => simp [WalRec.isBody] at hr
      | commitTx x => simp [WalRec.isBody] at hr
      | _ => simp only [replayCommittedWith, Option.isNone_some, Bool.false_eq_true, if_false]
    rw [key, ih', List.append_assoc]; rfl

/-- a log of blocks and fragments is empty or starts with a BeginTx: whatever the loop has buffered
    when it gets there is dropped -/
theorem Blocks.forget {w : List WalRec} {txs : List (Nat × List WalRec)} (h : Blocks w txs)
    (cur : Option Nat) (pend : List WalRec) :
    replayCommittedWith true w cur pend = replayCommittedWith true w none [] := by
  cases h with
  | nil => rfl
  | cons _ _ => simp only [replayCommittedWith, if_true]
  | abandoned _ _ => simp only [replayCommittedWith, if_true]

/-- replay with the reset: exactly the complete transactions, whatever fragments lie between them -/
theorem Blocks.parseWith {w : List WalRec} {txs : List (Nat × List WalRec)} (h : Blocks w txs) :
    replayCommittedWith true w none [] = .ok txs := by
  induction h with
  | nil => rfl
  | cons hb _ ih =>
    rename_i t body w txs _
    simp only [replayCommittedWith, if_true]
    rw [replayWith_body true body _ t [] hb]
    simp only [List.nil_append, replayCommittedWith, bne_self_eq_false, Bool.false_eq_true, if_false, ih]
    rfl
  | abandoned hb hw ih =>
    rename_i t body w txs
    simp only [replayCommittedWith, if_true]
    rw [replayWith_body true body _ t [] hb, hw.forget, ih]

/-- Wal::replay_committed (current source) on such a log -/
theorem Blocks.parse {w : List WalRec} {txs : List (Nat × List WalRec)} (h : Blocks w txs) :
    replayCommitted w none [] = .ok txs := by
  unfold replayCommitted
  rw [replay_resets_pending]
  exact h.parseWith

/-- concatenation -/
theorem Blocks.concat {w w2 : List WalRec} {txs txs2 : List (Nat × List WalRec)} (h : Blocks w txs)
    (h2 : Blocks w2 txs2) : Blocks (w ++ w2) (txs ++ txs2) := by
  induction h with
  | nil => exact h2
  | cons hb' _ ih =>
    simp only [List.cons_append, List.append_assoc]
    exact Blocks.cons hb' ih
  | abandoned hb' _ ih =>
    simp only [List.cons_append, List.append_assoc]
    exact Blocks.abandoned hb' ih

/-- appending one complete transaction -/
theorem Blocks.append {w : List WalRec} {txs : List (Nat × List WalRec)} (h : Blocks w txs)
    (t : Nat) (body : List WalRec) (hb : ∀ r ∈ body, r.isBody = true) :
    Blocks (w ++ (WalRec.beginTx t :: (body ++ [WalRec.commitTx t]))) (txs ++ [(t, body)]) :=
  h.concat (Blocks.cons hb Blocks.nil)

/-- appending the part of a transaction that a failed commit leaves: BeginTx and some records, or nothing -/
theorem Blocks.appendFragment {w : List WalRec} {txs : List (Nat × List WalRec)} (h : Blocks w txs)
    (t : Nat) (recs : List WalRec) (hb : ∀ r ∈ recs, r.isBody = true) (j : Nat) :
    Blocks (w ++ (WalRec.beginTx t :: recs).take j) txs := by
  cases j with
  | zero => simpa using h
  | succ k =>
    have hfrag : Blocks (WalRec.beginTx t :: (recs.take k ++ [])) [] :=
      Blocks.abandoned (fun r hr => hb r (List.mem_of_mem_take hr)) Blocks.nil
    have := h.concat hfrag
    simpa using this

end Nervus.Storage
