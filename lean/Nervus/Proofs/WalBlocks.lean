/-
  Proofs/WalBlocks.lean — the log as a sequence of complete transactions (C04): what
  `Wal::replay_committed` returns for a log made of BeginTx … CommitTx blocks, and appending a block.
-/
import Nervus.Model.EngineRun
namespace Nervus.Storage

/-- a record that is neither BeginTx nor CommitTx -/
def WalRec.isBody : WalRec → Bool
  | .beginTx _ => false
  | .commitTx _ => false
  | _ => true

/-- a log that consists of complete transactions, and the transactions it consists of -/
inductive Blocks : List WalRec → List (Nat × List WalRec) → Prop
  | nil : Blocks [] []
  | cons {t : Nat} {body w : List WalRec} {txs : List (Nat × List WalRec)} :
      (∀ r ∈ body, r.isBody = true) → Blocks w txs →
      Blocks (WalRec.beginTx t :: (body ++ WalRec.commitTx t :: w)) ((t, body) :: txs)

theorem replayCommitted_body (body rest : List WalRec) (t : Nat) (pend : List WalRec)
    (hb : ∀ r ∈ body, r.isBody = true) :
    replayCommitted (body ++ rest) (some t) pend = replayCommitted rest (some t) (pend ++ body) := by
  induction body generalizing pend with
  | nil => simp
  | cons r rs ih =>
    have hr := hb r List.mem_cons_self
    have ih' := ih (pend ++ [r]) (fun x hx => hb x (List.mem_cons_of_mem _ hx))
    rw [List.cons_append]
    have key : replayCommitted (r :: (rs ++ rest)) (some t) pend = replayCommitted (rs ++ rest) (some t) (pend ++ [r]) := by
      cases r with
      | beginTx x => simp [WalRec.isBody] at hr
      | commitTx x => simp [WalRec.isBody] at hr
      | _ => simp only [replayCommitted, Option.isNone_some, Bool.false_eq_true, if_false]
    rw [key, ih', List.append_assoc]; rfl

/-- Wal::replay_committed on a log of complete transactions -/
theorem Blocks.parse {w : List WalRec} {txs : List (Nat × List WalRec)} (h : Blocks w txs) :
    replayCommitted w none [] = .ok txs := by
  induction h with
  | nil => rfl
  | cons hb _ ih =>
    rename_i t body w txs _
    simp only [replayCommitted]
    rw [replayCommitted_body body _ t [] hb]
    simp only [List.nil_append, replayCommitted, bne_self_eq_false, Bool.false_eq_true, if_false, ih]
    rfl

/-- appending one complete transaction -/
theorem Blocks.append {w : List WalRec} {txs : List (Nat × List WalRec)} (h : Blocks w txs)
    (t : Nat) (body : List WalRec) (hb : ∀ r ∈ body, r.isBody = true) :
    Blocks (w ++ (WalRec.beginTx t :: (body ++ [WalRec.commitTx t]))) (txs ++ [(t, body)]) := by
  induction h with
  | nil => exact Blocks.cons hb Blocks.nil
  | cons hb' _ ih =>
    simp only [List.cons_append, List.append_assoc]
    exact Blocks.cons hb' ih

end Nervus.Storage
