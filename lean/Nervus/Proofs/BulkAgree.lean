/-
  Proofs/BulkAgree.lean — every read of the opened bulk-loaded database agrees with the Spec graph of
  the transactional load of the same input (C30).
-/
import Nervus.Proofs.BulkSpec
namespace Nervus.Storage
open Nervus.GraphSpec (Graph TxOp Op Rel)

theorem find_unique' {α} (L : List α) (P : α → Bool) (a : α) (hm : a ∈ L) (hp : P a = true)
    (hu : ∀ b ∈ L, P b = true → b = a) : L.find? P = some a := by
  induction L with
  | nil => cases hm
  | cons x xs ih =>
    by_cases hx : P x = true
    · rw [List.find?_cons_of_pos hx, hu x List.mem_cons_self hx]
    · rw [List.find?_cons_of_neg hx]
      rcases List.mem_cons.mp hm with rfl | h'
      · exact absurd hp hx
      · exact ih h' (fun b hb => hu b (List.mem_cons_of_mem _ hb))

/-- valid input for the comparison: what BulkLoader::validate checks, and no external id 0 (the known
    findings C06-external-id-zero / C04-external-id-zero-not-indexed-on-reload) -/
def bulkOK (ns : List BulkNode) (es : List BulkEdge) : Bool :=
  bulkValid ns es && ns.all (fun n => n.ext != 0)

section
variable (ns : List BulkNode) (es : List BulkEdge)

theorem bulkOK_unpack (h : bulkOK ns es = true) :
    bulkValid ns es = true ∧ (ns.map (·.ext)).Nodup ∧ (∀ n ∈ ns, n.ext ≠ 0) ∧
    (∀ e ∈ es, (∃ n ∈ ns, n.ext = e.src) ∧ (∃ n ∈ ns, n.ext = e.dst)) := by
  simp only [bulkOK, Bool.and_eq_true, List.all_eq_true, bne_iff_ne, ne_eq] at h
  obtain ⟨hv, hz⟩ := h
  have hv' := hv
  simp only [bulkValid, Bool.and_eq_true, List.all_eq_true, List.any_eq_true, beq_iff_eq, decide_eq_true_eq] at hv'
  exact ⟨hv, hv'.1, hz, fun e he => hv'.2 e he⟩

/-- the label ids of the node table -/
def bulkI2e : List I2e := ns.map (fun n => ⟨n.ext, ((bulkInterner ns es).getId n.label).getD 0⟩)

theorem bulkI2e_get (n : Nat) (hn : n < ns.length) :
    (bulkI2e ns es)[n]? = some ⟨ns[n].ext, ((bulkInterner ns es).getId ns[n].label).getD 0⟩ := by
  unfold bulkI2e
  rw [List.getElem?_map, List.getElem?_eq_getElem hn]; rfl

/-- a name that was interned is found, at the id that names it -/
theorem internName_mem (t : Interner) (nm : Nat) : nm ∈ internName t nm := by
  unfold internName
  cases hg : t.getId nm with
  | some i => exact Classical.byContradiction (fun h => by rw [(getId_none_iff t nm).mpr h] at hg; cases hg)
  | none => simp

theorem internName_mono (t : Interner) (nm x : Nat) (h : x ∈ t) : x ∈ internName t nm := by
  unfold internName
  split
  · exact h
  · exact List.mem_append_left _ h

theorem fold_internName_mono (names : List Nat) : ∀ (t : Interner) (x : Nat), x ∈ t → x ∈ names.foldl internName t := by
  induction names with
  | nil => intro t x h; exact h
  | cons a as ih => intro t x h; exact ih _ x (internName_mono t a x h)

theorem fold_internName_mem (names : List Nat) : ∀ (t : Interner) (x : Nat), x ∈ names → x ∈ names.foldl internName t := by
  induction names with
  | nil => intro t x h; cases h
  | cons a as ih =>
    intro t x h
    rcases List.mem_cons.mp h with rfl | h'
    · exact fold_internName_mono as _ x (internName_mem t x)
    · exact ih _ x h'

theorem label_interned (n : BulkNode) (hn : n ∈ ns) : n.label ∈ bulkInterner ns es := by
  unfold bulkInterner
  exact fold_internName_mono _ _ _ (fold_internName_mem _ _ _ (List.mem_map.mpr ⟨n, hn, rfl⟩))

theorem rel_interned (e : BulkEdge) (he : e ∈ es) : e.rel ∈ bulkInterner ns es := by
  unfold bulkInterner
  exact fold_internName_mem _ _ _ (List.mem_map.mpr ⟨e, he, rfl⟩)

/-- id ↔ name on the bulk interner -/
theorem bulk_getId (nm : Nat) (h : nm ∈ bulkInterner ns es) :
    ∃ i, (bulkInterner ns es).getId nm = some i ∧ (bulkInterner ns es)[i]? = some nm := by
  cases hg : (bulkInterner ns es).getId nm with
  | none => exact absurd h ((getId_none_iff _ nm).mp hg)
  | some i => exact ⟨i, rfl, (getId_some_iff _ nm i (bulkInterner_nodup ns es)).mp hg⟩

/-- what `open` builds from the bulk files, as far as the reads look at it -/
structure IsBulk (b : Engine) : Prop where
  idmap : b.idmap = IdMap.load (bulkI2e ns es)
  interner : b.interner = bulkInterner ns es
  runs : b.runs = []
  segs : b.segs = [(buildForward 0 (bulkEdges ns es)).persist]
  store : b.store = bulkStore ns es
  storeRoot : b.storeRoot = 1
  propsRoot : b.propsRoot = 1

/-- the Spec graph both databases are compared with -/
def bulkGraph : Graph := ({} : Graph).apply (txLoad ns es)

theorem zip_mem (n : Nat) (hn : n < ns.length) : (ns[n], n) ∈ ns.zipIdx :=
  List.mem_zipIdx_iff_getElem?.mpr (List.getElem?_eq_getElem hn)

theorem zip_mem_inv (p : BulkNode × Nat) (hp : p ∈ ns.zipIdx) : ∃ h : p.2 < ns.length, ns[p.2] = p.1 := by
  have := List.mem_zipIdx_iff_getElem?.mp hp
  obtain ⟨h1, h2⟩ := List.getElem?_eq_some_iff.mp this
  exact ⟨h1, h2⟩

theorem bulk_nodes {b : Engine} (hb : IsBulk ns es b) (hnd : (ns.map (·.ext)).Nodup) :
    b.nodes = (bulkGraph ns es).nodes ∧ b.nodesSnap = (bulkGraph ns es).nodes ∧
    ∀ n, (bulkGraph ns es).live n = true ↔ n < ns.length := by
  obtain ⟨g1, g2, _⟩ := txLoad_graph ns es hnd
  have hlen : (IdMap.load (bulkI2e ns es)).i2e.length = ns.length := by simp [IdMap.load, bulkI2e]
  have hlen2 : (IdMap.load (bulkI2e ns es)).i2l.length = ns.length := by simp [IdMap.load, bulkI2e]
  have hgn : (bulkGraph ns es).nodes = List.range ns.length := by
    unfold Graph.nodes bulkGraph
    rw [g1, g2]
    apply List.filter_eq_self.mpr; intro n _; rfl
  refine ⟨?_, ?_, ?_⟩
  · unfold Engine.nodes liveNodeIds
    rw [hb.idmap, hb.runs, hlen, hgn]
    apply List.filter_eq_self.mpr; intro n _; rfl
  · unfold Engine.nodesSnap liveNodeIds
    rw [hb.idmap, hb.runs, hlen2, hgn]
    apply List.filter_eq_self.mpr; intro n _; rfl
  · intro n
    rw [live_iff]
    show n < (bulkGraph ns es).next ∧ n ∉ (bulkGraph ns es).dead ↔ _
    unfold bulkGraph
    rw [g1, g2]; simp

theorem bulk_ext {b : Engine} (hb : IsBulk ns es b) (hnd : (ns.map (·.ext)).Nodup) (hz : ∀ n ∈ ns, n.ext ≠ 0)
    (n : Nat) (hn : n < ns.length) :
    b.resolveExternal n = (bulkGraph ns es).extOf n := by
  obtain ⟨_, _, g3, _⟩ := txLoad_graph ns es hnd
  unfold Engine.resolveExternal Graph.extOf bulkGraph
  rw [hb.idmap, g3]
  have hi : (IdMap.load (bulkI2e ns es)).i2e[n]? = some ⟨ns[n].ext, ((bulkInterner ns es).getId ns[n].label).getD 0⟩ :=
    bulkI2e_get ns es n hn
  rw [hi]
  have hne : ns[n].ext ≠ 0 := hz _ (List.getElem_mem hn)
  have hf : ((ns.zipIdx.map (fun p => (p.2, p.1.ext))).reverse).find? (fun p => p.1 == n) = some (n, ns[n].ext) := by
    apply find_unique'
    · exact List.mem_reverse.mpr (List.mem_map.mpr ⟨(ns[n], n), zip_mem ns n hn, rfl⟩)
    · simp
    · intro q hq hqn
      obtain ⟨p, hp, rfl⟩ := List.mem_map.mp (List.mem_reverse.mp hq)
      obtain ⟨h1, h2⟩ := zip_mem_inv ns p hp
      simp only [beq_iff_eq] at hqn
      subst hqn
      rw [h2]
  rw [hf]
  simp [hne]

theorem bulk_labels {b : Engine} (hb : IsBulk ns es b) (hnd : (ns.map (·.ext)).Nodup)
    (n : Nat) (hn : n < ns.length) (l : Nat) :
    l ∈ b.nodeLabelNames n ↔ (bulkGraph ns es).hasLabel n l = true := by
  obtain ⟨_, _, _, g4, _⟩ := txLoad_graph ns es hnd
  obtain ⟨i, hi1, hi2⟩ := bulk_getId ns es ns[n].label (label_interned ns es ns[n] (List.getElem_mem hn))
  have hl : (IdMap.load (bulkI2e ns es)).i2l[n]? = some [i] := by
    show ((bulkI2e ns es).map (fun r => [r.label]))[n]? = _
    rw [List.getElem?_map, bulkI2e_get ns es n hn]
    simp [hi1]
  unfold Engine.nodeLabelNames Engine.nodeLabels Graph.hasLabel bulkGraph
  rw [hb.idmap, hb.interner, hl, g4]
  simp only [Option.getD_some, List.filterMap_cons, List.filterMap_nil, Interner.getName, hi2, List.mem_singleton,
    List.contains_eq_mem, decide_eq_true_eq, List.mem_reverse, List.mem_map]
  constructor
  · intro h; subst h
    exact ⟨(ns[n], n), zip_mem ns n hn, rfl⟩
  · rintro ⟨p, hp, hpe⟩
    obtain ⟨h1, h2⟩ := zip_mem_inv ns p hp
    simp only [Prod.mk.injEq] at hpe
    obtain ⟨e1, e2⟩ := hpe
    subst e1
    rw [← e2, ← h2]

theorem bulk_extLookup {b : Engine} (hb : IsBulk ns es b) (hnd : (ns.map (·.ext)).Nodup) (hz : ∀ n ∈ ns, n.ext ≠ 0)
    (x : Nat) : b.lookupInternal x = (bulkGraph ns es).extLookup x := by
  obtain ⟨_, g2, g3, _⟩ := txLoad_graph ns es hnd
  unfold Engine.lookupInternal Graph.extLookup bulkGraph
  rw [hb.idmap, g2, g3]
  have hinj : ∀ (j j' : Nat) (hj : j < ns.length) (hj' : j' < ns.length), ns[j].ext = ns[j'].ext → j = j' := by
    intro j j' hj hj' he
    have h1 : (ns.map (·.ext))[j]'(by simpa using hj) = (ns.map (·.ext))[j']'(by simpa using hj') := by simpa using he
    have a1 := hnd.idxOf_getElem j (by simpa using hj)
    have a2 := hnd.idxOf_getElem j' (by simpa using hj')
    rw [h1] at a1
    omega
  rw [load_lookup (bulkI2e ns es) x
    (by
      intro j r hj
      unfold bulkI2e at hj
      rw [List.getElem?_map] at hj
      cases hq : ns[j]? with
      | none => rw [hq] at hj; cases hj
      | some m =>
        rw [hq] at hj; simp only [Option.map_some, Option.some.injEq] at hj
        rw [← hj]; exact hz m (List.mem_of_getElem? hq))
    (by
      intro j j' r r' hj hj' he
      unfold bulkI2e at hj hj'
      rw [List.getElem?_map] at hj hj'
      cases hq : ns[j]? with
      | none => rw [hq] at hj; cases hj
      | some m =>
        cases hq' : ns[j']? with
        | none => rw [hq'] at hj'; cases hj'
        | some m' =>
          rw [hq] at hj; rw [hq'] at hj'
          simp only [Option.map_some, Option.some.injEq] at hj hj'
          obtain ⟨h1, h2⟩ := List.getElem?_eq_some_iff.mp hq
          obtain ⟨h1', h2'⟩ := List.getElem?_eq_some_iff.mp hq'
          apply hinj j j' h1 h1'
          rw [h2, h2']
          rw [← hj, ← hj'] at he
          exact he)]
  -- both sides: the position of the node that carries `x`
  by_cases hex : ∃ j, ∃ hj : j < ns.length, ns[j].ext = x
  · obtain ⟨j, hj, hjx⟩ := hex
    have f1 : (bulkI2e ns es).zipIdx.find? (fun p => p.1.ext == x) =
        some (⟨ns[j].ext, ((bulkInterner ns es).getId ns[j].label).getD 0⟩, j) := by
      apply find_unique'
      · exact List.mem_zipIdx_iff_getElem?.mpr (bulkI2e_get ns es j hj)
      · simp [hjx]
      · intro q hq hqx
        have hq' := List.mem_zipIdx_iff_getElem?.mp hq
        unfold bulkI2e at hq'
        rw [List.getElem?_map] at hq'
        cases hqq : ns[q.2]? with
        | none => rw [hqq] at hq'; cases hq'
        | some m =>
          rw [hqq] at hq'; simp only [Option.map_some, Option.some.injEq] at hq'
          obtain ⟨h1, h2⟩ := List.getElem?_eq_some_iff.mp hqq
          simp only [beq_iff_eq] at hqx
          have : q.2 = j := hinj q.2 j h1 hj (by rw [h2, hjx, ← hqx, ← hq'])
          obtain ⟨q1, q2⟩ := q
          simp only at this hq' ⊢
          subst this
          rw [← hq', ← h2]
    have f2 : ((ns.zipIdx.map (fun p => (p.2, p.1.ext))).reverse).find?
        (fun p => p.2 == x && !([] : List Nat).contains p.1) = some (j, ns[j].ext) := by
      apply find_unique'
      · exact List.mem_reverse.mpr (List.mem_map.mpr ⟨(ns[j], j), zip_mem ns j hj, rfl⟩)
      · simp [hjx]
      · intro q hq hqx
        obtain ⟨p, hp, rfl⟩ := List.mem_map.mp (List.mem_reverse.mp hq)
        obtain ⟨h1, h2⟩ := zip_mem_inv ns p hp
        simp only [List.contains_nil, Bool.not_false, Bool.and_true, beq_iff_eq] at hqx
        have : p.2 = j := hinj p.2 j h1 hj (by rw [h2, hqx, hjx])
        rw [← h2]
        subst this
        rfl
    rw [f1, f2]; rfl
  · have n1 : (bulkI2e ns es).zipIdx.find? (fun p => p.1.ext == x) = none := by
      rw [List.find?_eq_none]
      intro q hq hqx
      have hq' := List.mem_zipIdx_iff_getElem?.mp hq
      unfold bulkI2e at hq'
      rw [List.getElem?_map] at hq'
      cases hqq : ns[q.2]? with
      | none => rw [hqq] at hq'; cases hq'
      | some m =>
        rw [hqq] at hq'; simp only [Option.map_some, Option.some.injEq] at hq'
        obtain ⟨h1, h2⟩ := List.getElem?_eq_some_iff.mp hqq
        simp only [beq_iff_eq] at hqx
        exact hex ⟨q.2, h1, by rw [h2, ← hqx, ← hq']⟩
    have n2 : ((ns.zipIdx.map (fun p => (p.2, p.1.ext))).reverse).find?
        (fun p => p.2 == x && !([] : List Nat).contains p.1) = none := by
      rw [List.find?_eq_none]
      intro q hq hqx
      obtain ⟨p, hp, rfl⟩ := List.mem_map.mp (List.mem_reverse.mp hq)
      obtain ⟨h1, h2⟩ := zip_mem_inv ns p hp
      simp only [List.contains_nil, Bool.not_false, Bool.and_true, beq_iff_eq] at hqx
      exact hex ⟨p.2, h1, by rw [h2]; exact hqx⟩
    rw [n1, n2]; rfl

/-! ### properties -/

/-- the relationship of the engine a bulk edge stands for (type by ID) -/
def edgeOf (e : BulkEdge) : Edge :=
  ⟨bulkIid ns e.src, ((bulkInterner ns es).getId e.rel).getD 0, bulkIid ns e.dst⟩

def edgeInsM : List ((Edge × Nat) × PV) :=
  es.flatMap (fun e => e.props.map (fun kv => ((edgeOf ns es e, kv.1), kv.2)))

theorem flatMap_map_comm {α β γ δ} (l : List α) (f : α → List β) (g : α → β → γ) (h : γ → δ) :
    (l.flatMap (fun a => (f a).map (g a))).map h = l.flatMap (fun a => (f a).map (fun b => h (g a b))) := by
  induction l with
  | nil => rfl
  | cons a as ih =>
    rw [List.flatMap_cons, List.flatMap_cons, List.map_append, ih, List.map_map]
    rfl

theorem bulkStore_eq :
    bulkStore ns es =
      ((edgeInsM ns es).map (fun p => (SKey.edge p.1.1 p.1.2, p.2))).reverse ++
      ((nodeIns ns.zipIdx).map (fun p => (SKey.node p.1.1 p.1.2, p.2))).reverse := by
  have h1 := flatMap_map_comm ns.zipIdx (fun p => p.1.props) (fun p kv => ((p.2, kv.1), kv.2))
    (fun p => (SKey.node p.1.1 p.1.2, p.2))
  have h2 := flatMap_map_comm es (fun e => e.props) (fun e kv => ((edgeOf ns es e, kv.1), kv.2))
    (fun p => (SKey.edge p.1.1 p.1.2, p.2))
  unfold nodeIns edgeInsM
  rw [h1, h2]
  unfold bulkStore edgeOf
  rw [List.reverse_append]

theorem isBulk_visible {b : Engine} (hb : IsBulk ns es b) : b.visibleStore = bulkStore ns es := by
  unfold Engine.visibleStore
  rw [hb.propsRoot, hb.storeRoot, hb.store]; rfl

theorem bulk_nprop {b : Engine} (hb : IsBulk ns es b) (hnd : (ns.map (·.ext)).Nodup) (n k : Nat) :
    b.nodeProp n k = (bulkGraph ns es).nprop n k := by
  obtain ⟨_, _, _, _, g5, _⟩ := txLoad_graph ns es hnd
  unfold Engine.nodeProp Graph.nprop bulkGraph
  rw [hb.runs, isBulk_visible ns es hb, g5, lookup_setAll]
  simp only [npropRuns, Store.get]
  rw [bulkStore_eq, List.lookup_append, ← List.map_reverse, ← List.map_reverse, lookup_map_node_edge, lookup_map_node]
  cases (nodeIns ns.zipIdx).reverse.lookup (n, k) <;> rfl

/-- id and name of a relationship type denote the same bulk edges -/
theorem edge_key_iff (e : BulkEdge) (he : e ∈ es) (a r c nm : Nat) (hr : (bulkInterner ns es)[r]? = some nm) :
    (edgeOf ns es e == (⟨a, r, c⟩ : Edge)) = (relOf ns e == (⟨a, nm, c⟩ : Rel)) := by
  obtain ⟨i, hi1, hi2⟩ := bulk_getId ns es e.rel (rel_interned ns es e he)
  have hiff : i = r ↔ e.rel = nm := by
    constructor
    · intro h; subst h; rw [hi2] at hr; cases hr; rfl
    · intro h; subst h; exact name_inj _ (bulkInterner_nodup ns es) i r _ hi2 hr
  rw [Bool.eq_iff_iff]
  simp only [beq_iff_eq, edgeOf, relOf, hi1, Option.getD_some, Edge.mk.injEq, Rel.mk.injEq]
  constructor
  · rintro ⟨h1, h2, h3⟩; exact ⟨h1, hiff.mp h2, h3⟩
  · rintro ⟨h1, h2, h3⟩; exact ⟨h1, hiff.mpr h2, h3⟩

theorem lookup_two_keys {α κ κ'} [BEq κ] [LawfulBEq κ] [BEq κ'] [LawfulBEq κ'] (X : List α) (f : α → κ) (f' : α → κ')
    (val : α → PV) (key : κ) (key' : κ') (h : ∀ x ∈ X, (f x == key) = (f' x == key')) :
    (X.map (fun x => (f x, val x))).lookup key = (X.map (fun x => (f' x, val x))).lookup key' := by
  induction X with
  | nil => rfl
  | cons x xs ih =>
    have hx := h x List.mem_cons_self
    have ih' := ih (fun y hy => h y (List.mem_cons_of_mem _ hy))
    simp only [List.map_cons, List.lookup_cons]
    have e1 : (key == f x) = (f x == key) := by
      by_cases hh : key = f x
      · subst hh; rfl
      · have a1 : (key == f x) = false := by simpa using hh
        have a2 : (f x == key) = false := by simpa using (fun h' => hh h'.symm)
        rw [a1, a2]
    have e2 : (key' == f' x) = (f' x == key') := by
      by_cases hh : key' = f' x
      · subst hh; rfl
      · have a1 : (key' == f' x) = false := by simpa using hh
        have a2 : (f' x == key') = false := by simpa using (fun h' => hh h'.symm)
        rw [a1, a2]
    rw [e1, e2, hx, ih']

theorem bulk_eprop {b : Engine} (hb : IsBulk ns es b) (hnd : (ns.map (·.ext)).Nodup)
    (r nm a c k : Nat) (hr : b.interner[r]? = some nm) :
    b.edgeProp ⟨a, r, c⟩ k = (bulkGraph ns es).eprop ⟨a, nm, c⟩ k := by
  obtain ⟨_, _, _, _, _, _, g7⟩ := txLoad_graph ns es hnd
  rw [hb.interner] at hr
  unfold Engine.edgeProp Graph.eprop bulkGraph
  rw [hb.runs, isBulk_visible ns es hb, g7, lookup_setAll]
  simp only [epropRuns, Store.get]
  rw [bulkStore_eq, List.lookup_append, ← List.map_reverse, ← List.map_reverse, lookup_map_edge, lookup_map_edge_node]
  simp only [Option.or_none]
  -- the two insertion lists come from the same pairs (edge, key/value)
  let X : List (BulkEdge × (Nat × PV)) := es.flatMap (fun e => e.props.map (fun kv => (e, kv)))
  have hM : edgeInsM ns es = X.map (fun x => ((edgeOf ns es x.1, x.2.1), x.2.2)) := by
    unfold edgeInsM
    simp only [X, List.map_flatMap, List.map_map]; rfl
  have hS : edgeInsSpec ns es = X.map (fun x => ((relOf ns x.1, x.2.1), x.2.2)) := by
    unfold edgeInsSpec
    simp only [X, List.map_flatMap, List.map_map]; rfl
  rw [hM, hS, ← List.map_reverse, ← List.map_reverse]
  have := lookup_two_keys X.reverse (fun x => (edgeOf ns es x.1, x.2.1)) (fun x => (relOf ns x.1, x.2.1))
    (fun x => x.2.2) ((⟨a, r, c⟩ : Edge), k) ((⟨a, nm, c⟩ : Rel), k) (by
      intro x hx
      have hxm : x ∈ X := List.mem_reverse.mp hx
      obtain ⟨e, he, hxe⟩ := List.mem_flatMap.mp hxm
      obtain ⟨kv, _, rfl⟩ := List.mem_map.mp hxe
      have := edge_key_iff ns es e he a r c nm hr
      rw [Bool.eq_iff_iff] at this ⊢
      simp only [beq_iff_eq, Prod.mk.injEq] at this ⊢
      constructor
      · rintro ⟨h1, h2⟩; exact ⟨this.mp h1, h2⟩
      · rintro ⟨h1, h2⟩; exact ⟨this.mpr h1, h2⟩)
  rw [this]
  cases (X.reverse.map (fun x => ((relOf ns x.1, x.2.1), x.2.2))).lookup ((⟨a, nm, c⟩ : Rel), k) <;> rfl

/-! ### neighbours -/

theorem bulkEdges_eq : bulkEdges ns es = es.map (edgeOf ns es) := rfl

theorem count_filter_eq {α} [BEq α] [LawfulBEq α] (l : List α) (p : α → Bool) (a : α) :
    (l.filter p).count a = if p a then l.count a else 0 := by
  by_cases h : p a = true
  · rw [if_pos h]; exact List.count_filter h
  · rw [if_neg h]
    apply List.count_eq_zero.mpr
    intro hm
    exact h (List.mem_filter.mp hm).2

theorem count_map_congr {α β γ} [BEq β] [LawfulBEq β] [BEq γ] [LawfulBEq γ] (l : List α) (f : α → β) (f' : α → γ)
    (x : β) (x' : γ) (h : ∀ a ∈ l, (f a == x) = (f' a == x')) : (l.map f).count x = (l.map f').count x' := by
  induction l with
  | nil => rfl
  | cons a as ih =>
    rw [List.map_cons, List.map_cons, List.count_cons, List.count_cons, h a List.mem_cons_self,
      ih (fun b hb => h b (List.mem_cons_of_mem _ hb))]

theorem relMatch_ok {b : Engine} (hb : IsBulk ns es b) (rel t : Option Nat) (hm : RelMatch b rel t)
    (r nm a c : Nat) (hr : (bulkInterner ns es)[r]? = some nm) :
    relOk rel ⟨a, r, c⟩ = Graph.relOk t ⟨a, nm, c⟩ := by
  rcases hm with ⟨h1, h2⟩ | ⟨r0, nm0, h1, h2, h3⟩
  · subst h1; subst h2; rfl
  · subst h1; subst h2
    rw [hb.interner] at h3
    simp only [relOk, Graph.relOk]
    rw [Bool.eq_iff_iff]
    simp only [beq_iff_eq]
    constructor
    · intro h; subst h; rw [h3] at hr; cases hr; rfl
    · intro h; subst h; exact name_inj _ (bulkInterner_nodup ns es) r r0 _ hr h3

theorem edgeOf_interned (e : BulkEdge) (he : e ∈ es) : ∃ nm, (bulkInterner ns es)[(edgeOf ns es e).rel]? = some nm := by
  obtain ⟨i, hi1, hi2⟩ := bulk_getId ns es e.rel (rel_interned ns es e he)
  exact ⟨e.rel, by simp only [edgeOf, hi1, Option.getD_some]; exact hi2⟩

theorem bulk_out {b : Engine} (hb : IsBulk ns es b) (hnd : (ns.map (·.ext)).Nodup)
    (n : Nat) (rel t : Option Nat) (hm : RelMatch b rel t) :
    ∃ el, b.neighbors n rel = some el ∧ (∀ e ∈ el, ∃ nm, b.interner[e.rel]? = some nm) ∧
      ∀ r nm a c, b.interner[r]? = some nm → el.count ⟨a, r, c⟩ = ((bulkGraph ns es).out n t).count ⟨a, nm, c⟩ := by
  obtain ⟨_, _, _, _, _, g6, _⟩ := txLoad_graph ns es hnd
  obtain ⟨l0, hl0, hperm⟩ := buildForward_neighbors 0 (bulkEdges ns es) n rel
  have hnb : b.neighbors n rel = some l0 := by
    rw [neighbors_eq]
    unfold Engine.neighborsFlushed
    rw [hb.runs, hb.segs]
    simp only [outRuns, List.contains_nil, Bool.false_eq_true, if_false]
    rw [mapM_cons_some, persist_neighbors, hl0]
    simp only [Option.map_some, Option.bind_some, List.mapM_nil, List.nil_append]
    have : l0.filter (fun e => !blockedOut [] [] e) = l0 := by
      apply List.filter_eq_self.mpr; intro e _; simp [blockedOut_nil]
    rw [this]
    simp
  refine ⟨l0, hnb, ?_, ?_⟩
  · intro e he
    have hmem := (List.mem_filter.mp (hperm.mem_iff.mp he)).1
    rw [bulkEdges_eq] at hmem
    obtain ⟨e0, he0, rfl⟩ := List.mem_map.mp hmem
    rw [hb.interner]; exact edgeOf_interned ns es e0 he0
  · intro r nm a c hr
    rw [hb.interner] at hr
    rw [hperm.count_eq, count_filter_eq]
    unfold Graph.out bulkGraph
    rw [g6, count_filter_eq]
    have hk := relMatch_ok ns es hb rel t hm r nm a c hr
    simp only
    rw [hk]
    split
    · rw [List.count_reverse, bulkEdges_eq]
      exact count_map_congr es _ _ _ _ (fun e he => edge_key_iff ns es e he a r c nm hr)
    · rfl

theorem bulk_inc {b : Engine} (hb : IsBulk ns es b) (hnd : (ns.map (·.ext)).Nodup)
    (n : Nat) (rel t : Option Nat) (hm : RelMatch b rel t) :
    ∃ el, b.incoming Cfg.current n rel = some el ∧ (∀ e ∈ el, ∃ nm, b.interner[e.rel]? = some nm) ∧
      ∀ r nm a c, b.interner[r]? = some nm → el.count ⟨a, r, c⟩ = ((bulkGraph ns es).inc n t).count ⟨a, nm, c⟩ := by
  obtain ⟨_, _, _, _, _, g6, _⟩ := txLoad_graph ns es hnd
  obtain ⟨l0, hl0, hperm⟩ := built_incoming Cfg.current.csrGuard 0 (bulkEdges ns es) n rel (Or.inl (by decide))
  have hnb : b.incoming Cfg.current n rel = some l0 := by
    rw [incoming_eq]
    unfold Engine.incomingFlushed
    rw [hb.runs, hb.segs]
    simp only [inRuns, List.contains_nil, Bool.false_eq_true, if_false]
    rw [mapM_cons_some, hl0]
    simp only [Option.map_some, Option.bind_some, List.mapM_nil, List.nil_append]
    have : l0.filter (fun e => !blockedIn [] [] e) = l0 := by
      apply List.filter_eq_self.mpr; intro e _; simp [blockedIn_nil]
    rw [this]
    simp
  refine ⟨l0, hnb, ?_, ?_⟩
  · intro e he
    have hmem := (List.mem_filter.mp (hperm.mem_iff.mp he)).1
    rw [bulkEdges_eq] at hmem
    obtain ⟨e0, he0, rfl⟩ := List.mem_map.mp hmem
    rw [hb.interner]; exact edgeOf_interned ns es e0 he0
  · intro r nm a c hr
    rw [hb.interner] at hr
    rw [hperm.count_eq, count_filter_eq]
    unfold Graph.inc bulkGraph
    rw [g6, count_filter_eq]
    have hk := relMatch_ok ns es hb rel t hm r nm a c hr
    simp only
    rw [hk]
    split
    · rw [List.count_reverse, bulkEdges_eq]
      exact count_map_congr es _ _ _ _ (fun e he => edge_key_iff ns es e he a r c nm hr)
    · rfl

end

end Nervus.Storage
