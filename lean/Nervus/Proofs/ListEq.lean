/-
  Proofs.ListEq — `=` on lists and maps is the three-valued (Kleene) AND of the element equalities, hence
  independent of the positions of the elements (`seq_is_kleene`, `kleeneAll_perm`).  Core only.
-/
import Nervus.Proofs.Equality
namespace Nervus
open Value Eval Spec

theorem tri_triValue' (t : Tri) : tri (triValue t) = t := by
  cases t with
  | none => rfl
  | some b => rfl

theorem tri_of_isTri {v : Value} (h : isTri v = true) : triValue (tri v) = v := by
  cases v <;> simp [isTri] at h <;> rfl

theorem eqStep_eq_and3 (e r : Value) (he : isTri e = true) (hr : isTri r = true) :
    eqStep e r = triValue (Spec.and3 (tri e) (tri r)) := by
  cases e <;> simp [isTri] at he <;> cases r <;> simp [isTri] at hr <;>
    first | rfl | (rename_i x; cases x <;> rfl) | (rename_i x y; cases x <;> cases y <;> rfl)

/-- the element equalities of two lists, as truth values -/
def pairTris (ps : List (Value × Value)) : List Tri := ps.map fun p => tri (cypherEquals p.1 p.2)

theorem seq_is_kleene : ∀ (xs ys : List Value), xs.length = ys.length →
    cypherEqualsSeq xs ys = triValue (kleeneAll (pairTris (xs.zip ys)))
  | [], [], _ => rfl
  | [], _ :: _, h => by simp at h
  | _ :: _, [], h => by simp at h
  | x :: xs, y :: ys, h => by
    have ih := seq_is_kleene xs ys (by simpa using h)
    simp only [cypherEqualsSeq, List.zip_cons_cons, pairTris, List.map_cons, kleeneAll]
    rw [eqStep_eq_and3 _ _ (cypherEquals_tri x y) (seq_tri xs ys), ih]
    simp only [pairTris, tri_triValue']

/-- the Kleene AND from two facts: is there a `false`, is there a `null` -/
def kchar : Bool → Bool → Tri
  | true, _ => some false
  | false, true => none
  | false, false => some true

theorem kleeneAll_char : ∀ (ts : List Tri), kleeneAll ts = kchar (ts.any (· == some false)) (ts.any (· == none))
  | [] => rfl
  | t :: ts => by
    rw [kleeneAll, kleeneAll_char ts]
    simp only [List.any_cons]
    generalize ts.any (· == some false) = p
    generalize ts.any (· == none) = q
    cases t with
    | none => cases p <;> cases q <;> rfl
    | some b => cases b <;> cases p <;> cases q <;> rfl

theorem any_perm {α : Type} {p : α → Bool} {l l' : List α} (h : l.Perm l') : l.any p = l'.any p := by
  cases h1 : l.any p
  · cases h2 : l'.any p
    · rfl
    · obtain ⟨x, hx, hp⟩ := List.any_eq_true.1 h2
      have : l.any p = true := List.any_eq_true.2 ⟨x, h.mem_iff.2 hx, hp⟩
      rw [h1] at this; cases this
  · obtain ⟨x, hx, hp⟩ := List.any_eq_true.1 h1
    exact (List.any_eq_true.2 ⟨x, h.mem_iff.1 hx, hp⟩).symm

/-- the Kleene AND does not depend on the order of its arguments -/
theorem kleeneAll_perm {ts ts' : List Tri} (h : ts.Perm ts') : kleeneAll ts = kleeneAll ts' := by
  rw [kleeneAll_char, kleeneAll_char, any_perm h, any_perm h]

theorem ce_list_of_pairs (ps : List (Value × Value)) :
    cypherEquals (.list (ps.map Prod.fst)) (.list (ps.map Prod.snd)) = triValue (kleeneAll (pairTris ps)) := by
  have hl : (ps.map Prod.fst).length = (ps.map Prod.snd).length := by simp
  have e1 : ((ps.map Prod.fst).length != (ps.map Prod.snd).length) = false := by simp
  simp only [cypherEquals, e1, Bool.false_eq_true, if_false]
  rw [seq_is_kleene _ _ hl]
  congr 2
  simp [pairTris, List.zip_map']

end Nervus
