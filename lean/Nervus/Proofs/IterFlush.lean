/-
  Proofs/IterFlush.lean — the neighbour iterators of the current source fold the pending tombstones of
  the last run into the blocked sets before they read segment edges (regenerated fact; seed C14-seed1).
-/
import Nervus.Model.Engine
namespace Nervus.Storage

theorem iters_flush_before_segments : Generated.itersFlushBeforeSegments = true := by decide

theorem neighbors_eq : Engine.neighbors = Engine.neighborsFlushed := by
  funext s src rel; unfold Engine.neighbors; rw [iters_flush_before_segments]; rfl

theorem incoming_eq : Engine.incoming = Engine.incomingFlushed := by
  funext c s dst rel; unfold Engine.incoming; rw [iters_flush_before_segments]; rfl

/-- every node / edge tombstone of the runs -/
def allTombNodes (runs : List Run) : List Nat := runs.flatMap (·.tombNodes)
def allTombEdgesOf (runs : List Run) : List Edge := runs.flatMap (·.tombEdges)

/-- when the run phase ends without terminating, the blocked sets hold the tombstones of EVERY run —
    the oldest one included -/
theorem outRuns_fin_all (src : Nat) (rel : Option Nat) (runs : List Run) :
    ∀ (bn : List Nat) (be : List Edge) (bn' : List Nat) (be' : List Edge),
      (outRuns src rel runs bn be).2 = some (bn', be') →
      bn' = bn ++ allTombNodes runs ∧ be' = be ++ allTombEdgesOf runs ∧ src ∉ bn' := by
  induction runs with
  | nil =>
    intro bn be bn' be' h
    simp only [outRuns] at h
    split at h
    · cases h
    · rename_i hc
      simp only [Option.some.injEq, Prod.mk.injEq] at h
      obtain ⟨rfl, rfl⟩ := h
      refine ⟨by simp [allTombNodes], by simp [allTombEdgesOf], by simpa using hc⟩
  | cons r rs ih =>
    intro bn be bn' be' h
    simp only [outRuns] at h
    split at h
    · cases h
    · obtain ⟨h1, h2, h3⟩ := ih _ _ _ _ h
      refine ⟨by rw [h1]; simp [allTombNodes, List.append_assoc], by rw [h2]; simp [allTombEdgesOf, List.append_assoc], h3⟩

theorem inRuns_fin_all (dst : Nat) (rel : Option Nat) (runs : List Run) :
    ∀ (bn : List Nat) (be : List Edge) (bn' : List Nat) (be' : List Edge),
      (inRuns dst rel runs bn be).2 = some (bn', be') →
      bn' = bn ++ allTombNodes runs ∧ be' = be ++ allTombEdgesOf runs ∧ dst ∉ bn' := by
  induction runs with
  | nil =>
    intro bn be bn' be' h
    simp only [inRuns] at h
    split at h
    · cases h
    · rename_i hc
      simp only [Option.some.injEq, Prod.mk.injEq] at h
      obtain ⟨rfl, rfl⟩ := h
      refine ⟨by simp [allTombNodes], by simp [allTombEdgesOf], by simpa using hc⟩
  | cons r rs ih =>
    intro bn be bn' be' h
    simp only [inRuns] at h
    split at h
    · cases h
    · obtain ⟨h1, h2, h3⟩ := ih _ _ _ _ h
      refine ⟨by rw [h1]; simp [allTombNodes, List.append_assoc], by rw [h2]; simp [allTombEdgesOf, List.append_assoc], h3⟩

theorem mem_flatten_mapM {σ} (f : σ → Option (List Edge)) (p : Edge → Bool) :
    ∀ (l : List σ) (ls : List (List Edge)), l.mapM (fun g => (f g).map (·.filter p)) = some ls →
      ∀ e ∈ ls.flatten, p e = true := by
  intro l
  induction l with
  | nil => intro ls h e he; simp only [List.mapM_nil] at h; cases h; cases he
  | cons g gs ih =>
    intro ls h e he
    simp only [List.mapM_cons] at h
    cases hf : f g with
    | none => rw [hf] at h; cases h
    | some x =>
      rw [hf] at h
      cases hm : gs.mapM (fun g => (f g).map (·.filter p)) with
      | none => rw [hm] at h; cases h
      | some ls' =>
        rw [hm] at h
        simp only [Option.map_some, bind, Option.bind, pure] at h
        cases h
        rw [List.flatten_cons, List.mem_append] at he
        rcases he with he | he
        · exact (List.mem_filter.mp he).2
        · exact ih ls' hm e he

/-- **segment edges are read behind ALL run tombstones**: whatever `neighbors` returns is the run phase
    followed by segment edges none of which is tombstoned — itself or its end node — by any published
    run, the oldest (the first transaction after a compaction) included -/
theorem neighbors_segment_part (s : Engine) (src : Nat) (rel : Option Nat) (es : List Edge)
    (h : s.neighbors src rel = some es) :
    ∃ segEs, es = (outRuns src rel s.runs [] []).1 ++ segEs ∧
      ∀ e ∈ segEs, e.dst ∉ allTombNodes s.runs ∧ e ∉ allTombEdgesOf s.runs ∧ src ∉ allTombNodes s.runs := by
  rw [neighbors_eq] at h
  unfold Engine.neighborsFlushed at h
  cases hfin : (outRuns src rel s.runs [] []).2 with
  | none =>
    have : outRuns src rel s.runs [] [] = ((outRuns src rel s.runs [] []).1, none) := by rw [← hfin]
    rw [this] at h
    simp only [Option.some.injEq] at h
    exact ⟨[], by rw [← h]; simp, fun e he => by cases he⟩
  | some f =>
    obtain ⟨f1, f2⟩ := f
    have : outRuns src rel s.runs [] [] = ((outRuns src rel s.runs [] []).1, some (f1, f2)) := by rw [← hfin]
    rw [this] at h
    simp only at h
    obtain ⟨h1, h2, h3⟩ := outRuns_fin_all src rel s.runs [] [] f1 f2 hfin
    simp only [List.nil_append] at h1 h2
    cases hm : s.segs.mapM (fun (g : Seg) => (g.neighbors src rel).map (·.filter (fun e => !blockedOut f1 f2 e))) with
    | none => rw [hm] at h; cases h
    | some ls =>
      rw [hm] at h
      simp only [Option.map_some, Option.some.injEq] at h
      refine ⟨ls.flatten, h.symm, ?_⟩
      intro e he
      have hp := mem_flatten_mapM (fun (g : Seg) => g.neighbors src rel) (fun e => !blockedOut f1 f2 e) s.segs ls hm e he
      simp only [blockedOut, Bool.not_eq_true', Bool.or_eq_false_iff] at hp
      rw [h1] at hp h3
      rw [h2] at hp
      exact ⟨by simpa using hp.1, by simpa using hp.2, h3⟩

theorem incoming_segment_part (c : Cfg) (s : Engine) (dst : Nat) (rel : Option Nat) (es : List Edge)
    (h : s.incoming c dst rel = some es) :
    ∃ segEs, es = (inRuns dst rel s.runs [] []).1 ++ segEs ∧
      ∀ e ∈ segEs, e.src ∉ allTombNodes s.runs ∧ e ∉ allTombEdgesOf s.runs ∧ dst ∉ allTombNodes s.runs := by
  rw [incoming_eq] at h
  unfold Engine.incomingFlushed at h
  cases hfin : (inRuns dst rel s.runs [] []).2 with
  | none =>
    have : inRuns dst rel s.runs [] [] = ((inRuns dst rel s.runs [] []).1, none) := by rw [← hfin]
    rw [this] at h
    simp only [Option.some.injEq] at h
    exact ⟨[], by rw [← h]; simp, fun e he => by cases he⟩
  | some f =>
    obtain ⟨f1, f2⟩ := f
    have : inRuns dst rel s.runs [] [] = ((inRuns dst rel s.runs [] []).1, some (f1, f2)) := by rw [← hfin]
    rw [this] at h
    simp only at h
    obtain ⟨h1, h2, h3⟩ := inRuns_fin_all dst rel s.runs [] [] f1 f2 hfin
    simp only [List.nil_append] at h1 h2
    cases hm : s.segs.mapM (fun (g : Seg) => (g.incomingG c.csrGuard dst rel).map (·.filter (fun e => !blockedIn f1 f2 e))) with
    | none => rw [hm] at h; cases h
    | some ls =>
      rw [hm] at h
      simp only [Option.map_some, Option.some.injEq] at h
      refine ⟨ls.flatten, h.symm, ?_⟩
      intro e he
      have hp := mem_flatten_mapM (fun (g : Seg) => g.incomingG c.csrGuard dst rel) (fun e => !blockedIn f1 f2 e) s.segs ls hm e he
      simp only [blockedIn, Bool.not_eq_true', Bool.or_eq_false_iff] at hp
      rw [h1] at hp h3
      rw [h2] at hp
      exact ⟨by simpa using hp.1, by simpa using hp.2, h3⟩

end Nervus.Storage
