/-
  Proofs.CrashRep — the representation invariant `Rep T p w` ("page file `p` and log `w` represent
  the committed transaction list `T`") and the closure of its page-file part under the unsynced
  operations that the node-table code issues.
-/
import Nervus.Proofs.CrashPlan
import Nervus.Proofs.CrashImg
import Nervus.Proofs.CrashTreeM
namespace Nervus.Crash

def allNodes (T : List Tx) : List Nat := T.flatMap (·.nodes)
def allEdges (T : List Tx) : List Nat := T.flatMap (·.edges)
def allProps (T : List Tx) : List Nat := T.flatMap (·.props)

/-- creation has completed: meta page, catalog and the two reserved indexes are durable -/
structure Booted (p : PImg) : Prop where
  init : p.hdr.init = true
  len : 2 ≤ p.len
  nextPage : 2 ≤ p.hdr.nextPage
  bm : 2 ≤ p.bm
  catRoot : p.hdr.catRoot ≠ 0
  cat : ∃ es, p.cat = some es ∧ es.length = 2 ∧ ∀ r ∈ es, r ∈ p.idx

/-- segment lookup as `open` performs it (`CsrSegment::load` of a manifest entry) -/
def segFind (p : PImg) (k : Nat) : Option SegImg := p.segs.find? (fun s => s.key == k && s.complete)
def segEdges (p : PImg) (k : Nat) : List Nat := ((segFind p k).map (·.edges)).getD []
def treeFind (p : PImg) (k : Nat) : Option TreeImg := p.trees.find? (fun t => t.key == k)

/-- transaction ids of the committed transactions grow along the log -/
def TxMono (cs : List CTx) : Prop := cs.Pairwise (fun a b => a.txid < b.txid)

/-- what the committed transactions of the log must look like: the node records that recovery
    still replays (transactions after the checkpoint) are positions `c …` of the node list -/
structure LogOK (T : List Tx) (cs : List CTx) (c : Nat) : Prop where
  nodup : (allNodes T).Nodup
  nozero : 0 ∉ allNodes T
  cle : c ≤ (allNodes T).length
  nodes : nodesOfOps (flatOps (scan cs).ckpt cs) = seqFrom (allNodes T) c ((allNodes T).length - c)
  ckptle : (scan cs).ckpt ≤ (scan cs).maxTxid
  mono : TxMono cs
  maxle : ∀ tx ∈ cs, tx.txid ≤ (scan cs).maxTxid

/-- the live property tree of the manifest: a sorted chain of leaves (one leaf entered directly,
    or several under an internal root: `top`) whose keys are properties of `T` (`allowed`) and
    include, with their value blobs, the `covered` ones -/
structure TreeOK (allowed covered : List Nat) (top : Bool) (t : TreeImg) : Prop where
  shape : ∃ X, TreeShape t X top ∧ (∀ q ∈ X.flatten, q ∈ allowed) ∧ (∀ q ∈ covered, q ∈ X.flatten ∧ q ∈ t.blobs)

/-- the shape of the live tree a compaction works on: its fixed leaves `Xi` (all but the last one),
    whether it has an internal root, and the first key of the last leaf (what the root knows of it) -/
structure LiveP where
  top : Bool := false
  Xi : List (List Nat) := []
  hd : Nat := 0

/-- the live tree during a compaction: the chain `Xi ++ [last]`; only the last leaf is rewritten
    (entries appended), its first key stays -/
structure LiveOK (allowed covered : List Nat) (lv : LiveP) (t : TreeImg) (last : List Nat) : Prop where
  shape : TreeShape t (lv.Xi ++ [last]) lv.top
  hd : lv.Xi ≠ [] → last.headD 0 = lv.hd
  allowed : ∀ q ∈ (lv.Xi ++ [last]).flatten, q ∈ allowed
  covered : ∀ q ∈ covered, q ∈ (lv.Xi ++ [last]).flatten ∧ q ∈ t.blobs

theorem LiveOK.treeOK {allowed covered : List Nat} {lv : LiveP} {t : TreeImg} {last : List Nat}
    (h : LiveOK allowed covered lv t last) : TreeOK allowed covered lv.top t :=
  ⟨⟨_, h.shape, h.allowed, h.covered⟩⟩

/-- every tree of the invariant is a live tree for the parameters read off its chain -/
theorem TreeOK.live {allowed covered : List Nat} {top : Bool} {t : TreeImg} (h : TreeOK allowed covered top t) :
    ∃ lv last, lv.top = top ∧ LiveOK allowed covered lv t last := by
  obtain ⟨X, hs, h1, h2⟩ := h.shape
  have hX : X = X.dropLast ++ [X.getLast hs.ne] := (List.dropLast_concat_getLast hs.ne).symm
  refine ⟨⟨top, X.dropLast, (X.getLast hs.ne).headD 0⟩, X.getLast hs.ne, rfl, ?_⟩
  exact ⟨by show TreeShape t (X.dropLast ++ [X.getLast hs.ne]) top; rw [← hX]; exact hs, fun _ => rfl,
    by show ∀ q ∈ (X.dropLast ++ [X.getLast hs.ne]).flatten, _; rw [← hX]; exact h1,
    by show ∀ q ∈ covered, q ∈ (X.dropLast ++ [X.getLast hs.ne]).flatten ∧ _; rw [← hX]; exact h2⟩

/-- segments and property tree of the manifest hold, together with the runs the log still
    replays, exactly the edges and properties of `T` -/
structure StoreOK (T : List Tx) (cs : List CTx) (p : PImg) : Prop where
  segs : ∀ k ∈ (scan cs).segs, (segFind p k).isSome
  segKeys : ∀ s ∈ p.segs, s.key < p.hdr.nextPage ∧ s.key < p.bm
  treeKeys : ∀ t ∈ p.trees, t.key < p.hdr.nextPage ∧ t.key < p.bm
  edges : ∀ e, e ∈ (scan cs).segs.flatMap (segEdges p) ++ (logRuns (scan cs).ckpt cs).flatMap (·.edges) ↔ e ∈ allEdges T
  runProps : ∀ q ∈ (logRuns (scan cs).ckpt cs).flatMap (·.props), q ∈ allProps T
  props : ∃ covered, (∀ q ∈ allProps T, q ∈ (logRuns (scan cs).ckpt cs).flatMap (·.props) ∨ q ∈ covered) ∧
    ((scan cs).proot = 0 → covered = []) ∧
    ((scan cs).proot ≠ 0 → ∃ t, treeFind p (scan cs).proot = some t ∧ TreeOK (allProps T) covered (scan cs).ptop t)

/-- the node table on disk is a prefix of the node list that covers everything the log no longer
    replays (`c` nodes) -/
structure PagerOK (N : List Nat) (c : Nat) (p : PImg) : Prop where
  booted : Booted p
  start : p.hdr.i2eStart = 0 → p.hdr.i2eLen = 0
  lo : c ≤ p.hdr.i2eLen
  hi : p.hdr.i2eLen ≤ N.length
  slots : ∀ i, i < p.hdr.i2eLen → getSlot p.i2e i = getSlot N i

/-- page file `p` and log `w` represent the committed transaction list `T` -/
def Rep (T : List Tx) (p : PImg) (w : List Frag) : Prop :=
  ∃ cs c, committed (readAll w) = .ok cs ∧ LogOK T cs c ∧ PagerOK (allNodes T) c p ∧ StoreOK T cs p

/-! ### slots -/

theorem getSlot_setSlot_eq : ∀ (xs : List Nat) (i v : Nat), getSlot (setSlot xs i v) i = v
  | [], 0, v => rfl
  | [], i + 1, v => by simp [setSlot, getSlot, getSlot_setSlot_eq [] i v]
  | _ :: xs, 0, v => rfl
  | x :: xs, i + 1, v => by simp [setSlot, getSlot, getSlot_setSlot_eq xs i v]

theorem getSlot_nil (i : Nat) : getSlot [] i = 0 := by cases i <;> rfl

theorem getSlot_setSlot_ne : ∀ (xs : List Nat) (i j v : Nat), i ≠ j → getSlot (setSlot xs j v) i = getSlot xs i
  | [], 0, 0, v, h => absurd rfl h
  | [], 0, j + 1, v, _ => by simp [setSlot, getSlot]
  | [], i + 1, 0, v, _ => by simp [setSlot, getSlot, getSlot_nil]
  | [], i + 1, j + 1, v, h => by
    have := getSlot_setSlot_ne [] i j v (by omega)
    simp [setSlot, getSlot, this, getSlot_nil]
  | x :: xs, 0, 0, v, h => absurd rfl h
  | x :: xs, 0, j + 1, v, _ => by simp [setSlot, getSlot]
  | x :: xs, i + 1, 0, v, _ => by simp [setSlot, getSlot]
  | x :: xs, i + 1, j + 1, v, h => by
    have := getSlot_setSlot_ne xs i j v (by omega)
    simp [setSlot, getSlot, this]

theorem range_map_getSlot_eq_take (N : List Nat) (xs : List Nat) (l : Nat) (hl : l ≤ N.length)
    (h : ∀ i, i < l → getSlot xs i = getSlot N i) : (List.range l).map (getSlot xs) = N.take l := by
  induction l with
  | zero => simp
  | succ l ih =>
    rw [List.range_succ, List.map_append, ih (by omega) (fun i hi => h i (by omega))]
    rw [take_succ_getSlot N l (by omega)]
    simp [h l (by omega)]

/-! ### the class of page-file images during node-table updates -/

/-- everything but the node table and the meta counters is as in `p0` -/
structure Frame (p0 p : PImg) : Prop where
  segs : p.segs = p0.segs
  trees : p.trees = p0.trees
  cat : p.cat = p0.cat
  idx : p.idx = p0.idx
  init : p.hdr.init = p0.hdr.init
  catRoot : p.hdr.catRoot = p0.hdr.catRoot
  len : p0.len ≤ p.len
  nextPage : p0.hdr.nextPage ≤ p.hdr.nextPage
  bm : p0.bm ≤ p.bm

theorem Frame.refl (p : PImg) : Frame p p := ⟨rfl, rfl, rfl, rfl, rfl, rfl, Nat.le_refl _, Nat.le_refl _, Nat.le_refl _⟩

theorem Frame.store {p0 p : PImg} {T : List Tx} {cs : List CTx} (f : Frame p0 p) (h : StoreOK T cs p0) : StoreOK T cs p where
  segs := by intro k hk; simpa [segFind, f.segs] using h.segs k hk
  segKeys := by
    intro s hs; rw [f.segs] at hs
    exact ⟨Nat.lt_of_lt_of_le (h.segKeys s hs).1 f.nextPage, Nat.lt_of_lt_of_le (h.segKeys s hs).2 f.bm⟩
  treeKeys := by
    intro t ht; rw [f.trees] at ht
    exact ⟨Nat.lt_of_lt_of_le (h.treeKeys t ht).1 f.nextPage, Nat.lt_of_lt_of_le (h.treeKeys t ht).2 f.bm⟩
  edges := by
    have : segEdges p = segEdges p0 := by funext k; simp [segEdges, segFind, f.segs]
    intro e; rw [this]; exact h.edges e
  runProps := h.runProps
  props := by
    obtain ⟨cov, h1, h2, h3⟩ := h.props
    exact ⟨cov, h1, h2, fun hne => by simpa [treeFind, f.trees] using h3 hne⟩

theorem Frame.booted {p0 p : PImg} (f : Frame p0 p) (b : Booted p0) : Booted p where
  init := by rw [f.init]; exact b.init
  len := Nat.le_trans b.len f.len
  nextPage := Nat.le_trans b.nextPage f.nextPage
  bm := Nat.le_trans b.bm f.bm
  catRoot := by rw [f.catRoot]; exact b.catRoot
  cat := by rw [f.cat, f.idx]; exact b.cat

/-- node-table class: at most `k` nodes are counted, and the first `k` slots hold the first `k`
    nodes of `N` wherever they are looked at -/
structure NG (N : List Nat) (c : Nat) (p0 : PImg) (k : Nat) (p : PImg) : Prop where
  frame : Frame p0 p
  start : p.hdr.i2eStart = 0 → p.hdr.i2eLen = 0
  lo : c ≤ p.hdr.i2eLen
  hi : p.hdr.i2eLen ≤ k
  slots : ∀ i, i < k → getSlot p.i2e i = getSlot N i

theorem NG.pagerOK {N : List Nat} {c k : Nat} {p0 p : PImg} (h : NG N c p0 k p) (b : Booted p0)
    (hk : k ≤ N.length) : PagerOK N c p where
  booted := h.frame.booted b
  start := h.start
  lo := h.lo
  hi := Nat.le_trans h.hi hk
  slots := fun i hi => h.slots i (Nat.lt_of_lt_of_le hi h.hi)

/-- a meta page content that the node-table code may write while `k` slots are in place -/
structure OKhdr (c : Nat) (p0 : PImg) (k : Nat) (pm : Meta) : Prop where
  init : pm.init = p0.hdr.init
  catRoot : pm.catRoot = p0.hdr.catRoot
  start : pm.i2eStart = 0 → pm.i2eLen = 0
  lo : c ≤ pm.i2eLen
  hi : pm.i2eLen ≤ k
  nextPage : p0.hdr.nextPage ≤ pm.nextPage

/-- steps that cannot take a page-file image out of `NG … k` -/
def HStep (c : Nat) (p0 : PImg) (k : Nat) : Step → Prop
  | .pg (.setLen _) _ => True
  | .pg (.bitmap top) _ => p0.bm ≤ top
  | .pg .stats _ => True
  | .pg (.hdr pm) _ => OKhdr c p0 k pm
  | .pg (.slot j _) _ => k ≤ j
  | .ps => True
  | _ => False

theorem tornEff_simple (p : PImg) (e e' : PEff) (hl : ∀ k i es sib pid, e ≠ .leaf k i es sib pid)
    (hi : ∀ k seps pid, e ≠ .inode k seps pid)
    (h : tornEff p e = some e') : e' = e := by
  cases e <;> (try simp [tornEff] at h) <;> try (exact h.symm)
  case slot i x => exact h.2.symm
  case leaf k i es sib pid => exact absurd rfl (hl k i es sib pid)
  case inode k seps pid => exact absurd rfl (hi k seps pid)

theorem ng_applyEff {N : List Nat} {c k : Nat} {p0 p : PImg} {e : PEff} {pid : Nat}
    (h : NG N c p0 k p) (hs : HStep c p0 k (.pg e pid)) : NG N c p0 k (applyEff e p) := by
  have hf := h.frame
  cases e <;> simp only [HStep] at hs
  case setLen n =>
    exact ⟨⟨hf.segs, hf.trees, hf.cat, hf.idx, hf.init, hf.catRoot,
      Nat.le_trans hf.len (Nat.le_max_left _ _), hf.nextPage, hf.bm⟩, h.start, h.lo, h.hi, h.slots⟩
  case bitmap top =>
    exact ⟨⟨hf.segs, hf.trees, hf.cat, hf.idx, hf.init, hf.catRoot, hf.len, hf.nextPage, hs⟩, h.start, h.lo, h.hi, h.slots⟩
  case stats => exact h
  case hdr pm =>
    exact ⟨⟨hf.segs, hf.trees, hf.cat, hf.idx, hs.init, hs.catRoot, hf.len, hs.nextPage, hf.bm⟩,
      hs.start, hs.lo, hs.hi, h.slots⟩
  case slot j x =>
    refine ⟨⟨hf.segs, hf.trees, hf.cat, hf.idx, hf.init, hf.catRoot, hf.len, hf.nextPage, hf.bm⟩,
      h.start, h.lo, h.hi, ?_⟩
    intro i hi
    show getSlot (setSlot p.i2e j x) i = _
    rw [getSlot_setSlot_ne _ _ _ _ (by omega)]
    exact h.slots i hi

theorem hstep_not_leaf {c k : Nat} {p0 : PImg} {e : PEff} {pid : Nat} (hs : HStep c p0 k (.pg e pid)) :
    ∀ kk i es sib pd, e ≠ .leaf kk i es sib pd := by
  intro kk i es sib pd he
  subst he
  simp [HStep] at hs

theorem hstep_not_inode {c k : Nat} {p0 : PImg} {e : PEff} {pid : Nat} (hs : HStep c p0 k (.pg e pid)) :
    ∀ kk seps pd, e ≠ .inode kk seps pd := by
  intro kk seps pd he
  subst he
  simp [HStep] at hs

/-- a harmless step keeps every power-loss image in the class -/
theorem allImgs_hstep {N : List Nat} {c k : Nat} {p0 : PImg} (fs : FS) (s : Step)
    (h : AllImgs fs (NG N c p0 k)) (hs : HStep c p0 k s) : AllImgs (fs.step s) (NG N c p0 k) := by
  cases s <;> simp only [HStep] at hs
  case pg e pid =>
    apply allImgs_pg fs _ e pid h
    intro p hp
    refine ⟨ng_applyEff hp hs, ?_⟩
    intro e' ht
    have := tornEff_simple p e e' (hstep_not_leaf hs) (hstep_not_inode hs) ht
    subst this
    exact ng_applyEff hp hs
  case ps => exact allImgs_ps fs _ (allImgs_pv fs _ h)

/-! ### safety along a step list -/

/-- `P` holds after every prefix of the steps -/
def SafeAlong (P : FS → Prop) (fs : FS) (S : List Step) : Prop := ∀ n, P (fs.steps (S.take n))

theorem safeAlong_nil {P : FS → Prop} {fs : FS} (h : P fs) : SafeAlong P fs [] := by
  intro n; simpa [FS.steps] using h

theorem safeAlong_cons {P : FS → Prop} {fs : FS} {s : Step} {S : List Step} (h : P fs)
    (hr : SafeAlong P (fs.step s) S) : SafeAlong P fs (s :: S) := by
  intro n
  cases n with
  | zero => simpa [FS.steps] using h
  | succ n => simpa [FS.steps] using hr n

theorem safeAlong_append {P : FS → Prop} {fs : FS} {A B : List Step} (ha : SafeAlong P fs A)
    (hb : SafeAlong P (fs.steps A) B) : SafeAlong P fs (A ++ B) := by
  intro n
  by_cases h : n ≤ A.length
  · have := ha n
    rwa [List.take_append_of_le_length h]
  · have := hb (n - A.length)
    rw [List.take_append, List.take_of_length_le (by omega), steps_append]
    exact this

theorem safeAlong_head {P : FS → Prop} {fs : FS} {S : List Step} (h : SafeAlong P fs S) : P fs := by
  simpa [FS.steps] using h 0

theorem safeAlong_last {P : FS → Prop} {fs : FS} {S : List Step} (h : SafeAlong P fs S) : P (fs.steps S) := by
  simpa using h S.length

/-- a block of harmless steps keeps every image of every prefix in the class -/
theorem harmless_block {N : List Nat} {c k : Nat} {p0 : PImg} (S : List Step) :
    ∀ (fs : FS), AllImgs fs (NG N c p0 k) → (∀ s ∈ S, HStep c p0 k s) →
      SafeAlong (fun fs => AllImgs fs (NG N c p0 k)) fs S := by
  induction S with
  | nil => intro fs h _; exact safeAlong_nil h
  | cons s S ih =>
    intro fs h hs
    exact safeAlong_cons h (ih _ (allImgs_hstep fs s h (hs s (by simp))) (fun s' hs' => hs s' (by simp [hs'])))

end Nervus.Crash
