/-
  Proofs/CheckpointRec.lean — the recovery invariant through compaction / checkpoint (C04 with
  compactions): which logged transactions the checkpoint skip may leave in the replay (`Quiet`),
  label vectors that are exactly the persisted first labels (`LabelsBase`), segment bookkeeping
  (`SegOK`), and `Rec` after `compact`.
-/
import Nervus.Proofs.ReopenHist
import Nervus.Proofs.RunsEqReads
namespace Nervus.Storage
open Nervus.GraphSpec (TxOp Op)

/-- `m` knows every external id that `im` knows -/
def Covers (im m : IdMap) : Prop := ∀ x iid, im.lookup x = some iid → m.lookup x = some iid

/-- replaying the transaction changes neither a covering idmap nor the run list -/
def IdleTx (im : IdMap) (tx : Nat × List WalRec) : Prop :=
  ∀ k m acc, Covers im m → replayStep k (m, acc) tx = .ok (m, acc)

/-- every logged transaction is at or below the checkpoint, or is the transaction of a published run,
    or is idle -/
structure Quiet (s : Engine) : Prop where
  inv : ∃ txs, Blocks s.wal txs ∧
    ∀ tx ∈ txs, tx.1 ≤ s.ckptTxid ∨ (∃ r ∈ s.runs, r.txid = tx.1) ∨ IdleTx s.idmap tx

theorem Blocks.unique {w : List WalRec} {a b : List (Nat × List WalRec)} (h1 : Blocks w a) (h2 : Blocks w b) :
    a = b := by
  have e1 := h1.parse
  have e2 := h2.parse
  rw [e1] at e2; cases e2; rfl

theorem Quiet.empty : Quiet {} := ⟨⟨[], Blocks.nil, fun tx h => by cases h⟩⟩

theorem Quiet.congr {s s' : Engine} (h : Quiet s) (h1 : s'.wal = s.wal) (h2 : s'.idmap = s.idmap)
    (h3 : s'.runs = s.runs) (h4 : s'.ckptTxid = s.ckptTxid) : Quiet s' := by
  obtain ⟨txs, hb, hq⟩ := h.inv
  exact ⟨⟨txs, by rw [h1]; exact hb, by rw [h2, h3, h4]; exact hq⟩⟩

/-- a transaction whose records are neither node / label nor memtable records is idle -/
def WalRec.isInert : WalRec → Bool
  | .createLabel _ _ => true
  | .manifestSwitch _ _ _ => true
  | .checkpoint _ _ _ => true
  | _ => false

theorem replay_inert (recs : List WalRec) (a : IdMap × MemTable) (h : ∀ r ∈ recs, r.isInert = true) :
    recs.foldlM replayOp a = .ok a := by
  induction recs with
  | nil => rfl
  | cons r rs ih =>
    rw [List.foldlM_cons]
    have hr := h r List.mem_cons_self
    have : replayOp a r = .ok a := by
      cases r <;> simp only [WalRec.isInert] at hr <;> first | rfl | cases hr
    rw [this]
    exact ih (fun x hx => h x (List.mem_cons_of_mem _ hx))

theorem idle_of_inert (im : IdMap) (tx : Nat × List WalRec) (h : ∀ r ∈ tx.2, r.isInert = true) : IdleTx im tx := by
  intro k m acc _
  unfold replayStep
  split
  · rfl
  · rw [replay_inert tx.2 (m, {}) h]
    rfl

theorem Quiet.intern {s : Engine} (h : Quiet s) (nm : Nat) : Quiet (s.getOrCreateLabel nm).1 := by
  unfold Engine.getOrCreateLabel
  cases hq : s.interner.getId nm with
  | some id => exact h
  | none =>
    simp only
    obtain ⟨txs, hb, hq⟩ := h.inv
    refine ⟨⟨txs ++ [(s.nextTxid, [WalRec.createLabel nm s.interner.length])], ?_, ?_⟩⟩
    · exact hb.append s.nextTxid [WalRec.createLabel nm s.interner.length]
        (by intro r hr; simp only [List.mem_singleton] at hr; subst hr; rfl)
    · intro tx htx
      rcases List.mem_append.mp htx with h' | h'
      · exact hq tx h'
      · simp only [List.mem_singleton] at h'
        subst h'
        exact Or.inr (Or.inr (idle_of_inert _ _ (by
          intro r hr; simp only [List.mem_singleton] at hr; subst hr; rfl)))

theorem Quiet.stepTx (c : Cfg) (s : Engine) (t : Txn) (op : TxOp) (h : Quiet s) : Quiet (stepTx c (s, t) op).1 := by
  cases op with
  | node x lab =>
    have hi : Quiet (internLabel s lab).1 := by
      cases lab with
      | none => exact h
      | some l => exact h.intern l
    simp only [Storage.stepTx]
    split <;> exact hi
  | labelAdd n nm => exact h.intern nm
  | labelDel n nm => exact h.intern nm
  | edge a nm b => exact h.intern nm
  | tombNode n => exact h
  | tombEdge a nm b => exact h.intern nm
  | nprop n k v => exact h
  | npropDel n k => exact h
  | eprop a nm b k v => exact h.intern nm
  | epropDel a nm b k => exact h.intern nm
  | vec n v =>
    show Quiet (t.setVector c s n v).1
    unfold Txn.setVector
    split
    · exact h
    · exact h.congr rfl rfl rfl rfl

theorem Quiet.fold (c : Cfg) (ops : List TxOp) : ∀ st : Engine × Txn, Quiet st.1 → Quiet (ops.foldl (Storage.stepTx c) st).1 := by
  induction ops with
  | nil => intro st h; exact h
  | cons op ops ih => intro st h; exact ih _ (Quiet.stepTx c st.1 st.2 op h)

/-- `commit` of a transaction without label operations keeps `Quiet` -/
theorem Quiet.commit {s : Engine} {t : Txn} (h : Quiet s) (hwf : t.mt.WF)
    (hfresh : ∀ c ∈ t.created, s.idmap.lookup c.1 = none) (hnd : (t.created.map (·.1)).Nodup)
    (hadd : t.addL = []) (hdel : t.delL = []) :
    Quiet (committed Cfg.current s t (idmapAfter s.idmap t)) := by
  obtain ⟨txs, hb, hq⟩ := h.inv
  have hgr := graphRecords_isGraph t (t.mt.freeze t.txid)
  -- an idmap that covers the new one covers the old one
  have hcov : ∀ m, Covers (idmapAfter s.idmap t) m → Covers s.idmap m := by
    intro m hc x iid hx
    apply hc
    show ((t.created.map (fun c => (c.1, c.2.2))).reverse ++ s.idmap.e2i).lookup x = some iid
    rw [List.lookup_append]
    have : ((t.created.map (fun c => (c.1, c.2.2))).reverse).lookup x = none := by
      apply lookup_eq_none_of_not_mem_keys
      intro p hp' heq
      obtain ⟨c, hcm, rfl⟩ := List.mem_map.mp (List.mem_reverse.mp hp')
      simp only at heq
      have := hfresh c hcm
      rw [heq, hx] at this; cases this
    rw [this]; exact hx
  refine ⟨⟨txs ++ [(t.txid, graphRecords t (t.mt.freeze t.txid))], ?_, ?_⟩⟩
  · show Blocks (s.wal ++ t.walRecords Cfg.current (t.mt.freeze t.txid)) _
    rw [walRecords_current]
    exact hb.append t.txid _ (fun r hr => (isGraph_body r (hgr r hr)).1)
  · intro tx htx
    show tx.1 ≤ s.ckptTxid ∨ (∃ r ∈ (if (t.mt.freeze t.txid).isEmpty then s.runs else t.mt.freeze t.txid :: s.runs),
      r.txid = tx.1) ∨ IdleTx (idmapAfter s.idmap t) tx
    rcases List.mem_append.mp htx with h' | h'
    · rcases hq tx h' with h1 | ⟨r, hr, he⟩ | h3
      · exact Or.inl h1
      · refine Or.inr (Or.inl ⟨r, ?_, he⟩)
        split
        · exact hr
        · exact List.mem_cons_of_mem _ hr
      · exact Or.inr (Or.inr (fun k m acc hc => h3 k m acc (hcov m hc)))
    · simp only [List.mem_singleton] at h'
      subst h'
      by_cases he : (t.mt.freeze t.txid).isEmpty = true
      · -- nothing published: the transaction is idle
        refine Or.inr (Or.inr ?_)
        intro k m acc hc
        unfold replayStep
        split
        · rfl
        · have hseg : ∀ c ∈ t.created, m.lookup c.1 = some c.2.2 := by
            intro c hcm
            apply hc
            show ((t.created.map (fun c => (c.1, c.2.2))).reverse ++ s.idmap.e2i).lookup c.1 = some c.2.2
            rw [List.lookup_append, lookup_reverse_of_nodup _ (by rw [List.map_map]; exact hnd) c.1 c.2.2
              (List.mem_map.mpr ⟨c, hcm, rfl⟩)]
            rfl
          have e1 := replay_createNodes t.created m {} hseg
          have e4 := replay_memRecs (memRecords t (t.mt.freeze t.txid)) m {} (memRecords_isMem t _)
          have hfold : (graphRecords t (t.mt.freeze t.txid)).foldlM replayOp (m, {}) =
              .ok (m, (memRecords t (t.mt.freeze t.txid)).foldl memOp {}) := by
            rw [graphRecords_split, hadd, hdel, foldlM_append_ok _ _ _ _ _ e1]
            simp only [List.map_nil, List.nil_append]
            exact e4
          have hrun := replay_commit_roundtrip t hwf t.txid _ _ _ hfold
          show ((graphRecords t (t.mt.freeze t.txid)).foldlM replayOp (m, {}) >>= fun x =>
            pure (x.1, if (x.2.freeze t.txid).isEmpty then acc else acc ++ [x.2.freeze t.txid])) = _
          rw [hfold]
          show Except.ok (m, if _ then acc else _) = _
          rw [hrun.isEmpty, he]
          rfl
      · refine Or.inr (Or.inl ⟨t.mt.freeze t.txid, ?_, rfl⟩)
        simp [he]

/-! ### label vectors = the persisted first labels -/

def LabelsBase (m : IdMap) : Prop := m.i2l = m.i2e.map (fun r => [r.label])

theorem LabelsBase.after {m : IdMap} (h : LabelsBase m) (t : Txn) (hadd : t.addL = []) (hdel : t.delL = []) :
    LabelsBase (idmapAfter m t) := by
  unfold LabelsBase idmapAfter
  simp only [hadd, hdel, addAll, delAll, List.foldl_nil]
  rw [h, List.map_append, List.map_map]
  rfl

/-! ### segments -/

structure SegsOK (s : Engine) : Prop where
  store : s.segStore = s.segs
  lt : ∀ g ∈ s.segs, g.id < s.nextSegId
  nodup : (s.segs.map (·.id)).Nodup

theorem SegsOK.find {s : Engine} (h : SegsOK s) : ∀ g ∈ s.segs, s.segStore.find? (·.id == g.id) = some g := by
  rw [h.store]; exact find_id_self s.segs h.nodup

theorem persist_id (g : Seg) : g.persist.id = g.id := by
  unfold Seg.persist
  split
  · simp only
    split <;> rfl
  · rfl

theorem buildForward_id (id : Nat) (es : List Edge) : (buildForward id es).id = id := by
  unfold buildForward
  simp only
  split <;> rfl

theorem SegsOK.compact (c : Cfg) {s : Engine} (h : SegsOK s) : SegsOK (s.compact c) := by
  cases he : s.runs.isEmpty with
  | true =>
    have : s.compact c = s := by unfold Engine.compact; rw [he]; rfl
    rw [this]; exact h
  | false =>
    unfold Engine.compact
    rw [he]
    simp only [Bool.false_eq_true, if_false]
    have hid : ((buildForward s.nextSegId (collectRunEdges (!c.compactOwnLast) s.runs [] [])).persist).id = s.nextSegId := by
      rw [persist_id, buildForward_id]
    refine ⟨by show _ :: s.segStore = _ :: s.segs; rw [h.store], ?_, ?_⟩
    · intro g hg
      show g.id < s.nextSegId + 1
      rcases List.mem_cons.mp hg with rfl | h'
      · rw [hid]; exact Nat.lt_succ_self _
      · exact Nat.lt_succ_of_lt (h.lt g h')
    · show ((_ :: s.segs).map (·.id)).Nodup
      rw [List.map_cons, List.nodup_cons, hid]
      refine ⟨?_, h.nodup⟩
      intro hm
      obtain ⟨g, hg, he'⟩ := List.mem_map.mp hm
      have := h.lt g hg
      omega

/-! ### compaction -/

theorem runs_max_ge (rs : List Run) : ∀ a : Nat, a ≤ rs.foldl (fun m r => max m r.txid) a ∧
    ∀ r ∈ rs, r.txid ≤ rs.foldl (fun m r => max m r.txid) a := by
  induction rs with
  | nil => intro a; exact ⟨Nat.le_refl _, fun r h => by cases h⟩
  | cons x xs ih =>
    intro a
    obtain ⟨h1, h2⟩ := ih (max a x.txid)
    refine ⟨Nat.le_trans (Nat.le_max_left _ _) h1, ?_⟩
    intro r hr
    rcases List.mem_cons.mp hr with rfl | h'
    · exact Nat.le_trans (Nat.le_max_right _ _) h1
    · exact h2 r h'

theorem runs_max_le (rs : List Run) (b : Nat) (h : ∀ r ∈ rs, r.txid ≤ b) :
    ∀ a, a ≤ b → rs.foldl (fun m r => max m r.txid) a ≤ b := by
  induction rs with
  | nil => intro a ha; exact ha
  | cons x xs ih =>
    intro a ha
    exact ih (fun r hr => h r (List.mem_cons_of_mem _ hr)) _ (Nat.max_le.mpr ⟨ha, h x List.mem_cons_self⟩)

theorem replay_all_idle (im : IdMap) (k : Nat) (txs : List (Nat × List WalRec))
    (h : ∀ tx ∈ txs, tx.1 ≤ k ∨ IdleTx im tx) (m : IdMap) (acc : List Run) (hc : Covers im m) :
    txs.foldlM (replayStep k) (m, acc) = .ok (m, acc) := by
  induction txs with
  | nil => rfl
  | cons tx txs ih =>
    rw [List.foldlM_cons]
    have : replayStep k (m, acc) tx = .ok (m, acc) := by
      rcases h tx List.mem_cons_self with h1 | h1
      · unfold replayStep; rw [if_pos h1]
      · exact h1 k m acc hc
    rw [this]
    exact ih (fun t ht => h t (List.mem_cons_of_mem _ ht))

/-- `compact` keeps the recovery invariant when the label vectors are the persisted first labels -/
theorem Rec.compact (c : Cfg) {s : Engine} (hR : Rec s) (hQ : Quiet s) (hB : LabelsBase s.idmap) :
    Rec (s.compact c) ∧ Quiet (s.compact c) := by
  cases he : s.runs.isEmpty with
  | true => rw [compact_noop c s he]; exact ⟨hR, hQ⟩
  | false =>
  obtain ⟨st, root, sr, heq⟩ := compact_eq c s he
  rw [heq]
  have hck := hR.ckptLt
  obtain ⟨⟨txs, hb, hl, hs, hg, b1, b2, b3⟩, hp, ha⟩ := hR
  obtain ⟨txs', hb', hq⟩ := hQ.inv
  have hEq := Blocks.unique hb' hb
  rw [hEq] at hq
  obtain ⟨sc1, sc2, sc3, sc4⟩ := hs
  obtain ⟨r0, rs0, hr0⟩ : ∃ r rs, s.runs = r :: rs := by
    cases hrr : s.runs with
    | nil => rw [hrr] at he; cases he
    | cons r rs => exact ⟨r, rs, rfl⟩
  -- the checkpoint moves up
  have hge := (runs_max_ge s.runs 0).2
  have hupck : s.ckptTxid ≤ s.runs.foldl (fun m r => max m r.txid) 0 := by
    have h1 := hge r0 (by rw [hr0]; exact List.mem_cons_self)
    have h2 := ha r0 (by rw [hr0]; exact List.mem_cons_self)
    omega
  have hupmax : s.runs.foldl (fun m r => max m r.txid) 0 ≤ (scanRecovery txs).maxTxid :=
    runs_max_le s.runs _ b2 0 (Nat.zero_le _)
  generalize (buildForward s.nextSegId (collectRunEdges (!c.compactOwnLast) s.runs [] [])).persist = seg
  generalize ((Engine.sinkProps (·.nprops) s.runs).map (fun p => (SKey.node p.1.1 p.1.2, p.2)) ++
      (Engine.sinkProps (·.eprops) s.runs).map (fun p => (SKey.edge p.1.1 p.1.2, p.2)) : Store) = sunk
  generalize s.runs.foldl (fun m r => max m r.txid) 0 = upTo at hupck hupmax hge ⊢
  let metaTx : Nat × List WalRec := (s.nextTxid, [.manifestSwitch (s.epoch + 1) ((seg :: s.segs).map (·.id)) root,
    .checkpoint upTo (s.epoch + 1) root])
  have hinert : ∀ r ∈ metaTx.2, r.isInert = true := by
    intro r hr
    simp only [metaTx, List.mem_cons, List.mem_nil_iff, or_false] at hr
    rcases hr with rfl | rfl <;> rfl
  have hblocks : Blocks (s.wal ++ [.beginTx s.nextTxid, .manifestSwitch (s.epoch + 1) ((seg :: s.segs).map (·.id)) root,
      .checkpoint upTo (s.epoch + 1) root, .commitTx s.nextTxid]) (txs ++ [metaTx]) :=
    hb.append s.nextTxid metaTx.2 (by
      intro r hr
      simp only [metaTx, List.mem_cons, List.mem_nil_iff, or_false] at hr
      rcases hr with rfl | rfl <;> rfl)
  have hmax := scan_maxTxid_append txs metaTx
  have hidle : ∀ tx ∈ txs ++ [metaTx], tx.1 ≤ upTo ∨ IdleTx s.idmap tx := by
    intro tx htx
    rcases List.mem_append.mp htx with h' | h'
    · rcases hq tx h' with h1 | ⟨r, hr, hre⟩ | h3
      · exact Or.inl (Nat.le_trans h1 hupck)
      · exact Or.inl (hre ▸ hge r hr)
      · exact Or.inr h3
    · simp only [List.mem_singleton] at h'
      subst h'
      exact Or.inr (idle_of_inert _ _ hinert)
  constructor
  · refine ⟨⟨txs ++ [metaTx], hblocks, ?_, ?_, ?_, ?_, ?_, ?_⟩, Nat.le_succ_of_le hp, ?_⟩
    · exact replayLabels_append_noDef txs _ hl metaTx (by
        intro r hr
        simp only [metaTx, List.mem_cons, List.mem_nil_iff, or_false] at hr
        rcases hr with rfl | rfl <;> rfl)
    · show ScanIs (s.epoch + 1) ((seg :: s.segs).map (·.id)) upTo root (txs ++ [metaTx])
      unfold ScanIs
      rw [scanRecovery_eq, List.foldl_append, ← scanRecovery_eq]
      simp only [List.foldl_cons, List.foldl_nil, scanTx, metaTx, scanOp, sc1, ge_iff_le, Nat.le_succ, if_true,
        beq_self_eq_true, Nat.zero_max, and_self]
    · intro m0 T hc hi
      show ∃ R, replayGraph (txs ++ [metaTx]) upTo m0 = .ok ({ m0 with i2l := s.idmap.i2l ++ T }, R) ∧ RunsEq R.reverse []
      refine ⟨[], ?_, RunsEq.nil⟩
      have : ({ m0 with i2l := s.idmap.i2l ++ T } : IdMap) = m0 := by
        cases m0; simp only at hi ⊢; rw [hi, hB]; rfl
      rw [this, replayGraph_eq]
      exact replay_all_idle s.idmap upTo _ hidle m0 [] hc
    · show upTo ≤ _
      rw [hmax]; exact Nat.le_trans hupmax (Nat.le_max_left _ _)
    · intro r hr; cases hr
    · rw [hmax]; show max _ s.nextTxid < s.nextTxid + 1; omega
    · intro r hr; cases hr
  · refine ⟨⟨txs ++ [metaTx], hblocks, ?_⟩⟩
    intro tx htx
    show tx.1 ≤ upTo ∨ (∃ r ∈ ([] : List Run), r.txid = tx.1) ∨ IdleTx s.idmap tx
    rcases hidle tx htx with h1 | h1
    · exact Or.inl h1
    · exact Or.inr (Or.inr h1)

/-! ### close: the log is replaced by one transaction -/

theorem labels_roundtrip (q : Interner) : ∀ p : Interner, (p ++ q).Nodup →
    ((q.zipIdx p.length).map (fun x => WalRec.createLabel x.1 x.2)).foldlM labelOp p = .ok (p ++ q) := by
  induction q with
  | nil => intro p _; simp only [List.zipIdx_nil, List.map_nil, List.foldlM_nil, List.append_nil]; rfl
  | cons nm q ih =>
    intro p hn
    have hnm : nm ∉ p := by
      intro hm
      have := (List.nodup_append.mp hn).2.2 nm hm nm List.mem_cons_self
      exact this rfl
    rw [List.zipIdx_cons, List.map_cons, List.foldlM_cons]
    have : labelOp p (WalRec.createLabel nm p.length) = .ok (p ++ [nm]) := by
      simp only [labelOp, (getId_none_iff p nm).mpr hnm, Nat.sub_self, List.range_zero, List.map_nil, List.append_nil]
    rw [this]
    have := ih (p ++ [nm]) (by rw [List.append_assoc]; exact hn)
    rw [List.length_append, List.length_singleton] at this
    show (List.map (fun x => WalRec.createLabel x.1 x.2) (q.zipIdx (p.length + 1))).foldlM labelOp (p ++ [nm]) = _
    rw [this, List.append_assoc]
    rfl

/-- the engine `open` sees after `checkpoint_on_close` rewrote the log (same files; `ckptTxid` is the
    value the rewritten log carries) -/
def closedView (s : Engine) : Engine := { s.checkpointOnClose with ckptTxid := s.nextTxid - 1 }

theorem closedView_reopen (s : Engine) : (closedView s).reopen = s.checkpointOnClose.reopen := rfl

theorem close_rec {s : Engine} (hR : Rec s) (hB : LabelsBase s.idmap) (hn : s.interner.Nodup)
    (he : s.runs = []) : Rec (closedView s) ∧ Quiet (closedView s) := by
  have hp := hR.txidPos
  have hemp : (!s.runs.isEmpty) = false := by rw [he]; rfl
  let labels := s.interner.zipIdx.map (fun p => WalRec.createLabel p.1 p.2)
  let body : List WalRec := labels ++ [.manifestSwitch s.epoch (s.segs.map (·.id)) s.propsRoot,
    .checkpoint (s.nextTxid - 1) s.epoch s.propsRoot]
  have hwal : (closedView s).wal = WalRec.beginTx s.nextTxid :: (body ++ [WalRec.commitTx s.nextTxid]) := by
    unfold closedView Engine.checkpointOnClose
    rw [hemp]
    simp only [Bool.false_eq_true, if_false, body, labels, List.append_assoc, List.cons_append, List.nil_append]
  have hfields : (closedView s).idmap = s.idmap ∧ (closedView s).interner = s.interner ∧
      (closedView s).runs = s.runs ∧ (closedView s).epoch = s.epoch ∧ (closedView s).segs = s.segs ∧
      (closedView s).propsRoot = s.propsRoot ∧ (closedView s).ckptTxid = s.nextTxid - 1 ∧
      (closedView s).nextTxid = s.nextTxid + 1 := by
    unfold closedView Engine.checkpointOnClose
    rw [hemp]
    exact ⟨rfl, rfl, rfl, rfl, rfl, rfl, rfl, rfl⟩
  obtain ⟨f1, f2, f3, f4, f5, f6, f7, f8⟩ := hfields
  have hbody : ∀ r ∈ body, r.isBody = true := by
    intro r hr
    simp only [body, labels, List.mem_append, List.mem_map, List.mem_cons, List.mem_nil_iff, or_false] at hr
    rcases hr with ⟨_, _, rfl⟩ | rfl | rfl <;> rfl
  have hinert : ∀ r ∈ body, r.isInert = true := by
    intro r hr
    simp only [body, labels, List.mem_append, List.mem_map, List.mem_cons, List.mem_nil_iff, or_false] at hr
    rcases hr with ⟨_, _, rfl⟩ | rfl | rfl <;> rfl
  have hblocks : Blocks (closedView s).wal [(s.nextTxid, body)] := by
    rw [hwal]
    have := Blocks.nil.append s.nextTxid body hbody
    simpa using this
  have hmax : (scanRecovery [(s.nextTxid, body)]).maxTxid = s.nextTxid := by
    have := scan_maxTxid_append [] (s.nextTxid, body)
    simp only [List.nil_append] at this
    rw [this]
    show max 0 s.nextTxid = s.nextTxid
    exact Nat.zero_max _
  have hidle : IdleTx s.idmap (s.nextTxid, body) := idle_of_inert _ _ hinert
  constructor
  · refine ⟨⟨[(s.nextTxid, body)], hblocks, ?_, ?_, ?_, ?_, ?_, ?_⟩, ?_, ?_⟩
    · rw [f2, replayLabels_eq, List.foldlM_cons]
      have h1 := labels_roundtrip s.interner [] (by simpa using hn)
      simp only [List.length_nil, List.nil_append] at h1
      have hbodyL : body.foldlM labelOp [] = .ok s.interner := by
        show (labels ++ _).foldlM labelOp [] = _
        rw [List.foldlM_append]
        show (labels.foldlM labelOp [] >>= _) = _
        rw [show labels.foldlM labelOp [] = .ok s.interner from h1]
        rfl
      show (labelTx [] (s.nextTxid, body) >>= fun init => List.foldlM labelTx init []) = _
      unfold labelTx
      simp only
      rw [hbodyL]
      rfl
    · rw [f4, f5, f6, f7]
      unfold ScanIs
      rw [scanRecovery_eq, List.foldl_cons, List.foldl_nil]
      unfold scanTx
      show (_ : Recovery).epoch = _ ∧ _
      rw [List.foldl_append]
      have hnm : ∀ r ∈ labels, r.isMeta = false := by
        intro r hr
        simp only [labels, List.mem_map] at hr
        obtain ⟨_, _, rfl⟩ := hr; rfl
      obtain ⟨m1, m2, m3, m4⟩ := scanOps_noMeta labels { ({} : Recovery) with maxTxid := max ({} : Recovery).maxTxid s.nextTxid } hnm
      generalize labels.foldl scanOp { ({} : Recovery) with maxTxid := max ({} : Recovery).maxTxid s.nextTxid } = st0 at m1 m2 m3 m4
      have e0 : st0.epoch = 0 := m1
      simp only [List.foldl_cons, List.foldl_nil, scanOp, e0, ge_iff_le, Nat.zero_le, if_true, beq_self_eq_true,
        Nat.zero_max, and_self]
    · intro m0 T hc hi
      rw [f1, f3, f7] at *
      refine ⟨[], ?_, by rw [he]; exact RunsEq.nil⟩
      have : ({ m0 with i2l := s.idmap.i2l ++ T } : IdMap) = m0 := by
        cases m0; simp only at hi ⊢; rw [hi, hB]
      rw [this, replayGraph_eq]
      exact replay_all_idle s.idmap _ _ (by
        intro tx htx; simp only [List.mem_singleton] at htx; subst htx; exact Or.inr hidle) m0 [] hc
    · rw [f7, hmax]; omega
    · rw [f3, he]; intro r hr; cases hr
    · rw [f8, hmax]; omega
    · rw [f8]; omega
    · rw [f3, he]; intro r hr; cases hr
  · refine ⟨⟨[(s.nextTxid, body)], hblocks, ?_⟩⟩
    intro tx htx
    simp only [List.mem_singleton] at htx
    subst htx
    rw [f1]
    exact Or.inr (Or.inr hidle)

end Nervus.Storage
