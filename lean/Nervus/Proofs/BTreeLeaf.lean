/-
  C26 helper lemmas: page-local facts.
  * the standard code shape `Cfg.Std` (what the theorems assume about the regenerated flags);
  * leaf_lower_bound / internal_child_for_key on sorted cells, in list form;
  * `kidsR`: the children of an internal page with the key range each one is responsible for,
    and how it changes under cell insertion and under a split;
  * rebuild_leaf / rebuild_internal return their input cells.
-/
import Nervus.Proofs.BTreeSearch
set_option linter.unusedSectionVars false
set_option linter.unusedVariables false
namespace Nervus.BTree
open Nervus KO

/-- the code shape the correctness proof is about: lower-bound search in leaves (`k < target`),
    upper-bound descent (`k <= target`), cursor advance skips empty leaves -/
structure Cfg.Std (c : Cfg) : Prop where
  leaf : c.leafSearchLe = false
  int : c.intSearchLe = true
  adv : c.advSkipsEmpty = true

variable {κ : Type} [KeyOrd κ] [LawfulKeyOrd κ]

/-- cells strictly sorted by key -/
def SSorted (es : List (κ × Nat)) : Prop := es.Pairwise (fun a b => Lt a.1 b.1)
/-- cells weakly sorted by key -/
def WSorted (es : List (κ × Nat)) : Prop := es.Pairwise (fun a b => Le a.1 b.1)

theorem SSorted.weak {es : List (κ × Nat)} (h : SSorted es) : WSorted es :=
  List.Pairwise.imp (fun h => le_of_lt h) h

/-- list form of `bsLoop_spec` -/
theorem bs_list_spec {α : Type} (goes : α → Bool) (xs : List α)
    (mono : xs.Pairwise (fun a b => goes b = true → goes a = true)) :
    ∃ r, bsLoop (fun mid => (xs[mid]?).map goes) xs.length 0 xs.length = some r ∧ r ≤ xs.length ∧
      (∀ e ∈ xs.take r, goes e = true) ∧ (∀ e ∈ xs.drop r, goes e = false) := by
  let P : Nat → Bool := fun i => match xs[i]? with | some e => goes e | none => false
  have hg : ∀ i, i < xs.length → (fun mid => (xs[mid]?).map goes) i = some (P i) := by
    intro i hi
    simp only [P, List.getElem?_eq_getElem hi, Option.map_some]
  have hmono : ∀ i j, i ≤ j → j < xs.length → P j = true → P i = true := by
    intro i j hij hj hpj
    by_cases e : i = j
    · subst e; exact hpj
    · have hi : i < xs.length := by omega
      simp only [P, List.getElem?_eq_getElem hi, List.getElem?_eq_getElem hj] at hpj ⊢
      exact (List.pairwise_iff_getElem.mp mono) i j hi hj (by omega) hpj
  obtain ⟨r, hr, hle, h1, h2⟩ := bsLoop_spec _ xs.length P hg hmono xs.length 0 xs.length
    (Nat.zero_le _) (Nat.le_refl _) (by omega) (by intro i hi; omega) (by intro i h1 h2; omega)
  refine ⟨r, hr, hle, ?_, ?_⟩
  · intro e he
    obtain ⟨j, hj, rfl⟩ := List.mem_take_iff_getElem.mp he
    have hjl : j < xs.length := by omega
    have := h1 j (by omega)
    simpa only [P, List.getElem?_eq_getElem hjl] using this
  · intro e he
    obtain ⟨j, hj⟩ := List.mem_iff_getElem?.mp he
    rw [List.getElem?_drop] at hj
    have hjl : r + j < xs.length := by
      rcases List.getElem?_eq_some_iff.mp hj with ⟨h, _⟩; exact h
    have := h2 (r + j) (by omega) hjl
    simp only [P, hj] at this
    exact this

/-- leaf_lower_bound on a sorted leaf: everything before the index is smaller than the target,
    everything from the index on is not -/
theorem leafLowerBound_spec (c : Cfg) (hc : c.Std) (es : List (κ × Nat)) (hs : WSorted es) (k : κ) :
    ∃ idx, leafLowerBound c es k = some idx ∧ idx ≤ es.length ∧
      (∀ e ∈ es.take idx, Lt e.1 k) ∧ (∀ e ∈ es.drop idx, Le k e.1) := by
  unfold leafLowerBound
  have mono : es.Pairwise (fun a b => goesRight c.leafSearchLe b.1 k = true → goesRight c.leafSearchLe a.1 k = true) := by
    apply List.Pairwise.imp _ hs
    intro a b hab h
    simp only [goesRight, hc.leaf, Bool.false_eq_true, if_false] at h ⊢
    exact lt_of_le_of_lt hab h
  obtain ⟨r, hr, hle, h1, h2⟩ := bs_list_spec (fun e : κ × Nat => goesRight c.leafSearchLe e.1 k) es mono
  refine ⟨r, hr, hle, ?_, ?_⟩
  · intro e he
    have := h1 e he
    simp only [goesRight, hc.leaf, Bool.false_eq_true, if_false] at this
    exact this
  · intro e he
    have := h2 e he
    simp only [goesRight, hc.leaf, Bool.false_eq_true, if_false] at this
    exact this

/-! ### children of an internal page with their key ranges -/

/-- lower bound `lo ≼ k` (none = −∞) -/
def bLo : Option κ → κ → Prop
  | none, _ => True
  | some l, k => Le l k
/-- upper bound `k ≺ hi` (none = +∞) -/
def bHi : κ → Option κ → Prop
  | _, none => True
  | k, some h => Lt k h
/-- a key range `[lo, hi)` is not inverted -/
def bLe : Option κ → Option κ → Prop
  | some a, some b => Le a b
  | _, _ => True

/-- (child, lo, hi) for every child of an internal page responsible for `[lo, hi)` -/
def kidsR (lo hi : Option κ) (lm : Nat) : List (κ × Nat) → List (Nat × Option κ × Option κ)
  | [] => [(lm, lo, hi)]
  | (k, ch) :: rest => (lm, lo, some k) :: kidsR (some k) hi ch rest

/-- the children left of a cell prefix -/
def front (lo : Option κ) (lm : Nat) : List (κ × Nat) → List (Nat × Option κ × Option κ)
  | [] => []
  | (k, ch) :: rest => (lm, lo, some k) :: front (some k) ch rest

/-- (lower bound, child) in force after a cell prefix -/
def endSt (lo : Option κ) (lm : Nat) : List (κ × Nat) → Option κ × Nat
  | [] => (lo, lm)
  | (k, ch) :: rest => endSt (some k) ch rest

/-- page ids of the children: `children = leftmost :: cells.map snd` -/
def kidsOf (lm : Nat) (cells : List (κ × Nat)) : List Nat := lm :: cells.map (·.2)

theorem kidsR_append (lo hi : Option κ) (lm : Nat) (pre post : List (κ × Nat)) :
    kidsR lo hi lm (pre ++ post) =
      front lo lm pre ++ kidsR (endSt lo lm pre).1 hi (endSt lo lm pre).2 post := by
  induction pre generalizing lo lm with
  | nil => rfl
  | cons x xs ih =>
    obtain ⟨k, ch⟩ := x
    simp only [List.cons_append, kidsR, front, endSt, ih]

theorem front_length (lo : Option κ) (lm : Nat) (pre : List (κ × Nat)) :
    (front lo lm pre).length = pre.length := by
  induction pre generalizing lo lm with
  | nil => rfl
  | cons x xs ih => obtain ⟨k, ch⟩ := x; simp [front, ih]

theorem kidsR_map_fst (lo hi : Option κ) (lm : Nat) (cells : List (κ × Nat)) :
    (kidsR lo hi lm cells).map (·.1) = kidsOf lm cells := by
  induction cells generalizing lo lm with
  | nil => rfl
  | cons x xs ih =>
    obtain ⟨k, ch⟩ := x
    simp only [kidsR, List.map_cons, kidsOf] at ih ⊢
    rw [ih]

/-- the first child of a cell list does not depend on what comes before -/
theorem kidsR_head (hi : Option κ) (post : List (κ × Nat)) :
    ∃ b tail, ∀ (lo : Option κ) (lm : Nat), kidsR lo hi lm post = (lm, lo, b) :: tail := by
  cases post with
  | nil => exact ⟨hi, [], fun _ _ => rfl⟩
  | cons x xs => obtain ⟨k, ch⟩ := x; exact ⟨some k, kidsR (some k) hi ch xs, fun _ _ => rfl⟩

/-- inserting the cell `(sep, right)` after the prefix `pre` splits the range of the child that was
    found there into `[a, sep)` (same child) and `[sep, b)` (the new child `right`) -/
theorem kidsR_insert (lo hi : Option κ) (lm : Nat) (pre post : List (κ × Nat)) (sep : κ) (right : Nat) :
    ∃ b tail,
      kidsR lo hi lm (pre ++ post) =
        front lo lm pre ++ ((endSt lo lm pre).2, (endSt lo lm pre).1, b) :: tail ∧
      kidsR lo hi lm (pre ++ (sep, right) :: post) =
        front lo lm pre ++ ((endSt lo lm pre).2, (endSt lo lm pre).1, some sep) :: (right, some sep, b) :: tail := by
  obtain ⟨b, tail, h⟩ := kidsR_head hi post
  refine ⟨b, tail, ?_, ?_⟩
  · rw [kidsR_append, h]
  · rw [kidsR_append]
    simp only [kidsR]
    rw [h]

/-- splitting the cells at a promoted cell splits the children -/
theorem kidsR_split (lo hi : Option κ) (lm : Nat) (l r : List (κ × Nat)) (pk : κ) (rlm : Nat) :
    kidsR lo hi lm (l ++ (pk, rlm) :: r) = kidsR lo (some pk) lm l ++ kidsR (some pk) hi rlm r := by
  induction l generalizing lo lm with
  | nil => rfl
  | cons x xs ih =>
    obtain ⟨k, ch⟩ := x
    simp only [List.cons_append, kidsR, ih]

theorem endSt_bLo (lo : Option κ) (lm : Nat) (pre : List (κ × Nat)) (k : κ)
    (h0 : bLo lo k) (h : ∀ e ∈ pre, Le e.1 k) : bLo (endSt lo lm pre).1 k := by
  induction pre generalizing lo lm with
  | nil => exact h0
  | cons x xs ih =>
    obtain ⟨k', ch⟩ := x
    simp only [endSt]
    apply ih
    · exact h (k', ch) (List.mem_cons_self ..)
    · intro e he; exact h e (List.mem_cons_of_mem _ he)

/-- endSt's child is the Rust expression: leftmost if the prefix is empty, else the last cell's child -/
theorem endSt_snd (lo : Option κ) (lm : Nat) (pre : List (κ × Nat)) :
    (endSt lo lm pre).2 = match pre.getLast? with | none => lm | some e => e.2 := by
  induction pre generalizing lo lm with
  | nil => rfl
  | cons x xs ih =>
    obtain ⟨k, ch⟩ := x
    simp only [endSt]
    rw [ih]
    cases xs with
    | nil => rfl
    | cons y ys =>
      rw [List.getLast?_cons_cons]
      cases h : (y :: ys).getLast? with
      | none => simp at h
      | some e => rfl

/-- internal_child_for_key on weakly sorted cells: the cells split into those with key ≼ target
    and those with key ≻ target; the child is the one in force after the first group -/
theorem childForKey_spec (c : Cfg) (hc : c.Std) (lm : Nat) (cells : List (κ × Nat)) (hs : WSorted cells) (k : κ) :
    ∃ pre post, cells = pre ++ post ∧ (∀ e ∈ pre, Le e.1 k) ∧ (∀ e ∈ post, Lt k e.1) ∧
      ∀ lo : Option κ, childForKey c lm cells k = some ((endSt lo lm pre).2, pre.length) := by
  unfold childForKey
  have mono : cells.Pairwise (fun a b => goesRight c.intSearchLe b.1 k = true → goesRight c.intSearchLe a.1 k = true) := by
    apply List.Pairwise.imp _ hs
    intro a b hab h
    simp only [goesRight, hc.int, if_true, Bool.not_eq_true'] at h ⊢
    exact le_trans hab h
  obtain ⟨r, hr, hle, h1, h2⟩ := bs_list_spec (fun e : κ × Nat => goesRight c.intSearchLe e.1 k) cells mono
  refine ⟨cells.take r, cells.drop r, (List.take_append_drop r cells).symm, ?_, ?_, ?_⟩
  · intro e he
    have := h1 e he
    simpa only [goesRight, hc.int, if_true, Bool.not_eq_true'] using this
  · intro e he
    have := h2 e he
    simpa only [goesRight, hc.int, if_true, Bool.not_eq_false'] using this
  · intro lo
    rw [hr]
    have hlen : (cells.take r).length = r := by simp [List.length_take]; omega
    cases r with
    | zero => simp [endSt]
    | succ p =>
      simp only
      have hp : p < cells.length := by omega
      rw [List.getElem?_eq_getElem hp]
      simp only [Option.map_some, hlen]
      rw [endSt_snd]
      have : (cells.take (p+1)).getLast? = some cells[p] := by
        rw [List.getLast?_eq_getElem?]
        simp only [hlen, Nat.add_sub_cancel]
        rw [List.getElem?_take]
        simp [List.getElem?_eq_getElem hp]
      rw [this]

/-! ### rebuild_leaf / rebuild_internal -/

theorem rebuildLeafGo_eq (c : Cfg) : ∀ (entries acc : List (κ × Nat)) (b : Nat) (r : List (κ × Nat) × Nat),
    rebuildLeafGo c entries acc b = some r → r.1 = acc ++ entries
  | [], acc, b, r, h => by simp [rebuildLeafGo] at h; subst h; simp
  | (k, v) :: rest, acc, b, r, h => by
    simp only [rebuildLeafGo] at h
    cases hi : leafInsertAt c acc b acc.length k v with
    | none => simp [hi] at h
    | some p =>
      obtain ⟨acc', b'⟩ := p
      simp only [hi] at h
      have := rebuildLeafGo_eq c rest acc' b' r h
      rw [this]
      unfold leafInsertAt at hi
      simp only at hi
      split at hi
      · cases hi
      · split at hi
        · cases hi
        · split at hi
          · cases hi
          · cases hi
            simp [List.insertIdx_length_self]

theorem rebuildLeaf_eq (c : Cfg) (entries : List (κ × Nat)) (r : List (κ × Nat) × Nat)
    (h : rebuildLeaf c entries = some r) : r.1 = entries := by
  have := rebuildLeafGo_eq c entries [] c.ps r h
  simpa using this

theorem rebuildIntGo_eq (c : Cfg) : ∀ (entries acc : List (κ × Nat)) (b : Nat) (r : List (κ × Nat) × Nat),
    rebuildIntGo c entries acc b = some r → r.1 = acc ++ entries
  | [], acc, b, r, h => by simp [rebuildIntGo] at h; subst h; simp
  | (k, v) :: rest, acc, b, r, h => by
    simp only [rebuildIntGo] at h
    cases hi : intInsertAt c acc b acc.length k v with
    | none => simp [hi] at h
    | some p =>
      obtain ⟨acc', b'⟩ := p
      simp only [hi] at h
      have := rebuildIntGo_eq c rest acc' b' r h
      rw [this]
      unfold intInsertAt at hi
      simp only at hi
      split at hi
      · cases hi
      · split at hi
        · cases hi
        · split at hi
          · cases hi
          · cases hi
            simp [List.insertIdx_length_self]

theorem rebuildInternal_eq (c : Cfg) (cells : List (κ × Nat)) (r : List (κ × Nat) × Nat)
    (h : rebuildInternal c cells = some r) : r.1 = cells := by
  have := rebuildIntGo_eq c cells [] c.ps r h
  simpa using this

theorem leafInsertAt_eq (c : Cfg) (es : List (κ × Nat)) (b idx : Nat) (k : κ) (v : Nat)
    (r : List (κ × Nat) × Nat) (h : leafInsertAt c es b idx k v = some r) :
    r.1 = es.insertIdx idx (k, v) ∧ idx ≤ es.length := by
  unfold leafInsertAt at h
  simp only at h
  split at h
  · cases h
  · split at h
    · cases h
    · split at h
      · cases h
      · cases h; exact ⟨rfl, by omega⟩

theorem intInsertAt_eq (c : Cfg) (es : List (κ × Nat)) (b idx : Nat) (k : κ) (v : Nat)
    (r : List (κ × Nat) × Nat) (h : intInsertAt c es b idx k v = some r) :
    r.1 = es.insertIdx idx (k, v) ∧ idx ≤ es.length := by
  unfold intInsertAt at h
  simp only at h
  split at h
  · cases h
  · split at h
    · cases h
    · split at h
      · cases h
      · cases h; exact ⟨rfl, by omega⟩

end Nervus.BTree
