/-
  Proofs/ReopenHist.lean — the history induction with reopen steps (C04): `Sim ∧ Rec` is maintained
  by committed and abandoned transactions and by reopen.
-/
import Nervus.Proofs.ReopenMain
namespace Nervus.Storage
open Nervus.GraphSpec (Graph TxOp Op opWF txWF wfFrom anyCommitted txDeletesRelWithProps
  txLabelReAdd txEdgeAndEndpointDelete txExtZero)

theorem createNode_txid (s : Engine) (t : Txn) (x l : Nat) (r : Txn × Nat) (h : t.createNode s x l = some r) :
    r.1.txid = t.txid := by
  unfold Txn.createNode at h
  split at h
  · cases h
  · split at h
    · cases h
    · cases h; rfl

theorem stepTx_txid (c : Cfg) (st : Engine × Txn) (op : TxOp) : (stepTx c st op).2.txid = st.2.txid := by
  cases op with
  | node x lab =>
    simp only [stepTx]
    split
    · rename_i r hr; exact createNode_txid _ _ _ _ _ hr
    · rfl
  | vec n v =>
    show (st.2.setVector c st.1 n v).2.txid = _
    unfold Txn.setVector; split <;> rfl
  | _ => rfl

theorem fold_txid (c : Cfg) (ops : List TxOp) : ∀ st : Engine × Txn, (ops.foldl (stepTx c) st).2.txid = st.2.txid := by
  induction ops with
  | nil => intro st; rfl
  | cons op ops ih => intro st; rw [List.foldl_cons, ih, stepTx_txid]

theorem Rec.begin {s : Engine} (h : Rec s) : Rec s.beginWrite.1 :=
  h.congr rfl rfl rfl rfl (Nat.le_succ _)

/-- an abandoned transaction keeps the recovery invariant -/
theorem tx_abort_rec (c : Cfg) {s0 : Engine} (h : Rec s0) (ops : List TxOp) : Rec (runTx c s0 ops false) :=
  Rec.fold c ops s0.beginWrite h.begin

/-- a committed transaction (current record order) keeps both invariants -/
theorem tx_commit2 {s0 g0} (h : Sim s0 g0) (hr : Rec s0) (ops : List TxOp)
    (hwf : txWF g0 ops = true) (hb : s0.interner.length + ops.length ≤ labelMax)
    (hz : txExtZero ops = false) (hra : txLabelReAdd ops = false) (hed : txEdgeAndEndpointDelete ops = false)
    (hrp : txDeletesRelWithProps g0 ops = false) :
    Sim (runTx Cfg.current s0 ops true) (g0.apply ops) ∧ Rec (runTx Cfg.current s0 ops true) := by
  refine ⟨tx_commit Cfg.current h ops hwf hb hz hra hed hrp, ?_⟩
  have hst := stage_ops Cfg.current h.L ops s0.beginWrite.1 s0.beginWrite.2 g0 (St2.init h.G h.L) hwf hb hz hra hed hrp
    (by intro p hp; exact absurd hp (List.not_mem_nil))
    (by intro e he; exact absurd he (List.not_mem_nil))
  have hrs : Rec (ops.foldl (stepTx Cfg.current) s0.beginWrite).1 := Rec.fold Cfg.current ops s0.beginWrite hr.begin
  have hmt := fold_mtWF Cfg.current ops s0.beginWrite MemTable.WF.empty
  have htxid : (ops.foldl (stepTx Cfg.current) s0.beginWrite).2.txid = s0.nextTxid := fold_txid Cfg.current ops s0.beginWrite
  have hid := hst.G.ext.idmap
  have hv := ext_vals hst.L
  have hnd := hst.L.extND
  rw [hv, List.nodup_append] at hnd
  obtain ⟨hnd1, _, hdisj⟩ := hnd
  have hcommit := Rec.commit hrs hmt (by rw [htxid]; exact hr.txidPos)
    (by intro i c hc; rw [hid, h.L.lenE]; exact hst.L.ids i c hc)
    (by
      intro c hc
      rw [hid, h.L.e2i c.1]
      apply lookup_eq_none_of_not_mem_keys
      intro p hp heq
      obtain ⟨q, hq, rfl⟩ := List.mem_map.mp hp
      simp only at heq
      exact hdisj c.1 (List.mem_reverse.mpr (List.mem_map.mpr ⟨c, hc, rfl⟩)) q.2
        (List.mem_map.mpr ⟨q, hq, rfl⟩) heq.symm)
    ((List.reverse_perm _).nodup_iff.mp hnd1)
    (by rw [hid, h.L.lenL, h.L.lenE])
    (by intro p hp; rw [hid, h.L.lenL, ← hst.L.next]; exact (hst.L.addOK p hp).1)
    (by intro p hp; rw [hid, h.L.lenL, ← hst.L.next]; exact (hst.L.delOK p hp).1)
  unfold runTx
  simp only [if_true]
  rw [commit_ok_eq Cfg.current _ _ _ hcommit.1]
  exact hcommit.2

/-- histories of transactions and reopens -/
def txOrReopen : List Op → Bool
  | [] => true
  | .tx _ _ :: h => txOrReopen h
  | .reopen :: h => txOrReopen h
  | _ :: _ => false

theorem run_sim2 (h : List Op) :
    ∀ s g, Sim s g → Rec s → txOrReopen h = true → wfFrom g h = true → s.interner.length + histSize h ≤ labelMax →
      anyCommitted txDeletesRelWithProps g h = false →
      anyCommitted (fun _ => txLabelReAdd) g h = false →
      anyCommitted (fun _ => txEdgeAndEndpointDelete) g h = false →
      anyCommitted (fun _ => txExtZero) g h = false →
      ∃ s', h.foldlM (runOp Cfg.current) s = .ok s' ∧ Sim s' (h.foldl Graph.opStep g) ∧ Rec s' := by
  induction h with
  | nil => intro s g hs hr _ _ _ _ _ _ _; exact ⟨s, rfl, hs, hr⟩
  | cons op h ih =>
    intro s g hs hr htx hwf hb t1 t2 t3 t4
    cases op with
    | tx ops commit =>
      simp only [txOrReopen] at htx
      simp only [wfFrom, Bool.and_eq_true] at hwf
      simp only [histSize] at hb
      have hlen := runTx_interner_le Cfg.current s hs.G.nodup ops commit
      cases commit with
      | true =>
        simp only [anyCommitted, Bool.or_eq_false_iff] at t1 t2 t3 t4
        obtain ⟨hs', hr'⟩ := tx_commit2 hs hr ops hwf.1 (by omega) t4.1 t2.1 t3.1 t1.1
        obtain ⟨s', hrun, hsim, hrec⟩ := ih (runTx Cfg.current s ops true) (g.apply ops) hs' hr' htx hwf.2 (by omega)
          t1.2 t2.2 t3.2 t4.2
        exact ⟨s', hrun, hsim, hrec⟩
      | false =>
        simp only [anyCommitted] at t1 t2 t3 t4
        have hs' := tx_abort Cfg.current hs ops (by omega)
        have hr' := tx_abort_rec Cfg.current hr ops
        obtain ⟨s', hrun, hsim, hrec⟩ := ih (runTx Cfg.current s ops false) g hs' hr' htx hwf.2 (by omega) t1 t2 t3 t4
        exact ⟨s', hrun, hsim, hrec⟩
    | reopen =>
      simp only [txOrReopen] at htx
      simp only [wfFrom] at hwf
      simp only [histSize] at hb
      simp only [anyCommitted] at t1 t2 t3 t4
      obtain ⟨s1, hopen, hs1, hr1⟩ := reopen_sim hs hr
      have hint : s1.interner = s.interner := by
        -- the interner is recovered from the log
        obtain ⟨⟨txs, hbk, hl, _, _⟩, _⟩ := hr
        have : s.reopen = .ok s1 := hopen
        unfold Engine.reopen Engine.open at this
        have e1 : replayCommitted s.disk.wal none [] = .ok txs := hbk.parse
        simp only [e1, hl, bind, Except.bind] at this
        split at this
        · cases this
        · split at this
          · cases this
          · simp only [pure, Except.pure, Except.ok.injEq] at this
            rw [← this]
      obtain ⟨s', hrun, hsim, hrec⟩ := ih s1 g hs1 hr1 htx hwf (by rw [hint]; exact hb) t1 t2 t3 t4
      refine ⟨s', ?_, hsim, hrec⟩
      rw [List.foldlM_cons]
      show (s.reopen >>= fun s' => h.foldlM (runOp Cfg.current) s') = _
      rw [hopen]; exact hrun
    | compact => simp [txOrReopen] at htx
    | close => simp [txOrReopen] at htx

end Nervus.Storage
