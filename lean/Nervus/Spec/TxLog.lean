/-
  Nervus.Spec.TxLog — what a user relies on from the log (C17).

  * A record is *completely written* when its whole frame is in the file: a length field within the cap, that many
    body bytes, a matching checksum, and a body that decodes.  `completeFrames` reads such records from the front
    of a byte string and stops at the first position where there is none — the rest is the *tail* (a torn record,
    garbage, zero fill, a bad checksum …).  Note: bytes that happen to form a complete valid frame ARE a
    completely written record by this definition; no checksum-collision hypothesis is needed anywhere.
  * The committed transactions of a record sequence are the blocks `BeginTx x, ops…, CommitTx x`
    (an unfinished block is dropped when the next `BeginTx` arrives): `specTxs`.
  * `ProtoOk rs`: the sequence obeys the transaction protocol (no `CommitTx` without its `BeginTx`, no operation
    outside a transaction) — what every writer produces.
  The ideal log tolerates any tail: opening never fails, yields `specTxs` of the completely written records, and
  the next record is written right after them.
-/
import Nervus.Model.WalFrame
namespace Nervus.WalFrame
open Nervus Nervus.WalRec

/-- the tolerant reader configuration: same codec and cap, every tail condition ends the log -/
def Cfg.ideal (codec : WalRec.Cfg) (maxLen : Nat) : Cfg := ⟨codec, maxLen, true, true, true, true, true⟩

/-- the completely written records at the front of `bs`, and the tail behind them -/
def completeFrames (codec : WalRec.Cfg) (maxLen : Nat) (bs : Bytes) : List Rec × Bytes :=
  match readAll (Cfg.ideal codec maxLen) bs with
  | (rs, .eof tail) => (rs, tail)
  | (rs, .err _) => (rs, [])

/-- committed transactions, total: protocol violations are skipped instead of reported -/
def specGo : Option Nat → List Rec → List Tx → List Rec → List Tx
  | _, _, out, [] => out
  | cur, pend, out, r :: rs =>
    match r with
    | .beginTx t => specGo (some t) [] out rs
    | .commitTx t => if cur = some t then specGo none [] (out ++ [⟨t, pend⟩]) rs else specGo cur pend out rs
    | other => if cur = none then specGo cur pend out rs else specGo cur (pend ++ [other]) out rs

def specTxs (rs : List Rec) : List Tx := specGo none [] [] rs

/-- the sequence obeys the transaction protocol -/
def protoGo : Option Nat → List Rec → Bool
  | _, [] => true
  | cur, r :: rs =>
    match r with
    | .beginTx t => protoGo (some t) rs
    | .commitTx t => decide (cur = some t) && protoGo none rs
    | _ => decide (cur ≠ none) && protoGo cur rs

def ProtoOk (rs : List Rec) : Bool := protoGo none rs

/-- `r` is an operation (not a transaction marker) -/
def Rec.isOp : Rec → Bool
  | .beginTx _ => false
  | .commitTx _ => false
  | _ => true

end Nervus.WalFrame
