/-
  Nervus.Spec.CypherValue — what a user relies on from the Cypher value algebra (C23), the ordering
  used by ORDER BY (C20) and the aggregate definitions (C21), stated without reference to the code.
  Import-free apart from the value type itself.

  * three-valued logic: Kleene's tables on `Tri = Option Bool`; an operand that is not a boolean is
    *unknown* (`none`) — the engine's documented behaviour for non-boolean operands of AND/OR/XOR/NOT.
  * numbers are compared as the rational numbers they denote (`numCmp`: integers exactly, floats as
    dyadic rationals, NaN incomparable); strings as text (byte order of UTF-8 = code point order).
  * THE integer-overflow rule (`intRule`): compute in ℤ; representable as i64 ⇒ that `Int`, otherwise
    a `Float` (of the corresponding float operation).
-/
import Nervus.Model.Value
namespace Nervus.Spec
open Nervus Value

abbrev Tri := Option Bool

/-- a value as a truth value; non-booleans (null included) are unknown -/
def tri : Value → Tri
  | .bool b => some b
  | _ => none

def triValue : Tri → Value
  | some b => .bool b
  | none => .null

/-- Kleene conjunction -/
def and3 : Tri → Tri → Tri
  | some false, _ => some false
  | _, some false => some false
  | some true, some true => some true
  | _, _ => none

/-- Kleene disjunction -/
def or3 : Tri → Tri → Tri
  | some true, _ => some true
  | _, some true => some true
  | some false, some false => some false
  | _, _ => none

def xor3 : Tri → Tri → Tri
  | some a, some b => some (a != b)
  | _, _ => none

def not3 : Tri → Tri
  | some b => some (!b)
  | none => none

/-- a number as the exact dyadic rational it denotes -/
def numVal : Value → Option F64
  | .int i => some (F64.exact i)
  | .float b => some (F64.ofBits b)
  | _ => none

/-- numbers compare as the rationals they denote; `none` iff not both numbers or a NaN is involved -/
def numCmp (a b : Value) : Option Ordering :=
  match numVal a, numVal b with
  | some x, some y => F64.cmp x y
  | _, _ => none

/-- the total order ORDER BY uses on numbers: as `numCmp`, NaN after every number, NaN ~ NaN -/
def numOrder (a b : Value) : Option Ordering :=
  match numVal a, numVal b with
  | some x, some y => some (F64.cmpNanLast x y)
  | _, _ => none

/-- text order -/
def textCmp (a b : Str) : Ordering := cmpBytes a b

def i64Min : Int := -9223372036854775808
def i64Max : Int := 9223372036854775807

/-- THE integer-overflow rule: `z` is the exact result in ℤ, `f` the float fallback. -/
def intRule (z : Int) (f : Nat) : Value :=
  if i64Min ≤ z ∧ z ≤ i64Max then .int z else .float f

/-- no null and no NaN anywhere inside (the domain on which `=` is an equivalence) -/
def clean : Value → Bool
  | .null => false
  | .float b => !(F64.ofBits b).isNaN
  | .list xs => cleanList xs
  | .map kvs => cleanMap kvs
  | _ => true
where
  cleanList : List Value → Bool
    | [] => true
    | x :: xs => clean x && cleanList xs
  cleanMap : List (Str × Value) → Bool
    | [] => true
    | (_, x) :: xs => clean x && cleanMap xs

/-! ### `=` on composite values: the three-valued AND of the element equalities -/

/-- Kleene conjunction of a list of truth values: `false` if some element is false, else `null` if some
    element is unknown, else `true` — independent of the order of the elements -/
def kleeneAll : List Tri → Tri
  | [] => some true
  | t :: ts => and3 t (kleeneAll ts)

/-- Cypher `=`: `null` if an operand is null; numbers by value; strings as text; lists: different lengths are
    unequal, otherwise the Kleene AND of the pairwise equalities; maps: different key sets are unequal, otherwise
    the Kleene AND over the keys; every other pair of values of one kind structurally; different kinds unequal. -/
def eq3 : Value → Value → Tri
  | .null, _ => none
  | _, .null => none
  | .list xs, .list ys => if xs.length != ys.length then some false else eq3List xs ys
  | .map xs, .map ys =>
    if xs.map Prod.fst != ys.map Prod.fst then some false else eq3Map xs ys
  | a, b =>
    match numVal a, numVal b with
    | some _, some _ => some (numCmp a b == some .eq)
    | _, _ => some (same a b)
where
  eq3List : List Value → List Value → Tri
    | x :: xs, y :: ys => and3 (eq3 x y) (eq3List xs ys)
    | _, _ => some true
  eq3Map : List (Str × Value) → List (Str × Value) → Tri
    | (_, x) :: xs, (_, y) :: ys => and3 (eq3 x y) (eq3Map xs ys)
    | _, _ => some true

/-- openCypher orderability of the kinds of value, ascending:
    MAP < NODE < RELATIONSHIP < LIST < PATH < STRING < BOOLEAN < NUMBER < (engine-specific: datetime < blob) < NULL -/
def typeRank : Value → Nat
  | .map _ => 0
  | .nodeId _ | .externalId _ => 1
  | .edgeKey _ => 2
  | .list _ => 3
  | .path _ _ => 4
  | .str _ => 5
  | .bool _ => 6
  | .int _ | .float _ => 7
  | .dateTime _ => 8
  | .blob _ => 9
  | .null => 10

/-! ### aggregates (C21) -/

/-- the group's non-null values, in row order -/
def nonNull (vs : List Value) : List Value := vs.filter (fun v => !v.isNull)

def asInt : Value → Option Int
  | .int i => some i
  | _ => none

/-- exact sum in ℤ of the integers of a list -/
def intSum : List Value → Int
  | [] => 0
  | .int i :: vs => i + intSum vs
  | _ :: vs => intSum vs

/-- the Spec's grouping / DISTINCT equivalence: the engine's equality `==` (so `-0.0 ~ +0.0`, as under Cypher
    `=`; Int ≢ Float; structural otherwise) made reflexive: every NaN is equivalent to every NaN. -/
def groupEqv (a b : Value) : Bool := same (norm a) (norm b)

/-- first representative of every class of `groupEqv`, in order of first occurrence -/
def distinctReps : List Value → List Value
  | [] => []
  | v :: vs => v :: (distinctReps vs).filter (fun w => !groupEqv v w)


end Nervus.Spec
