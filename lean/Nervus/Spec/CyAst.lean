/-
  Cypher fragment shared by the reference semantics (Spec/Denote, Spec/UpdateSem) and by the model of the
  engine (Model/QCompile, QExec, QUpdate): property graph, runtime values, rows, the query AST (what
  nervusdb-query/src/ast.rs holds for this fragment) and the expression evaluator.

  The evaluator is PARAMETRIC in the value algebra (`Algebra`: comparison operators, the ORDER BY order,
  aggregate folds).  Those are the subject of C23/C20/C21 (Model/Value, Eval by another builder); C11/C12 are
  about the plumbing: which rows exist, which values reach which operator.  The three-valued connectives,
  IS NULL, label test, variable / property / parameter lookup are fixed here because the compiled plans
  contain such expressions (label filters) and the theorems need to compute with them.
  core/Std imports only.
-/
namespace Nervus.Cy

/-! ## property graph (documented data model: a relationship is identified by its (src, type, dst) triple;
    parallel relationships of one type are `mult` copies of that one identity with one property map) -/

structure RelId where
  src : Nat
  typ : String
  dst : Nat
deriving DecidableEq, Repr, Inhabited

/-- scalar / entity values: what a property, a list element or a plain column can hold -/
inductive Scalar
  | null | bool (b : Bool) | int (i : Int) | str (s : String)
  | node (id : Nat) | rel (r : RelId)
deriving DecidableEq, Repr, Inhabited

/-- runtime values of the fragment (lists hold scalars only; `path` is the engine's per-chain bookkeeping value) -/
inductive Val
  | null | bool (b : Bool) | int (i : Int) | str (s : String)
  | node (id : Nat) | rel (r : RelId)
  | list (xs : List Scalar)
  | path (nodes : List Nat) (rels : List RelId)
deriving DecidableEq, Repr, Inhabited

def Scalar.toVal : Scalar → Val
  | .null => .null | .bool b => .bool b | .int i => .int i | .str s => .str s
  | .node n => .node n | .rel r => .rel r

def Val.toScalar? : Val → Option Scalar
  | .null => some .null | .bool b => some (.bool b) | .int i => some (.int i) | .str s => some (.str s)
  | .node n => some (.node n) | .rel r => some (.rel r)
  | .list _ => none | .path _ _ => none

abbrev Props := List (String × Scalar)

structure NodeRec where
  id : Nat
  labels : List String
  props : Props
deriving DecidableEq, Repr, Inhabited

structure RelRec where
  id : RelId
  mult : Nat            -- number of parallel copies (≥ 1)
  props : Props
deriving DecidableEq, Repr, Inhabited

structure Graph where
  nodes : List NodeRec
  rels : List RelRec
deriving DecidableEq, Repr, Inhabited

namespace Graph
def node? (g : Graph) (id : Nat) : Option NodeRec := g.nodes.find? (·.id == id)
def rel? (g : Graph) (r : RelId) : Option RelRec := g.rels.find? (·.id == r)
def hasLabel (g : Graph) (id : Nat) (l : String) : Bool :=
  match g.node? id with | some n => n.labels.contains l | none => false
def nodeProp (g : Graph) (id : Nat) (k : String) : Val :=
  match g.node? id with
  | some n => match n.props.lookup k with | some v => v.toVal | none => .null
  | none => .null
def relProp (g : Graph) (r : RelId) (k : String) : Val :=
  match g.rel? r with
  | some e => match e.props.lookup k with | some v => v.toVal | none => .null
  | none => .null
/-- every relationship copy: one entry per parallel copy -/
def copies (g : Graph) : List RelId := g.rels.flatMap fun e => List.replicate e.mult e.id
def mult (g : Graph) (r : RelId) : Nat := match g.rel? r with | some e => e.mult | none => 0
end Graph

/-! ## rows -/

abbrev Row := List (String × Val)
abbrev Table := List Row

namespace Row
def get (r : Row) (x : String) : Option Val := r.lookup x
/-- mirrors core_types.rs `Row::with`: overwrite in place, else append -/
def set : Row → String → Val → Row
  | [], x, v => [(x, v)]
  | (y, w) :: rest, x, v => if y == x then (y, v) :: rest else (y, w) :: set rest x v
def vals (r : Row) : List Val := r.map (·.2)
def cols (r : Row) : List String := r.map (·.1)
end Row

/-! ## expressions -/

inductive Lit
  | null | bool (b : Bool) | int (i : Int) | str (s : String)
deriving DecidableEq, Repr, Inhabited

def Lit.toScalar : Lit → Scalar
  | .null => .null | .bool b => .bool b | .int i => .int i | .str s => .str s
def Lit.toVal (l : Lit) : Val := l.toScalar.toVal

inductive CmpOp | eq | ne | lt | le | gt | ge
deriving DecidableEq, Repr, Inhabited

inductive BoolOp | and | or | xor
deriving DecidableEq, Repr, Inhabited

inductive Expr
  | lit (l : Lit)
  | var (x : String)
  | prop (x : String) (k : String)
  | param (p : String)
  | cmp (op : CmpOp) (a b : Expr)
  | bool (op : BoolOp) (a b : Expr)
  | not (a : Expr)
  | isNull (a : Expr)
  | isNotNull (a : Expr)
  | hasLabel (a : Expr) (l : String)
  | listLit (xs : List Lit)
deriving DecidableEq, Repr, Inhabited

def Expr.vars : Expr → List String
  | .lit _ => [] | .var x => [x] | .prop x _ => [x] | .param _ => []
  | .cmp _ a b => a.vars ++ b.vars | .bool _ a b => a.vars ++ b.vars
  | .not a => a.vars | .isNull a => a.vars | .isNotNull a => a.vars | .hasLabel a _ => a.vars
  | .listLit _ => []

inductive AggKind | countStar | count | countDistinct | sum | min | max | collect
deriving DecidableEq, Repr, Inhabited

/-- the value algebra the semantics is parametric in -/
structure Algebra where
  /-- `=`, `<>`, `<`, `<=`, `>`, `>=` on two evaluated operands (evaluator_equality / evaluator_compare) -/
  cmp : CmpOp → Val → Val → Val
  /-- the ORDER BY / min / max order (evaluator.rs `order_compare`) -/
  ord : Val → Val → Ordering
  /-- aggregate folds over the evaluated argument of each row of the group (projection_sort.rs) -/
  agg : AggKind → List Val → Val

structure Env where
  g : Graph
  params : List (String × Val) := []

/-- three-valued AND / OR / XOR exactly as the arms of evaluator.rs `evaluate_expression_value` -/
def boolOp : BoolOp → Val → Val → Val
  | .and, .bool false, _ => .bool false
  | .and, _, .bool false => .bool false
  | .and, .bool true, .bool true => .bool true
  | .and, _, _ => .null
  | .or, .bool true, _ => .bool true
  | .or, _, .bool true => .bool true
  | .or, .bool false, .bool false => .bool false
  | .or, _, _ => .null
  | .xor, .bool a, .bool b => .bool (a != b)
  | .xor, _, _ => .null

def notVal : Val → Val
  | .bool b => .bool (!b)
  | _ => .null

/-- mirrors evaluator_pattern.rs `evaluate_has_label` (right operand is always a string literal here) -/
def hasLabelVal (g : Graph) : Val → String → Val
  | .node n, l => .bool (g.hasLabel n l)
  | .rel r, l => .bool (r.typ == l)
  | .null, _ => .null
  | _, _ => .bool false

/-- mirrors the PropertyAccess arm: node / relationship property from the snapshot, otherwise null -/
def propVal (g : Graph) : Option Val → String → Val
  | some (.node n), k => g.nodeProp n k
  | some (.rel r), k => g.relProp r k
  | _, _ => .null

/-- mirrors evaluator.rs `evaluate_expression_value` for the fragment (total: the Rust evaluator returns a
    `Value`, never an error; unknown things are `Null`) -/
def eval (A : Algebra) (env : Env) (r : Row) : Expr → Val
  | .lit l => l.toVal
  | .var x => match r.get x with
    | some v => v
    | none => match env.params.lookup x with | some v => v | none => .null
  | .prop x k => propVal env.g (r.get x) k
  | .param p => match env.params.lookup p with | some v => v | none => .null
  | .cmp op a b => A.cmp op (eval A env r a) (eval A env r b)
  | .bool op a b => boolOp op (eval A env r a) (eval A env r b)
  | .not a => notVal (eval A env r a)
  | .isNull a => .bool (eval A env r a == .null)
  | .isNotNull a => .bool (eval A env r a != .null)
  | .hasLabel a l => hasLabelVal env.g (eval A env r a) l
  | .listLit xs => .list (xs.map Lit.toScalar)

/-- mirrors `evaluate_expression_bool`: only `Bool(true)` passes a filter -/
def evalBool (A : Algebra) (env : Env) (r : Row) (e : Expr) : Bool := eval A env r e == .bool true

/-! ## query AST (fragment F1 of ast.rs) -/

inductive Dir | out | inn | both
deriving DecidableEq, Repr, Inhabited

structure NodePat where
  var : Option String
  labels : List String
  props : List (String × Expr)
deriving DecidableEq, Repr, Inhabited

structure RelPat where
  var : Option String
  types : List String
  dir : Dir
  props : List (String × Expr)
deriving DecidableEq, Repr, Inhabited

/-- `(n0)-[r1]-(n1)-…`: a fixed-length chain -/
structure PathPat where
  start : NodePat
  steps : List (RelPat × NodePat)
deriving DecidableEq, Repr, Inhabited

/-- a projection item: plain expression or one aggregate call, always with its output name
    (`alias` is what `default_projection_alias` would give when the text has no AS) -/
inductive ItemExpr
  | plain (e : Expr)
  | agg (k : AggKind) (arg : Expr)     -- `arg` ignored for countStar
deriving DecidableEq, Repr, Inhabited

structure Item where
  expr : ItemExpr
  alias : String
deriving DecidableEq, Repr, Inhabited

structure Proj where
  distinct : Bool
  items : List Item
  orderBy : List (Expr × Bool)        -- (key, ascending)
  skip : Option Lit
  limit : Option Lit
deriving DecidableEq, Repr, Inhabited

inductive Clause
  | match_ (optional : Bool) (pats : List PathPat)
  | where_ (e : Expr)
  | with_ (p : Proj) (wher : Option Expr)
  | unwind (e : Expr) (alias : String)
  | return_ (p : Proj)
deriving DecidableEq, Repr, Inhabited

abbrev Query := List Clause

inductive Err | syntax | type | notimpl | other
deriving DecidableEq, Repr, Inhabited

def Err.toString : Err → String
  | .syntax => "syntax" | .type => "type" | .notimpl => "notimpl" | .other => "other"

end Nervus.Cy
