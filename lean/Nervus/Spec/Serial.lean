/-
  Nervus.Spec.Serial — what C09 demands of concurrent auto-commit writes:
  "behave as if they ran one at a time in some order; an update computed from a value read by
  the same statement is never lost."
-/
import Nervus.Model.SchedCapi
namespace Nervus.SchedCapi

/-- The committed state is the result of running the statements that have committed so far ONE AT A
    TIME in their commit order, and that order respects every thread's program order with every
    statement occurring exactly once (so no update is lost and none is invented). -/
def Serializable {σ} (prog : Nat → List (Stmt σ)) (d0 : σ) (s : State σ) : Prop :=
  s.db = runSeq (s.hist.map (·.2)) d0 ∧ ∀ i, doneOf s i ++ (s.threads i).todo = prog i

/-- all threads have run their whole program -/
def AllDone {σ} (s : State σ) : Prop := ∀ i, (s.threads i).todo = []

end Nervus.SchedCapi
