/-
  Nervus.Spec.VectorSearch — what a user relies on when calling `search_vector(query, k)` (C31):
  at most k distinct existing nodes that have a stored vector, by non-decreasing distance, each with
  its distance to the query; for a small index exactly the k nearest; unchanged by reopening.
  The brute-force reference `bruteForce` is the specification of "the k nearest".
-/
import Nervus.Model.Hnsw
namespace Nervus.Hnsw

variable {V D : Type}

/-- ids that have a stored vector (first occurrence = newest vector) -/
def dedupIds : List Nat → List Nat
  | [] => []
  | x :: xs => x :: (dedupIds xs).filter (· != x)

def storedIds (ix : Index V) : List Nat := dedupIds (ix.vecs.map (·.1))

/-- every existing (non-tombstoned) node that has a vector, with its distance, nearest first -/
def bruteForce (sp : Space V D) (ix : Index V) (tomb : List Nat) (q : V) : List (D × Nat) :=
  sortPairs sp (((storedIds ix).filter (fun i => !tomb.contains i)).filterMap (fun i =>
    match ix.vecs.lookup i with
    | some v => some (sp.dist q v, i)
    | none => none))

/-- soundness of a result list `(distance, id)` -/
structure Sound (sp : Space V D) (ix : Index V) (tomb : List Nat) (q : V) (k : Nat) (r : List (D × Nat)) : Prop where
  len : r.length ≤ k
  distinct : (r.map (·.2)).Nodup
  /-- each id has a stored vector and carries its distance to the query -/
  dist : ∀ h, h ∈ r → ∃ v, ix.vecs.lookup h.2 = some v ∧ h.1 = sp.dist q v
  /-- only existing nodes -/
  live : ∀ h, h ∈ r → h.2 ∉ tomb
  /-- non-decreasing distance -/
  sorted : r.Pairwise (fun a b => sp.lt b.1 a.1 = false)

/-- exactness: the distances are those of the k nearest (as a list in ascending order, hence as a
    multiset) -/
def Exact (sp : Space V D) (ix : Index V) (tomb : List Nat) (q : V) (k : Nat) (r : List (D × Nat)) : Prop :=
  r.map (·.1) = ((bruteForce sp ix tomb q).take k).map (·.1)

/-! ### executable versions for the driver (flags of the stream's obs) -/

structure Check where
  lenOk : Bool
  distinct : Bool
  sorted : Bool
  distOk : Bool
  hasVec : Bool
  live : Bool
  exact : Bool

def nodupB : List Nat → Bool
  | [] => true
  | x :: xs => !xs.contains x && nodupB xs

def sortedB (sp : Space V D) : List (D × Nat) → Bool
  | [] => true
  | [_] => true
  | a :: b :: rest => !sp.lt b.1 a.1 && sortedB sp (b :: rest)

def eqD (sp : Space V D) (a b : D) : Bool := !sp.lt a b && !sp.lt b a

def listEqD (sp : Space V D) : List D → List D → Bool
  | [], [] => true
  | a :: as, b :: bs => eqD sp a b && listEqD sp as bs
  | _, _ => false

def checkResult (sp : Space V D) (ix : Index V) (tomb : List Nat) (q : V) (k : Nat) (r : List (D × Nat)) : Check :=
  { lenOk := r.length ≤ k
    distinct := nodupB (r.map (·.2))
    sorted := sortedB sp r
    distOk := r.all (fun h => match ix.vecs.lookup h.2 with
      | some v => eqD sp h.1 (sp.dist q v)
      | none => false)
    hasVec := r.all (fun h => (ix.vecs.lookup h.2).isSome)
    live := r.all (fun h => !tomb.contains h.2)
    exact := listEqD sp ((sortPairs sp r).map (·.1)) (((bruteForce sp ix tomb q).take k).map (·.1)) }

/-! ### the concrete space of the `hnsw` stream

Coordinates are integers in half units; `dist` is the exact squared Euclidean distance in quarter
units (`zip` semantics of `euclidean_distance`).  f32 represents these values and their order
exactly (sqrt is strictly monotone on them), so the order of the real distances is this order. -/

abbrev Vec := List Int

def sqDist (a b : Vec) : Nat := ((List.zipWith (fun x y => (x - y) * (x - y)) a b).foldl (· + ·) 0).toNat

def intSpace : Space Vec Nat := ⟨sqDist, fun a b => decide (a < b)⟩

end Nervus.Hnsw
