/-
  What the user relies on, for result streams (C22, C33, C19) — stated over the operator model
  `Nervus.PlanOps` for ANY rows / values / errors / expressions (`Sem`).

  * C22  `NeverSwallows`: if the query answers `Ok rows`, then no item handed from any iterator
         to its consumer anywhere in the plan tree, while serving exactly what the driver
         demanded, was an `Err` — an error met in a consumed row is reported.
         `ErrPreserved` is the per-operator form.
  * C33  `CompleteOrError`: the limited run answers what the unlimited run answers, or a limit error.
         `StopsAtError`: after the first `Err` an operator pulled, it pulls nothing more.
  * C19  `Partition`: the rows kept by `p`, by `NOT p` and by `p IS NULL` are, together, the input rows.
  core-only imports.
-/
import Nervus.Model.Limits
namespace Nervus.PlanOps

section
variable {χ ρ ν ε κ α : Type} [DecidableEq κ]

/-- per operator (C22): an `Err` among the input items the operator pulls while serving `d` calls
    ⇒ an `Err` among the `d` items it hands out -/
def ErrPreserved {σ : Type} (t : Trans σ ε ρ) : Prop :=
  ∀ (st : σ) (s : Stream ε ρ) (d : Nat),
    (∃ e, Except.error e ∈ s.take (t.need st s d)) → ∃ e, Except.error e ∈ (t.run st s).take d

/-- query level (C22): `Ok rows` ⇒ everything that was handed over anywhere below was `Ok` -/
def NeverSwallows (S : Sem χ ρ ν ε κ α) (Q : Quirks) (L : LimEnv ε) (params : ρ) (p : Plan χ ρ ε α) : Prop :=
  ∀ rows, execute S Q L params p = .ok rows →
    ∀ h ∈ trace false S Q L .root params p (driverDemand (runL S Q L .root params p)), Item.isOk h.item = true

/-- query level, contrapositive reading: an `Err` handed over anywhere ⇒ the query answers `Err` -/
def ErrReported (S : Sem χ ρ ν ε κ α) (Q : Quirks) (L : LimEnv ε) (params : ρ) (p : Plan χ ρ ε α) : Prop :=
  (∃ h ∈ trace false S Q L .root params p (driverDemand (runL S Q L .root params p)), Item.isOk h.item = false) →
    ∃ e, execute S Q L params p = .error e

/-- every verdict of the limit environment is a limit error -/
structure LimEnv.Lawful (L : LimEnv ε) (isLimit : ε → Bool) : Prop where
  coll : ∀ stage n e, L.coll stage n = some e → isLimit e = true
  apply : ∀ n e, L.apply n = some e → isLimit e = true
  row : ∀ site i e, L.row site i = some e → isLimit e = true
  time : ∀ site i e, L.time site i = some e → isLimit e = true

/-- the evaluator uses its collection check only to fail with that check's error
    (`Function(range)`, the aggregate finalisers) or — through an `EXISTS { subquery }` — to park a
    limit error: a parked failure is the unlimited run's parked failure or a limit error, and where
    nothing is parked the answer is the unlimited run's answer or a limit error -/
structure Sem.LimitLawful (S : Sem χ ρ ν ε κ α) (coll : String → Nat → Option ε) (isLimit : ε → Bool) : Prop where
  park : ∀ e env r, S.park coll e env r = S.park (fun _ _ => none) e env r ∨
    ∃ er, S.park coll e env r = some er ∧ isLimit er = true
  eval : ∀ e env r, S.park coll e env r = none →
    (S.eval coll e env r = S.eval (fun _ _ => none) e env r ∨
      ∃ er, S.eval coll e env r = .error er ∧ isLimit er = true)
  aggPark : ∀ aggs env rows, S.aggPark coll aggs env rows = S.aggPark (fun _ _ => none) aggs env rows ∨
    ∃ er, S.aggPark coll aggs env rows = some er ∧ isLimit er = true
  /-- finalising a group without rows evaluates nothing -/
  aggPark_nil : ∀ aggs env, S.aggPark coll aggs env [] = none
  aggCheck : ∀ aggs env r, S.aggCheck coll aggs env r = S.aggCheck (fun _ _ => none) aggs env r ∨
    ∃ er, S.aggCheck coll aggs env r = .error er ∧ isLimit er = true
  aggFinal : ∀ gb aggs env rows, S.aggPark coll aggs env rows = none →
    (S.aggFinal coll gb aggs env rows = S.aggFinal (fun _ _ => none) gb aggs env rows ∨
      ∃ er, S.aggFinal coll gb aggs env rows = .error er ∧ isLimit er = true)

/-- query level (C33): complete result (that of the unlimited run) or a limit error -/
def CompleteOrError (S : Sem χ ρ ν ε κ α) (Q : Quirks) (L : LimEnv ε) (isLimit : ε → Bool)
    (params : ρ) (p : Plan χ ρ ε α) : Prop :=
  execute S Q L params p = execute S Q .unlimited params p ∨
    ∃ e, execute S Q L params p = .error e ∧ isLimit e = true

/-- per operator (C33, bounded extra work): a consumer that stops at the first `Err` it receives
    (as the driver and every repaired operator do) makes the operator pull nothing beyond the first
    `Err` item of its input — the error of a failing check below travels up without further pulls -/
def StopsAtError {σ : Type} (t : Trans σ ε ρ) : Prop :=
  ∀ (st : σ) (pre : Stream ε ρ) (e : ε) (rest : Stream ε ρ),
    allOk pre = true →
    t.need st (pre ++ .error e :: rest) (driverDemand (t.run st (pre ++ .error e :: rest))) ≤ pre.length + 1

/-- a consumer that asks for `d` items never called again after it had received an `Err`:
    the first `d - 1` items it got were rows (the driver's `collect`, and — proved — every operator
    of the repaired tree towards its inputs) -/
def Calls (s : Stream ε ρ) (d : Nat) : Prop := allOk (s.take (d - 1)) = true

/-- the input pulls (an operator's `next()` on the guard of an input) that returned an `Err` -/
def errPulls (tr : List (Handed ε ρ)) : Nat :=
  tr.countP (fun h => !h.toGuard && !Item.isOk h.item)

/-- query level (C33, bounded extra work, in pulls): while the driver collects the result,
    * nowhere in the plan tree is anything pulled from an iterator that has already returned an
      `Err` to the same consumer (no hand-over is `late`), and
    * the pulls that return an `Err` — after the first failing check these are the only pulls
      there are — number at most the length of the operator path (`Plan.depth`): the error
      travels up one `next()` per level, no operator does further work on its inputs. -/
def BoundedExtraWork (S : Sem χ ρ ν ε κ α) (Q : Quirks) (L : LimEnv ε) (params : ρ) (p : Plan χ ρ ε α) : Prop :=
  (∀ h ∈ trace false S Q L .root params p (driverDemand (runL S Q L .root params p)), h.late = false) ∧
  errPulls (trace false S Q L .root params p (driverDemand (runL S Q L .root params p))) ≤ p.depth

end

/-! ## C19 -/

section
variable {χ ρ ν ε κ α : Type}

/-- what the evaluator does with `NOT v` (evaluator.rs `UnaryOperator::Not`) on truth classes -/
def Truth.not : Truth → Truth
  | .tt => .ff
  | .ff => .tt
  | .null => .null
  | .other => .null

/-- what the evaluator does with `v IS NULL` (evaluator.rs `BinaryOperator::IsNull`) -/
def Truth.isNull : Truth → Truth
  | .null => .tt
  | _ => .ff

/-- `notE p` / `isNullE p` are the expressions `NOT p` / `p IS NULL`: they fail exactly when `p`
    fails (`ensure…` only descends into the operand) and otherwise compute `Truth.not` / `Truth.isNull` -/
structure Sem.PredLawful (S : Sem χ ρ ν ε κ α) (coll : String → Nat → Option ε) (notE isNullE : χ → χ) : Prop where
  not_err : ∀ p env r e, S.eval coll p env r = .error e → S.eval coll (notE p) env r = .error e
  not_ok : ∀ p env r v, S.eval coll p env r = .ok v →
    ∃ w, S.eval coll (notE p) env r = .ok w ∧ S.truth w = (S.truth v).not
  isNull_err : ∀ p env r e, S.eval coll p env r = .error e → S.eval coll (isNullE p) env r = .error e
  isNull_ok : ∀ p env r v, S.eval coll p env r = .ok v →
    ∃ w, S.eval coll (isNullE p) env r = .ok w ∧ S.truth w = (S.truth v).isNull
  /-- the operand is evaluated exactly once: the same failure (if any) is parked -/
  not_park : ∀ p env r, S.park coll (notE p) env r = S.park coll p env r
  isNull_park : ∀ p env r, S.park coll (isNullE p) env r = S.park coll p env r

/-- the result of `… WHERE p` over the rows `rows` (plain filter position): FilterIter over an
    error-free input, collected by the driver -/
def keep (S : Sem χ ρ ν ε κ α) (Q : Quirks) (env : ρ) (p : χ) (rows : List ρ) : Except ε (List ρ) :=
  collect ((filterT S Q LimEnv.unlimited env p).run () (rows.map .ok))

/-- a predicate value is boolean or null -/
def Truth.isBoolOrNull : Truth → Bool
  | .other => false
  | _ => true

end

end Nervus.PlanOps
