/-
  Nervus.Spec.IndexFree — what a user relies on (C15): a property index is an access path, not
  data.  The same history without its `create_index` calls answers every query identically.
  Also the decidable trigger predicates of the known / repaired causes (shared by the theorems'
  hypotheses and by the driver's trigger column).
-/
import Nervus.Model.Index
namespace Nervus.Index
open Nervus Nervus.OKey

def isIndexOp : Op → Bool
  | .index _ _ => true
  | _ => false

/-- the same history on a database on which `create_index` is never called -/
def stripIndex (h : List Op) : List Op := h.filter (fun op => !isIndexOp op)

/-- **the property**: every query answers the same with and without the indexes, after every history -/
def Transparent (cfg : Cfg) (h : List Op) : Prop :=
  ∀ q : Query, queryRows cfg (run cfg h) q = queryRows cfg (run cfg (stripIndex h)) q

/-! ### well-formedness of a history (precondition, not a finding)

Staged operations name nodes that exist when the transaction commits (ids are dense: the `i`-th
created node has id `i`).  Cypher cannot address a non-existent node; through the raw `WriteTxn`
API a label change of a missing id makes `commit` fail half-way and a property of a missing id is
inherited by whichever node later receives the id. -/

def firstsAfter (fs : List (Option Label)) : Op → List (Option Label)
  | .commit tx => fs ++ createdLabels tx
  | _ => fs

/-- `p fs op` for every staged op of every transaction, `fs` = creation labels of all nodes that
    exist once that transaction has created its nodes -/
def checkTx (p : List (Option Label) → TxOp → Bool) : List (Option Label) → List Op → Bool
  | _, [] => true
  | fs, op :: rest =>
    (match op with
     | .commit tx => tx.all (p (fs ++ createdLabels tx))
     | _ => true) && checkTx p (firstsAfter fs op) rest

def wfOp (fs : List (Option Label)) : TxOp → Bool
  | .node _ => true
  | .labelAdd n _ => n < fs.length
  | .labelDel n _ => n < fs.length
  | .set n _ _ => n < fs.length
  | .rem n _ => n < fs.length
  | .del n => n < fs.length

def WF (h : List Op) : Bool := checkTx wfOp [] h

/-! ### triggers of the KNOWN findings (not repaired) -/

def ownLabelOp (fs : List (Option Label)) : TxOp → Bool
  | .labelAdd n l => fs[n]? == some (some l)
  | _ => true

/-- C15-nonfirst-label: some node receives a label other than the one it was created with
    (`CREATE (n:A:B)` adds `B` this way, so does `SET n:B`).  Index maintenance only ever looks at
    the creation label. -/
def trigNonFirstLabel (h : List Op) : Bool := !checkTx ownLabelOp [] h

def isRemTx : Op → Bool
  | .commit tx => tx.any (fun | .rem _ _ => true | _ => false)
  | _ => false

def isCompact : Op → Bool
  | .compact => true
  | _ => false

/-- C15-removed-prop-resurrects: the history removes a property *and* compacts.  A removed property
    whose value was (or is later) sunk into the property store reads as present again
    (`node_property` falls through to the store, compaction ignores removal markers), while the
    index entry was deleted. -/
def trigRemCompact (h : List Op) : Bool := h.any isRemTx && h.any isCompact

def setsOf (h : List Op) : List (Nat × Key × OV) :=
  h.flatMap (fun | .commit tx => tx.filterMap (fun | .set n k v => some (n, k, v) | _ => none) | _ => [])

/-- values whose ordered encoding is longer than this are outside the model (see `trigOversizedKey`) -/
def maxIndexedValueLen : Nat := 3600

/-- C15-oversized-key: a property value whose index key cannot fit a B-tree cell.  With an index on
    the property `commit` then panics inside `BTree::insert` (`rebuild_leaf` unwraps "no space")
    holding the catalog and pager locks, which poisons the engine; without the index the commit
    succeeds.  The model has no such failure path, so these histories are excluded explicitly. -/
def trigOversizedKey (h : List Op) : Bool :=
  (setsOf h).any (fun s => decide ((enc s.2.2).length > maxIndexedValueLen))

/-! ### triggers of the REPAIRED causes (only meaningful while the corresponding `Cfg` flag is off) -/

/-- C15-late-index: an index is created when a node with its label already has the property -/
def lateIndexFrom (cfg : Cfg) (s : State) : List Op → Bool
  | [] => false
  | op :: rest =>
    (match op with
     | .index l k => !(s.indexes.any (fun d => d.label == l && d.key == k)) &&
                     !(backfillEntries cfg s l k s.nextIndexId).isEmpty
     | _ => false) || lateIndexFrom cfg (step cfg s op) rest

def trigLateIndex (cfg : Cfg) (h : List Op) : Bool := lateIndexFrom cfg State.init h

/-- C15-deleted-node: the history deletes a node -/
def trigDelete (h : List Op) : Bool :=
  h.any (fun | .commit tx => tx.any (fun | .del _ => true | _ => false) | _ => false)

/-- C15-dup-delete-miss: two different nodes are given index-key-equal values for one property -/
def trigDupValues (h : List Op) : Bool :=
  let ss := setsOf h
  ss.any (fun a => ss.any (fun b => a.1 != b.1 && a.2.1 == b.2.1 && enc a.2.2 == enc b.2.2))

/-- C15-int-float: the lookup value of the seek is numeric -/
def trigNumeric (q : Query) : Bool :=
  match q.props.head? with
  | some (_, v) => isNum v
  | none => false

/-- the trigger column of the driver -/
def triggerIds (cfg : Cfg) (h : List Op) (q : Query) : List String :=
  (if trigNonFirstLabel h then ["C15-nonfirst-label"] else []) ++
  (if trigRemCompact h then ["C15-removed-prop-resurrects"] else []) ++
  (if trigOversizedKey h then ["C15-oversized-key"] else []) ++
  (if !cfg.backfill && trigLateIndex cfg h then ["C15-late-index"] else []) ++
  (if !cfg.seekLive && trigDelete h then ["C15-deleted-node"] else []) ++
  (if !cfg.compositeKey && trigDupValues h then ["C15-dup-delete-miss"] else []) ++
  (if !cfg.numFallback && trigNumeric q then ["C15-int-float"] else [])

end Nervus.Index
