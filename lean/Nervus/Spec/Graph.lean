/-
  Spec/Graph.lean — what a user of the storage layer relies on: a plain in-memory property graph
  (docs/architecture.md data model).

  * a node has a dense internal id (handed out in creation order, never reused), an external id,
    a label SET and a property map;
  * a relationship is identified by its `(src, type, dst)` triple; the triple has a multiplicity
    (parallel relationships) and ONE property map;
  * deleting a node deletes the node, its labels/properties and the relationships attached to it;
    deleting a relationship deletes every copy of the triple and its property map.

  Names (labels, relationship types, property keys) and property values are opaque tokens
  (`Nat` codes; the driver maps the wire strings to codes bijectively).  The state is kept
  "relational" (flat lists) so that every write is a one-liner; `Graph.canon` gives the record view
  (`NodeRec`, `RelRec`) that the driver prints.  core/Std imports only.
-/
namespace Nervus.GraphSpec

abbrev Name := Nat
abbrev PV := Nat

/-- relationship identity = the triple (documented data model) -/
structure Rel where
  src : Nat
  typ : Name
  dst : Nat
deriving DecidableEq, Repr

def Rel.touches (e : Rel) (n : Nat) : Bool := e.src == n || e.dst == n

structure Graph where
  next   : Nat := 0                          -- number of internal ids handed out so far
  ext    : List (Nat × Nat) := []            -- (internal id, external id)
  dead   : List Nat := []                    -- deleted nodes
  labels : List (Nat × Name) := []           -- label sets as a relation
  nprops : List ((Nat × Name) × PV) := []    -- node property maps (keys unique)
  rels   : List Rel := []                    -- multiset of relationships
  eprops : List ((Rel × Name) × PV) := []    -- ONE property map per triple (keys unique)
  vecs   : List (Nat × List Nat) := []       -- vector of a node (for vector search), newest first
deriving Repr

/-- one staged write of a transaction -/
inductive TxOp
  | node (ext : Nat) (label : Option Name)
  | labelAdd (n : Nat) (l : Name)
  | labelDel (n : Nat) (l : Name)
  | edge (s : Nat) (t : Name) (d : Nat)
  | tombNode (n : Nat)
  | tombEdge (s : Nat) (t : Name) (d : Nat)
  | nprop (n : Nat) (k : Name) (v : PV)
  | npropDel (n : Nat) (k : Name)
  | eprop (s : Nat) (t : Name) (d : Nat) (k : Name) (v : PV)
  | epropDel (s : Nat) (t : Name) (d : Nat) (k : Name)
  | vec (n : Nat) (v : List Nat)
deriving DecidableEq, Repr

/-- one step of a history -/
inductive Op
  | tx (ops : List TxOp) (commit : Bool)   -- a write transaction, committed or abandoned
  | compact                                 -- Db::compact / Db::checkpoint
  | close                                   -- Db::close (checkpoint-on-close) followed by open
  | reopen                                  -- drop without close, then open
deriving DecidableEq, Repr

namespace Graph

def live (g : Graph) (n : Nat) : Bool := decide (n < g.next) && !g.dead.contains n

/-- external-id lookup: the live node that carries this external id -/
def extLookup (g : Graph) (x : Nat) : Option Nat :=
  (g.ext.find? (fun p => p.2 == x && !g.dead.contains p.1)).map (·.1)

def step (g : Graph) : TxOp → Graph
  | .node x lab =>
    if (g.extLookup x).isSome then g      -- a live node already has this external id: refused
    else { g with next := g.next + 1, ext := (g.next, x) :: g.ext,
                  labels := match lab with | some l => (g.next, l) :: g.labels | none => g.labels }
  | .labelAdd n l => if g.labels.contains (n, l) then g else { g with labels := (n, l) :: g.labels }
  | .labelDel n l => { g with labels := g.labels.filter (· != (n, l)) }
  | .edge s t d => { g with rels := ⟨s, t, d⟩ :: g.rels }
  | .tombNode n =>
    { g with dead := n :: g.dead,
             labels := g.labels.filter (·.1 != n),
             nprops := g.nprops.filter (·.1.1 != n),
             rels := g.rels.filter (fun e => !e.touches n),
             eprops := g.eprops.filter (fun p => !p.1.1.touches n),
             vecs := g.vecs.filter (·.1 != n) }
  | .tombEdge s t d =>
    { g with rels := g.rels.filter (· != ⟨s, t, d⟩),
             eprops := g.eprops.filter (·.1.1 != ⟨s, t, d⟩) }
  | .nprop n k v => { g with nprops := ((n, k), v) :: g.nprops.filter (·.1 != (n, k)) }
  | .npropDel n k => { g with nprops := g.nprops.filter (·.1 != (n, k)) }
  | .eprop s t d k v =>
    { g with eprops := ((⟨s, t, d⟩, k), v) :: g.eprops.filter (·.1 != (⟨s, t, d⟩, k)) }
  | .epropDel s t d k => { g with eprops := g.eprops.filter (·.1 != (⟨s, t, d⟩, k)) }
  | .vec n v => { g with vecs := (n, v) :: g.vecs.filter (·.1 != n) }

/-- the staged writes of one transaction, in order -/
def apply (g : Graph) (ops : List TxOp) : Graph := ops.foldl step g

/-- only committed transactions change the graph; maintenance operations never do -/
def opStep (g : Graph) : Op → Graph
  | .tx ops true => g.apply ops
  | _ => g

end Graph

def run (h : List Op) : Graph := h.foldl Graph.opStep {}

/-! ### Reads (what every read interface must answer) -/
namespace Graph

def nodes (g : Graph) : List Nat := (List.range g.next).filter (fun n => !g.dead.contains n)

def extOf (g : Graph) (n : Nat) : Option Nat := (g.ext.find? (·.1 == n)).map (·.2)

def hasLabel (g : Graph) (n : Nat) (l : Name) : Bool := g.labels.contains (n, l)

def labelsOf (g : Graph) (n : Nat) : List Name := (g.labels.filter (·.1 == n)).map (·.2)

def nprop (g : Graph) (n : Nat) (k : Name) : Option PV := g.nprops.lookup (n, k)

def npropsOf (g : Graph) (n : Nat) : List (Name × PV) :=
  (g.nprops.filter (·.1.1 == n)).map (fun p => (p.1.2, p.2))

/-- multiplicity of a relationship -/
def mult (g : Graph) (e : Rel) : Nat := g.rels.count e

def relOk (t : Option Name) (e : Rel) : Bool :=
  match t with | none => true | some t => e.typ == t

/-- outgoing neighbours of `n` (with multiplicity), optional type filter -/
def out (g : Graph) (n : Nat) (t : Option Name) : List Rel :=
  g.rels.filter (fun e => e.src == n && relOk t e)

/-- incoming neighbours -/
def inc (g : Graph) (n : Nat) (t : Option Name) : List Rel :=
  g.rels.filter (fun e => e.dst == n && relOk t e)

def eprop (g : Graph) (e : Rel) (k : Name) : Option PV := g.eprops.lookup (e, k)

def epropsOf (g : Graph) (e : Rel) : List (Name × PV) :=
  (g.eprops.filter (·.1.1 == e)).map (fun p => (p.1.2, p.2))

def vecOf (g : Graph) (n : Nat) : Option (List Nat) := g.vecs.lookup n

/-- nodes carrying a vector (what an exhaustive vector search returns) -/
def vecNodes (g : Graph) : List Nat := g.vecs.map (·.1)

end Graph

/-! ### Canonical record view (Appendix A) — used by the driver to print the graph -/

/-- insertion sort (structural, kernel-evaluable) -/
def insertBy {α} (le : α → α → Bool) (a : α) : List α → List α
  | [] => [a]
  | b :: bs => if le a b then a :: b :: bs else b :: insertBy le a bs

def isort {α} (le : α → α → Bool) : List α → List α
  | [] => []
  | a :: as => insertBy le a (isort le as)

def dedup {α} [DecidableEq α] : List α → List α
  | [] => []
  | a :: as => if as.contains a then dedup as else a :: dedup as

structure NodeRec where
  id : Nat
  ext : Option Nat
  labels : List Name                 -- sorted, no duplicates
  props : List (Name × PV)           -- key-sorted
deriving DecidableEq, Repr

structure RelRec where
  src : Nat
  typ : Name
  dst : Nat
  mult : Nat
  props : List (Name × PV)
deriving DecidableEq, Repr

def Rel.le (a b : Rel) : Bool :=
  a.src < b.src || (a.src == b.src && (a.typ < b.typ || (a.typ == b.typ && a.dst ≤ b.dst)))

def kvLe (a b : Name × PV) : Bool := a.1 ≤ b.1

namespace Graph

def nodeRec (g : Graph) (n : Nat) : NodeRec :=
  { id := n, ext := g.extOf n, labels := isort (· ≤ ·) (dedup (g.labelsOf n)),
    props := isort kvLe (g.npropsOf n) }

def relRec (g : Graph) (e : Rel) : RelRec :=
  { src := e.src, typ := e.typ, dst := e.dst, mult := g.mult e, props := isort kvLe (g.epropsOf e) }

def canonNodes (g : Graph) : List NodeRec := g.nodes.map g.nodeRec

def canonRels (g : Graph) : List RelRec := (isort Rel.le (dedup g.rels)).map g.relRec

end Graph

end Nervus.GraphSpec
