/-
  Nervus.Spec.Order — what "sorted" means (C20), stated for three-way comparisons (`Ordering`).
  Core only.

  A comparison `cmp` is a *total preorder* when it is antisymmetric as a three-way comparison
  (`cmp a b = (cmp b a).swap`, which also gives reflexivity and totality) and transitive.  Transitivity is
  stated in functional form: two steps that are not `gt` compose to `(cmp a b).then (cmp b c)`, i.e.
  `≤` and `~` are transitive and `<` absorbs `~`.
-/
namespace Nervus

/-- the laws of a total preorder given as a three-way comparison -/
structure CmpLaws {α : Type} (cmp : α → α → Ordering) : Prop where
  swap : ∀ a b, cmp a b = (cmp b a).swap
  trans : ∀ a b c, cmp a b ≠ .gt → cmp b c ≠ .gt → cmp a c = (cmp a b).then (cmp b c)

/-- the same laws, required only of the members of a set -/
structure CmpLawsOn {α : Type} (cmp : α → α → Ordering) (P : α → Prop) : Prop where
  swap : ∀ a b, P a → P b → cmp a b = (cmp b a).swap
  trans : ∀ a b c, P a → P b → P c → cmp a b ≠ .gt → cmp b c ≠ .gt → cmp a c = (cmp a b).then (cmp b c)

/-- sorted w.r.t. a three-way comparison: no earlier element is greater than a later one -/
def SortedBy {α : Type} (cmp : α → α → Ordering) (l : List α) : Prop := l.Pairwise (fun a b => cmp a b ≠ .gt)

/-- stable: whenever `a` precedes `b` in the input and `a` is not greater than `b` (in particular when
    their keys are equal), `a` precedes `b` in the output -/
def StableWrt {α : Type} (cmp : α → α → Ordering) (input output : List α) : Prop :=
  ∀ a b, cmp a b ≠ .gt → [a, b].Sublist input → [a, b].Sublist output

end Nervus
