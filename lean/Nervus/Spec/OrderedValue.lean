/-
  Nervus.Spec.OrderedValue — what a user means by "a < b" and "a = b" for index-key values
  of one kind (C27).  Floats are IEEE-754 binary64 bit patterns; NaNs are outside the property.
-/
import Nervus.Model.OKey
namespace Nervus.OKey
open Nervus

/-- the magnitude field (exponent+mantissa) of a binary64 bit pattern -/
def fmag (bits : Nat) : Nat := bits % two63
/-- NaN: exponent all ones, mantissa non-zero -/
def isNaN (bits : Nat) : Bool := fmag bits > 0x7FF0000000000000
/-- An integer that orders non-NaN doubles exactly as IEEE-754 does (sign-magnitude reading;
    for same-sign finite/infinite doubles the magnitude order is the bit-pattern order);
    `-0.0` and `+0.0` both map to `0`, i.e. they are equal values. -/
def fkey (bits : Nat) : Int := if two63 ≤ bits then -((fmag bits : Nat) : Int) else ((fmag bits : Nat) : Int)

/-- values the property quantifies over -/
def Valid : OV → Prop
  | .null => True
  | .bool _ => True
  | .int i => I64.inRange i
  | .float b => b < two64 ∧ isNaN b = false
  | .str _ => True
  | .datetime i => I64.inRange i
  | .blob _ => True

def kind : OV → Nat
  | .null => 0 | .bool _ => 1 | .int _ => 2 | .float _ => 3 | .str _ => 4 | .datetime _ => 5 | .blob _ => 6

/-- strict value order within one kind -/
def lt : OV → OV → Prop
  | .bool a, .bool b => a = false ∧ b = true
  | .int a, .int b => a < b
  | .float a, .float b => fkey a < fkey b
  | .str a, .str b => bytesLt a b = true
  | .datetime a, .datetime b => a < b
  | .blob a, .blob b => bytesLt a b = true
  | _, _ => False

/-- value equality (`-0.0 = +0.0`) -/
def eqv : OV → OV → Prop
  | .null, .null => True
  | .bool a, .bool b => a = b
  | .int a, .int b => a = b
  | .float a, .float b => fkey a = fkey b
  | .str a, .str b => a = b
  | .datetime a, .datetime b => a = b
  | .blob a, .blob b => a = b
  | _, _ => False

instance : DecidablePred Valid := fun a => by
  cases a <;> unfold Valid <;> exact inferInstance
instance : DecidableRel lt := fun a b => by
  cases a <;> cases b <;> unfold lt <;> exact inferInstance
instance : DecidableRel eqv := fun a b => by
  cases a <;> cases b <;> unfold eqv <;> exact inferInstance

end Nervus.OKey
