/-
  Reference semantics of Cypher update statements (C12): `apply : Graph → Stmt → Except Err (Graph × Counts)`.
  A statement = read prefix (MATCH / OPTIONAL MATCH / WHERE / WITH / UNWIND, Spec.Denote) followed by update
  clauses.  Decisions: an update clause is applied once per row of the driving table, rows in table order;
  every expression of a clause is evaluated against the graph as it was BEFORE the clause (atomic clause
  semantics), MERGE excepted (each row sees what earlier rows merged); SET items take effect in text order;
  assigning null removes the property; `SET x = map` replaces, `SET x += map` merges (null entries remove);
  a null target is skipped; DELETE of a node that still has relationships that are not deleted by the same
  clause is an error, DETACH DELETE removes them; deleting a relationship identity removes all its copies and
  its property map; MERGE matches the whole pattern (bound variables fixed) and creates the whole unbound part
  when nothing matches.  Counts are the statement's change counters.
-/
import Nervus.Spec.Denote
namespace Nervus.Cy

/-! ### AST (ast.rs SetClause / RemoveClause / DeleteClause / CreateClause / MergeClause) -/

abbrev MapLit := List (String × Expr)

inductive SetItem
  | prop (x k : String) (e : Expr)            -- SET x.k = e
  | mapReplace (x : String) (m : MapLit)      -- SET x = {…}
  | mapMerge (x : String) (m : MapLit)        -- SET x += {…}
  | labels (x : String) (ls : List String)    -- SET x:L1:L2
deriving DecidableEq, Repr, Inhabited

inductive RemItem
  | prop (x k : String)
  | labels (x : String) (ls : List String)
deriving DecidableEq, Repr, Inhabited

inductive UClause
  | create (pats : List PathPat)
  | set (items : List SetItem)
  | remove (items : List RemItem)
  | delete (detach : Bool) (vars : List String)
  | merge (pat : PathPat) (onCreate onMatch : List SetItem)
deriving DecidableEq, Repr, Inhabited

structure Stmt where
  reads : Query            -- no RETURN
  updates : List UClause
deriving DecidableEq, Repr, Inhabited

/-- change counters of one statement -/
structure Counts where
  nodesCreated : Nat := 0
  relsCreated : Nat := 0
  propsSet : Nat := 0
  labelsAdded : Nat := 0
  labelsRemoved : Nat := 0
  nodesDeleted : Nat := 0
  relsDeleted : Nat := 0
deriving DecidableEq, Repr, Inhabited

def Counts.total (c : Counts) : Nat :=
  c.nodesCreated + c.relsCreated + c.propsSet + c.labelsAdded + c.labelsRemoved + c.nodesDeleted + c.relsDeleted

namespace Spec

/-! ### graph edits -/

def setKey (ps : Props) (k : String) (v : Scalar) : Props :=
  if ps.any (·.1 == k) then ps.map fun (k', v') => if k' == k then (k', v) else (k', v') else ps ++ [(k, v)]

def delKey (ps : Props) (k : String) : Props := ps.filter (·.1 != k)

def updNode (g : Graph) (id : Nat) (f : NodeRec → NodeRec) : Graph :=
  { g with nodes := g.nodes.map fun n => if n.id == id then f n else n }

def updRel (g : Graph) (r : RelId) (f : RelRec → RelRec) : Graph :=
  { g with rels := g.rels.map fun e => if e.id == r then f e else e }

def freshId (g : Graph) (next : Nat) : Nat := g.nodes.foldl (fun m n => max m (n.id + 1)) next

def addRelCopy (g : Graph) (r : RelId) : Graph :=
  if g.rels.any (·.id == r) then updRel g r fun e => { e with mult := e.mult + 1 }
  else { g with rels := g.rels ++ [⟨r, 1, []⟩] }

/-- a property target: node or relationship identity -/
inductive Target | node (id : Nat) | rel (r : RelId)

def target? : Option Val → Option (Option Target)     -- none = error, some none = skip (null)
  | some (.node n) => some (some (.node n))
  | some (.rel r) => some (some (.rel r))
  | some .null => some none
  | _ => none

def propsOf (g : Graph) : Target → Props
  | .node n => match g.node? n with | some x => x.props | none => []
  | .rel r => match g.rel? r with | some x => x.props | none => []

def setProps (g : Graph) (t : Target) (ps : Props) : Graph :=
  match t with
  | .node n => updNode g n fun x => { x with props := ps }
  | .rel r => updRel g r fun x => { x with props := ps }

/-- state threaded through a statement -/
structure St where
  g : Graph
  next : Nat          -- next internal node id (ids are never re-used)
  c : Counts := {}

variable (A : Algebra) (params : List (String × Val))

def evalIn (g : Graph) (r : Row) (e : Expr) : Val := eval A { g, params } r e

/-- write one property (null removes); returns new props and whether something is counted -/
def writeProp (ps : Props) (k : String) (v : Val) : Except Err (Props × Nat) :=
  match v.toScalar? with
  | some .null => .ok (delKey ps k, if ps.any (·.1 == k) then 1 else 0)
  | some (.node _) => .error .notimpl
  | some (.rel _) => .error .notimpl
  | some s => .ok (setKey ps k s, 1)
  | none => .error .other

def applyMap (g0 : Graph) (r : Row) (start : Props) (m : MapLit) : Except Err Props :=
  m.foldlM (fun ps (k, e) => do let (ps', _) ← writeProp ps k (evalIn A params g0 r e); pure ps') start

/-- property map of a CREATE / MERGE pattern: a null entry means "not set" -/
def createMap (g0 : Graph) (r : Row) (start : Props) (m : MapLit) : Except Err Props :=
  m.foldlM (fun ps (k, e) =>
    let v := evalIn A params g0 r e
    if v == .null then pure ps else do let (ps', _) ← writeProp ps k v; pure ps') start

/-- number of keys whose value differs between two property maps (removed, added or changed) -/
def propDiff (old new : Props) : Nat :=
  (old.filter fun (k, _) => !new.any (·.1 == k)).length +
  (new.filter fun (k, v) => old.lookup k != some v).length

/-- one SET item on one row; expressions see `g0` (the graph before the clause) -/
def setItem (g0 : Graph) (r : Row) (s : St) : SetItem → Except Err St
  | .prop x k e =>
    match target? (r.get x) with
    | none => .error .other
    | some none => .ok s
    | some (some t) => do
      let (ps, n) ← writeProp (propsOf s.g t) k (evalIn A params g0 r e)
      pure { s with g := setProps s.g t ps, c := { s.c with propsSet := s.c.propsSet + n } }
  | .mapReplace x m =>
    match target? (r.get x) with
    | none => .error .other
    | some none => .ok s
    | some (some t) => do
      let ps ← applyMap A params g0 r [] m
      pure { s with g := setProps s.g t ps,
                    c := { s.c with propsSet := s.c.propsSet + propDiff (propsOf s.g t) ps } }
  | .mapMerge x m =>
    match target? (r.get x) with
    | none => .error .other
    | some none => .ok s
    | some (some t) => do
      let ps ← applyMap A params g0 r (propsOf s.g t) m
      pure { s with g := setProps s.g t ps,
                    c := { s.c with propsSet := s.c.propsSet + propDiff (propsOf s.g t) ps } }
  | .labels x ls =>
    match r.get x with
    | some (.node n) =>
      let old := match s.g.node? n with | some nd => nd.labels | none => []
      let new := ls.foldl (fun acc l => if acc.contains l then acc else acc ++ [l]) old
      .ok { s with g := updNode s.g n fun nd => { nd with labels := new },
                   c := { s.c with labelsAdded := s.c.labelsAdded + (new.length - old.length) } }
    | some .null => .ok s
    | _ => .error .other

def remItem (r : Row) (s : St) : RemItem → Except Err St
  | .prop x k =>
    match target? (r.get x) with
    | none => .error .other
    | some none => .ok s
    | some (some t) =>
      let ps := propsOf s.g t
      .ok { s with g := setProps s.g t (delKey ps k),
                   c := { s.c with propsSet := s.c.propsSet + (if ps.any (·.1 == k) then 1 else 0) } }
  | .labels x ls =>
    match r.get x with
    | some (.node n) =>
      let old := match s.g.node? n with | some nd => nd.labels | none => []
      let new := old.filter (!ls.contains ·)
      .ok { s with g := updNode s.g n fun nd => { nd with labels := new },
                   c := { s.c with labelsRemoved := s.c.labelsRemoved + (old.length - new.length) } }
    | some .null => .ok s
    | _ => .error .other

/-! ### CREATE -/

def createNode (g0 : Graph) (r : Row) (s : St) (np : NodePat) : Except Err (St × Nat) := do
  let id := freshId s.g s.next
  let props ← createMap A params g0 r [] np.props
  let nd : NodeRec := ⟨id, np.labels.eraseDups, props⟩
  pure ({ s with g := { s.g with nodes := s.g.nodes ++ [nd] }, next := id + 1,
                 c := { s.c with nodesCreated := s.c.nodesCreated + 1 } }, id)

/-- the node a pattern element denotes: an already bound variable, or a freshly created node -/
def nodeFor (g0 : Graph) (r : Row) (s : St) (np : NodePat) : Except Err (St × Row × Nat) :=
  match np.var.bind r.get with
  | some (.node n) => .ok (s, r, n)
  | some _ => .error .other
  | none => do
    let (s, id) ← createNode A params g0 r s np
    pure (s, match np.var with | some x => r.set x (.node id) | none => r, id)

def createRel (g0 : Graph) (r : Row) (s : St) (rp : RelPat) (a b : Nat) : Except Err (St × Row) := do
  let some ty := rp.types.head? | throw .other
  let id : RelId := match rp.dir with | .inn => ⟨b, ty, a⟩ | _ => ⟨a, ty, b⟩
  let g := addRelCopy s.g id
  let props ← createMap A params g0 r (propsOf g (.rel id)) rp.props
  let s := { s with g := setProps g (.rel id) props, c := { s.c with relsCreated := s.c.relsCreated + 1 } }
  pure (s, match rp.var with | some x => r.set x (.rel id) | none => r)

def createSteps (g0 : Graph) : St → Row → Nat → List (RelPat × NodePat) → Except Err (St × Row)
  | s, r, _, [] => .ok (s, r)
  | s, r, cur, (rp, np) :: rest => do
    let (s, r, nxt) ← nodeFor A params g0 r s np
    let (s, r) ← createRel A params g0 r s rp cur nxt
    createSteps g0 s r nxt rest

def createPath (g0 : Graph) (s : St) (r : Row) (p : PathPat) : Except Err (St × Row) := do
  let (s, r, n) ← nodeFor A params g0 r s p.start
  createSteps A params g0 s r n p.steps

/-! ### DELETE -/

def attached (g : Graph) (n : Nat) : List RelId := (g.rels.filter fun e => e.id.src == n || e.id.dst == n).map (·.id)

def deleteClause (detach : Bool) (vars : List String) (T : Table) (s : St) : Except Err St := do
  let vals := T.flatMap fun r => vars.map fun x => r.get x
  if vals.any fun v => match v with
      | some (.node _) => false | some (.rel _) => false | some .null => false | _ => true
  then throw .other
  let nodes := (vals.filterMap fun v => match v with | some (.node n) => some n | _ => none).eraseDups
  let rels := (vals.filterMap fun v => match v with | some (.rel r) => some r | _ => none).eraseDups
  let rels := if detach then (rels ++ nodes.flatMap (attached s.g)).eraseDups else rels
  if nodes.any fun n => (attached s.g n).any (!rels.contains ·) then throw .other
  let rels := rels.filter fun r => s.g.rels.any (·.id == r)
  let nodes := nodes.filter fun n => s.g.nodes.any (·.id == n)
  pure { s with g := ⟨s.g.nodes.filter (!nodes.contains ·.id), s.g.rels.filter (!rels.contains ·.id)⟩,
                c := { s.c with nodesDeleted := s.c.nodesDeleted + nodes.length,
                                relsDeleted := s.c.relsDeleted + rels.length } }

/-! ### MERGE (single node, or single relationship pattern) -/

def applySetItems (g0 : Graph) (r : Row) (s : St) (items : List SetItem) : Except Err St :=
  items.foldlM (setItem A params g0 r) s

/-- one row of MERGE: the matches of the pattern in the CURRENT graph (bound variables fixed); if there is
    none, the unbound part of the pattern is created -/
def mergeRow (pat : PathPat) (onCreate onMatch : List SetItem) (s : St) (r : Row) : Except Err (St × Table) := do
  let env : Env := { g := s.g, params }
  let ms := matches_ A env r [pat]
  if ms.isEmpty then
    let (s, r') ← createPath A params s.g s r pat
    let s ← applySetItems A params s.g r' s onCreate
    pure (s, [r'])
  else
    let s ← ms.foldlM (fun s r' => applySetItems A params s.g r' s onMatch) s
    pure (s, ms)

/-! ### clauses and statements -/

def forRows {σ} (T : Table) (s : σ) (f : σ → Row → Except Err (σ × Table)) : Except Err (σ × Table) :=
  T.foldlM (fun (acc : σ × Table) r => do let (s, rs) ← f acc.1 r; pure (s, acc.2 ++ rs)) (s, [])

def applyClause (s : St) (T : Table) : UClause → Except Err (St × Table)
  | .create pats =>
    let g0 := s.g
    forRows T s fun s r => do
      let (s, r) ← pats.foldlM (fun (acc : St × Row) p => createPath A params g0 acc.1 acc.2 p) (s, r)
      pure (s, [r])
  | .set items =>
    let g0 := s.g
    forRows T s fun s r => do pure (← applySetItems A params g0 r s items, [r])
  | .remove items => forRows T s fun s r => do pure (← items.foldlM (remItem r) s, [r])
  | .delete detach vars => do pure (← deleteClause detach vars T s, T)
  | .merge pat onC onM => forRows T s (mergeRow A params pat onC onM)

def applyClauses : List UClause → St → Table → Except Err St
  | [], s, _ => .ok s
  | c :: cs, s, T => do
    let (s, T) ← applyClause A params s T c
    applyClauses cs s T

/-- the table a read prefix produces -/
def prefixTable (g : Graph) (q : Query) : Except Err Table :=
  match denoteClauses A { g, params } q [[]] with
  | .ok res => .ok res.rows
  | .error e => .error e

/-- **the reference update semantics** (`next` = next unused internal node id) -/
def apply (g : Graph) (next : Nat) (stmt : Stmt) : Except Err (Graph × Nat × Counts) := do
  let T ← prefixTable A params g stmt.reads
  let s ← applyClauses A params stmt.updates { g, next } T
  pure (s.g, s.next, s.c)

/-- several statements in one transaction: one after the other, each from the graph the previous one left -/
def applyTxn (g : Graph) (next : Nat) (stmts : List Stmt) : Except Err (Graph × Nat × List Nat) :=
  stmts.foldlM (fun (acc : Graph × Nat × List Nat) stmt => do
    let (g', next', c) ← apply A params acc.1 acc.2.1 stmt
    pure (g', next', acc.2.2 ++ [c.total])) (g, next, [])

end Spec
end Nervus.Cy
