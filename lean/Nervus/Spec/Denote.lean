/-
  Reference semantics of Cypher read queries, fragment F1 (in the style of the openCypher formal semantics:
  a clause maps a table — a bag of rows — to a table).  This is what a user relies on; it knows nothing of
  plans.  Decisions (DESIGN §4 C11): bag semantics; pattern matching is a homomorphism on nodes and injective
  on relationship identities (= (src,type,dst) triples) within one MATCH clause; one row per parallel copy;
  an undirected step over a self-loop yields one row; OPTIONAL MATCH pads per incoming row; implicit grouping
  keys are the non-aggregate items; aggregation over an empty input without keys yields one row; DISTINCT,
  then ORDER BY, then SKIP, then LIMIT, then (WITH only) WHERE; ORDER BY after DISTINCT/aggregation sees only
  the projected columns; scoping errors are results (`Except`).
-/
import Nervus.Spec.CyAst
namespace Nervus.Cy.Spec
open Nervus.Cy

variable (A : Algebra) (env : Env)

/-! ### pattern matching -/

/-- the ways to walk one relationship pattern from node `cur`: (relationship identity, node reached),
    one entry per parallel copy; a self-loop walked undirected counts once -/
def traversals (g : Graph) (cur : Nat) (rp : RelPat) : List (RelId × Nat) :=
  g.copies.flatMap fun e =>
    if !(rp.types.isEmpty || rp.types.contains e.typ) then [] else
    match rp.dir with
    | .out => if e.src == cur then [(e, e.dst)] else []
    | .inn => if e.dst == cur then [(e, e.src)] else []
    | .both => (if e.src == cur then [(e, e.dst)] else []) ++
               (if e.dst == cur && e.src != e.dst then [(e, e.src)] else [])

/-- bind `x` to `v`: allowed when `x` is new, or already holds exactly `v` -/
def bind (r : Row) (x : Option String) (v : Val) : Option Row :=
  match x with
  | none => some r
  | some x => match r.get x with
    | none => some (r.set x v)
    | some w => if w == v then some r else none

def propsOk (r : Row) (have_ : String → Val) (props : List (String × Expr)) : Bool :=
  props.all fun (k, e) => A.cmp .eq (have_ k) (eval A env r e) == .bool true

def nodeOk (r : Row) (np : NodePat) (n : Nat) : Bool :=
  np.labels.all (env.g.hasLabel n) && propsOk A env r (env.g.nodeProp n) np.props

def relOk (r : Row) (rp : RelPat) (e : RelId) : Bool := propsOk A env r (env.g.relProp e) rp.props

/-- all ways to continue a chain from `cur`; `used` = relationship identities already taken in this MATCH -/
def matchSteps (used : List RelId) (cur : Nat) (r : Row) :
    List (RelPat × NodePat) → List (Row × List RelId)
  | [] => [(r, used)]
  | (rp, np) :: rest =>
    (traversals env.g cur rp).flatMap fun (e, nxt) =>
      if used.contains e || !(relOk A env r rp e && nodeOk A env r np nxt) then [] else
      match (bind r rp.var (.rel e)).bind (bind · np.var (.node nxt)) with
      | none => []
      | some r' => matchSteps (e :: used) nxt r' rest

def matchPath (used : List RelId) (r : Row) (p : PathPat) : List (Row × List RelId) :=
  env.g.nodes.flatMap fun n =>
    if !nodeOk A env r p.start n.id then [] else
    match bind r p.start.var (.node n.id) with
    | none => []
    | some r' => matchSteps A env used n.id r' p.steps

def matchPats : List PathPat → Row × List RelId → List (Row × List RelId)
  | [], s => [s]
  | p :: ps, (r, used) => (matchPath A env used r p).flatMap (matchPats ps)

/-- all extensions of `r` that satisfy every pattern of one MATCH clause -/
def matches_ (r : Row) (pats : List PathPat) : Table := (matchPats A env pats (r, [])).map (·.1)

def patVars (pats : List PathPat) : List String :=
  pats.flatMap fun p => p.start.var.toList ++ p.steps.flatMap fun (rp, np) => rp.var.toList ++ np.var.toList

def padNulls (r : Row) (xs : List String) : Row :=
  xs.foldl (fun r x => if (r.get x).isSome then r else r.set x .null) r

def denoteMatch (optional : Bool) (pats : List PathPat) (T : Table) : Table :=
  T.flatMap fun r =>
    let m := matches_ A env r pats
    if optional && m.isEmpty then [padNulls r (patVars pats)] else m

/-- OPTIONAL MATCH … WHERE p: the WHERE belongs to the optional pattern.  Per incoming row: the matches that
    pass `p`; when there is none — no match at all, or `p` false / null on every match — the row is kept once with
    the pattern variables null.  An OPTIONAL MATCH never removes an incoming row, whatever `p` reads. -/
def denoteOptionalWhere (pats : List PathPat) (p : Expr) (T : Table) : Table :=
  T.flatMap fun r =>
    let m := (matches_ A env r pats).filter (evalBool A env · p)
    if m.isEmpty then [padNulls r (patVars pats)] else m

/-! ### UNWIND, projection -/

def denoteUnwind (e : Expr) (x : String) (T : Table) : Table :=
  T.flatMap fun r => match eval A env r e with
    | .list xs => xs.map fun v => r.set x v.toVal
    | .null => []
    | v => [r.set x v]

def isAgg : Item → Bool
  | ⟨.agg _ _, _⟩ => true
  | _ => false

/-- partition by key (structural equality of the key values), groups in order of first occurrence -/
def groupBy (key : Row → List Val) : Table → List (List Val × Table)
  | [] => []
  | r :: rest =>
    let gs := groupBy key rest
    let k := key r
    if gs.any (·.1 == k) then gs.map fun (k', rs) => if k' == k then (k', r :: rs) else (k', rs)
    else (k, [r]) :: gs

def itemVal (rows : Table) : Item → Val
  | ⟨.plain e, _⟩ => match rows with | r :: _ => eval A env r e | [] => .null
  | ⟨.agg .countStar _, _⟩ => A.agg .countStar (rows.map fun _ => .null)
  | ⟨.agg k arg, _⟩ => A.agg k (rows.map fun r => eval A env r arg)

/-- (projected row, row the ORDER BY / WHERE of this projection may look at) -/
def projectRows (p : Proj) (T : Table) : List (Row × Row) :=
  if p.items.any isAgg then
    let keys := p.items.filter (!isAgg ·)
    let groups : List (List Val × Table) :=
      if keys.isEmpty then [([], T)] else groupBy (fun r => keys.map (itemVal A env [r])) T
    groups.map fun (_, rows) => let out := p.items.map fun it => (it.alias, itemVal A env rows it); (out, out)
  else
    T.map fun r =>
      let out := p.items.map fun it => (it.alias, itemVal A env [r] it)
      (out, if p.distinct then out else out ++ r)

def dedupBy {α β} [BEq β] (f : α → β) : List α → List α
  | [] => []
  | x :: xs => x :: (dedupBy f xs).filter (f · != f x)

def keyLe (keys : List (Expr × Bool)) (a b : Row × Row) : Bool :=
  match keys with
  | [] => true
  | (e, asc) :: rest =>
    match A.ord (eval A env a.2 e) (eval A env b.2 e) with
    | .eq => keyLe rest a b
    | .lt => asc
    | .gt => !asc

def window : Option Lit → Except Err (Option Nat)
  | none => .ok none
  | some (.int i) => if i < 0 then .error .syntax else .ok (some i.toNat)
  | some _ => .error .syntax

/-- WITH / RETURN body: project (or group), DISTINCT, ORDER BY, SKIP, LIMIT, then WITH's WHERE -/
def denoteProj (p : Proj) (wher : Option Expr) (T : Table) : Except Err Table := do
  let skip ← window p.skip
  let limit ← window p.limit
  let rows : List (Row × Row) := projectRows A env p T
  let rows : List (Row × Row) := if p.distinct then dedupBy (·.1) rows else rows
  let rows : List (Row × Row) := if p.orderBy.isEmpty then rows else rows.mergeSort (keyLe A env p.orderBy)
  let rows : List (Row × Row) := match skip with | some n => rows.drop n | none => rows
  let rows : List (Row × Row) := match limit with | some n => rows.take n | none => rows
  let rows : List (Row × Row) := match wher with
    | some e => rows.filter (fun x => evalBool A env x.2 e)
    | none => rows
  return rows.map (·.1)

/-! ### scoping (what makes a query of the fragment well-formed) -/

def exprOk (scope : List String) (e : Expr) : Bool := e.vars.all scope.contains

def patsOk (scope : List String) (pats : List PathPat) : Bool :=
  pats.all fun p =>
    p.start.props.all (exprOk scope ·.2) && p.steps.all fun (rp, np) =>
      rp.props.all (exprOk scope ·.2) && np.props.all (exprOk scope ·.2) &&
      (match rp.var with | some x => !scope.contains x | none => true)

def projOk (scope : List String) (p : Proj) (wher : Option Expr) : Bool :=
  let aliases := p.items.map (·.alias)
  let inner := if p.distinct || p.items.any isAgg then aliases else aliases ++ scope
  !p.items.isEmpty && aliases.eraseDups.length == aliases.length &&
  p.items.all (fun it => match it.expr with | .plain e => exprOk scope e | .agg _ a => exprOk scope a) &&
  p.orderBy.all (exprOk inner ·.1) && (match wher with | some e => exprOk inner e | none => true)

/-- scope after each clause, or `none` when the query is not well-scoped -/
def scopeAfter : List String → Query → Option (List String)
  | s, [] => some s
  | s, .match_ _ pats :: q => if patsOk s pats then scopeAfter (s ++ (patVars pats).filter (!s.contains ·)) q else none
  | s, .where_ e :: q => if exprOk s e then scopeAfter s q else none
  | s, .unwind e x :: q => if exprOk s e && !s.contains x then scopeAfter (s ++ [x]) q else none
  | s, .with_ p w :: q => if projOk s p w then scopeAfter (p.items.map (·.alias)) q else none
  | s, .return_ p :: q => if projOk s p none && q.isEmpty then some (p.items.map (·.alias)) else none

def WellScoped (q : Query) : Prop := (scopeAfter [] q).isSome = true

instance (q : Query) : Decidable (WellScoped q) := by unfold WellScoped; infer_instance

/-! ### queries -/

inductive Result
  | bag (rows : Table)      -- compared as a multiset
  | list (rows : Table)     -- the final RETURN has ORDER BY: compared as a sequence (up to ties)
deriving Repr

def Result.rows : Result → Table
  | .bag t => t | .list t => t

def denoteClauses : Query → Table → Except Err Result
  | [], T => .ok (.bag T)
  | .match_ true pats :: .where_ e :: q, T => denoteClauses q (denoteOptionalWhere A env pats e T)
  | .match_ opt pats :: q, T => denoteClauses q (denoteMatch A env opt pats T)
  | .where_ e :: q, T => denoteClauses q (T.filter (evalBool A env · e))
  | .unwind e x :: q, T => denoteClauses q (denoteUnwind A env e x T)
  | .with_ p w :: q, T => do denoteClauses q (← denoteProj A env p w T)
  | .return_ p :: _, T => do
    let rows ← denoteProj A env p none T
    return if p.orderBy.isEmpty then .bag rows else .list rows

/-- **the reference evaluator**: a query denotes a bag (or, under a final ORDER BY, a list) of rows -/
def denote (q : Query) : Except Err Result :=
  if (scopeAfter [] q).isSome then denoteClauses A env q [[]] else .error .syntax

end Nervus.Cy.Spec
