/-
  Nervus.Spec.CrashTxLog — what a user of the database relies on across crashes and failed commits
  (C01, C02, C08), stated over a log of transactions and nothing else.

  * the content of a database is the result of applying a list of transactions in order;
  * after a crash the content is that of a prefix of the started commits which contains every
    acknowledged commit;
  * a commit that reported an error is invisible in the running process, after a reopen it is
    there entirely or not at all, and it does not disturb later commits.
  Core imports only.
-/
namespace Nervus.Crash

/-- a write transaction as the storage engine sees it: fresh external node ids, edge items and
    property items (opaque, pairwise distinct across a history) -/
structure Tx where
  nodes : List Nat
  edges : List Nat
  props : List Nat
deriving DecidableEq, Repr, Inhabited

/-- what can be read back: nodes in internal-id order, edge items, property items -/
structure Content where
  nodes : List Nat
  edges : List Nat
  props : List Nat
deriving DecidableEq, Repr, Inhabited

namespace Spec

/-- applying transactions in commit order -/
def run : List Tx → Content
  | [] => ⟨[], [], []⟩
  | tx :: rest =>
    let c := run rest
    ⟨tx.nodes ++ c.nodes, tx.edges ++ c.edges, tx.props ++ c.props⟩

/-- same content up to the order in which edge and property items are listed (they are sets;
    node order is the internal-id order and is kept) -/
def Content.same (a b : Content) : Prop :=
  a.nodes = b.nodes ∧ (∀ e, e ∈ a.edges ↔ e ∈ b.edges) ∧ (∀ q, q ∈ a.props ↔ q ∈ b.props)

/-! ### crash histories

One incarnation of the process contributes the commits it acknowledged, and possibly one commit
that was in flight when it died.  After the crash the database holds what it held before, plus the
acknowledged commits, plus — entirely or not at all — the commit in flight. -/

structure RoundObs where
  acked : List Tx
  inflight : Option Tx
deriving Repr, Inhabited

/-- `Admissible T0 rounds T`: starting from content `T0`, the rounds may leave content `T` -/
inductive Admissible : List Tx → List RoundObs → List Tx → Prop
  | done (T : List Tx) : Admissible T [] T
  | lost {T T' : List Tx} {a : List Tx} {i : Option Tx} {rest : List RoundObs} :
      Admissible (T ++ a) rest T' → Admissible T (⟨a, i⟩ :: rest) T'
  | survived {T T' : List Tx} {a : List Tx} {tx : Tx} {rest : List RoundObs} :
      Admissible (T ++ a ++ [tx]) rest T' → Admissible T (⟨a, some tx⟩ :: rest) T'

/-! ### outcome language of the crash / fault streams

A scenario is observed through the results of its operations.  `vis` = transactions visible in
the running process, `limbo` = commits whose outcome the caller does not know (the process died
inside them, or they returned an error): the next open decides each of them, entirely or not at
all; everything else is fixed. -/

structure St where
  vis : List Nat := []
  limbo : List Nat := []
deriving DecidableEq, Repr, Inhabited

/-- all ways to decide the transactions in limbo at a reopen -/
def decide : List Nat → List (List Nat)
  | [] => [[]]
  | t :: ts => (decide ts).flatMap (fun c => [c, t :: c])

def insertNat (t : Nat) : List Nat → List Nat
  | [] => [t]
  | x :: xs => if t ≤ x then t :: x :: xs else x :: insertNat t xs

def reopen (s : St) : List St :=
  (decide s.limbo).map (fun c => { vis := c.foldl (fun v t => insertNat t v) s.vis, limbo := [] })

/-- the view of transactions 1..n: `1` visible entirely, `0` not at all -/
def pattern (s : St) (n : Nat) : String :=
  if n = 0 then "-" else
  String.ofList ((List.range n).map (fun i => if s.vis.contains (i + 1) then '1' else '0'))

end Spec
end Nervus.Crash
