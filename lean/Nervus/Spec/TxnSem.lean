/-
  Nervus.Spec.TxnSem — what a user of explicit transactions relies on.
  * a statement that fails has no effect (C13): the staged writes of the transaction are what they were before it;
  * a statement sees the effects of the earlier statements of its transaction (C24): its reads are evaluated on
    committed ⊕ staged, not on the committed state alone.
  Both are switches of the one step function of `Nervus.Model.Txn` (the code is `step false false`), so that each
  property is compared against the semantics that differs from the code in exactly that respect.
-/
import Nervus.Model.Txn
namespace Nervus.Spec.TxnSem
open Nervus.Txn

/-- C13's reference: failed statements are atomic (reads as in the code) -/
abbrev atomicStep := step true false
abbrev atomicRun := run true false

/-- C24's reference: read-your-writes (failed statements have no effect, as C13 demands and the code now does) -/
abbrev rywStep := step true true
abbrev rywRun := run true true

/-- the pinned tree (before the statement savepoint) and its read-your-writes counterpart -/
abbrev legacyRun := run false false
abbrev legacyRywRun := run false true

end Nervus.Spec.TxnSem
