/-
  Spec/History.lean — decidable predicates on histories, computed by running the Spec:
  `wellFormed` (what the storage write API cannot prevent but the query layer guarantees) and the
  trigger predicates of the known findings of C06 (each `…_partial` theorem has exactly the negated
  triggers as extra hypotheses; the driver prints the ids of the triggers that hold).
  core/Std imports only.
-/
import Nervus.Spec.Graph
namespace Nervus.GraphSpec

/-- what the query layer guarantees about one staged write, given the graph as staged so far:
    external ids are fresh (never handed to any node before), every id it passes names a live node,
    properties are set on relationships that exist -/
def opWF (g : Graph) : TxOp → Bool
  | .node x _ => !g.ext.any (·.2 == x)
  | .labelAdd n _ => g.live n
  | .labelDel n _ => g.live n
  | .edge s _ d => g.live s && g.live d
  | .tombNode n => g.live n
  | .tombEdge s _ d => g.live s && g.live d
  | .nprop n _ _ => g.live n
  | .npropDel n _ => g.live n
  | .eprop s t d _ _ => g.live s && g.live d && decide (0 < g.mult ⟨s, t, d⟩)
  | .epropDel s _ d _ => g.live s && g.live d
  | .vec n _ => g.live n

/-- all staged writes of a transaction are well-formed, each against the graph staged before it -/
def txWF : Graph → List TxOp → Bool
  | _, [] => true
  | g, op :: ops => opWF g op && txWF (g.step op) ops

/-- well-formed history (abandoned transactions must be well-formed too: their writes reach the
    write API just the same) -/
def wfFrom : Graph → List Op → Bool
  | _, [] => true
  | g, .tx ops c :: h => txWF g ops && wfFrom (g.opStep (.tx ops c)) h
  | g, _ :: h => wfFrom g h

def wellFormed (h : List Op) : Bool := wfFrom {} h

/-- only transactions (C06 speaks about compaction-free, reopen-free histories) -/
def txOnly : List Op → Bool
  | [] => true
  | .tx _ _ :: h => txOnly h
  | _ :: _ => false

/-! ### triggers of the known findings of C06 -/

/-- a relationship is deleted while its property map is not empty
    (`tombstone_edge` leaves the properties: a re-created relationship inherits them) -/
def opDeletesRelWithProps (g : Graph) : TxOp → Bool
  | .tombEdge s t d => g.eprops.any (·.1.1 == ⟨s, t, d⟩)
  | _ => false

def txDeletesRelWithProps : Graph → List TxOp → Bool
  | _, [] => false
  | g, op :: ops => opDeletesRelWithProps g op || txDeletesRelWithProps (g.step op) ops

/-- a transaction removes a label and adds it back (commit applies all additions before all removals) -/
def txLabelReAdd : List TxOp → Bool
  | [] => false
  | .labelDel n l :: ops => ops.contains (.labelAdd n l) || txLabelReAdd ops
  | _ :: ops => txLabelReAdd ops

/-- a transaction creates a relationship and later deletes one of its end nodes
    (the run's own node tombstones hide its own edges in one direction only; the other order —
    an edge to a node deleted earlier in the transaction — is not well-formed) -/
def txEdgeAndEndpointDelete : List TxOp → Bool
  | [] => false
  | .edge s _ d :: ops =>
    ops.contains (.tombNode s) || ops.contains (.tombNode d) || txEdgeAndEndpointDelete ops
  | _ :: ops => txEdgeAndEndpointDelete ops

/-- external id 0 is used (`resolve_external` reads 0 as "none"; not indexed on reload) -/
def txExtZero (ops : List TxOp) : Bool :=
  ops.any (fun o => match o with | .node 0 _ => true | _ => false)

/-- does some COMMITTED transaction of the history satisfy `p` (given the graph before it)? -/
def anyCommitted (p : Graph → List TxOp → Bool) : Graph → List Op → Bool
  | _, [] => false
  | g, .tx ops true :: h => p g ops || anyCommitted p (g.apply ops) h
  | g, _ :: h => anyCommitted p g h

def trigRelPropsSurvive (h : List Op) : Bool := anyCommitted txDeletesRelWithProps {} h
def trigLabelReAdd (h : List Op) : Bool := anyCommitted (fun _ => txLabelReAdd) {} h
def trigEdgeAndEndpointDelete (h : List Op) : Bool := anyCommitted (fun _ => txEdgeAndEndpointDelete) {} h
def trigExtZero (h : List Op) : Bool := anyCommitted (fun _ => txExtZero) {} h

/-- external-id lookup of `x` is outside `C06_partial`: `x` belonged to a node that was deleted -/
def extOfDeleted (g : Graph) (x : Nat) : Bool := g.ext.any (fun p => p.2 == x && g.dead.contains p.1)

/-- no known C06 finding is triggered -/
def noC06Trigger (h : List Op) : Bool :=
  !trigRelPropsSurvive h && !trigLabelReAdd h && !trigEdgeAndEndpointDelete h && !trigExtZero h

end Nervus.GraphSpec
