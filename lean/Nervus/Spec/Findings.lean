/-
  Nervus.Spec.Findings — the decidable *trigger predicates* of the known findings of C20 / C21 / C23.
  A `Cxx_partial` theorem assumes exactly "no trigger holds"; the driver evaluates the same predicates on
  every case and reports the finding id when one holds.   Core only.
-/
import Nervus.Model.Eval
import Nervus.Spec.CypherValue
namespace Nervus.Spec
open Nervus Nervus.Eval Value

/-- strings occurring in a value outside of maps' keys (the strings `order_compare_non_null` /
    `compare_values` may hand to `compare_strings_with_temporal`) -/
def stringsOf : Value → List Str
  | .str s => [s]
  | .list xs => stringsOfList xs
  | .map kvs => stringsOfMap kvs
  | _ => []
where
  stringsOfList : List Value → List Str
    | [] => []
    | x :: xs => stringsOf x ++ stringsOfList xs
  stringsOfMap : List (Str × Value) → List Str
    | [] => []
    | (_, x) :: xs => stringsOf x ++ stringsOfMap xs

/-- the Spec's order on strings: two strings that denote temporal values of the SAME kind (the model parameter
    `temporalKey`: what the engine's temporal parser makes of a string) are ordered chronologically — by their
    keys —, every other pair as text.  (This is what `compare_strings_with_temporal` must compute for EVERY pair.) -/
def strOrder (E : Env) (x y : Str) : Ordering :=
  match E.temporalKey x, E.temporalKey y with
  | some (k, a), some (k', b) => if k = k' then TKey.cmp a b else cmpBytes x y
  | _, _ => cmpBytes x y

/-- C23-temporal-string-compare (negated), part 1: on these strings "ordered equal" coincides with `=` (text
    equality) — fails exactly for two different spellings of one temporal value, e.g. '2020-W01-1' and
    '2019-12-30'.  Same-kind temporal strings with different keys are fine. -/
def strEqOK (E : Env) (ss : List Str) : Bool :=
  ss.all fun s => ss.all fun t => (strCmp E s t == .eq) == (s == t)

/-- what the Spec says about the ORDER BY / min / max order of two values without looking at the code: `null`
    after everything, values of different kinds by the orderability of kinds, numbers as the rationals they denote
    (NaN last), booleans, strings by `strOrder`; no opinion (`none`) on two lists / maps / graph values. -/
def orderOpinion (E : Env) (a b : Value) : Option Ordering :=
  match a, b with
  | .null, .null => some .eq
  | .null, _ => some .gt
  | _, .null => some .lt
  | a, b =>
    if typeRank a < typeRank b then some .lt else if typeRank b < typeRank a then some .gt else
    match numOrder a b with
    | some o => some o
    | none => match a, b with
      | .bool x, .bool y => some (cmpBool x y)
      | .str x, .str y => some (strOrder E x y)
      | _, _ => none

/-- the transitivity law of a three-way comparison, in functional form: two steps that are not `gt`
    compose to `o1.then o2` -/
def transAt (cmp : Str → Str → Ordering) (a b c : Str) : Bool :=
  let o1 := cmp a b
  let o2 := cmp b c
  o1 == .gt || o2 == .gt || cmp a c == o1.then o2

/-- C20-temporal-string-order / C23-temporal-string-compare part 2 (negated): the engine's string comparison is
    transitive on these strings — fails only for mixes where some pairs are compared as temporal values of one kind
    and others as text (cross-kind / temporal-vs-text cycles); any set of same-kind temporal strings is fine
    (antisymmetry `cmp a b = (cmp b a).swap` holds for every string, see `Proofs`). -/
def strTransOn (E : Env) (ss : List Str) : Bool :=
  ss.all fun a => ss.all fun b => ss.all fun c => transAt (strCmp E) a b c

/-- no NaN inside any map (deep) — C20-nan-in-map (negated): `order_compare_non_null` compares maps with
    the derived `partial_cmp`, which is `None` on NaN, and `order_compare` turns `None` into `Equal`. -/
def mapsNaNFree : Value → Bool
  | .list xs => mnfList xs
  | .map kvs => mnfMap kvs
  | _ => true
where
  mnfList : List Value → Bool
    | [] => true
    | x :: xs => mapsNaNFree x && mnfList xs
  /-- inside a map: no NaN at all -/
  mnfMap : List (Str × Value) → Bool
    | [] => true
    | (_, x) :: xs => noNaN x && mnfMap xs
  noNaN : Value → Bool
    | .float b => !(F64.ofBits b).isNaN
    | .list xs => noNaNList xs
    | .map kvs => mnfMap kvs
    | _ => true
  noNaNList : List Value → Bool
    | [] => true
    | x :: xs => noNaN x && noNaNList xs

/-- null, bool, int, float, string, or a list of such (recursively): the values `<` can order -/
def plain : Value → Bool
  | .null | .bool _ | .int _ | .float _ | .str _ => true
  | .list xs => plainList xs
  | _ => false
where
  plainList : List Value → Bool
    | [] => true
    | x :: xs => plain x && plainList xs

/-- C23-list-nonplain-order (negated): not a list, or a list of plain values.  Inside lists `<` falls back
    to the ORDER BY comparator, which for maps / graph ids disagrees with `=`. -/
def inScope : Value → Bool
  | .list xs => plain (.list xs)
  | _ => true

/-- a NaN somewhere inside — C21-nan-grouping: `==` on `Value` is not reflexive on NaN, so every NaN (and
    every list/map containing one) is its own group / DISTINCT class. -/
def hasNaN : Value → Bool
  | .float b => (F64.ofBits b).isNaN
  | .list xs => hasNaNList xs
  | .map kvs => hasNaNMap kvs
  | _ => false
where
  hasNaNList : List Value → Bool
    | [] => false
    | x :: xs => hasNaN x || hasNaNList xs
  hasNaNMap : List (Str × Value) → Bool
    | [] => false
    | (_, x) :: xs => hasNaN x || hasNaNMap xs

end Nervus.Spec
