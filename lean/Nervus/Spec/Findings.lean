/-
  Nervus.Spec.Findings — the decidable *trigger predicates* of the known findings of C20 / C21 / C23.
  A `Cxx_partial` theorem assumes exactly "no trigger holds"; the driver evaluates the same predicates on
  every case and reports the finding id when one holds.   Core only.
-/
import Nervus.Model.Eval
namespace Nervus.Spec
open Nervus Nervus.Eval Value

/-- strings occurring in a value outside of maps' keys (the strings `order_compare_non_null` /
    `compare_values` may hand to `compare_strings_with_temporal`) -/
def stringsOf : Value → List Str
  | .str s => [s]
  | .list xs => stringsOfList xs
  | .map kvs => stringsOfMap kvs
  | _ => []
where
  stringsOfList : List Value → List Str
    | [] => []
    | x :: xs => stringsOf x ++ stringsOfList xs
  stringsOfMap : List (Str × Value) → List Str
    | [] => []
    | (_, x) :: xs => stringsOf x ++ stringsOfMap xs

/-- C23-temporal-string-compare (negated): on these strings the engine's string comparison is the text
    order, i.e. no two of them are compared as temporal values with a different outcome. -/
def textCoherent (E : Env) (ss : List Str) : Bool :=
  ss.all fun s => ss.all fun t => strCmp E s t == cmpBytes s t

/-- the transitivity law of a three-way comparison, in functional form: two steps that are not `gt`
    compose to `o1.then o2` -/
def transAt (cmp : Str → Str → Ordering) (a b c : Str) : Bool :=
  let o1 := cmp a b
  let o2 := cmp b c
  o1 == .gt || o2 == .gt || cmp a c == o1.then o2

/-- C20-temporal-string-order (negated): the engine's string comparison is transitive on these strings
    (antisymmetry `cmp a b = (cmp b a).swap` holds for every string, see `Proofs`). -/
def strTransOn (E : Env) (ss : List Str) : Bool :=
  ss.all fun a => ss.all fun b => ss.all fun c => transAt (strCmp E) a b c

/-- no NaN inside any map (deep) — C20-nan-in-map (negated): `order_compare_non_null` compares maps with
    the derived `partial_cmp`, which is `None` on NaN, and `order_compare` turns `None` into `Equal`. -/
def mapsNaNFree : Value → Bool
  | .list xs => mnfList xs
  | .map kvs => mnfMap kvs
  | _ => true
where
  mnfList : List Value → Bool
    | [] => true
    | x :: xs => mapsNaNFree x && mnfList xs
  /-- inside a map: no NaN at all -/
  mnfMap : List (Str × Value) → Bool
    | [] => true
    | (_, x) :: xs => noNaN x && mnfMap xs
  noNaN : Value → Bool
    | .float b => !(F64.ofBits b).isNaN
    | .list xs => noNaNList xs
    | .map kvs => mnfMap kvs
    | _ => true
  noNaNList : List Value → Bool
    | [] => true
    | x :: xs => noNaN x && noNaNList xs

/-- null, bool, int, float, string, or a list of such (recursively): the values `<` can order -/
def plain : Value → Bool
  | .null | .bool _ | .int _ | .float _ | .str _ => true
  | .list xs => plainList xs
  | _ => false
where
  plainList : List Value → Bool
    | [] => true
    | x :: xs => plain x && plainList xs

/-- C23-list-nonplain-order (negated): not a list, or a list of plain values.  Inside lists `<` falls back
    to the ORDER BY comparator, which for maps / graph ids disagrees with `=`. -/
def inScope : Value → Bool
  | .list xs => plain (.list xs)
  | _ => true

/-- a NaN somewhere inside — C21-nan-grouping: `==` on `Value` is not reflexive on NaN, so every NaN (and
    every list/map containing one) is its own group / DISTINCT class. -/
def hasNaN : Value → Bool
  | .float b => (F64.ofBits b).isNaN
  | .list xs => hasNaNList xs
  | .map kvs => hasNaNMap kvs
  | _ => false
where
  hasNaNList : List Value → Bool
    | [] => false
    | x :: xs => hasNaN x || hasNaNList xs
  hasNaNMap : List (Str × Value) → Bool
    | [] => false
    | (_, x) :: xs => hasNaN x || hasNaNMap xs

end Nervus.Spec
