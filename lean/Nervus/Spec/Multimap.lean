/-
  Nervus.Spec.Multimap — what a user of the on-disk B-tree relies on (C26).

  A multimap from ordered keys to payloads, kept as ONE list sorted by key.  Within a group of
  equal keys the most recently inserted pair comes first (`insert` places the new pair before
  all pairs whose key is not smaller).  `lookup k` is the first pair of `k`'s group (= the most
  recently inserted one), `delete (k,p)` removes exactly one stored pair `(k,p)` and says
  whether there was one, `scan` is the list, `lowerBound k` the suffix of pairs with key ≥ k.
  Core only.
-/
import Nervus.Model.Bytes
namespace Nervus

/-- ordered keys with an encoded length (`key.len()` of the Rust byte slice) -/
class KeyOrd (κ : Type) where
  /-- strict order (`<` of `[u8]`: byte-wise lexicographic) -/
  lt : κ → κ → Bool
  /-- `key.len()` -/
  size : κ → Nat
  /-- the key every scan starts from (`&[]`) -/
  min : κ

instance : KeyOrd Bytes := ⟨bytesLt, List.length, []⟩
/-- small abstract keys for kernel-evaluated examples: the order of ℕ, every key one byte long -/
instance : KeyOrd Nat := ⟨fun a b => decide (a < b), fun _ => 1, 0⟩

namespace Multimap
variable {κ : Type} [KeyOrd κ]

abbrev MM (κ : Type) := List (κ × Nat)

/-- place `(k,p)` before the first pair whose key is not smaller than `k` -/
def insert (k : κ) (p : Nat) : MM κ → MM κ
  | [] => [(k, p)]
  | e :: m => if KeyOrd.lt e.1 k then e :: insert k p m else (k, p) :: e :: m

/-- pairs with key ≥ k, in order -/
def lowerBound (k : κ) : MM κ → MM κ
  | [] => []
  | e :: m => if KeyOrd.lt e.1 k then lowerBound k m else e :: m

/-- `k` and `k'` are the same key (neither is smaller) -/
def keq (a b : κ) : Bool := !KeyOrd.lt a b && !KeyOrd.lt b a

/-- the first pair of `k`'s group -/
def lookup (k : κ) (m : MM κ) : Option Nat :=
  match lowerBound k m with
  | e :: _ => if keq e.1 k then some e.2 else none
  | [] => none

/-- remove the first pair equal to `(k,p)`; `none` when there is none -/
def remove (k : κ) (p : Nat) : MM κ → Option (MM κ)
  | [] => none
  | e :: m => if keq e.1 k && e.2 == p then some m else (remove k p m).map (e :: ·)

def delete (k : κ) (p : Nat) (m : MM κ) : Bool × MM κ :=
  match remove k p m with
  | some m' => (true, m')
  | none => (false, m)

def hasKey (k : κ) (m : MM κ) : Bool := m.any (fun e => keq e.1 k)

inductive Op (κ : Type) where
  | insert (k : κ) (p : Nat)
  | delete (k : κ) (p : Nat)
  deriving Repr

def step (m : MM κ) : Op κ → MM κ
  | .insert k p => insert k p m
  | .delete k p => (delete k p m).2

def run (ops : List (Op κ)) : MM κ := ops.foldl step []

/-- what the spec answers to one op: `none` for an insert (it just succeeds), the found flag of a delete -/
def answer (m : MM κ) : Op κ → Option Bool
  | .insert _ _ => none
  | .delete k p => some (delete k p m).1

/-- the history never stores two pairs with the same key at the same time -/
def distinctKeys : MM κ → List (Op κ) → Bool
  | _, [] => true
  | m, .insert k p :: ops => !hasKey k m && distinctKeys (insert k p m) ops
  | m, .delete k p :: ops => distinctKeys (delete k p m).2 ops

end Multimap
end Nervus
