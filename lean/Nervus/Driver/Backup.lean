import Nervus.Driver.Util
import Nervus.Model.BackupLTS
import Nervus.Model.Generated.BackupOrder
/-!
  `backup` stream (C29): drives `Nervus.BackupLTS.step` with the op lines; `restore` prints what
  `recover` makes of the copied pair; spec-out = the contents of the source inside the backup window.
-/
namespace Nervus.Driver.BackupStream
open Nervus Nervus.BackupLTS Nervus.Driver

structure St where
  m : BackupLTS.State
  ready : Bool

def rangeStr (l : List Nat) : String :=
  match l with
  | [] => "-"
  | xs => ",".intercalate (xs.map toString)

def specTok (hasIndex : Bool) (c : Nat) : String :=
  let all := rangeStr (List.range c)
  let v := if c = 0 then "-" else toString (c - 1)
  s!"n{c}.l{c}.e{all}.p{all}.v{v}.i{if hasIndex then all else "-"}"

def tok (v : Content) : String :=
  let n := max v.nodes (max v.propsTo v.idx) + 1
  let props := (List.range n).filter (fun k => k < v.propsLo || (v.propsFrom ≤ k && k < v.propsTo))
  let vv := if v.propsFrom < v.propsTo then toString (v.propsTo - 1)
            else if v.propsLo > 0 then toString (v.propsLo - 1) else "-"
  s!"n{v.nodes}.l{v.nodes}.e{rangeStr (List.range v.edgesTo)}.p{rangeStr props}.v{vv}.i{rangeStr (List.range v.idx)}"

def runL (s : BackupLTS.State) : List Label → BackupLTS.State
  | [] => s
  | l :: ls => match BackupLTS.step s l with
    | some s' => runL s' ls
    | none => runL s ls

def iterTx (s : BackupLTS.State) : Nat → BackupLTS.State
  | 0 => s
  | n + 1 => iterTx (runL s [.cW, .cI]) n

def forget (s : BackupLTS.State) : BackupLTS.State := runL s [.bForget]

def triggers (s : BackupLTS.State) : String :=
  " ".intercalate ((if s.sawCompact then ["C29-compaction-between-copies"] else []) ++
    (if s.hasIndex && s.sawCommit then ["C29-index-not-in-log"] else []))

def step (st : St) (ws : List String) : St × String × String × String :=
  match ws with
  | ["setup", idx] => ({ m := BackupLTS.init (idx == "index"), ready := true }, "ok", "-", "")
  | _ =>
  if !st.ready then (st, "bad-op", "-", "") else
  match ws with
  | ["tx"] => ({ st with m := runL st.m [.cW, .cI] }, "ok", "ok", "")
  | ["compact"] => ({ st with m := runL st.m [.kP, .kS, .kM] }, "ok", "ok", "")
  | ["restore_over", how] =>
    match st.m.bk with
    | .done c0 c1 pf0 w1 =>
      if st.m.mode != .idle then (st, "bad-op", "-", "") else
      -- the source's handle is closed (checkpoint_on_close may rewrite the log) or just dropped
      let src := if how == "close" then runL st.m [.close] else st.m
      let (pfR, wR) := restoreOver Generated.restoreReplacesContents (some (src.pf, src.wal)) (pf0, w1)
      let alts := (List.range (c1 - c0 + 1)).map (fun d => specTok st.m.hasIndex (c0 + d))
      match recover pfR wR with
      | some v =>
        -- reopened: replay has completed the node table
        let m' := { src with pf := { pfR with nodes := max pfR.nodes wR.txs }, wal := wR, closed := false, mode := .idle }
        ({ st with m := m' }, tok v, "/".intercalate alts, if alts.contains (tok v) then "" else triggers st.m)
      | none => ({ st with ready := false }, "open-failed", "/".intercalate alts, triggers st.m)
    | _ => (st, "no-backup", "-", "")
  | ["restore_other", k, comp] =>
    match st.m.bk, k.toNat? with
    | .done c0 c1 pf0 w1, some k =>
      -- the other database: k uniform transactions, optionally compacted, closed
      let o0 := iterTx (BackupLTS.init false) k
      let o1 := if comp == "compact" then runL o0 [.kP, .kS, .kM] else o0
      let o := runL o1 [.close]
      let (pfR, wR) := restoreOver Generated.restoreReplacesContents (some (o.pf, o.wal)) (pf0, w1)
      let alts := (List.range (c1 - c0 + 1)).map (fun d => specTok st.m.hasIndex (c0 + d))
      let out := match recover pfR wR with
        | some v => tok v
        | none => "open-failed"
      (st, out, "/".intercalate alts, if alts.contains out then "" else triggers st.m)
    | _, _ => (st, "no-backup", "-", "")
  | ["close_reopen"] => ({ st with m := runL st.m [.close, .reopen] }, "ok", "ok", "")
  | "source" :: _ => let t := specTok st.m.hasIndex st.m.wal.txs; (st, t, t, "")
  | ["backup"] =>
    match st.m.bk with
    | .started _ | .copiedPf _ _ => (st, "bad-op", "-", "")
    | _ => ({ st with m := runL (forget st.m) [.bStart, .bPf, .bWal] }, "ok", "ok", "")
  | ["backup_until"] =>
    match st.m.bk with
    | .started _ | .copiedPf _ _ => (st, "bad-op", "-", "")
    | _ => ({ st with m := runL (forget st.m) [.bStart, .bPf] }, "parked", "-", "")
  | ["backup_resume"] =>
    match st.m.bk with
    | .copiedPf _ _ => ({ st with m := runL st.m [.bWal] }, "ok", "ok", "")
    | _ => (st, "no-backup", "-", "")
  | "restore" :: _ =>
    match st.m.bk with
    | .done c0 c1 pf0 w1 =>
      let alts := (List.range (c1 - c0 + 1)).map (fun d => specTok st.m.hasIndex (c0 + d))
      let spec := "/".intercalate alts
      let out := match recover pf0 w1 with
        | some v => tok v
        | none => "open-failed"
      (st, out, spec, if alts.contains out then "" else triggers st.m)
    | _ => (st, "no-backup", "-", "")
  | _ => (st, "bad-op", "-", "")

def stream : Stream := { σ := St, init := { m := BackupLTS.init false, ready := false }, step := step }

end Nervus.Driver.BackupStream
