import Nervus.Driver.Util
import Nervus.Model.BackupLTS
/-!
  `backup` stream (C29): drives `Nervus.BackupLTS.step` with the op lines; `restore` prints what
  `recover` makes of the copied pair; spec-out = the contents of the source inside the backup window.
-/
namespace Nervus.Driver.BackupStream
open Nervus Nervus.BackupLTS Nervus.Driver

structure St where
  m : BackupLTS.State
  ready : Bool

def rangeStr (l : List Nat) : String :=
  match l with
  | [] => "-"
  | xs => ",".intercalate (xs.map toString)

def specTok (hasIndex : Bool) (c : Nat) : String :=
  let all := rangeStr (List.range c)
  let v := if c = 0 then "-" else toString (c - 1)
  s!"n{c}.l{c}.e{all}.p{all}.v{v}.i{if hasIndex then all else "-"}"

def tok (v : Content) : String :=
  let n := max v.nodes (max v.propsTo v.idx) + 1
  let props := (List.range n).filter (fun k => k < v.propsLo || (v.propsFrom ≤ k && k < v.propsTo))
  let vv := if v.propsFrom < v.propsTo then toString (v.propsTo - 1)
            else if v.propsLo > 0 then toString (v.propsLo - 1) else "-"
  s!"n{v.nodes}.l{v.nodes}.e{rangeStr (List.range v.edgesTo)}.p{rangeStr props}.v{vv}.i{rangeStr (List.range v.idx)}"

def runL (s : BackupLTS.State) : List Label → BackupLTS.State
  | [] => s
  | l :: ls => match BackupLTS.step s l with
    | some s' => runL s' ls
    | none => runL s ls

def forget (s : BackupLTS.State) : BackupLTS.State := runL s [.bForget]

def triggers (s : BackupLTS.State) : String :=
  " ".intercalate ((if s.sawCompact then ["C29-compaction-between-copies"] else []) ++
    (if s.hasIndex && s.sawCommit then ["C29-index-not-in-log"] else []))

def step (st : St) (ws : List String) : St × String × String × String :=
  match ws with
  | ["setup", idx] => ({ m := BackupLTS.init (idx == "index"), ready := true }, "ok", "-", "")
  | _ =>
  if !st.ready then (st, "bad-op", "-", "") else
  match ws with
  | ["tx"] => ({ st with m := runL st.m [.cW, .cI] }, "ok", "ok", "")
  | ["compact"] => ({ st with m := runL st.m [.kP, .kS, .kM] }, "ok", "ok", "")
  | ["close_reopen"] => ({ st with m := runL st.m [.close, .reopen] }, "ok", "ok", "")
  | "source" :: _ => let t := specTok st.m.hasIndex st.m.wal.txs; (st, t, t, "")
  | ["backup"] =>
    match st.m.bk with
    | .started _ | .copiedPf _ _ => (st, "bad-op", "-", "")
    | _ => ({ st with m := runL (forget st.m) [.bStart, .bPf, .bWal] }, "ok", "ok", "")
  | ["backup_until"] =>
    match st.m.bk with
    | .started _ | .copiedPf _ _ => (st, "bad-op", "-", "")
    | _ => ({ st with m := runL (forget st.m) [.bStart, .bPf] }, "parked", "-", "")
  | ["backup_resume"] =>
    match st.m.bk with
    | .copiedPf _ _ => ({ st with m := runL st.m [.bWal] }, "ok", "ok", "")
    | _ => (st, "no-backup", "-", "")
  | "restore" :: _ =>
    match st.m.bk with
    | .done c0 c1 pf0 w1 =>
      let alts := (List.range (c1 - c0 + 1)).map (fun d => specTok st.m.hasIndex (c0 + d))
      let spec := "/".intercalate alts
      let out := match recover pf0 w1 with
        | some v => tok v
        | none => "open-failed"
      (st, out, spec, if alts.contains out then "" else triggers st.m)
    | _ => (st, "no-backup", "-", "")
  | _ => (st, "bad-op", "-", "")

def stream : Stream := { σ := St, init := { m := BackupLTS.init false, ready := false }, step := step }

end Nervus.Driver.BackupStream
