/-
  Token syntax shared by the `codec` and `walframe` streams (no spaces inside a token).
  value : n | b0 | b1 | i<dec> | d<dec> | f<hex bits> | s<hex|-> | x<hex|-> | L[v,v,…] | M{<keyhex|->:v,…}
  record: B/t  C/t  PW/p/<fill byte dec>/<prefix hex|->  PF/p  CL/<namehex|->/l  CN/e/l/i  AL/n/l  RL/n/l
          CE/s/r/d  TN/n  TE/s/r/d  MS/e/<i.m;i.m;…|->/p/s  CP/a/b/c/d  SNP/n/<key>/<value>
          SEP/s/r/d/<key>/<value>  RNP/n/<key>  REP/s/r/d/<key>
-/
import Nervus.Driver.Util
import Nervus.Model.WalRec
namespace Nervus.Driver.Tok
open Nervus Nervus.PropVal Nervus.WalRec

def stopChar (c : Char) : Bool := c == ',' || c == ']' || c == '}' || c == ':'

def spanTok (cs : List Char) : List Char × List Char := cs.span (fun c => !stopChar c)

mutual
  partial def parseV (cs : List Char) : Option (PV × List Char) :=
    match cs with
    | 'L' :: '[' :: ']' :: r => some (.list .nil, r)
    | 'L' :: '[' :: r => (parseItems r).map fun (l, r') => (.list l, r')
    | 'M' :: '{' :: '}' :: r => some (.map .nil, r)
    | 'M' :: '{' :: r => (parseEntries r .nil).map fun (m, r') => (.map m, r')
    | c :: r =>
      let (tok, rest) := spanTok r
      let s := String.ofList tok
      match c with
      | 'n' => if tok.isEmpty then some (.null, rest) else none
      | 'b' => if s == "0" then some (.bool false, rest) else if s == "1" then some (.bool true, rest) else none
      | 'i' => (parseInt? s).map fun i => (.int i, rest)
      | 'd' => (parseInt? s).map fun i => (.datetime i, rest)
      | 'f' => (parseHexNat? s).map fun n => (.float n, rest)
      | 's' => (bytesOfHex s).map fun b => (.str b, rest)
      | 'x' => (bytesOfHex s).map fun b => (.blob b, rest)
      | _ => none
    | [] => none
  partial def parseItems (cs : List Char) : Option (PVList × List Char) :=
    match parseV cs with
    | some (v, ',' :: r) => (parseItems r).map fun (t, r') => (.cons v t, r')
    | some (v, ']' :: r) => some (.cons v .nil, r)
    | _ => none
  /-- entries are inserted one by one (`BTreeMap::insert`: sorted, last duplicate wins) -/
  partial def parseEntries (cs : List Char) (acc : PVMap) : Option (PVMap × List Char) :=
    let (ktok, r) := spanTok cs
    match bytesOfHex (String.ofList ktok), r with
    | some k, ':' :: r1 =>
      match parseV r1 with
      | some (v, ',' :: r2) => parseEntries r2 (acc.insert k v)
      | some (v, '}' :: r2) => some (acc.insert k v, r2)
      | _ => none
    | _, _ => none
end

def parseVal (s : String) : Option PV :=
  match parseV s.toList with
  | some (v, []) => some v
  | _ => none

mutual
  partial def showV : PV → String
    | .null => "n"
    | .bool b => if b then "b1" else "b0"
    | .int i => "i" ++ toString i
    | .float f => "f" ++ hexOfBytes (beBytes 8 f)
    | .str s => "s" ++ hexOrDash s
    | .datetime i => "d" ++ toString i
    | .blob b => "x" ++ hexOrDash b
    | .list l => "L[" ++ ",".intercalate (showL l) ++ "]"
    | .map m => "M{" ++ ",".intercalate (showM m) ++ "}"
  partial def showL : PVList → List String
    | .nil => []
    | .cons v t => showV v :: showL t
  partial def showM : PVMap → List String
    | .nil => []
    | .cons k v t => (hexOrDash k ++ ":" ++ showV v) :: showM t
end

def splitSlash (s : String) : List String := s.splitOn "/"

def parseSegs (s : String) : Option (List (Nat × Nat)) :=
  if s == "-" then some []
  else (s.splitOn ";").mapM fun e =>
    match e.splitOn "." with
    | [a, b] => match a.toNat?, b.toNat? with
      | some x, some y => some (x, y)
      | _, _ => none
    | _ => none

def parseRec (s : String) : Option Rec :=
  match splitSlash s with
  | ["B", t] => t.toNat?.map .beginTx
  | ["C", t] => t.toNat?.map .commitTx
  | ["PW", p, fill, pre] =>
    match p.toNat?, fill.toNat?, bytesOfHex pre with
    | some p, some f, some pre =>
      some (.pageWrite p (pre ++ List.replicate (Generated.walPageSize - pre.length) (UInt8.ofNat f)))
    | _, _, _ => none
  | ["PF", p] => p.toNat?.map .pageFree
  | ["CL", name, l] => match bytesOfHex name, l.toNat? with
    | some n, some l => some (.createLabel n l)
    | _, _ => none
  | ["CN", e, l, i] => match e.toNat?, l.toNat?, i.toNat? with
    | some e, some l, some i => some (.createNode e l i)
    | _, _, _ => none
  | ["AL", n, l] => match n.toNat?, l.toNat? with
    | some n, some l => some (.addNodeLabel n l)
    | _, _ => none
  | ["RL", n, l] => match n.toNat?, l.toNat? with
    | some n, some l => some (.removeNodeLabel n l)
    | _, _ => none
  | ["CE", a, b, c] => match a.toNat?, b.toNat?, c.toNat? with
    | some a, some b, some c => some (.createEdge a b c)
    | _, _, _ => none
  | ["TN", n] => n.toNat?.map .tombstoneNode
  | ["TE", a, b, c] => match a.toNat?, b.toNat?, c.toNat? with
    | some a, some b, some c => some (.tombstoneEdge a b c)
    | _, _, _ => none
  | ["MS", e, segs, p, q] => match e.toNat?, parseSegs segs, p.toNat?, q.toNat? with
    | some e, some sg, some p, some q => some (.manifestSwitch e sg p q)
    | _, _, _, _ => none
  | ["CP", a, b, c, d] => match a.toNat?, b.toNat?, c.toNat?, d.toNat? with
    | some a, some b, some c, some d => some (.checkpoint a b c d)
    | _, _, _, _ => none
  | ["SNP", n, k, v] => match n.toNat?, bytesOfHex k, parseVal v with
    | some n, some k, some v => some (.setNodeProperty n k v)
    | _, _, _ => none
  | ["SEP", a, b, c, k, v] => match a.toNat?, b.toNat?, c.toNat?, bytesOfHex k, parseVal v with
    | some a, some b, some c, some k, some v => some (.setEdgeProperty a b c k v)
    | _, _, _, _, _ => none
  | ["RNP", n, k] => match n.toNat?, bytesOfHex k with
    | some n, some k => some (.removeNodeProperty n k)
    | _, _ => none
  | ["REP", a, b, c, k] => match a.toNat?, b.toNat?, c.toNat?, bytesOfHex k with
    | some a, some b, some c, some k => some (.removeEdgeProperty a b c k)
    | _, _, _, _ => none
  | _ => none

/-- page rendering: fill byte = the last byte, prefix = the page without its trailing run of fill bytes -/
def showPage (page : Bytes) : String :=
  match page.reverse with
  | [] => "0/-"
  | f :: _ =>
    let pre := (page.reverse.dropWhile (· == f)).reverse
    toString f.toNat ++ "/" ++ hexOrDash pre

def showSegs (l : List (Nat × Nat)) : String :=
  if l.isEmpty then "-" else ";".intercalate (l.map fun (a, b) => toString a ++ "." ++ toString b)

def showRec : Rec → String
  | .beginTx t => s!"B/{t}"
  | .commitTx t => s!"C/{t}"
  | .pageWrite p page => s!"PW/{p}/{showPage page}"
  | .pageFree p => s!"PF/{p}"
  | .createLabel n l => s!"CL/{hexOrDash n}/{l}"
  | .createNode e l i => s!"CN/{e}/{l}/{i}"
  | .addNodeLabel n l => s!"AL/{n}/{l}"
  | .removeNodeLabel n l => s!"RL/{n}/{l}"
  | .createEdge a b c => s!"CE/{a}/{b}/{c}"
  | .tombstoneNode n => s!"TN/{n}"
  | .tombstoneEdge a b c => s!"TE/{a}/{b}/{c}"
  | .manifestSwitch e sg p q => s!"MS/{e}/{showSegs sg}/{p}/{q}"
  | .checkpoint a b c d => s!"CP/{a}/{b}/{c}/{d}"
  | .setNodeProperty n k v => s!"SNP/{n}/{hexOrDash k}/{showV v}"
  | .setEdgeProperty a b c k v => s!"SEP/{a}/{b}/{c}/{hexOrDash k}/{showV v}"
  | .removeNodeProperty n k => s!"RNP/{n}/{hexOrDash k}"
  | .removeEdgeProperty a b c k => s!"REP/{a}/{b}/{c}/{hexOrDash k}"

def showDErr : DErr → String
  | .empty => "empty"
  | .invalidLength => "len"
  | .invalidUtf8 => "utf8"
  | .unknownType _ => "type"
  | .tooDeep => "deep"
  | .panic => "PANIC"
  | .fuel => "FUEL"

def showWErr : WErr → String
  | .proto m => "err " ++ m.replace " " "_"
  | .tooLarge => "err toolarge"
  | .panic => "PANIC"

end Nervus.Driver.Tok
