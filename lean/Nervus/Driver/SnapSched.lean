import Nervus.Driver.Util
import Nervus.Model.SnapLTS
import Nervus.Model.Generated.PubOrder
/-!
  `snapsched` stream (C03): drives `Nervus.SnapLTS.step` with the schedule of the op lines and prints
  what each snapshot shows; spec-out = the views of the Spec states inside the acquisition window
  (and, once a consistent view was shown, that same view: stability).
-/
namespace Nervus.Driver.SnapSchedStream
open Nervus Nervus.SnapLTS Nervus.Driver

structure St where
  m : SnapLTS.State
  names : List (String × Nat × Option String)   -- snapshot name ↦ (index, first consistent token shown)
  next : Nat
  ready : Bool
  bg : Bool := false     -- a compactor thread is waiting for the writer lock

def setStr (l : List Nat) : String :=
  match canon l with
  | [] => "-"
  | xs => ",".intercalate (xs.map toString)

def maxOpt (l : List Nat) : String :=
  match l with
  | [] => "-"
  | x :: xs => toString (xs.foldl max x)

/-- property `v` of node 0: newest run of the snapshot that has it, else the live store -/
def vTok (s : SnapLTS.State) (σ : Snap) : String :=
  if !σ.runs.isEmpty then maxOpt σ.runs else if σ.root then maxOpt s.store else "-"

def tok (s : SnapLTS.State) (σ : Snap) : String :=
  let v := view s σ
  s!"n{v.nodes}.l{v.labels}.e{setStr v.edges}.p{setStr v.props}.v{vTok s σ}.i{setStr v.idx}"

def specTok (hasIndex : Bool) (c : Nat) : String :=
  let all := setStr (below c)
  let v := if c = 0 then "-" else toString (c - 1)
  s!"n{c}.l{c}.e{all}.p{all}.v{v}.i{if hasIndex then all else "-"}"

def specAlts (hasIndex : Bool) (lo hi : Nat) : List String :=
  (List.range (hi - lo + 1)).map (fun d => specTok hasIndex (lo + d))

def runN (s : SnapLTS.State) (l : Label) : Nat → SnapLTS.State
  | 0 => s
  | n + 1 => match SnapLTS.step s l with
    | some s' => runN s' l n
    | none => s

/-- `compact()` begins: if the source reads the run list before taking the writer lock, that read happens now -/
def readRuns (s : SnapLTS.State) : SnapLTS.State :=
  if s.readBeforeLock then runN s .compactRead 1 else s

/-- run the writer's current operation to its end -/
def finishWriter (s : SnapLTS.State) : SnapLTS.State :=
  match s.w with
  | .idle => s
  | .commit k => runN s .commitStep (4 - k)
  | .compact k => runN s .compactStep (6 - k)

def commitStage (p : String) : Option Nat :=
  if p == "commit.after_wal" then some 1 else if p == "commit.after_idmap" then some 2
  else if p == "commit.after_node_labels" then some 3 else none

def compactStage (p : String) : Option Nat :=
  if p == "compact.after_persist" then some 1 else if p == "compact.after_sink" then some 2
  else if p == "compact.after_wal" then some 3 else if p == "compact.after_roots" then some 4
  else if p == "compact.after_clear_runs" then some 5 else none

def readStage (p : String) : Option Nat :=
  if p == "snapshot.after_i2e" then some 1 else if p == "begin_read.after_runs" then some 2
  else if p == "begin_read.after_segments" then some 3 else if p == "begin_read.after_labels" then some 3
  else if p == "begin_read.after_node_labels" then some 4 else none

def triggers (s : SnapLTS.State) (σ : Snap) : String :=
  " ".intercalate (
    (if σ.dirtyCompact then ["C03-compact-window"] else []) ++
    (if σ.dirtyCommit then ["C03-commit-window"] else []) ++
    (if σ.stale && σ.root then ["C03-props-sunk-in-place"] else []) ++
    (if s.index != σ.idxAtDone then ["C03-index-live"] else []))

def step (st : St) (ws : List String) : St × String × String × String :=
  match ws with
  | ["setup", idx] =>
    ({ m := SnapLTS.init (idx == "index") (!Generated.compactRunsReadUnderLock), names := [], next := 0, ready := true }, "ok", "-", "")
  | _ =>
  if !st.ready then (st, "bad-op", "-", "") else
  match ws with
  | ["tx"] =>
    if st.m.w != .idle then (st, "writer-busy", "-", "") else
    ({ st with m := runN st.m .commitStep 4 }, "ok", "ok", "")
  | ["compact"] =>
    if st.m.w != .idle then (st, "writer-busy", "-", "") else
    ({ st with m := runN (readRuns st.m) .compactStep 6 }, "ok", "ok", "")
  | ["tx_until", p] =>
    match commitStage p with
    | some k => if st.m.w != .idle then (st, "writer-busy", "-", "") else
      ({ st with m := runN st.m .commitStep k }, "parked", "-", "")
    | none => (st, "bad-op", "-", "")
  | ["compact_until", p] =>
    match compactStage p with
    | some k => if st.m.w != .idle then (st, "writer-busy", "-", "") else
      if st.m.runs.isEmpty then (st, "ok", "-", "") else
      ({ st with m := runN (readRuns st.m) .compactStep k }, "parked", "-", "")
    | none => (st, "bad-op", "-", "")
  | ["compact_bg"] =>
    -- `compact()` on another thread.  Writer at rest: it runs to its end.  Writer in flight (it holds the
    -- writer lock): the compactor waits for the lock — after its read of the run list if the source reads first.
    if st.bg then (st, "bad-op", "-", "") else
    let m1 := readRuns st.m
    if st.m.w == .idle then ({ st with m := runN m1 .compactStep 6 }, "ok", "ok", "")
    else if st.m.readBeforeLock && m1.cap.isNone then ({ st with m := m1 }, "ok", "ok", "")   -- saw no runs: returned
    else ({ st with m := m1, bg := true }, "blocked", "-", "")
  | ["compact_join"] =>
    if !st.bg then (st, "no-compactor", "-", "") else
    if st.m.w != .idle then (st, "writer-busy", "-", "") else
    ({ st with m := runN st.m .compactStep 6, bg := false }, "ok", "ok", "")
  | ["resume"] =>
    if st.m.w == .idle then (st, "no-writer", "-", "") else
    ({ st with m := finishWriter st.m }, "ok", "ok", "")
  | ["snap", name] =>
    let j := st.next
    ({ st with m := runN st.m (.readStep j) 5, names := (name, j, none) :: st.names.filter (·.1 != name), next := j + 1 }, "ok", "-", "")
  | ["snap_until", name, p] =>
    match readStage p with
    | some k =>
      let j := st.next
      ({ st with m := runN st.m (.readStep j) k, names := (name, j, none) :: st.names.filter (·.1 != name), next := j + 1 }, "parked", "-", "")
    | none => (st, "bad-op", "-", "")
  | ["snap_resume", name] =>
    match st.names.lookup name with
    | some (j, _) =>
      match st.m.snaps j with
      | some σ => if σ.pc < 5 then ({ st with m := runN st.m (.readStep j) (5 - σ.pc) }, "ok", "-", "") else (st, "no-reader", "-", "")
      | none => (st, "no-reader", "-", "")
    | none => (st, "no-reader", "-", "")
  | ["read", name] =>
    match st.names.lookup name with
    | some (j, first) =>
      match st.m.snaps j with
      | some σ =>
        if σ.pc < 5 then (st, "nosnap", "-", "") else
        let t := tok st.m σ
        let alts := specAlts st.m.hasIndex σ.lo σ.hi
        let spec := match first with
          | some f => f
          | none => "/".intercalate alts
        let ok := match first with
          | some f => t == f
          | none => alts.contains t
        let names := if ok && first.isNone then
            st.names.map (fun e => if e.1 == name then (e.1, e.2.1, some t) else e) else st.names
        ({ st with names := names }, t, spec, if ok then "" else triggers st.m σ)
      | none => (st, "nosnap", "-", "")
    | none => (st, "nosnap", "-", "")
  | ["drop", name] =>
    match st.names.lookup name with
    | some (j, _) =>
      match SnapLTS.step st.m (.dropSnap j) with
      | some m' => ({ st with m := m', names := st.names.filter (·.1 != name) }, "ok", "-", "")
      | none => (st, "nosnap", "-", "")
    | none => (st, "nosnap", "-", "")
  | _ => (st, "bad-op", "-", "")

def stream : Stream :=
  { σ := St, init := { m := SnapLTS.init false, names := [], next := 0, ready := false }, step := step }

end Nervus.Driver.SnapSchedStream
