/-
  Driver for the `plan` stream (C22, C33, C19): parses the plan tokens the harness derived from the
  engine's own compiled plan, runs the operator model on the concrete instance `dsem`, prints the
  model's answer, what the Spec demands, and no trigger (no known finding on these properties).
  Line protocol: see harness/src/streams/plan.rs.   core-only imports.
-/
import Nervus.Driver.Util
import Nervus.Model.PlanInst
import Nervus.Spec.Streams
namespace Nervus.Driver.PlanStream
open Nervus Nervus.PlanOps Nervus.PlanInst Nervus.Driver

abbrev P := Plan DE DRow DErr DAgg

/-! ### token parser (prefix notation) -/

def parseScalar (t : String) : Option DS :=
  if t == "null" then some .null
  else if t == "b0" then some (.bool false)
  else if t == "b1" then some (.bool true)
  else match t.toList with
    | 'i' :: rest => (parseInt? (String.ofList rest)).map .int
    | 's' :: rest => some (.str (String.ofList rest))
    | _ => none

def parseAggFn (fn : String) (e : Option DE) : Option DAgg :=
  match fn, e with
  | "count*", none => some .countStar
  | "count", some e => some (.count e)
  | "collect", some e => some (.collect e)
  | "sum", some e => some (.sum e)
  | "min", some e => some (.min e)
  | "max", some e => some (.max e)
  | _, _ => none

/-- parser state: the EXISTS subqueries met so far (an `existsx` expression refers to one by index) -/
abbrev Subs := Array P

mutual
partial def parseExpr (subs : Subs) : List String → Option (DE × List String × Subs)
  | [] => none
  | t :: ts =>
    let un (f : DE → DE) := (parseExpr subs ts).map (fun (e, r, s) => (f e, r, s))
    let bin (f : DE → DE → DE) :=
      match parseExpr subs ts with
      | some (a, r1, s1) => (parseExpr s1 r1).map (fun (b, r2, s2) => (f a b, r2, s2))
      | none => none
    match t with
    | "toBoolean" => un .toBoolean
    | "toInteger" => un .toInteger
    | "not" => un .not
    | "isnull" => un .isNull
    | "notnull" => un .isNotNull
    | "single" => un .single
    | "eq" => bin .eq
    | "lt" => bin .lt
    | "gt" => bin .gt
    | "and" => bin .and
    | "or" => bin .or
    | "add" => bin .add
    | "mod" => bin .mod
    | "range" => bin .range
    | "case" =>
      match parseExpr subs ts with
      | some (c, r1, s1) =>
        match parseExpr s1 r1 with
        | some (th, r2, s2) => (parseExpr s2 r2).map (fun (el, r3, s3) => (.caseWhen c th el, r3, s3))
        | none => none
      | none => none
    | "existsx" =>
      match parsePlan subs ts with
      | some (sub, r1, s1) => some (.existsSub s1.size, r1, s1.push sub)
      | none => none
    | "list" =>
      match ts with
      | n :: rest =>
        match n.toNat? with
        | some k =>
          let items := (rest.take k).filterMap parseScalar
          if items.length == k then some (.lit (.list items), rest.drop k, subs) else none
        | none => none
      | [] => none
    | _ =>
      match t.toList with
      | 'v' :: name => some (.var (String.ofList name), ts, subs)
      | _ => (parseScalar t).map (fun s => (.lit (.s s), ts, subs))

partial def parseN {β : Type} (f : Subs → List String → Option (β × List String × Subs)) :
    Nat → Subs → List String → Option (List β × List String × Subs)
  | 0, s, ts => some ([], ts, s)
  | n + 1, s, ts =>
    match f s ts with
    | some (x, r, s1) => (parseN f n s1 r).map (fun (xs, r', s2) => (x :: xs, r', s2))
    | none => none

partial def parsePlan (subs : Subs) : List String → Option (P × List String × Subs)
  | [] => none
  | t :: ts =>
    match t with
    | "one" => some (.scan [[]], ts, subs)
    | "arg" => some (.arg, ts, subs)
    | "unwind" =>
      match ts with
      | alias :: r0 =>
        match parseExpr subs r0 with
        | some (e, r1, s1) => (parsePlan s1 r1).map (fun (p, r2, s2) => (.unwind e alias p, r2, s2))
        | none => none
      | [] => none
    | "filter" =>
      match parseExpr subs ts with
      | some (e, r1, s1) => (parsePlan s1 r1).map (fun (p, r2, s2) => (.filter e p, r2, s2))
      | none => none
    | "exists" =>
      match parsePlan subs ts with
      | some (sub, r1, s1) => (parsePlan s1 r1).map (fun (p, r2, s2) => (.filterExists sub p, r2, s2))
      | none => none
    | "project" =>
      match ts with
      | n :: r0 =>
        match n.toNat? with
        | some k =>
          let item : Subs → List String → Option ((String × DE) × List String × Subs) := fun s xs =>
            match xs with
            | a :: r => (parseExpr s r).map (fun (e, r', s') => ((a, e), r', s'))
            | [] => none
          match parseN item k subs r0 with
          | some (projs, r1, s1) => (parsePlan s1 r1).map (fun (p, r2, s2) => (.project projs p, r2, s2))
          | none => none
        | none => none
      | [] => none
    | "distinct" => (parsePlan subs ts).map (fun (p, r, s) => (.distinct p, r, s))
    | "skip" =>
      match parseExpr subs ts with
      | some (e, r1, s1) => (parsePlan s1 r1).map (fun (p, r2, s2) => (.skip e p, r2, s2))
      | none => none
    | "limit" =>
      match parseExpr subs ts with
      | some (e, r1, s1) => (parsePlan s1 r1).map (fun (p, r2, s2) => (.limit e p, r2, s2))
      | none => none
    | "order" =>
      match ts with
      | n :: r0 =>
        match n.toNat? with
        | some k =>
          let item : Subs → List String → Option ((DE × Bool) × List String × Subs) := fun s xs =>
            match parseExpr s xs with
            | some (e, d :: r', s') => some ((e, d == "asc"), r', s')
            | _ => none
          match parseN item k subs r0 with
          | some (keys, r1, s1) => (parsePlan s1 r1).map (fun (p, r2, s2) => (.orderBy keys p, r2, s2))
          | none => none
        | none => none
      | [] => none
    | "agg" =>
      match ts with
      | ng :: r0 =>
        match ng.toNat? with
        | some g =>
          let names := r0.take g
          match r0.drop g with
          | na :: r1 =>
            match na.toNat? with
            | some k =>
              let item : Subs → List String → Option ((DAgg × String) × List String × Subs) := fun s xs =>
                match xs with
                | "count*" :: alias :: r => some ((.countStar, alias), r, s)
                | fn :: r =>
                  match parseExpr s r with
                  | some (e, alias :: r', s') => (parseAggFn fn (some e)).map (fun a => ((a, alias), r', s'))
                  | _ => none
                | [] => none
              match parseN item k subs r1 with
              | some (aggs, r2, s2) => (parsePlan s2 r2).map (fun (p, r3, s3) => (.aggregate names aggs p, r3, s3))
              | none => none
            | none => none
          | [] => none
        | none => none
      | [] => none
    | "union" =>
      match ts with
      | all :: r0 =>
        match parsePlan subs r0 with
        | some (l, r1, s1) => (parsePlan s1 r1).map (fun (r, r2, s2) => (.union (all == "all") l r, r2, s2))
        | none => none
      | [] => none
    | "cart" =>
      match parsePlan subs ts with
      | some (l, r1, s1) => (parsePlan s1 r1).map (fun (r, r2, s2) => (.cartesian l r, r2, s2))
      | none => none
    | "apply" =>
      match parsePlan subs ts with
      | some (inp, r1, s1) => (parsePlan s1 r1).map (fun (sub, r2, s2) => (.apply inp sub, r2, s2))
      | none => none
    | _ => none
end

/-- how the EXISTS subqueries inside expressions answer: run the subquery on the outer row, its first
    item decides (query_api.rs exists_subquery_has_rows); nesting depth bounded by the fuel -/
def exFn (Q : Quirks) (subs : Subs) : Nat → (String → Nat → Option DErr) → ExFn
  | 0, _ => fun _ _ _ => .has false
  | f + 1, coll => fun i env row =>
    match subs[i]? with
    | none => .has false
    | some sub =>
      let S := dsemX (exFn Q subs f)
      let L : LimEnv DErr := { (LimEnv.unlimited : LimEnv DErr) with coll := coll }
      match (runL S Q L (.exec i .root) (S.bind env row) sub).head? with
      | none => .has false
      | some (.ok _) => .has true
      | some (.error e) => if Q.existsSwallowsErr then .swallowed else .failed e

def semOf (Q : Quirks) (subs : Subs) : Sem DE DRow DV DErr (List DV) DAgg := dsemX (exFn Q subs 4)

/-! ### printing -/

def showLimitKind : LimitKind → String
  | .rows => "rows" | .coll => "coll" | .time => "time" | .apply => "apply"

def showErr : DErr → String
  | .runtime => "err:runtime"
  | .syntax => "err:syntax"
  | .limit k => "err:limit:" ++ showLimitKind k

def hex64 (n : UInt64) : String :=
  let digits := Nat.toDigits 16 n.toNat
  String.ofList (List.replicate (16 - digits.length) '0' ++ digits)

def showOutcome (r : Except DErr (List DRow)) : String :=
  match r with
  | .ok rows => s!"ok {rows.length} {hex64 (bagHash rows)}"
  | .error e => showErr e

/-- outcome with the limit kind dropped (which of two failing checks fires first depends on the
    interleaving of the pulls, which the stream does not compare) -/
def showOutcomeL (r : Except DErr (List DRow)) : String :=
  match r with
  | .error (.limit _) => "err:limit"
  | _ => (showOutcome r).replace " " ","

def anyErrClass : String := "err:runtime/err:syntax/err:other/err:limit:rows/err:limit:coll/err:limit:time/err:limit:apply"

def never : Site → Nat → Bool := fun _ _ => false

def splitSemi (ws : List String) : List (List String) :=
  ws.foldr (fun w acc =>
    if w == ";" then [] :: acc
    else match acc with
      | [] => [[w]]
      | a :: as => (w :: a) :: as) [[]]

def numOrMax (s : String) : Nat := if s == "-" then 18446744073709551615 else s.toNat?.getD 18446744073709551615

/-! ### C19: the predicate's value class per row, the three filters on classes -/

inductive PK where
  | base | not | isNull
  deriving DecidableEq

/-- rows are indices into the class string; values ARE truth classes -/
def csem (classes : Array Char) : Sem PK Nat Truth DErr Nat Unit where
  eval _ k _ r :=
    let c := classes.getD r 'E'
    if c == 'E' then .error .runtime
    else
      let t : Truth := if c == 'T' then .tt else if c == 'F' then .ff else if c == 'N' then .null else .other
      .ok (match k with
           | .base => t
           | .not => t.not
           | .isNull => t.isNull)
  park _ _ _ _ := none
  aggPark _ _ _ _ := none
  truth t := t
  listView _ := .scalar
  empty := 0
  set r _ _ := r
  join l _ := l
  bind e _ := e
  dkey r := r
  window _ _ := .ok 0
  cmp _ _ := .eq
  gkey _ r := r
  aggCheck _ _ _ _ := .ok ()
  aggFinal _ _ _ _ _ := .ok 0
  nonBool := .runtime
  lookup _ _ := none
  call _ _ _ _ := .error .runtime
  contains _ _ := true
  null := .null

def showCount (r : Except DErr (List Nat)) : String :=
  match r with
  | .ok xs => toString xs.length
  | .error _ => "err"

/-! ### the stream -/

def step (_ : Unit) (ws : List String) : Unit × String × String × String :=
  match ws with
  | "g" :: _ => ((), "ok", "-", "")
  | "q" :: rest =>
    match splitSemi rest with
    | _ :: planToks :: _ =>
      match parsePlan #[] planToks with
      | some (p, [], subs) =>
        let S := semOf Quirks.current subs
        let r := execute S Quirks.current .unlimited [] p
        -- the row counter is compared only where no subquery runs inside an expression
        let cnt := if subs.isEmpty then toString (emittedRows S Quirks.current .unlimited [] p) else "-"
        let spec := match execute (semOf Quirks.repaired subs) Quirks.repaired .unlimited [] p with
          | .error _ => anyErrClass
          | .ok _ => "-"
        ((), showOutcome r ++ s!" | rows={cnt}", spec, "")
      | _ => ((), "bad-plan", "-", "")
    | _ => ((), "bad-op", "-", "")
  | "lim" :: mr :: mc :: ma :: rest =>
    match splitSemi rest with
    | _ :: planToks :: _ =>
      match parsePlan #[] planToks with
      | some (p, [], subs) =>
        let S := semOf Quirks.current subs
        let o : Opts := ⟨numOrMax mr, numOrMax mc, 0, numOrMax ma⟩
        let unl := execute S Quirks.current .unlimited [] p
        let cnt := emittedRows S Quirks.current .unlimited [] p
        -- size checks are exact; the row budget fires iff the global counter exceeds it
        let sized := execute S Quirks.current (LimEnv.ofOpts DErr.limit o never never) [] p
        let lim : Except DErr (List DRow) :=
          if cnt > rowLimitFor o "" then .error (.limit .rows) else sized
        let rel :=
          if showOutcomeL lim == showOutcomeL unl then "complete"
          else match lim with
            | .error (.limit _) => "limit"
            | _ => "ALTERED"
        let cntS := if subs.isEmpty then toString cnt else "-"
        ((), s!"{rel} | lim={showOutcomeL lim} unl={showOutcomeL unl} rows={cntS}", "complete/limit", "")
      | _ => ((), "bad-plan", "-", "")
    | _ => ((), "bad-op", "-", "")
  | "limt" :: _ => ((), "ok", "ok", "")
  | "limx" :: _ => ((), "ok", "ok", "")
  | "idx" :: _ => ((), "ok", "-", "")
  | "w" :: classes :: _ =>
    let cs := (classes.toList.filter (· != '-')).toArray
    let rows := List.range cs.size
    let S := csem cs
    let a := keep S Quirks.current 0 PK.base rows
    let b := keep S Quirks.current 0 PK.not rows
    let c := keep S Quirks.current 0 PK.isNull rows
    let obs :=
      match a, b, c with
      | .ok x, .ok y, .ok z =>
        let tot := x.length + y.length + z.length
        if tot == rows.length then "partition"
        else if tot < rows.length then s!"lost:{rows.length - tot}" else s!"dup:{tot - rows.length}"
      | _, _, _ => "err"
    -- `stale` = the harness found a different number of base rows than classes (setup lines missing)
    let spec := if cs.any (fun ch => ch == 'O' || ch == 'E') then "err/stale" else "partition/stale"
    let detail := if obs == "err" then s!"base={rows.length}"
      else s!"base={rows.length} t={showCount a} f={showCount b} n={showCount c}"
    ((), s!"{obs} | {detail}", spec, "")
  | _ => ((), "bad-op", "-", "")

def stream : Stream := { σ := Unit, init := (), step := step }

end Nervus.Driver.PlanStream
