/-
  Driver for the `plan` stream (C22, C33, C19): parses the plan tokens the harness derived from the
  engine's own compiled plan, runs the operator model on the concrete instance `dsem`, prints the
  model's answer, what the Spec demands, and no trigger (no known finding on these properties).
  Line protocol: see harness/src/streams/plan.rs.   core-only imports.
-/
import Nervus.Driver.Util
import Nervus.Model.PlanInst
import Nervus.Model.WriteOps
import Nervus.Spec.Streams
namespace Nervus.Driver.PlanStream
open Nervus Nervus.PlanOps Nervus.PlanInst Nervus.Driver

abbrev P := Plan DE DRow DErr DAgg

/-! ### token parser (prefix notation) -/

def parseScalar (t : String) : Option DS :=
  if t == "null" then some .null
  else if t == "b0" then some (.bool false)
  else if t == "b1" then some (.bool true)
  else match t.toList with
    | 'i' :: rest => (parseInt? (String.ofList rest)).map .int
    | 's' :: rest => some (.str (String.ofList rest))
    | 'n' :: rest => (String.ofList rest).toNat?.map .node
    | _ => none

def parseAggFn (fn : String) (e : Option DE) : Option DAgg :=
  match fn, e with
  | "count*", none => some .countStar
  | "count", some e => some (.count e)
  | "collect", some e => some (.collect e)
  | "sum", some e => some (.sum e)
  | "min", some e => some (.min e)
  | "max", some e => some (.max e)
  | _, _ => none

/-- parser state: the EXISTS subqueries met so far (an `existsx` expression refers to one by index),
    and the graph facts of the line: the outcome of every index seek (`none` = the fallback runs)
    and the result table of every procedure call node (outer row ↦ joined rows or the error) -/
structure PS where
  subs : Array P := #[]
  seeks : Array (Option (List DRow)) := #[]
  calls : Array (List (DRow × Except DErr (List DRow))) := #[]
  /-- the input of a staged clause of a write statement (token `hole`) -/
  hole : Option P := none

abbrev Subs := PS

def PS.addSub (s : PS) (p : P) : PS := { s with subs := s.subs.push p }

/-! ### rows of the graph (materialised by the harness from the engine's snapshot) -/

def insertKey (kv : String × DV) : DRow → DRow
  | [] => [kv]
  | x :: xs => if kv.1 < x.1 then kv :: x :: xs else x :: insertKey kv xs

/-- a pseudo-column (`alias.property`, `alias:Label`): a fact of the graph about a binding of the row -/
def isPseudo (name : String) : Bool := name.any (fun c => c == '.' || c == ':')

/-- rows are compared by their bindings, up to the order of the columns -/
def normRow (r : DRow) : DRow := (r.filter (fun kv => !isPseudo kv.1)).foldr insertKey []

partial def parseValue : List String → Option (DV × List String)
  | "list" :: n :: rest =>
    match n.toNat? with
    | some k =>
      let items := (rest.take k).filterMap parseScalar
      if items.length == k then some (.list items, rest.drop k) else none
    | none => none
  | t :: rest => (parseScalar t).map (fun s => (.s s, rest))
  | [] => none

partial def parseCols : Nat → List String → Option (DRow × List String)
  | 0, ts => some ([], ts)
  | n + 1, name :: ts =>
    match parseValue ts with
    | some (v, r) => (parseCols n r).map (fun (cols, r') => ((name, v) :: cols, r'))
    | none => none
  | _, [] => none

/-- `r <k> (<name> <value>)*k` -/
def parseRow : List String → Option (DRow × List String)
  | "r" :: n :: ts => n.toNat?.bind (fun k => parseCols k ts)
  | _ => none

def parseErrClass (c : String) : DErr :=
  if c == "runtime" then .runtime else if c == "syntax" then .syntax else .other

/-- `ok <row>` | `err <class>` -/
def parseItem : List String → Option (Except DErr DRow × List String)
  | "ok" :: ts => (parseRow ts).map (fun (r, rest) => (.ok r, rest))
  | "err" :: c :: ts => some (.error (parseErrClass c), ts)
  | _ => none

partial def parseMany {β : Type} (f : List String → Option (β × List String)) : Nat → List String → Option (List β × List String)
  | 0, ts => some ([], ts)
  | n + 1, ts =>
    match f ts with
    | some (x, r) => (parseMany f n r).map (fun (xs, r') => (x :: xs, r'))
    | none => none

/-- `<row> <n> <item>*n`: what an expansion / a procedure call yields for one input row -/
def parseEntry (ts : List String) : Option ((DRow × List (Except DErr DRow)) × List String) :=
  match parseRow ts with
  | some (r, n :: rest) =>
    match n.toNat? with
    | some k => (parseMany parseItem k rest).map (fun (items, r') => ((normRow r, items), r'))
    | none => none
  | _ => none

/-- `<n> <entry>*n` -/
def parseTable (ts : List String) : Option (List (DRow × List (Except DErr DRow)) × List String) :=
  match ts with
  | n :: rest => n.toNat?.bind (fun k => parseMany parseEntry k rest)
  | [] => none

/-- an input row the harness did not see: flagged as a syntax error (never agrees with the engine) -/
def lookupEntry (tbl : List (DRow × List (Except DErr DRow))) (r : DRow) : List (Except DErr DRow) :=
  match tbl.find? (fun e => e.1 == normRow r) with
  | some e => e.2
  | none => [.error .syntax]

def parseKind (k : String) : Option ExpandKind :=
  if k == "out" then some .matchOut else if k == "varlen" then some .matchOutVarLen
  else if k == "in" then some .matchIn else if k == "undirected" then some .matchUndirected
  else if k == "boundrel" then some .matchBoundRel else none

mutual
partial def parseExpr (subs : Subs) : List String → Option (DE × List String × Subs)
  | [] => none
  | t :: ts =>
    let un (f : DE → DE) := (parseExpr subs ts).map (fun (e, r, s) => (f e, r, s))
    let bin (f : DE → DE → DE) :=
      match parseExpr subs ts with
      | some (a, r1, s1) => (parseExpr s1 r1).map (fun (b, r2, s2) => (f a b, r2, s2))
      | none => none
    match t with
    | "toBoolean" => un .toBoolean
    | "toInteger" => un .toInteger
    | "not" => un .not
    | "isnull" => un .isNull
    | "notnull" => un .isNotNull
    | "single" => un .single
    | "eq" => bin .eq
    | "lt" => bin .lt
    | "gt" => bin .gt
    | "and" => bin .and
    | "or" => bin .or
    | "add" => bin .add
    | "mod" => bin .mod
    | "range" => bin .range
    | "case" =>
      match parseExpr subs ts with
      | some (c, r1, s1) =>
        match parseExpr s1 r1 with
        | some (th, r2, s2) => (parseExpr s2 r2).map (fun (el, r3, s3) => (.caseWhen c th el, r3, s3))
        | none => none
      | none => none
    | "existsx" =>
      match parsePlan subs ts with
      | some (sub, r1, s1) => some (.existsSub s1.subs.size, r1, s1.addSub sub)
      | none => none
    | "list" =>
      match ts with
      | n :: rest =>
        match n.toNat? with
        | some k =>
          let items := (rest.take k).filterMap parseScalar
          if items.length == k then some (.lit (.list items), rest.drop k, subs) else none
        | none => none
      | [] => none
    | _ =>
      match t.toList with
      | 'v' :: name => some (.var (String.ofList name), ts, subs)
      | _ => (parseScalar t).map (fun s => (.lit (.s s), ts, subs))

partial def parseN {β : Type} (f : Subs → List String → Option (β × List String × Subs)) :
    Nat → Subs → List String → Option (List β × List String × Subs)
  | 0, s, ts => some ([], ts, s)
  | n + 1, s, ts =>
    match f s ts with
    | some (x, r, s1) => (parseN f n s1 r).map (fun (xs, r', s2) => (x :: xs, r', s2))
    | none => none

partial def parsePlan (subs : Subs) : List String → Option (P × List String × Subs)
  | [] => none
  | t :: ts =>
    match t with
    | "one" => some (.scan [[]], ts, subs)
    | "hole" => subs.hole.map (fun h => (h, ts, subs))
    | "arg" => some (.arg, ts, subs)
    | "scan" =>
      match ts with
      | n :: r0 => (n.toNat?.bind (fun k => parseMany parseRow k r0)).map (fun (rows, r1) => (.scan rows, r1, subs))
      | [] => none
    | "fail" =>
      match ts with
      | c :: r0 => some (.fail (parseErrClass c), r0, subs)
      | [] => none
    | "seek" =>
      -- seek <value expr> (hit <n> <row>*n | miss) <fallback plan>
      match parseExpr subs ts with
      | some (e, "miss" :: r1, s1) =>
        (parsePlan { s1 with seeks := s1.seeks.push none } r1).map
          (fun (fb, r2, s2) => (.indexSeek (toString s1.seeks.size) e fb, r2, s2))
      | some (e, "hit" :: n :: r1, s1) =>
        match n.toNat?.bind (fun k => parseMany parseRow k r1) with
        | some (rows, r2) =>
          (parsePlan { s1 with seeks := s1.seeks.push (some rows) } r2).map
            (fun (fb, r3, s3) => (.indexSeek (toString s1.seeks.size) e fb, r3, s3))
        | none => none
      | _ => none
    | "expand" =>
      match ts with
      | k :: r0 =>
        match parseKind k, parseTable r0 with
        | some kind, some (tbl, r1) =>
          (parsePlan subs r1).map (fun (p, r2, s2) => (.expand kind (lookupEntry tbl) p, r2, s2))
        | _, _ => none
      | [] => none
    | "call" =>
      -- call <nargs> <expr>*nargs <table> <input plan>
      match ts with
      | n :: r0 =>
        match n.toNat? with
        | some k =>
          match parseN parseExpr k subs r0 with
          | some (args, r1, s1) =>
            match parseTable r1 with
            | some (tbl, r2) =>
              let ctbl : List (DRow × Except DErr (List DRow)) := tbl.map (fun e =>
                (e.1, match e.2 with
                  | [.error err] => .error err
                  | items => .ok (items.filterMap (fun it => match it with | .ok r => some r | .error _ => none))))
              let key := toString s1.calls.size
              (parsePlan { s1 with calls := s1.calls.push ctbl } r2).map
                (fun (p, r3, s3) => (.procedureCall key args p, r3, s3))
            | none => none
          | none => none
        | none => none
      | [] => none
    | "fixup" =>
      -- fixup <n> <null alias>*n <outer plan> <filtered plan>
      match ts with
      | n :: r0 =>
        match n.toNat? with
        | some k =>
          match parsePlan subs (r0.drop k) with
          | some (outer, r1, s1) =>
            (parsePlan s1 r1).map (fun (f, r2, s2) => (.fixup (r0.take k) outer f, r2, s2))
          | none => none
        | none => none
      | [] => none
    | "unwind" =>
      match ts with
      | alias :: r0 =>
        match parseExpr subs r0 with
        | some (e, r1, s1) => (parsePlan s1 r1).map (fun (p, r2, s2) => (.unwind e alias p, r2, s2))
        | none => none
      | [] => none
    | "filter" =>
      match parseExpr subs ts with
      | some (e, r1, s1) => (parsePlan s1 r1).map (fun (p, r2, s2) => (.filter e p, r2, s2))
      | none => none
    | "exists" =>
      match parsePlan subs ts with
      | some (sub, r1, s1) => (parsePlan s1 r1).map (fun (p, r2, s2) => (.filterExists sub p, r2, s2))
      | none => none
    | "project" =>
      match ts with
      | n :: r0 =>
        match n.toNat? with
        | some k =>
          let item : Subs → List String → Option ((String × DE) × List String × Subs) := fun s xs =>
            match xs with
            | a :: r => (parseExpr s r).map (fun (e, r', s') => ((a, e), r', s'))
            | [] => none
          match parseN item k subs r0 with
          | some (projs, r1, s1) => (parsePlan s1 r1).map (fun (p, r2, s2) => (.project projs p, r2, s2))
          | none => none
        | none => none
      | [] => none
    | "distinct" => (parsePlan subs ts).map (fun (p, r, s) => (.distinct p, r, s))
    | "skip" =>
      match parseExpr subs ts with
      | some (e, r1, s1) => (parsePlan s1 r1).map (fun (p, r2, s2) => (.skip e p, r2, s2))
      | none => none
    | "limit" =>
      match parseExpr subs ts with
      | some (e, r1, s1) => (parsePlan s1 r1).map (fun (p, r2, s2) => (.limit e p, r2, s2))
      | none => none
    | "order" =>
      match ts with
      | n :: r0 =>
        match n.toNat? with
        | some k =>
          let item : Subs → List String → Option ((DE × Bool) × List String × Subs) := fun s xs =>
            match parseExpr s xs with
            | some (e, d :: r', s') => some ((e, d == "asc"), r', s')
            | _ => none
          match parseN item k subs r0 with
          | some (keys, r1, s1) => (parsePlan s1 r1).map (fun (p, r2, s2) => (.orderBy keys p, r2, s2))
          | none => none
        | none => none
      | [] => none
    | "agg" =>
      match ts with
      | ng :: r0 =>
        match ng.toNat? with
        | some g =>
          let names := r0.take g
          match r0.drop g with
          | na :: r1 =>
            match na.toNat? with
            | some k =>
              let item : Subs → List String → Option ((DAgg × String) × List String × Subs) := fun s xs =>
                match xs with
                | "count*" :: alias :: r => some ((.countStar, alias), r, s)
                | fn :: r =>
                  match parseExpr s r with
                  | some (e, alias :: r', s') => (parseAggFn fn (some e)).map (fun a => ((a, alias), r', s'))
                  | _ => none
                | [] => none
              match parseN item k subs r1 with
              | some (aggs, r2, s2) => (parsePlan s2 r2).map (fun (p, r3, s3) => (.aggregate names aggs p, r3, s3))
              | none => none
            | none => none
          | [] => none
        | none => none
      | [] => none
    | "union" =>
      match ts with
      | all :: r0 =>
        match parsePlan subs r0 with
        | some (l, r1, s1) => (parsePlan s1 r1).map (fun (r, r2, s2) => (.union (all == "all") l r, r2, s2))
        | none => none
      | [] => none
    | "cart" =>
      match parsePlan subs ts with
      | some (l, r1, s1) => (parsePlan s1 r1).map (fun (r, r2, s2) => (.cartesian l r, r2, s2))
      | none => none
    | "apply" =>
      match parsePlan subs ts with
      | some (inp, r1, s1) => (parsePlan s1 r1).map (fun (sub, r2, s2) => (.apply inp sub, r2, s2))
      | none => none
    | _ => none
end

/-! ### write statements -/

abbrev WP := WPlan DE DRow DErr DAgg (List DE)

/-- `wread <plan>` | `wstage <clause over hole> <wplan>` | `wwrite <n> <expr>*n <wplan>` |
    `wforeach <var> <list> <sub wplan> <wplan>` -/
partial def parseW (ps : PS) : List String → Option (WP × List String × PS)
  | "wread" :: ts => (parsePlan ps ts).map (fun (p, r, s) => (.read p, r, s))
  | "wstage" :: ts =>
    -- the clause is parsed once to find where it ends; as an operator it is parsed against its input
    match parsePlan { ps with hole := some (.scan []) } ts with
    | some (_, rest, ps1) =>
      let toks := ts.take (ts.length - rest.length)
      let op : P → P := fun h =>
        match parsePlan { ps with hole := some h } toks with
        | some (p, _, _) => p
        | none => .fail .syntax
      (parseW { ps1 with hole := none } rest).map (fun (inp, r2, ps2) => (.stage op inp, r2, ps2))
    | none => none
  | "wwrite" :: n :: ts =>
    match n.toNat? with
    | some k =>
      match parseN parseExpr k ps ts with
      | some (es, r1, ps1) => (parseW ps1 r1).map (fun (inp, r2, ps2) => (.write es inp, r2, ps2))
      | none => none
    | none => none
  | "wforeach" :: var :: ts =>
    match parseExpr ps ts with
    | some (list, r1, ps1) =>
      match parseW ps1 r1 with
      | some (sub, r2, ps2) => (parseW ps2 r2).map (fun (inp, r3, ps3) => (.foreach list var sub inp, r3, ps3))
      | none => none
    | none => none
  | _ => none

/-- the write clauses of the stream only evaluate their property expressions (per row, in order);
    what they do to the graph is not compared -/
def wsemOf (S : Sem DE DRow DV DErr (List DV) DAgg) : WSem (List DE) DRow DErr Unit where
  apply w row _ :=
    match w.mapM (fun e => S.eval (fun _ _ => none) e [] row) with
    | .error e => .error e
    | .ok _ => .ok (1, ())
  overlay _ _ rows := rows
  notList := .other

/-- the graph facts of the line as the evaluation environment sees them -/
def graphOf (ps : PS) : GraphFns where
  lookup key _ := (key.toNat?.bind (fun i => ps.seeks[i]?)).getD none
  call key _ row _ :=
    match key.toNat?.bind (fun i => ps.calls[i]?) with
    | some tbl =>
      (match tbl.find? (fun e => e.1 == normRow row) with
       | some e => e.2
       | none => .error .syntax)
    | none => .error .syntax

/-- how the EXISTS subqueries inside expressions answer: run the subquery on the outer row, its first
    item decides (query_api.rs exists_subquery_has_rows); nesting depth bounded by the fuel -/
def exFn (Q : Quirks) (subs : Subs) : Nat → (String → Nat → Option DErr) → ExFn
  | 0, _ => fun _ _ _ => .has false
  | f + 1, coll => fun i env row =>
    match subs.subs[i]? with
    | none => .has false
    | some sub =>
      let S := dsemG (graphOf subs) (exFn Q subs f)
      let L : LimEnv DErr := { (LimEnv.unlimited : LimEnv DErr) with coll := coll }
      match (runL S Q L (.exec i .root) (S.bind env row) sub).head? with
      | none => .has false
      | some (.ok _) => .has true
      | some (.error e) => if Q.existsSwallowsErr then .swallowed else .failed e

def semOf (Q : Quirks) (subs : Subs) : Sem DE DRow DV DErr (List DV) DAgg :=
  dsemG (graphOf subs) (exFn Q subs 4)

/-! ### printing -/

def showLimitKind : LimitKind → String
  | .rows => "rows" | .coll => "coll" | .time => "time" | .apply => "apply"

def showErr : DErr → String
  | .runtime => "err:runtime"
  | .syntax => "err:syntax"
  | .other => "err:other"
  | .limit k => "err:limit:" ++ showLimitKind k

def hex64 (n : UInt64) : String :=
  let digits := Nat.toDigits 16 n.toNat
  String.ofList (List.replicate (16 - digits.length) '0' ++ digits)

def showOutcome (r : Except DErr (List DRow)) : String :=
  match r with
  | .ok rows => s!"ok {rows.length} {hex64 (bagHash (rows.map (fun r => r.filter (fun kv => !isPseudo kv.1))))}"
  | .error e => showErr e

/-- outcome with the limit kind dropped (which of two failing checks fires first depends on the
    interleaving of the pulls, which the stream does not compare) -/
def showOutcomeL (r : Except DErr (List DRow)) : String :=
  match r with
  | .error (.limit _) => "err:limit"
  | _ => (showOutcome r).replace " " ","

def anyErrClass : String := "err:runtime/err:syntax/err:other/err:limit:rows/err:limit:coll/err:limit:time/err:limit:apply"

def never : Site → Nat → Bool := fun _ _ => false

def splitSemi (ws : List String) : List (List String) :=
  ws.foldr (fun w acc =>
    if w == ";" then [] :: acc
    else match acc with
      | [] => [[w]]
      | a :: as => (w :: a) :: as) [[]]

def numOrMax (s : String) : Nat := if s == "-" then 18446744073709551615 else s.toNat?.getD 18446744073709551615

/-! ### C19: the predicate's value class per row, the three filters on classes -/

inductive PK where
  | base | not | isNull
  deriving DecidableEq

/-- rows are indices into the class string; values ARE truth classes -/
def csem (classes : Array Char) : Sem PK Nat Truth DErr Nat Unit where
  eval _ k _ r :=
    let c := classes.getD r 'E'
    if c == 'E' then .error .runtime
    else
      let t : Truth := if c == 'T' then .tt else if c == 'F' then .ff else if c == 'N' then .null else .other
      .ok (match k with
           | .base => t
           | .not => t.not
           | .isNull => t.isNull)
  park _ _ _ _ := none
  aggPark _ _ _ _ := none
  truth t := t
  listView _ := .scalar
  empty := 0
  set r _ _ := r
  join l _ := l
  bind e _ := e
  dkey r := r
  window _ _ := .ok 0
  cmp _ _ := .eq
  gkey _ r := r
  aggCheck _ _ _ _ := .ok ()
  aggFinal _ _ _ _ _ := .ok 0
  nonBool := .runtime
  lookup _ _ := none
  call _ _ _ _ := .error .runtime
  contains _ _ := true
  null := .null

def showCount (r : Except DErr (List Nat)) : String :=
  match r with
  | .ok xs => toString xs.length
  | .error _ => "err"

/-! ### the stream -/

def step0 (_ : Unit) (ws : List String) : Unit × String × String × String :=
  match ws with
  | "g" :: _ => ((), "ok", "-", "")
  | "q" :: rest =>
    match splitSemi rest with
    | _ :: planToks :: _ =>
      match parsePlan {} planToks with
      | some (p, [], subs) =>
        let S := semOf Quirks.current subs
        let r := execute S Quirks.current .unlimited [] p
        -- the row counter is compared only where no subquery runs inside an expression
        let cnt := if subs.subs.isEmpty then toString (emittedRows S Quirks.current .unlimited [] p) else "-"
        let spec := match execute (semOf Quirks.repaired subs) Quirks.repaired .unlimited [] p with
          | .error _ => anyErrClass
          | .ok _ => "-"
        ((), showOutcome r ++ s!" | rows={cnt}", spec, "")
      | _ => ((), "bad-plan", "-", "")
    | _ => ((), "bad-op", "-", "")
  | "limxg" :: _ => ((), "ok", "ok", "")
  | "wq" :: rest | "wm" :: rest =>
    match splitSemi rest with
    | _ :: toks :: _ =>
      match parseW {} toks with
      | some (wp, [], ps) =>
        let S := semOf Quirks.current ps
        let show' (r : Except DErr (Nat × List DRow × Unit)) : String :=
          match r with
          | .ok _ => "ok"
          | .error e => showErr e
        let r := execW S Quirks.current .unlimited (wsemOf S) .root [] wp ()
        let Sr := semOf Quirks.repaired ps
        let spec := match execW Sr Quirks.repaired .unlimited (wsemOf Sr) .root [] wp () with
          | .error _ => anyErrClass
          | .ok _ => "-"
        ((), show' r, spec, "")
      | _ => ((), "bad-plan", "-", "")
    | _ => ((), "bad-op", "-", "")
  | "wlim" :: mc :: rest | "wmlim" :: mc :: rest =>
    match splitSemi rest with
    | _ :: toks :: _ =>
      match parseW {} toks with
      | some (wp, [], ps) =>
        let S := semOf Quirks.current ps
        let show' (r : Except DErr (Nat × List DRow × Unit)) : String :=
          match r with
          | .ok _ => "ok"
          | .error (.limit _) => "err:limit"
          | .error e => showErr e
        let o : Opts := ⟨numOrMax "-", numOrMax mc, 0, numOrMax "-"⟩
        let unl := execW S Quirks.current .unlimited (wsemOf S) .root [] wp ()
        let lim := execW S Quirks.current (LimEnv.ofOpts DErr.limit o never never) (wsemOf S) .root [] wp ()
        let rel :=
          if show' lim == show' unl then "complete"
          else match lim with
            | .error (.limit _) => "limit"
            | _ => "ALTERED"
        ((), s!"{rel} | lim={show' lim} unl={show' unl}", "complete/limit", "")
      | _ => ((), "bad-plan", "-", "")
    | _ => ((), "bad-op", "-", "")
  | "lim" :: mr :: mc :: ma :: rest =>
    match splitSemi rest with
    | _ :: planToks :: _ =>
      match parsePlan {} planToks with
      | some (p, [], subs) =>
        let S := semOf Quirks.current subs
        let o : Opts := ⟨numOrMax mr, numOrMax mc, 0, numOrMax ma⟩
        let unl := execute S Quirks.current .unlimited [] p
        let cnt := emittedRows S Quirks.current .unlimited [] p
        -- size checks are exact; the row budget fires iff the global counter exceeds it
        let sized := execute S Quirks.current (LimEnv.ofOpts DErr.limit o never never) [] p
        let lim : Except DErr (List DRow) :=
          if cnt > rowLimitFor o "" then .error (.limit .rows) else sized
        let rel :=
          if showOutcomeL lim == showOutcomeL unl then "complete"
          else match lim with
            | .error (.limit _) => "limit"
            | _ => "ALTERED"
        let cntS := if subs.subs.isEmpty then toString cnt else "-"
        ((), s!"{rel} | lim={showOutcomeL lim} unl={showOutcomeL unl} rows={cntS}", "complete/limit", "")
      | _ => ((), "bad-plan", "-", "")
    | _ => ((), "bad-op", "-", "")
  | "limt" :: _ => ((), "ok", "ok", "")
  | "limx" :: _ => ((), "ok", "ok", "")
  | "idx" :: _ => ((), "ok", "-", "")
  | "w" :: classes :: _ =>
    let cs := (classes.toList.filter (· != '-')).toArray
    let rows := List.range cs.size
    let S := csem cs
    let a := keep S Quirks.current 0 PK.base rows
    let b := keep S Quirks.current 0 PK.not rows
    let c := keep S Quirks.current 0 PK.isNull rows
    let obs :=
      match a, b, c with
      | .ok x, .ok y, .ok z =>
        let tot := x.length + y.length + z.length
        if tot == rows.length then "partition"
        else if tot < rows.length then s!"lost:{rows.length - tot}" else s!"dup:{tot - rows.length}"
      | _, _, _ => "err"
    -- `stale` = the harness found a different number of base rows than classes (setup lines missing)
    let spec := if cs.any (fun ch => ch == 'O' || ch == 'E') then "err/stale" else "partition/stale"
    let detail := if obs == "err" then s!"base={rows.length}"
      else s!"base={rows.length} t={showCount a} f={showCount b} n={showCount c}"
    ((), s!"{obs} | {detail}", spec, "")
  | _ => ((), "bad-op", "-", "")

/-- `… rows=<n>` ↦ `… rows=-` -/
def noRows (r : Unit × String × String × String) : Unit × String × String × String :=
  match r.2.1.splitOn " rows=" with
  | a :: _ :: _ => (r.1, a ++ " rows=-", r.2.2.1, r.2.2.2)
  | _ => r

/-- graph lines: the graph number is the harness's business, the facts are in the plan tokens -/
def step (u : Unit) (ws : List String) : Unit × String × String × String :=
  match ws with
  | "qg" :: _ :: rest => step0 u ("q" :: rest)
  | "limg" :: _ :: rest => step0 u ("lim" :: rest)
  -- nested variants: the plan tokens are those of the un-nested query; the row counter is not compared
  | "qw" :: rest => noRows (step0 u ("q" :: rest))
  | "qwg" :: _ :: rest => noRows (step0 u ("q" :: rest))
  | "limw" :: rest => noRows (step0 u ("lim" :: rest))
  | "limwg" :: _ :: rest => noRows (step0 u ("lim" :: rest))
  | "wqw" :: rest => step0 u ("wq" :: rest)
  | "wmw" :: rest => step0 u ("wm" :: rest)
  | _ => step0 u ws

def stream : Stream := { σ := Unit, init := (), step := step }

end Nervus.Driver.PlanStream
