import Nervus.Driver.Util
import Nervus.Spec.VectorSearch
import Nervus.Model.HnswBlob
namespace Nervus.Driver.HnswStream
open Nervus Nervus.Hnsw Nervus.Driver

structure St where
  p : Params
  ix : Index Vec
  /-- distinct tombstoned node ids the engine's snapshot knows (compaction forgets them) -/
  tomb : List Nat
  /-- searches since the last mutation (what `reopen` re-runs; capped at 8 by the harness) -/
  recent : Nat
  /-- a vector was re-inserted for an id that already had one -/
  reinserted : Bool

def St.init : St := ⟨⟨16, 200, 200⟩, Index.empty, [], 0, false⟩

def parseCoords (s : String) : Option Vec :=
  if s == "-" then some [] else (s.splitOn ",").mapM parseInt?

def b01 (b : Bool) : String := if b then "1" else "0"

/-- the deterministic wide vector of the stream (`wide_coords` in harness/src/streams/hnsw.rs) -/
def wideCoords (dim seed : Nat) : Vec :=
  (List.range dim).map fun i => (((seed * 7919 + i * 104729 + (i / 3) * 31) % 7 : Nat) : Int) - 3

def cfg : Cfg := Cfg.current

/-- the words of a `blob` op (`blob_words` in harness/src/streams/hnsw.rs) -/
def blobWords (n seed : Nat) : List Nat :=
  (List.range n).map fun i => (seed * 2654435761 + i * 40503 + 1) % 4294967296

def doVec (st : St) (id level : Nat) (v : Vec) : St × String × String × String :=
  let re := (st.ix.vecs.lookup id).isSome
  match insert intSpace st.p st.ix id v level with
  | .ok ix' => ({ st with ix := ix', recent := 0, reinserted := st.reinserted || re }, "ok", "-", "")
  | .error _ => ({ st with recent := 0 }, "err", "-", "")

def doSearch (st : St) (k : Nat) (q : Vec) : St × String × String × String :=
  let st' := { st with recent := if st.recent < 8 then st.recent + 1 else st.recent }
  let n := (storedIds st.ix).length
  let want := if n ≤ 2 * st.p.m + 1 ∧ n ≤ st.p.efS then "1" else "*"
  let spec := "1 1 1 1 1 1 " ++ want
  let trig := " ".intercalate (
    (if st.reinserted then ["C31-reinsert-disconnects"] else []) ++
    (if !cfg.kZero && k == 0 then ["C31-k-zero"] else []) ++
    (if !cfg.skipTomb && !st.tomb.isEmpty then ["C31-deleted-node"] else []))
  match searchVector cfg intSpace st.p st.ix st.tomb q k with
  | .error _ => (st', "err", spec, trig)
  | .ok r =>
    let c := checkResult intSpace st.ix st.tomb q k r
    let detail := if r.isEmpty then "-" else ",".intercalate (r.map fun h => toString h.2 ++ ":" ++ toString h.1)
    let obs := " ".intercalate [b01 c.lenOk, b01 c.distinct, b01 c.sorted, b01 c.distOk, b01 c.hasVec, b01 c.live, b01 c.exact]
    (st', obs ++ " | " ++ detail, spec, trig)

def step (st : St) (ws : List String) : St × String × String × String :=
  match ws with
  | ["params", m, efc, efs] =>
    match m.toNat?, efc.toNat?, efs.toNat? with
    | some m, some efc, some efs => ({ St.init with p := ⟨m, efc, efs⟩ }, "ok", "-", "")
    | _, _, _ => (st, "bad-op", "-", "")
  | ["node"] => (st, "ok", "-", "")
  -- the storage layer alone: write once, read with a cold cache (Model/HnswBlob, flags regenerated)
  | ["blob", _kind, n, seed] =>
    match n.toNat?, seed.toNat? with
    | some n, some seed =>
      let ws := blobWords n seed
      let same := match HnswBlob.roundTrip HnswBlob.decodesPerPage HnswBlob.pagePayload ws with
        | .ok r => r == ws
        | .error _ => false
      (st, if same then "same" else "diff", "same", "")
    | _, _ => (st, "bad-op", "-", "")
  | ["vec", id, level, coords] =>
    match id.toNat?, level.toNat?, parseCoords coords with
    | some id, some level, some v => doVec st id level v
    | _, _, _ => (st, "bad-op", "-", "")
  | ["bigvec", id, level, dim, seed] =>
    match id.toNat?, level.toNat?, dim.toNat?, seed.toNat? with
    | some id, some level, some dim, some seed => doVec st id level (wideCoords dim seed)
    | _, _, _, _ => (st, "bad-op", "-", "")
  -- profiles run on the real engine only: the model is not advanced (see `xsearch`)
  | ["xvec", _, _, _, _] => ({ st with recent := 0 }, "ok", "-", "")
  | ["del", id] =>
    match id.toNat? with
    | some id => ({ st with tomb := if st.tomb.contains id then st.tomb else id :: st.tomb, recent := 0 }, "ok", "-", "")
    | none => (st, "bad-op", "-", "")
  | ["compact"] => ({ st with tomb := [], recent := 0 }, "ok", "-", "")
  | ["search", k, coords] =>
    match k.toNat?, parseCoords coords with
    | some k, some q => doSearch st k q
    | _, _ => (st, "bad-op", "-", "")
  | ["bigsearch", k, dim, seed] =>
    match k.toNat?, dim.toNat?, seed.toNat? with
    | some k, some dim, some seed => doSearch st k (wideCoords dim seed)
    | _, _, _ => (st, "bad-op", "-", "")
  -- soundness flags only; theorem `Props.C31.sound` gives them for ANY index state, so the model's
  -- answer is this constant whatever the (not modelled) profile built
  | ["xsearch", _, _, _] =>
    ({ st with recent := if st.recent < 8 then st.recent + 1 else st.recent }, "1 1 1 1 1 1", "1 1 1 1 1 1", "")
  | ["reopen"] => (st, "same | " ++ toString st.recent, "same", "")
  | _ => (st, "bad-op", "-", "")

def stream : Stream := { σ := St, init := St.init, step := step }

end Nervus.Driver.HnswStream
