import Nervus.Driver.Util
import Nervus.Spec.VectorSearch
namespace Nervus.Driver.HnswStream
open Nervus Nervus.Hnsw Nervus.Driver

structure St where
  p : Params
  ix : Index Vec
  /-- distinct tombstoned node ids the engine's snapshot knows (compaction forgets them) -/
  tomb : List Nat
  /-- searches since the last mutation (what `reopen` re-runs; capped at 8 by the harness) -/
  recent : Nat
  /-- a vector was re-inserted for an id that already had one -/
  reinserted : Bool

def St.init : St := ⟨⟨16, 200, 200⟩, Index.empty, [], 0, false⟩

def parseCoords (s : String) : Option Vec :=
  if s == "-" then some [] else (s.splitOn ",").mapM parseInt?

def b01 (b : Bool) : String := if b then "1" else "0"

def cfg : Cfg := Cfg.current

def step (st : St) (ws : List String) : St × String × String × String :=
  match ws with
  | ["params", m, efc, efs] =>
    match m.toNat?, efc.toNat?, efs.toNat? with
    | some m, some efc, some efs => ({ St.init with p := ⟨m, efc, efs⟩ }, "ok", "-", "")
    | _, _, _ => (st, "bad-op", "-", "")
  | ["node"] => (st, "ok", "-", "")
  | ["vec", id, level, coords] =>
    match id.toNat?, level.toNat?, parseCoords coords with
    | some id, some level, some v =>
      let re := (st.ix.vecs.lookup id).isSome
      match insert intSpace st.p st.ix id v level with
      | .ok ix' => ({ st with ix := ix', recent := 0, reinserted := st.reinserted || re }, "ok", "-", "")
      | .error _ => ({ st with recent := 0 }, "err", "-", "")
    | _, _, _ => (st, "bad-op", "-", "")
  | ["del", id] =>
    match id.toNat? with
    | some id => ({ st with tomb := if st.tomb.contains id then st.tomb else id :: st.tomb, recent := 0 }, "ok", "-", "")
    | none => (st, "bad-op", "-", "")
  | ["compact"] => ({ st with tomb := [], recent := 0 }, "ok", "-", "")
  | ["search", k, coords] =>
    match k.toNat?, parseCoords coords with
    | some k, some q =>
      let st' := { st with recent := if st.recent < 8 then st.recent + 1 else st.recent }
      let n := (storedIds st.ix).length
      let want := if n ≤ 2 * st.p.m + 1 ∧ n ≤ st.p.efS then "1" else "*"
      let spec := "1 1 1 1 1 1 " ++ want
      let trig := " ".intercalate (
        (if st.reinserted then ["C31-reinsert-disconnects"] else []) ++
        (if !cfg.kZero && k == 0 then ["C31-k-zero"] else []) ++
        (if !cfg.skipTomb && !st.tomb.isEmpty then ["C31-deleted-node"] else []))
      match searchVector cfg intSpace st.p st.ix st.tomb q k with
      | .error _ => (st', "err", spec, trig)
      | .ok r =>
        let c := checkResult intSpace st.ix st.tomb q k r
        let detail := if r.isEmpty then "-" else ",".intercalate (r.map fun h => toString h.2 ++ ":" ++ toString h.1)
        let obs := " ".intercalate [b01 c.lenOk, b01 c.distinct, b01 c.sorted, b01 c.distOk, b01 c.hasVec, b01 c.live, b01 c.exact]
        (st', obs ++ " | " ++ detail, spec, trig)
    | _, _ => (st, "bad-op", "-", "")
  | ["reopen"] => (st, "same | " ++ toString st.recent, "same", "")
  | _ => (st, "bad-op", "-", "")

def stream : Stream := { σ := St, init := St.init, step := step }

end Nervus.Driver.HnswStream
