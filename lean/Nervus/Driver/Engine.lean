/-
  Driver/Engine.lean — line-protocol driver of the `engine*` streams (C06, C04, C05, C07).
  model-out = the engine model's answers, rendered exactly as harness/src/streams/engine.rs renders
  the real engine's; spec-out depends on the stream:
    engine          the Spec graph's dump (well-formed, transaction-only histories)        [C06]
    engine_reopen   the model's previous answer to the same read, when only close/reopen
                    happened in between                                                    [C04]
    engine_compact  the answer of a shadow engine that runs the same history WITHOUT the
                    compactions                                                             [C05]
    engine_abort    the model's previous answer, when only abandoned transactions happened
                    in between                                                              [C07]
  core/Std imports only.
-/
import Nervus.Driver.Util
import Nervus.Model.EngineRun
import Nervus.Spec.History
import Nervus.Model.Triggers
namespace Nervus.Driver.EngineStream
open Nervus Nervus.Driver Nervus.Storage
open Nervus.GraphSpec (Graph TxOp Op Rel)

/-! ### tokens ↔ codes (names and values are opaque `Nat` codes in Model and Spec) -/

def encodeTok (s : String) : Nat := s.toUTF8.foldl (fun a b => a * 256 + b.toNat) 1

partial def decodeBytes (n : Nat) (acc : List UInt8) : List UInt8 :=
  if n ≤ 1 then acc else decodeBytes (n / 256) (UInt8.ofNat (n % 256) :: acc)

def decodeTok (n : Nat) : String :=
  if n < 256 then s!"#{n}" else
  match String.fromUTF8? (ByteArray.mk (decodeBytes n []).toArray) with
  | some s => s
  | none => s!"#{n}"

def RELS : List String := ["R", "S"]
def KEYS : List String := ["p0", "p1", "p2"]

/-! ### rendering (shared by model and spec) -/

def joinOr (xs : List String) : String := if xs.isEmpty then "-" else ",".intercalate xs

def sortStr (xs : List String) : List String := Storage.isort (fun a b => decide (a ≤ b)) xs

def showMap (m : List (Nat × Nat)) : String :=
  joinOr (sortStr (m.map (fun p => s!"{decodeTok p.1}={decodeTok p.2}")))

/-- multiset of strings as `name x count`, sorted by name -/
def bag (xs : List String) : String :=
  let names := sortStr (GraphSpec.dedup xs)
  joinOr (names.map (fun n => s!"{n}x{xs.count n}"))

def showOpt (o : Option Nat) : String := match o with | some x => toString x | none => "-"

/-- everything `dump` reads, as functions -/
structure Reader where
  nodes : List Nat
  nodesSnap : List Nat
  ext : Nat → Option Nat
  labels : Nat → List String
  pmap : Nat → List (Nat × Nat)
  pkey : Nat → Nat → Option Nat
  out : Nat → Option String → Option (List String)        -- edge names; none = panic
  inc : Nat → Option String → Option (List String)
  relKnown : String → Bool
  emap : String → List (Nat × Nat)
  ekey : String → Nat → Option Nat

def pkShow (f : Nat → Option Nat) : String :=
  joinOr (KEYS.filterMap (fun k => (f (encodeTok k)).map (fun v => s!"{k}={decodeTok v}")))

def renderObs (r : Reader) : Option String := do
  let nodeRec := fun (n : Nat) =>
    s!"{n}(e{showOpt (r.ext n)};l{joinOr (sortStr (r.labels n))};pm{showMap (r.pmap n)};pk{pkShow (r.pkey n)})"
  let rels := RELS.filter r.relKnown
  let o ← r.nodes.mapM (fun n => r.out n none)
  let i ← r.nodes.mapM (fun n => r.inc n none)
  let of_ ← r.nodes.mapM (fun n => rels.mapM (fun t => r.out n (some t)))
  let if_ ← r.nodes.mapM (fun n => rels.mapM (fun t => r.inc n (some t)))
  let es := sortStr (GraphSpec.dedup (o.flatten ++ i.flatten))
  let erec := fun (e : String) => s!"{e}(pm{showMap (r.emap e)};pk{pkShow (r.ekey e)})"
  pure (s!"n={joinOr (r.nodes.map toString)} ns={joinOr (r.nodesSnap.map toString)} " ++
        s!"N={joinOr (r.nodes.map nodeRec)} o={bag o.flatten} of={bag of_.flatten.flatten} " ++
        s!"i={bag i.flatten} if={bag if_.flatten.flatten} E={joinOr (es.map erec)}")

/-! ### model side -/

def edgeName (s : Engine) (e : Edge) : String :=
  let r := match s.interner.getName e.rel with | some n => decodeTok n | none => s!"#{e.rel}"
  s!"{e.src}-{r}-{e.dst}"

/-- parse an edge name back (names were produced by `edgeName` on the same state) -/
def edgeOfName (s : Engine) (name : String) : Option Edge :=
  match name.splitOn "-" with
  | [a, r, b] => do
    let a ← a.toNat?
    let b ← b.toNat?
    let rid ← s.interner.getId (encodeTok r)
    pure ⟨a, rid, b⟩
  | _ => none

def relId (s : Engine) (t : Option String) : Option (Option Nat) :=
  match t with
  | none => some none
  | some t => (s.interner.getId (encodeTok t)).map some

def modelReader (c : Cfg) (s : Engine) : Reader :=
  { nodes := s.nodes, nodesSnap := s.nodesSnap, ext := s.resolveExternal,
    labels := fun n => (s.nodeLabelNames n).map decodeTok,
    pmap := s.nodeProps, pkey := s.nodeProp,
    out := fun n t => match relId s t with
      | some rel => (s.neighbors n rel).map (·.map (edgeName s))
      | none => some [],
    inc := fun n t => match relId s t with
      | some rel => (s.incoming c n rel).map (·.map (edgeName s))
      | none => some [],
    relKnown := fun t => (s.interner.getId (encodeTok t)).isSome,
    emap := fun e => match edgeOfName s e with | some e => s.edgeProps e | none => [],
    ekey := fun e k => match edgeOfName s e with | some e => s.edgeProp e k | none => none }

def modelDetail (c : Cfg) (s : Engine) : Option String := do
  let recs ← (List.range s.idmap.i2e.length).mapM (fun n => do
    let o ← s.neighbors n none
    let i ← s.incoming c n none
    let raw := ((s.nodeLabels n).getD []).map (fun l => if l == labelMax then "M" else toString l)
    pure s!"{n}:t{if s.isTombstoned n then 1 else 0}:e{showOpt (s.resolveExternal n)}:L{".".intercalate raw}:pm{showMap (s.nodeProps n)}:o{bag (o.map (edgeName s))}:i{bag (i.map (edgeName s))}")
  pure (" ".intercalate recs)

def modelDump (c : Cfg) (s : Engine) : String × String :=
  match renderObs (modelReader c s), modelDetail c s with
  | some o, some d => (o, o ++ " | " ++ d)
  | _, _ => ("PANIC", "PANIC")

/-! ### spec side -/

def relName (e : Rel) : String := s!"{e.src}-{decodeTok e.typ}-{e.dst}"

def relOfName (name : String) : Option Rel :=
  match name.splitOn "-" with
  | [a, r, b] => do pure ⟨← a.toNat?, encodeTok r, ← b.toNat?⟩
  | _ => none

def specReader (g : Graph) : Reader :=
  { nodes := g.nodes, nodesSnap := g.nodes, ext := g.extOf,
    labels := fun n => (GraphSpec.dedup (g.labelsOf n)).map decodeTok,
    pmap := g.npropsOf, pkey := g.nprop,
    out := fun n t => some ((g.out n (t.map encodeTok)).map relName),
    inc := fun n t => some ((g.inc n (t.map encodeTok)).map relName),
    relKnown := fun _ => true,
    emap := fun e => match relOfName e with | some e => g.epropsOf e | none => [],
    ekey := fun e k => match relOfName e with | some e => g.eprop e k | none => none }

def specDump (g : Graph) : String := (renderObs (specReader g)).getD "-"

/-! ### stream state -/

inductive Mode | spec | reopen | compact | abort
deriving DecidableEq

structure St where
  mode : Mode
  cfg : Cfg := Cfg.current
  eng : Option Engine := none
  txn : Option Txn := none
  shadow : Option Engine := none         -- compact mode: same history without compactions
  shTxn : Option Txn := none
  hist : List Op := []                    -- finished steps, oldest first
  cur : List TxOp := []                   -- staged writes of the open transaction
  last : List (String × String) := []     -- relative modes: previous model obs per read line

def ok3 (st : St) (m : String) : St × String × String × String := (st, m, "-", "")

/-- apply one staged write to engine+txn (and to the shadow) -/
def stage (st : St) (op : TxOp) : St :=
  let st := match st.eng, st.txn with
    | some s, some t => let r := stepTx st.cfg (s, t) op; { st with eng := some r.1, txn := some r.2 }
    | _, _ => st
  let st := match st.shadow, st.shTxn with
    | some s, some t => let r := stepTx st.cfg (s, t) op; { st with shadow := some r.1, shTxn := some r.2 }
    | _, _ => st
  { st with cur := st.cur ++ [op] }

def specGraph (st : St) : Graph := GraphSpec.run st.hist

def c06Triggers (h : List Op) : String :=
  " ".intercalate (
    (if GraphSpec.trigRelPropsSurvive h then ["C06-rel-props-survive-delete"] else []) ++
    (if GraphSpec.trigLabelReAdd h then ["C06-label-remove-then-add-in-one-tx"] else []) ++
    (if GraphSpec.trigEdgeAndEndpointDelete h then ["C06-edge-and-endpoint-delete-in-one-tx"] else []) ++
    (if GraphSpec.trigExtZero h then ["C06-external-id-zero"] else []))

/-- spec-out and triggers of a read line whose model obs is `m` -/
def readLine (st : St) (key : String) (mObs mFull : String) (specOf : Graph → String)
    (extra : Graph → String) : St × String × String × String :=
  match st.mode with
  | .spec =>
    let h := st.hist
    if GraphSpec.wellFormed h && GraphSpec.txOnly h then
      let g := specGraph st
      (st, mFull, specOf g, (c06Triggers h ++ " " ++ extra g).trimAscii.toString)
    else (st, mFull, "-", "")
  | .compact =>
    match st.shadow with
    | some sh =>
      let sObs := match key with
        | "dump" => (modelDump st.cfg sh).1
        | _ => "-"
      (st, mFull, sObs, Nervus.StorageTriggers.c05Triggers st.cfg st.hist)
    | none => (st, mFull, "-", "")
  | .reopen =>
    let spec := (st.last.lookup key).getD "-"
    ({ st with last := (key, mObs) :: st.last.filter (·.1 != key) }, mFull, spec,
     Nervus.StorageTriggers.c04Triggers st.cfg st.hist)
  | .abort =>
    let spec := (st.last.lookup key).getD "-"
    ({ st with last := (key, mObs) :: st.last.filter (·.1 != key) }, mFull, spec,
     Nervus.StorageTriggers.c07Triggers st.cfg st.hist)

def parseNat (s : String) : Option Nat := s.toNat?

/-- value tokens the log refuses (harness: `S<n>` = string of n bytes, `D<n>` = n nested lists):
    a record larger than 1 MiB, a value nested deeper than 128 -/
def unloggableTok (v : Nat) : Bool :=
  let t := decodeTok v
  if t.startsWith "S" then (match (t.drop 1).toNat? with | some n => n > 1000000 | none => false)
  else if t.startsWith "D" then (match (t.drop 1).toNat? with | some n => n > 128 | none => false)
  else false

def unloggableRec : WalRec → Bool
  | .setNodeProperty _ _ v => unloggableTok v
  | .setEdgeProperty _ _ v => unloggableTok v
  | _ => false

/-- the records `commit` appends before the CommitTx -/
def commitRecs (c : Cfg) (t : Txn) : List WalRec :=
  WalRec.beginTx t.txid :: c.commitOrder.flatMap (t.recordsOf (t.mt.freeze t.txid))

/-- a commit that fails at its `j`-th log append: the engine keeps the log prefix, the history an abandoned transaction -/
def failCommit (st : St) (s : Engine) (t : Txn) (j : Nat) : St × String × String × String :=
  let st := match st.shadow, st.shTxn with
    | some sh, some _ => { st with shadow := some sh }
    | _, _ => st
  ok3 { st with eng := some (s.commitFail st.cfg t j), txn := none, shTxn := none,
                hist := st.hist ++ [.tx st.cur false], cur := [] } "err"

/-- a trailing `@tag` (history hash) is not part of the operation -/
def stripTag (ws : List String) : List String :=
  match ws.getLast? with
  | some w => if w.startsWith "@" then ws.dropLast else ws
  | none => ws

def step (st : St) (ws0 : List String) : St × String × String × String :=
  let ws := stripTag ws0
  let noTxn := ok3 st "notxn"
  match ws with
  | ["open"] =>
    ok3 { st with eng := some {}, txn := none, shadow := some {}, shTxn := none, hist := [], cur := [], last := [] } "ok"
  | ["begin"] =>
    match st.eng with
    | none => ok3 st "noengine"
    | some s =>
      let (s, t) := s.beginWrite
      let st := { st with eng := some s, txn := some t, cur := [] }
      let st := match st.shadow with
        | some sh => let (sh, t) := sh.beginWrite; { st with shadow := some sh, shTxn := some t }
        | none => st
      ok3 st "ok"
  | ["node", x, label] =>
    match parseNat x, st.eng, st.txn with
    | some x, some s, some t =>
      let lab := if label == "-" then none else some (encodeTok label)
      -- result of create_node as the harness prints it
      let (s1, lid) := match lab with | some l => s.getOrCreateLabel l | none => (s, labelMax)
      let res := match t.createNode s1 x lid with | some (_, iid) => s!"ok {iid}" | none => "err"
      ok3 (stage st (.node x lab)) res
    | none, _, _ => ok3 st "bad-op"
    | _, _, _ => noTxn
  | ["label+", n, l] =>
    match parseNat n, st.txn with
    | some n, some _ => ok3 (stage st (.labelAdd n (encodeTok l))) "ok"
    | _, _ => noTxn
  | ["label-", n, l] =>
    match parseNat n, st.txn with
    | some n, some _ => ok3 (stage st (.labelDel n (encodeTok l))) "ok"
    | _, _ => noTxn
  | ["edge", a, r, b] =>
    match parseNat a, parseNat b, st.txn with
    | some a, some b, some _ => ok3 (stage st (.edge a (encodeTok r) b)) "ok"
    | _, _, _ => noTxn
  | ["tomb_edge", a, r, b] =>
    match parseNat a, parseNat b, st.txn with
    | some a, some b, some _ => ok3 (stage st (.tombEdge a (encodeTok r) b)) "ok"
    | _, _, _ => noTxn
  | ["tomb_node", n] =>
    match parseNat n, st.txn with
    | some n, some _ => ok3 (stage st (.tombNode n)) "ok"
    | _, _ => noTxn
  | ["nprop", n, k, v] =>
    match parseNat n, st.txn with
    | some n, some _ => ok3 (stage st (.nprop n (encodeTok k) (encodeTok v))) "ok"
    | _, _ => noTxn
  | ["nprop-", n, k] =>
    match parseNat n, st.txn with
    | some n, some _ => ok3 (stage st (.npropDel n (encodeTok k))) "ok"
    | _, _ => noTxn
  | ["eprop", a, r, b, k, v] =>
    match parseNat a, parseNat b, st.txn with
    | some a, some b, some _ => ok3 (stage st (.eprop a (encodeTok r) b (encodeTok k) (encodeTok v))) "ok"
    | _, _, _ => noTxn
  | ["eprop-", a, r, b, k] =>
    match parseNat a, parseNat b, st.txn with
    | some a, some b, some _ => ok3 (stage st (.epropDel a (encodeTok r) b (encodeTok k))) "ok"
    | _, _, _ => noTxn
  | ["vec", n, v] =>
    match parseNat n, st.txn with
    | some n, some _ =>
      let vs := (v.splitOn ",").map encodeTok
      ok3 (stage st (.vec n vs)) "ok"
    | _, _ => noTxn
  | ["commit_fault", j] =>
    match parseNat j, st.eng, st.txn with
    | some j, some s, some t =>
      if j ≤ (commitRecs st.cfg t).length then failCommit st s t j
      else ok3 st "bad-op"     -- the generator keeps the fault inside the log appends
    | none, _, _ => ok3 st "bad-op"
    | _, _, _ => noTxn
  | ["commit"] =>
    match st.eng, st.txn with
    | some s, some t =>
      match (commitRecs st.cfg t).findIdx? unloggableRec with
      | some j => failCommit st s t j
      | none =>
      let (s, okc) := s.commit st.cfg t
      let st := match st.shadow, st.shTxn with
        | some sh, some t => { st with shadow := some (sh.commit st.cfg t).1 }
        | _, _ => st
      ok3 { st with eng := some s, txn := none, shTxn := none, hist := st.hist ++ [.tx st.cur true], cur := [], last := [] }
        (if okc then "ok" else "err")
    | _, _ => noTxn
  | ["abort"] =>
    let h := if st.txn.isSome then st.hist ++ [.tx st.cur false] else st.hist
    ok3 { st with txn := none, shTxn := none, hist := h, cur := [] } "ok"
  | ["compact"] =>
    match st.eng with
    | some s =>
      let h := if st.txn.isSome then st.hist ++ [.tx st.cur false] else st.hist
      ok3 { st with eng := some (s.compact st.cfg), txn := none, shTxn := none, hist := h ++ [.compact], cur := [],
                    last := [] } "ok"
    | none => ok3 st "noengine"
  | [w] =>
    if w == "close" || w == "reopen" then
      match st.eng with
      | some s =>
        let h := if st.txn.isSome then st.hist ++ [.tx st.cur false] else st.hist
        let s0 := if w == "close" then s.checkpointOnClose else s
        let sh := st.shadow.bind (fun sh => ((if w == "close" then sh.checkpointOnClose else sh).reopen).toOption)
        let st := { st with txn := none, shTxn := none, cur := [], shadow := sh,
                            hist := h ++ [if w == "close" then Op.close else Op.reopen],
                            last := st.last }
        match s0.reopen with
        | .ok s' => ok3 { st with eng := some s' } "ok"
        | .error e =>
          let cls := match e with | .walProtocol => "walproto" | .idmap _ => "walproto" | .segment => "walproto"
          ok3 { st with eng := none } s!"err {cls}"
      | none => ok3 st "noengine"
    else if w == "dump" then
      match st.eng with
      | some s =>
        let (o, full) := modelDump st.cfg s
        readLine st "dump" o full specDump (fun _ => "")
      | none => ok3 st "noengine"
    else if w == "vsearch" then
      match st.eng with
      | some s =>
        let ids := Storage.isort (· ≤ ·) (GraphSpec.dedup s.vecNodes)
        let m := s!"v={joinOr (ids.map toString)}"
        match st.mode with
        | .abort => readLine st "vsearch" m m (fun _ => "-") (fun _ => "")
        | _ => ok3 st m
      | none => ok3 st "noengine"
    else ok3 st "bad-op"
  | ["extq", x] =>
    match parseNat x, st.eng with
    | some x, some s =>
      let m := match s.lookupInternal x with | some i => s!"some{i}" | none => "none"
      readLine st s!"extq {x}" m m
        (fun g => match g.extLookup x with | some i => s!"some{i}" | none => "none")
        (fun g => if GraphSpec.extOfDeleted g x then "C06-extid-lookup-answers-for-deleted-node" else "")
    | _, _ => ok3 st "noengine"
  | _ => ok3 st "bad-op"

def mk (m : Mode) : Stream := { σ := St, init := { mode := m }, step := step }

def stream : Stream := mk .spec
def streamReopen : Stream := mk .reopen
def streamCompact : Stream := mk .compact
def streamAbort : Stream := mk .abort

end Nervus.Driver.EngineStream
