import Nervus.Driver.Util
import Nervus.Model.Txn
/-! capi / capiryw streams (C13, C24): the Lean side of harness/src/streams/capi.rs -/
namespace Nervus.Driver.CapiStream
open Nervus Nervus.Txn Nervus.Driver

structure St where
  code : State            -- the code's semantics
  spec : State            -- the semantics the property demands
  trig : Bool             -- the known-finding trigger has fired in this case
  wrote : List Nat        -- labels written so far in the open transaction (C24 trigger)

def parseQ : String → Option Q
  | "t" => some .t | "f" => some .f | "x" => some .x | "1" => some .one | _ => none

def parseRows (tok : String) : Option (List (Nat × Q)) :=
  if tok == "-" then some [] else
  (tok.splitOn ",").mapM (fun r => match r.splitOn ":" with
    | [k, q] => match k.toNat?, parseQ q with
      | some k, some q => some (k, q)
      | _, _ => none
    | _ => none)

def parseLbl : String → Option Nat
  | "0" => some 0 | "1" => some 1 | _ => none

def parseStmt : List String → Option Stmt
  | ["cr", l, w, rows] => do
    let l ← parseLbl l; let rows ← parseRows rows
    pure (.create l rows (w == "1"))
  | ["setp", l] => (parseLbl l).map .setp
  | ["setw", l, v, w] => do pure (.setw (← parseLbl l) (← parseQ v) (← parseQ w))
  | ["del", l] => (parseLbl l).map .del
  | ["merge", l, k] => do pure (.merge (← parseLbl l) (← k.toNat?))
  | ["setrep", l, ds] => do
    let l ← parseLbl l
    let ds ← (ds.splitOn ",").mapM parseQ
    pure (.setrep l ds)
  | ["mergeset", l, k, w] => do pure (.mergeset (← parseLbl l) (← k.toNat?) (← parseQ w))
  | ["refused", "0"] => some .refused
  | ["refused", "1"] => some .refused
  | _ => none

def showQ : Option Q → String
  | some .t => "t" | some .f => "f" | some .x => "x" | some .one => "1" | none => "-"

def showP : Option Bool → String
  | some true => "T" | some false => "F" | none => "-"

def dumpTok (g : Graph) : String :=
  let toks := g.map (fun n => (if n.lbl == 0 then "A" else "B") ++ "." ++ toString n.k ++ "." ++ showQ n.q ++ "." ++ showP n.p)
  let sorted := toks.mergeSort (fun a b => decide (a ≤ b))
  if sorted.isEmpty then "empty" else ",".intercalate sorted

def showOut : Out → String
  | .ok => "ok" | .err => "err" | .bad => "bad-op"

/-- `specMode`: (atomic, ryw) of the property's semantics; `tid`: the known-finding id -/
def step (specMode : Bool × Bool) (tid : String) (st : St) (ws : List String) : St × String × String × String :=
  let trigs (b : Bool) : String := if b then tid else ""
  let opOf : Option Op := match ws with
    | "auto" :: rest => (parseStmt rest).map .auto
    | "tq" :: rest => (parseStmt rest).map .tq
    | ["begin"] => some .begin
    | ["commit"] => some .commit
    | ["rollback"] => some .rollback
    | _ => none
  match ws with
  | ["dump"] => (st, dumpTok st.code.committed, dumpTok st.spec.committed, trigs st.trig)
  | _ =>
    match opOf with
    | none => (st, "bad-op", "-", "")
    | some op =>
      -- trigger bookkeeping (on the code's state, before the step)
      let fired := match op with
        | .tq s =>
          if specMode.2 then (match s.reads with | some l => st.wrote.contains l | none => false)
          else (!Generated.capiTxnStmtAtomic && partialEffect st.code s)
        | _ => false
      let wrote' := match op with
        | .tq s => (match s.writes with | some l => l :: st.wrote | none => st.wrote)
        | .auto _ => st.wrote
        | _ => []
      let (c', oc) := codeStep st.code op
      let (s', os) := Txn.step specMode.1 specMode.2 st.spec op
      let trig' := st.trig || fired
      let st' : St := { code := c', spec := s', trig := trig', wrote := wrote' }
      let specOut := if oc == .bad then "-" else showOut os
      -- error category as the C API reports it (detail): the malformed statement is a syntax error, every other failure an execution error
      let cat := match ws with
        | [_, "refused", "0"] => "syntax"
        | _ => "execution"
      let mOut := if oc == .err then "err | " ++ cat else showOut oc
      (st', mOut, specOut, trigs trig')

def init : St := ⟨State.init, State.init, false, []⟩

/-- C13: the property's semantics = the code's reads, atomic statements -/
def stream : Stream := { σ := St, init := init, step := step (true, false) "C13-explicit-txn-partial-effects" }
/-- C24: the property's semantics = read-your-writes (failed statements have no effect) -/
def streamRyw : Stream := { σ := St, init := init, step := step (true, true) "C24-txn-reads-committed-snapshot" }

end Nervus.Driver.CapiStream
