/-
  Driver for the `sort` stream (C20): `Nervus.Model.Order` on `sort` lines, `orderCompare` on `ocmp`
  lines (see harness/src/streams/sort.rs).
-/
import Nervus.Driver.VTok
import Nervus.Model.Order
import Nervus.Spec.CypherValue
import Nervus.Spec.Findings
namespace Nervus.Driver.SortStream
open Nervus Nervus.Eval Nervus.Order Nervus.Driver Nervus.Driver.VTok

def ordStr : Ordering → String
  | .lt => "lt" | .eq => "eq" | .gt => "gt"

def idsStr (v : List Nat) : String :=
  if v.isEmpty then "-" else ".".intercalate (v.map toString)

def b01 (b : Bool) : String := if b then "1" else "0"

/-- known-finding triggers of C20 on a set of sort-key values -/
def triggers (E : Env) (vs : List Value) : String :=
  " ".intercalate (
    (if !Spec.strTransOn E (vs.flatMap Spec.stringsOf) then ["C20-temporal-string-order"] else []) ++
    (if !vs.all Spec.mapsNaNFree then ["C20-nan-in-map"] else []))

/-- the Spec's opinion on `order_compare a b` (`Spec.orderOpinion`) as an observation -/
def specOcmp (E : Env) (a b : Value) : String :=
  match Spec.orderOpinion E a b with
  | some o => ordStr o
  | none => "-"

def parseOpt (s : String) : Option (Option Nat) :=
  if s == "-" then some none else s.toNat?.map some

/-- the Spec's composed comparison over the ORDER BY items (ASC/DESC), `none` if some needed pair is unordered -/
def specKeyCmp (E : Env) : List (Value × Dir) → List (Value × Dir) → Option Ordering
  | (va, da) :: as, (vb, _) :: bs =>
    match Spec.orderOpinion E va vb with
    | none => none
    | some .eq => specKeyCmp E as bs
    | some o => some (if da == .asc then o else o.swap)
  | _, _ => some .eq

def sortLine (E : Env) (dirs sk lm : String) (rowToks : List String) : String × String × String :=
  let dl : List Dir := dirs.toList.map fun c => if c == 'a' then .asc else .desc
  let rows? : Option (List (List Value)) := rowToks.mapM fun t => match parseValue t with
    | some (.list ks) => if ks.length == dl.length then some ks else none
    | _ => none
  match parseOpt sk, parseOpt lm, rows? with
  | some sk, some lm, some rows =>
    let keyed : List (Keyed Nat) := (rows.zip (List.range rows.length)).map fun (ks, i) => (ks.zip dl, i)
    let keyArr : Array (List (Value × Dir)) := (rows.map (·.zip dl)).toArray
    let keyOf (i : Nat) : List (Value × Dir) := keyArr.getD i []
    -- the comparator must be a total preorder on the (distinct) key vectors, else `sort_by` promises nothing
    -- (comparisons are tabulated once per pair of distinct key vectors)
    let classes : List (List Value × Nat) := ((rows.zip (List.range rows.length)).foldl
      (fun (acc : List (List Value × Nat)) (r : List Value × Nat) =>
        if acc.any (fun u => Value.sameList u.1 r.1) then acc else acc ++ [r]) [])
    let uniq : Array Nat := (classes.map (·.2)).toArray
    let u := uniq.size
    let classOf : Array Nat := (rows.map fun r => (classes.findIdx? (fun cl => Value.sameList cl.1 r)).getD 0).toArray
    let tab : Array Ordering := Array.ofFn (n := u * u) fun ij =>
      keyCompare E (keyOf (uniq.getD (ij.val / u) 0)) (keyOf (uniq.getD (ij.val % u) 0))
    let stab : Array (Option Ordering) := Array.ofFn (n := u * u) fun ij =>
      specKeyCmp E (keyOf (uniq.getD (ij.val / u) 0)) (keyOf (uniq.getD (ij.val % u) 0))
    let c (i j : Nat) : Ordering := tab.getD (classOf.getD i 0 * u + classOf.getD j 0) .eq
    let cu (i j : Nat) : Ordering := tab.getD (i * u + j) .eq
    let ui := List.range u
    let pre := ui.all fun i => ui.all fun j =>
      cu i j == (cu j i).swap && ui.all fun k => !(cu i j != .gt && cu j k != .gt && cu i k == .gt)
    let trig := triggers E (classes.map (·.1)).flatten
    if !pre then ("nonpreorder", "1 1 1 * *", trig) else
    let full := (orderBy E keyed).map (·.2)
    let slice := (orderBySkipLimit E sk lm keyed).map (·.2)
    let fa := full.toArray
    let n := fa.size
    let idx := List.range n
    let sorted := idx.all fun p => idx.all fun q => !(p < q && c (fa.getD p 0) (fa.getD q 0) == .gt)
    let stable := idx.all fun p => idx.all fun q =>
      !(p < q && fa.getD p 0 > fa.getD q 0 && c (fa.getD p 0) (fa.getD q 0) == .eq)
    let cut (l : List Nat) : List Nat := match lm with
      | some k => (l.drop (sk.getD 0)).take k
      | none => l.drop (sk.getD 0)
    let m := s!"{b01 sorted} {b01 stable} {b01 (cut full == slice)} {idsStr full} {idsStr slice}"
    -- the Spec: slice of THE stable sort of the full input, when the Spec orders every pair of keys
    let sg (i j : Nat) : Ordering := (stab.getD (i * u + j) none).getD .eq
    let specTotal := stab.all (·.isSome) && ui.all fun i => ui.all fun j =>
      sg i j == (sg j i).swap && ui.all fun k => !(sg i j != .gt && sg j k != .gt && sg i k == .gt)
    let spec := if specTotal then
        let sc (i j : Nat) : Ordering := (stab.getD (classOf.getD i 0 * u + classOf.getD j 0) none).getD .eq
        let sfull := isort sc (List.range rows.length)
        s!"1 1 1 {idsStr sfull} {idsStr (cut sfull)}"
      else "1 1 1 * *"
    (m, spec, trig)
  | _, _, _ => ("bad-op", "-", "")

def step (_ : Unit) (ws : List String) : Unit × String × String × String :=
  match ws with
  | head :: rest =>
    let (toks, oracle) := splitOracle rest
    let E := mkEnv oracle
    match head, toks with
    | "ocmp", [a, b] =>
      match parseValue a, parseValue b with
      | some a, some b => ((), ordStr (orderCompare E a b), specOcmp E a b, triggers E [a, b])
      | _, _ => ((), "bad-op", "-", "")
    | "sort", dirs :: sk :: lm :: rowToks =>
      let (m, s, t) := sortLine E dirs sk lm rowToks
      ((), m, s, t)
    | _, _ => ((), "bad-op", "-", "")
  | [] => ((), "bad-op", "-", "")

def stream : Stream := { σ := Unit, init := (), step := step }

end Nervus.Driver.SortStream
