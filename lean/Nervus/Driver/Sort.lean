/-
  Driver for the `sort` stream (C20): `Nervus.Model.Order` on `sort` lines, `orderCompare` on `ocmp`
  lines (see harness/src/streams/sort.rs).
-/
import Nervus.Driver.VTok
import Nervus.Model.Order
import Nervus.Spec.CypherValue
import Nervus.Spec.Findings
namespace Nervus.Driver.SortStream
open Nervus Nervus.Eval Nervus.Order Nervus.Driver Nervus.Driver.VTok

def ordStr : Ordering → String
  | .lt => "lt" | .eq => "eq" | .gt => "gt"

def idsStr (v : List Nat) : String :=
  if v.isEmpty then "-" else ".".intercalate (v.map toString)

def b01 (b : Bool) : String := if b then "1" else "0"

/-- known-finding triggers of C20 on a set of sort-key values -/
def triggers (E : Env) (vs : List Value) : String :=
  " ".intercalate (
    (if !Spec.strTransOn E (vs.flatMap Spec.stringsOf) then ["C20-temporal-string-order"] else []) ++
    (if !vs.all Spec.mapsNaNFree then ["C20-nan-in-map"] else []))

/-- what the Spec says about `order_compare a b` without looking at the code: numbers as the rationals they
    denote (NaN last), null after everything -/
def specOcmp (a b : Value) : String :=
  match a, b with
  | .null, .null => "eq"
  | .null, _ => "gt"
  | _, .null => "lt"
  | a, b =>
    -- values of different kinds: the openCypher orderability of kinds decides
    if Spec.typeRank a < Spec.typeRank b then "lt" else if Spec.typeRank b < Spec.typeRank a then "gt" else
    match Spec.numOrder a b with
    | some o => ordStr o
    | none => match a, b with
      | .bool x, .bool y => ordStr (Value.cmpBool x y)
      | _, _ => "-"

def parseOpt (s : String) : Option (Option Nat) :=
  if s == "-" then some none else s.toNat?.map some

def allPairs (l : List Nat) : List (Nat × Nat) :=
  match l with
  | [] => []
  | x :: xs => xs.map (x, ·) ++ allPairs xs

def step (_ : Unit) (ws : List String) : Unit × String × String × String :=
  match ws with
  | head :: rest =>
    let (toks, oracle) := splitOracle rest
    let E := mkEnv oracle
    match head, toks with
    | "ocmp", [a, b] =>
      match parseValue a, parseValue b with
      | some a, some b => ((), ordStr (orderCompare E a b), specOcmp a b, triggers E [a, b])
      | _, _ => ((), "bad-op", "-", "")
    | "sort", dirs :: sk :: lm :: rowToks =>
      let dl : List Dir := dirs.toList.map fun c => if c == 'a' then .asc else .desc
      let rows? : Option (List (List Value)) := rowToks.mapM fun t => match parseValue t with
        | some (.list ks) => if ks.length == dl.length then some ks else none
        | _ => none
      match parseOpt sk, parseOpt lm, rows? with
      | some sk, some lm, some rows =>
        let keyed : List (Keyed Nat) := (rows.zip (List.range rows.length)).map fun (ks, i) => (ks.zip dl, i)
        let full := (orderBy E keyed).map (·.2)
        let slice := (orderBySkipLimit E sk lm keyed).map (·.2)
        let keyOf (i : Nat) : List (Value × Dir) := ((rows.getD i []).zip dl)
        let ix := List.range rows.length
        let c (i j : Nat) : Ordering := keyCompare E (keyOf i) (keyOf j)
        let pre := ix.all fun i => ix.all fun j =>
          c i j == (c j i).swap && ix.all fun k => !(c i j != .gt && c j k != .gt && c i k == .gt)
        if !pre then ((), "nonpreorder", "1 1 1", triggers E rows.flatten) else
        let prs := allPairs full
        let sorted := prs.all fun (i, j) => keyCompare E (keyOf i) (keyOf j) != .gt
        let stable := prs.all fun (i, j) => !(keyCompare E (keyOf i) (keyOf j) == .eq && i > j)
        let want := match lm with
          | some l => (full.drop (sk.getD 0)).take l
          | none => full.drop (sk.getD 0)
        let m := s!"{b01 sorted} {b01 stable} {b01 (want == slice)} | {idsStr full} {idsStr slice}"
        ((), m, "1 1 1", triggers E rows.flatten)
      | _, _, _ => ((), "bad-op", "-", "")
    | _, _ => ((), "bad-op", "-", "")
  | [] => ((), "bad-op", "-", "")

def stream : Stream := { σ := Unit, init := (), step := step }

end Nervus.Driver.SortStream
