/-
  `codec` stream (C25): PropertyValue::{encode,decode} and WalRecord::{encode_body,decode_body}.
    rt <value>          encode then decode a value                 obs ok | err <kind>       detail: bytes
    dec <hex>           decode hostile bytes (impl: child process)  obs ok <value> | err <kind> | ALLOC | DEEP
    nest <n> <hex>      the same on  (07 01 00 00 00)^n ++ hex
    wrt <record>        encode_body then decode_body                obs ok | refused | lost | mismatch
    depth <value>       PropertyValue::nesting_depth                obs ok <n>
    wdec <hex>          decode_body on hostile bytes                obs ok <record> | err <msg> | PANIC | ALLOC | DEEP
    crc <hex>, utf8 <hex>   checksum / UTF-8 validity (trusted links, validated here)
-/
import Nervus.Driver.CodecTok
import Nervus.Model.Crc32
namespace Nervus.Driver.CodecStream
open Nervus Nervus.PropVal Nervus.WalRec Nervus.Driver Nervus.Driver.Tok

/-- harness convention: the child's allocator flags a single request above `32·|input| + 4096` bytes
    (`size_of::<PropertyValue>() = 32`), i.e. more than `|input| + 128` elements -/
def allocFlag (len : Nat) (allocs : List (Nat × Nat)) : Bool := allocs.any fun p => p.1 > len + 128
/-- harness convention: the child decodes on a 256 KiB stack; the generator only uses nesting ≤ 200 or ≥ 4000 -/
def deepFlag (depth : Nat) : Bool := depth ≥ 2000

def digest (b : Bytes) : String :=
  if b.length ≤ 96 then hexOrDash b else toString b.length ++ ":" ++ hexOfBytes (beBytes 4 (crc32 b))

def fits (cfg : PropVal.Cfg) (n : Nat) : Bool :=
  match cfg.maxDepth with
  | some m => n ≤ m
  | none => true

def decLine (bs : Bytes) : String × String :=
  let r := decodeRes PropVal.Cfg.current bs
  let m :=
    if allocFlag bs.length r.allocs then "ALLOC"
    else if deepFlag r.depth then "DEEP"
    else match r.val with
      | .ok (v, _) => "ok " ++ showV v
      | .error e => match e with
        | .panic => "PANIC"
        | .fuel => "FUEL"
        | e => "err " ++ showDErr e
  (m, "ok/err *")

def step (_ : Unit) (ws : List String) : Unit × String × String × String :=
  match ws with
  | ["rt", tok] =>
    match parseVal tok with
    | some v =>
      if !v.wf then ((), "bad-op", "-", "") else
      let bs := encode v
      let spec := if fits PropVal.Cfg.current v.nesting then "ok" else "-"
      match decode PropVal.Cfg.current bs with
      | .ok v' => ((), (if v' = v then "ok" else "mismatch") ++ " | " ++ digest bs, spec, "")
      | .error e => ((), "err " ++ showDErr e ++ " | " ++ digest bs, spec, "")
    | none => ((), "bad-op", "-", "")
  | ["dec", h] =>
    match bytesOfHex h with
    | some bs => let (m, s) := decLine bs; ((), m, s, "")
    | none => ((), "bad-op", "-", "")
  | ["nest", n, h] =>
    match n.toNat?, bytesOfHex h with
    | some n, some leaf =>
      let bs := (List.replicate n [Generated.pvTagList, 1, 0, 0, 0]).flatten ++ leaf
      let (m, s) := decLine bs; ((), m, s, "")
    | _, _ => ((), "bad-op", "-", "")
  | ["wrt", tok] =>
    -- obs: ok (read back exactly) | refused (encode_body returned Err: nothing is logged) |
    --      lost (encode_body accepted it, decode_body does not read it back) | mismatch
    match parseRec tok with
    | some r =>
      if !r.wf then ((), "bad-op", "-", "") else
      let cfg := WalRec.Cfg.current
      let okv := match r with
        | .setNodeProperty _ _ v => fits cfg.pv v.nesting
        | .setEdgeProperty _ _ _ _ v => fits cfg.pv v.nesting
        | _ => true
      -- whatever encode_body accepts must decode back; what the decoder could not read must be refused
      let spec := if okv && r.fitsWire cfg then "ok" else "ok/refused"
      match encodeBody cfg r with
      | .error .panic => ((), "PANIC", spec, "")
      | .error e => ((), "refused | " ++ showWErr e, spec, "")
      | .ok body =>
        match decodeBody cfg body with
        | .ok r' => ((), (if r' = r then "ok" else "mismatch") ++ " | " ++ digest body, spec, "")
        | .error e => ((), "lost | " ++ showWErr e ++ " " ++ digest body, spec, "")
    | none => ((), "bad-op", "-", "")
  | ["depth", tok] =>
    -- PropertyValue::nesting_depth, the measure of encode_body's guard: containers nested inside each other,
    -- an EMPTY container counts (`[]` is 1)
    match parseVal tok with
    | some v => ((), s!"ok {v.nesting}", s!"ok {v.nesting}", "")
    | none => ((), "bad-op", "-", "")
  | ["wdec", h] =>
    match bytesOfHex h with
    | some body =>
      let cfg := WalRec.Cfg.current
      -- the value decoder's allocation / depth behaviour shows through decode_body
      let flags : Option String :=
        match body with
        | [] => none
        | ty :: p =>
          let vb : Option Bytes :=
            if ty = Generated.walTagSetNodeProperty then
              (readU32 p 4).bind fun kl => if p.length < 8 + kl then none else
                (slice p 8 (8 + kl)).bind fun k => if validUtf8 k then some (p.drop (8 + kl)) else none
            else if ty = Generated.walTagSetEdgeProperty then
              (readU32 p 12).bind fun kl => if p.length < 16 + kl then none else
                (slice p 16 (16 + kl)).bind fun k => if validUtf8 k then some (p.drop (16 + kl)) else none
            else none
          vb.bind fun vb =>
            let r := decodeRes cfg.pv vb
            if allocFlag body.length r.allocs then some "ALLOC" else if deepFlag r.depth then some "DEEP" else none
      let m := match flags with
        | some f => f
        | none => match decodeBody cfg body with
          | .ok r => "ok " ++ showRec r
          | .error e => showWErr e
      ((), m, "ok/err *", "")
    | none => ((), "bad-op", "-", "")
  | ["crc", h] =>
    match bytesOfHex h with
    | some bs => ((), "ok | " ++ hexOfBytes (beBytes 4 (crc32 bs)), "-", "")
    | none => ((), "bad-op", "-", "")
  | ["utf8", h] =>
    match bytesOfHex h with
    | some bs => ((), "ok | " ++ (if validUtf8 bs then "1" else "0"), "-", "")
    | none => ((), "bad-op", "-", "")
  | _ => ((), "bad-op", "-", "")

def stream : Stream := { σ := Unit, init := (), step := step }

end Nervus.Driver.CodecStream
