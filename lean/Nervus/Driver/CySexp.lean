/-
  S-expression reader for the Cypher AST sent by the harness (trusted base: driver parser), the concrete
  value algebra used by the executable driver, and the canonical printing shared with harness/src/streams/query.rs.
-/
import Nervus.Spec.CyAst
import Nervus.Model.QAlgebra
namespace Nervus.Cy.Sexp
open Nervus.Cy

inductive SExp
  | atom (s : String)
  | list (xs : List SExp)
deriving Repr, Inhabited

def tokenize (s : String) : List String :=
  let flush (cur : List Char) (acc : List String) := if cur.isEmpty then acc else String.ofList cur.reverse :: acc
  let (cur, acc) := s.toList.foldl (fun (st : List Char × List String) c =>
    let (cur, acc) := st
    if c == '(' || c == ')' then ([], String.singleton c :: flush cur acc)
    else if c == ' ' then ([], flush cur acc)
    else (c :: cur, acc)) ([], [])
  (flush cur acc).reverse

partial def parseList : List String → Option (List SExp × List String)
  | [] => none
  | ")" :: rest => some ([], rest)
  | "(" :: rest => do
    let (xs, rest) ← parseList rest
    let (ys, rest) ← parseList rest
    return (SExp.list xs :: ys, rest)
  | t :: rest => do
    let (ys, rest) ← parseList rest
    return (SExp.atom t :: ys, rest)

def parse (s : String) : Option SExp :=
  match tokenize s with
  | "(" :: rest => match parseList rest with
    | some (xs, []) => some (.list xs)
    | _ => none
  | _ => none

def parseIntTok (s : String) : Option Int :=
  if s.startsWith "-" then (s.drop 1).toString.toNat?.map (fun n => -(n : Int))
  else s.toNat?.map (fun n => (n : Int))

def litOf (t : String) : Option Lit :=
  if t == "null" then some .null
  else if t == "true" then some (.bool true)
  else if t == "false" then some (.bool false)
  else if t.startsWith "s:" then some (.str (t.drop 2).toString)
  else if t.startsWith "i" then (parseIntTok (t.drop 1).toString).map .int
  else none

def cmpOf : String → Option CmpOp
  | "eq" => some .eq | "ne" => some .ne | "lt" => some .lt | "le" => some .le
  | "gt" => some .gt | "ge" => some .ge | _ => none

partial def exprOf : SExp → Option Expr
  | .list [.atom "lit", .atom l] => (litOf l).map .lit
  | .list [.atom "var", .atom x] => some (.var x)
  | .list [.atom "prop", .atom x, .atom k] => some (.prop x k)
  | .list [.atom "param", .atom p] => some (.param p)
  | .list [.atom "cmp", .atom op, a, b] => do return .cmp (← cmpOf op) (← exprOf a) (← exprOf b)
  | .list [.atom "and", a, b] => do return .bool .and (← exprOf a) (← exprOf b)
  | .list [.atom "or", a, b] => do return .bool .or (← exprOf a) (← exprOf b)
  | .list [.atom "xor", a, b] => do return .bool .xor (← exprOf a) (← exprOf b)
  | .list [.atom "not", a] => do return .not (← exprOf a)
  | .list [.atom "isnull", a] => do return .isNull (← exprOf a)
  | .list [.atom "notnull", a] => do return .isNotNull (← exprOf a)
  | .list (.atom "list" :: xs) => do
    let ls ← xs.mapM fun | .atom l => litOf l | _ => none
    return .listLit ls
  | _ => none

def optName : SExp → Option (Option String)
  | .atom "-" => some none
  | .atom x => some (some x)
  | _ => none

def namesOf (tag : String) : SExp → Option (List String)
  | .list (.atom t :: xs) => if t == tag then xs.mapM fun | .atom a => some a | _ => none else none
  | _ => none

def propsOf : SExp → Option (List (String × Expr))
  | .list (.atom "p" :: xs) => xs.mapM fun
    | .list [.atom k, e] => do return (k, ← exprOf e)
    | _ => none
  | _ => none

def nodeOf : SExp → Option NodePat
  | .list [.atom "n", v, ls, ps] => do return ⟨← optName v, ← namesOf "l" ls, ← propsOf ps⟩
  | _ => none

def dirOf : String → Option Dir
  | "out" => some .out | "in" => some .inn | "both" => some .both | _ => none

def relOf : SExp → Option RelPat
  | .list [.atom "r", v, .atom d, ts, ps] => do return ⟨← optName v, ← namesOf "t" ts, ← dirOf d, ← propsOf ps⟩
  | _ => none

def stepsOf : List SExp → Option (List (RelPat × NodePat))
  | [] => some []
  | r :: n :: rest => do return (← relOf r, ← nodeOf n) :: (← stepsOf rest)
  | _ => none

def pathOf : SExp → Option PathPat
  | .list (.atom "path" :: n :: rest) => do return ⟨← nodeOf n, ← stepsOf rest⟩
  | _ => none

def aggOf : String → Option AggKind
  | "countstar" => some .countStar | "count" => some .count | "countd" => some .countDistinct
  | "sum" => some .sum | "min" => some .min | "max" => some .max | "collect" => some .collect | _ => none

def itemOf : SExp → Option Item
  | .list [.atom "item", .atom a, .list [.atom "plain", e]] => do return ⟨.plain (← exprOf e), a⟩
  | .list [.atom "item", .atom a, .list [.atom "agg", .atom k, e]] => do return ⟨.agg (← aggOf k) (← exprOf e), a⟩
  | _ => none

def optLit : SExp → Option (Option Lit)
  | .atom "-" => some none
  | .atom l => (litOf l).map some
  | _ => none

def projOf : SExp → Option Proj
  | .list [.atom "proj", .atom d, .list (.atom "items" :: its), .list (.atom "order" :: os), sk, lm] => do
    let items ← its.mapM itemOf
    let order ← os.mapM fun
      | .list [e, .atom asc] => do return (← exprOf e, asc == "1")
      | _ => none
    return ⟨d == "1", items, order, ← optLit sk, ← optLit lm⟩
  | _ => none

def clauseOf : SExp → Option Clause
  | .list (.atom "match" :: .atom o :: ps) => do return .match_ (o == "1") (← ps.mapM pathOf)
  | .list [.atom "where", e] => do return .where_ (← exprOf e)
  | .list [.atom "with", p] => do return .with_ (← projOf p) none
  | .list [.atom "with", p, .list [.atom "wher", e]] => do return .with_ (← projOf p) (some (← exprOf e))
  | .list [.atom "unwind", e, .atom a] => do return .unwind (← exprOf e) a
  | .list [.atom "return", p] => do return .return_ (← projOf p)
  | _ => none

def queryOf : SExp → Option Query
  | .list (.atom "q" :: cs) => cs.mapM clauseOf
  | _ => none

/-! ### canonical printing (must agree with harness/src/streams/query.rs) -/

def fmtRel (r : RelId) : String := "R" ++ toString r.src ++ ":" ++ r.typ ++ ":" ++ toString r.dst

def fmtScalar : Scalar → String
  | .null => "null" | .bool b => if b then "true" else "false" | .int i => toString i
  | .str s => "'" ++ s ++ "'" | .node n => "N" ++ toString n | .rel r => fmtRel r

def fmtVal : Val → String
  | .list xs => "[" ++ "&".intercalate ((xs.map fmtScalar).mergeSort fun a b => !(b < a)) ++ "]"
  | .path ns _ => "P" ++ ">".intercalate (ns.map toString)
  | v => match v.toScalar? with | some s => fmtScalar s | none => "?"

def strListLt : List String → List String → Bool
  | [], [] => false
  | [], _ => true
  | _, [] => false
  | a :: as, b :: bs => if a < b then true else if b < a then false else strListLt as bs

def sortRows (rows : List (List String)) : List (List String) :=
  rows.mergeSort fun a b => !strListLt b a

def keyOf (idx : List Nat) (r : List String) : List String := idx.map fun i => r.getD i ""

def groupSort (idx : List Nat) : List (List String) → List (List String)
  | [] => []
  | r :: rest =>
    let same := rest.takeWhile fun x => keyOf idx x == keyOf idx r
    sortRows (r :: same) ++ groupSort idx (rest.drop same.length)
termination_by l => l.length
decreasing_by simp [List.length_drop]; omega

def canonRows (mode : String) (rows : Table) : String :=
  if mode == "count" then "ok " ++ toString rows.length ++ " -" else
  let cols := match rows with | r :: _ => r.cols | [] => []
  let enc := rows.map fun r => r.vals.map fmtVal
  let enc := if mode == "bag" then sortRows enc
    else if mode.startsWith "list:" then
      groupSort (((mode.drop 5).toString.splitOn ",").filterMap String.toNat?) enc else enc
  let body := if enc.isEmpty then "-" else ";".intercalate (enc.map (",".intercalate ·))
  "ok " ++ (if cols.isEmpty then "-" else ",".intercalate cols) ++ " " ++ toString rows.length ++ " " ++ body

def valOfTok (t : String) : Option Scalar :=
  if t == "bt" then some (.bool true) else if t == "bf" then some (.bool false)
  else if t == "z" then some .null
  else if t.startsWith "s:" then some (.str (t.drop 2).toString)
  else if t.startsWith "i" then (parseIntTok (t.drop 1).toString).map .int
  else none

def propsOfTok (t : String) : Option Props :=
  if t == "-" then some [] else
  (t.splitOn ",").mapM fun kv => match kv.splitOn "=" with
    | [k, v] => (valOfTok v).map (k, ·)
    | _ => none

def labelsOfTok (t : String) : List String := if t == "-" then [] else t.splitOn ","

end Nervus.Cy.Sexp
