import Nervus.Driver.Util
import Nervus.Model.Handles
/-!
  `handles` stream (C10): handles `A B C` of this process (proc 0) and `xopen` from another process
  (proc 1) on one path (path 0).  Model-out runs `Nervus.Handles.step` with the regenerated guard flag
  and the intended OS (`osFlock`); spec-out: a second open while a handle is open must be `busy`.
-/
namespace Nervus.Driver.HandlesStream
open Nervus Nervus.Handles Nervus.Driver

structure St where
  m : Handles.State
  names : List (String × Nat)     -- handle name ↦ model handle id
  nodes : Nat                      -- committed nodes (the generator keeps to one writer at a time)

def guard : Bool := Generated.openTakesLock

def outcome : Outcome → String
  | .ok _ => "ok"
  | .busy => "busy"
  | .noop => "ok"

def specOpen (st : St) : String := if st.m.handles.isEmpty then "ok" else "busy"

def step (st : St) (ws : List String) : St × String × String × String :=
  match ws with
  | ["open", h] =>
    if (st.names.lookup h).isSome then (st, "bad-op", "-", "") else
    let (m', o) := Handles.step guard osFlock st.m (.open 0 0)
    let names := match o with
      | .ok id => (h, id) :: st.names
      | _ => st.names
    ({ st with m := m', names := names }, outcome o, specOpen st, "")
  | ["xopen"] =>
    let (m', o) := Handles.step guard osFlock st.m (.open 1 0)
    -- the other process closes its handle at once (it exits)
    let m'' := match o with
      | .ok id => (Handles.step guard osFlock m' (.close id)).1
      | _ => m'
    ({ st with m := m'' }, outcome o, specOpen st, "")
  | ["close", h] | ["drop", h] =>
    match st.names.lookup h with
    | some id =>
      let (m', _) := Handles.step guard osFlock st.m (.close id)
      ({ st with m := m', names := st.names.filter (fun p => p.1 != h) }, "ok", "ok", "")
    | none => (st, "nohandle", "-", "")
  | ["write", h, _] =>
    match st.names.lookup h with
    | some _ => ({ st with nodes := st.nodes + 1 }, "ok", "ok", "")
    | none => (st, "nohandle", "-", "")
  | ["count", h] =>
    match st.names.lookup h with
    | some _ => (st, toString st.nodes, toString st.nodes, "")
    | none => (st, "nohandle", "-", "")
  | _ => (st, "bad-op", "-", "")

def stream : Stream := { σ := St, init := { m := Handles.init, names := [], nodes := 0 }, step := step }

end Nervus.Driver.HandlesStream
