/-
  Driver for the `query` stream (C11).  Per `query` line: model-out = canonical rows of
  `Exec.exec (Compile.compile q)`, spec-out = canonical rows of `Spec.denote q`, triggers = known-finding ids
  whose trigger predicate holds for (graph, query).  Per `explain` line: model-out = `render (compile q)`.
-/
import Nervus.Driver.Util
import Nervus.Driver.CySexp
import Nervus.Spec.Denote
import Nervus.Model.QCompile
import Nervus.Model.QExec
import Nervus.Model.QFindings
namespace Nervus.Driver.CypherStream
open Nervus Nervus.Cy Nervus.Cy.Sexp Nervus.Driver

structure St where
  nodes : List NodeRec := []
  rels : List RelRec := []
  g : Graph := ⟨[], []⟩

def setProp (ps : Props) (k : String) (v : Scalar) : Props :=
  if ps.any (·.1 == k) then ps.map fun (k', v') => if k' == k then (k', v) else (k', v') else ps ++ [(k, v)]

def addRel (rels : List RelRec) (id : RelId) (props : Props) : List RelRec :=
  if rels.any (·.id == id) then
    rels.map fun e => if e.id == id then { e with mult := e.mult + 1, props := props.foldl (fun ps (k, v) => setProp ps k v) e.props } else e
  else rels ++ [⟨id, 1, props⟩]

def errLine (e : Err) : String := "err " ++ e.toString

def runModel (env : Env) (mode : String) (q : Query) : String :=
  match Compile.compile q with
  | .error e => errLine e
  | .ok plan => match Exec.exec small env plan with
    | .error e => errLine e
    | .ok rows => canonRows mode rows

def runSpec (env : Env) (mode : String) (q : Query) : String :=
  match Spec.denote small env q with
  | .error e => errLine e
  | .ok res => canonRows mode res.rows

def step (st : St) (ws : List String) : St × String × String × String :=
  match ws with
  | ["n", ls, ps] =>
    match propsOfTok ps with
    | some props => ({ st with nodes := st.nodes ++ [⟨st.nodes.length, labelsOfTok ls, props⟩] }, "ok", "-", "")
    | none => (st, "bad-op", "-", "")
  | ["r", s, t, d, ps] =>
    match s.toNat?, d.toNat?, propsOfTok ps with
    | some s, some d, some props => ({ st with rels := addRel st.rels ⟨s, t, d⟩ props }, "ok", "-", "")
    | _, _, _ => (st, "bad-op", "-", "")
  | ["commit"] =>
    let ids := st.nodes.map fun n => toString n.id
    ({ st with g := ⟨st.nodes, st.rels⟩ }, "ok " ++ (if ids.isEmpty then "-" else ",".intercalate ids), "-", "")
  | "explain" :: _text :: sx =>
    match (parse (" ".intercalate sx)).bind queryOf with
    | some q =>
      let m := match Compile.compile q with
        | .ok plan => "plan " ++ render plan
        | .error e => errLine e
      (st, m, "-", "")
    | none => (st, "bad-op", "-", "")
  | "query" :: mode :: _text :: sx =>
    match (parse (" ".intercalate sx)).bind queryOf with
    | some q =>
      let env : Env := { g := st.g }
      (st, runModel env mode q, runSpec env mode q, " ".intercalate (Findings.triggers small env q))
    | none => (st, "bad-op", "-", "")
  | _ => (st, "bad-op", "-", "")

def stream : Stream := { σ := St, init := {}, step := step }

end Nervus.Driver.CypherStream
