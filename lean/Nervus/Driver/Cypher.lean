/-
  Driver for the `query` stream (C11).  Per `query` line: model-out = canonical rows of
  `Exec.exec (Compile.compile q)`, spec-out = canonical rows of `Spec.denote q`, triggers = known-finding ids
  whose trigger predicate holds for (graph, query).  Per `explain` line: model-out = `render (compile q)`.
-/
import Nervus.Driver.Util
import Nervus.Driver.CySexp
import Nervus.Spec.Denote
import Nervus.Model.QCompile
import Nervus.Model.QExec
import Nervus.Model.QFindings
namespace Nervus.Driver.CypherStream
open Nervus Nervus.Cy Nervus.Cy.Sexp Nervus.Driver

structure St where
  nodes : List NodeRec := []
  rels : List RelRec := []
  g : Graph := ⟨[], []⟩
  committed : Bool := false     -- `commit` succeeded: the database exists (before that the runner answers bad-op)

def setProp (ps : Props) (k : String) (v : Scalar) : Props :=
  if ps.any (·.1 == k) then ps.map fun (k', v') => if k' == k then (k', v) else (k', v') else ps ++ [(k, v)]

def addRel (rels : List RelRec) (id : RelId) (props : Props) : List RelRec :=
  if rels.any (·.id == id) then
    rels.map fun e => if e.id == id then { e with mult := e.mult + 1, props := props.foldl (fun ps (k, v) => setProp ps k v) e.props } else e
  else rels ++ [⟨id, 1, props⟩]

def errLine (e : Err) : String := "err " ++ e.toString

def runModel (env : Env) (mode : String) (q : Query) : String :=
  match Compile.compile q with
  | .error e => errLine e
  | .ok plan => match Exec.exec small env plan with
    | .error e => errLine e
    | .ok rows => canonRows mode rows

def runSpec (env : Env) (mode : String) (q : Query) : String :=
  match Spec.denote small env q with
  | .error e => errLine e
  | .ok res => canonRows mode res.rows

def step (st : St) (ws : List String) : St × String × String × String :=
  match ws with
  | ["n", ls, ps] =>
    match propsOfTok ps with
    | some props => ({ st with nodes := st.nodes ++ [⟨st.nodes.length, labelsOfTok ls, props⟩] }, "ok", "-", "")
    | none => (st, "bad-op", "-", "")
  | ["r", s, t, d, ps] =>
    match s.toNat?, d.toNat?, propsOfTok ps with
    | some s, some d, some props => ({ st with rels := addRel st.rels ⟨s, t, d⟩ props }, "ok", "-", "")
    | _, _, _ => (st, "bad-op", "-", "")
  | ["commit"] =>
    -- a relationship line naming a node that does not exist makes the runner's build fail: no database
    if st.rels.any fun e => e.id.src ≥ st.nodes.length || e.id.dst ≥ st.nodes.length then
      ({ st with committed := false }, "err", "-", "")
    else
    let ids := st.nodes.map fun n => toString n.id
    ({ st with g := ⟨st.nodes, st.rels⟩, committed := true },
      "ok " ++ (if ids.isEmpty then "-" else ",".intercalate ids), "-", "")
  | "explain" :: _text :: sx =>
    match (parse (" ".intercalate sx)).bind queryOf with
    | some q =>
      let m := match Compile.compile q with
        | .ok plan => "plan " ++ render plan
        | .error e => errLine e
      (st, m, "-", "")
    | none => (st, "bad-op", "-", "")
  | "query" :: mode :: _text :: sx =>
    if !st.committed then (st, "bad-op", "-", "") else
    match (parse (" ".intercalate sx)).bind queryOf with
    | some q =>
      let env : Env := { g := st.g }
      (st, runModel env mode q, runSpec env mode q, " ".intercalate (Findings.triggers small env q))
    | none => (st, "bad-op", "-", "")
  | _ => (st, "bad-op", "-", "")

def stream : Stream := { σ := St, init := {}, step := step }

/-! ### `querystat`: per query line, how many WHERE predicates it has and how many of them take the same
    value on every row they are evaluated on (reference tables); used for the generator statistics -/

def predStats (env : Env) : Query → Table → Nat × Nat
  | [], _ => (0, 0)
  | c :: q, T =>
    -- only predicates evaluated on at least two rows are counted
    let count (e : Expr) (rows : Table) : Nat × Nat :=
      let vs := rows.map fun r => eval small env r e
      if rows.length < 2 then (0, 0) else (1, if vs.eraseDups.length ≤ 1 then 1 else 0)
    let (here, T') : (Nat × Nat) × Table := match c with
      | .match_ o ps => ((0, 0), Spec.denoteMatch small env o ps T)
      | .where_ e => (count e T, T.filter (evalBool small env · e))
      | .unwind e x => ((0, 0), Spec.denoteUnwind small env e x T)
      | .with_ p w =>
        let T' := match Spec.denoteProj small env p w T with | .ok t => t | .error _ => []
        (match w with
          | some e => count e (match Spec.denoteProj small env p none T with | .ok t => t | .error _ => [])
          | none => (0, 0), T')
      | .return_ _ => ((0, 0), T)
    let rest := predStats env q T'
    (here.1 + rest.1, here.2 + rest.2)

def statStep (st : St) (ws : List String) : St × String × String × String :=
  match ws with
  | "query" :: _mode :: _text :: sx =>
    match (parse (" ".intercalate sx)).bind queryOf with
    | some q =>
      let (n, c) := predStats { g := st.g } q [[]]
      let rows := match Spec.denote small { g := st.g } q with | .ok r => r.rows.length | .error _ => 0
      (st, "stat " ++ toString n ++ " " ++ toString c ++ " " ++ toString rows, "-", "")
    | none => (st, "bad-op", "-", "")
  | _ => let (st', _, _, _) := step st ws; (st', "-", "-", "")

def statStream : Stream := { σ := St, init := {}, step := statStep }

end Nervus.Driver.CypherStream
