import Nervus.Driver.Util
import Nervus.Model.ExtId
/-! extid stream (C32): the Lean side of harness/src/streams/extid.rs -/
namespace Nervus.Driver.ExtIdStream
open Nervus Nervus.ExtId Nervus.Driver

structure St where
  m : State
  ever : List (Nat × Nat)      -- every (internal id, external id) pair a dump has shown
  everExt : List (Nat × Nat)   -- external id ↦ the first internal id it was seen with

def parseScript (tok : String) : Option (List (Option Int)) :=
  (tok.splitOn ",").mapM (fun t => if t == "x" then some none else (parseInt? t).map some)

/-- the `k`-th clock read of a script: the last reading repeats -/
def reading (sc : List (Option Int)) (k : Nat) : Option Int :=
  match sc[k]? with
  | some r => r
  | none => (sc.getLast?).getD none

/-- hints of one statement, per shape (see extid.rs): the per-call counter counts nodes *and* relationships -/
def hints (shape : String) (m : Nat) (sc : List (Option Int)) : Option (List Nat) :=
  match shape with
  | "n" | "g" => some ((List.range m).map (fun j => hintOf j (reading sc j)))
  | "p" => some ((List.range m).flatMap (fun j =>
      [hintOf (3 * j) (reading sc (2 * j)), hintOf (3 * j + 1) (reading sc (2 * j + 1))]))
  | "c" => some ((List.range (max m 1)).map (fun j => hintOf 0 (reading sc j)))
  | _ => none

def errName : Err → String
  | .dupEngine | .dupTx | .dupCommit => "dupid"
  | .idSpace => "idspace"
  | .nonDense => "nondense"

def showOut (o : Out) (okDetail : String) : String :=
  match o with
  | .ok => if okDetail.isEmpty then "ok" else "ok | " ++ okDetail
  | .err e => "err " ++ errName e
  | .bad => "bad-op"

def b01 (b : Bool) : String := if b then "1" else "0"

def dump (st : St) : St × String :=
  let pairs := (List.range st.m.eng.i2e.length).zip st.m.eng.i2e
  let exts := pairs.map Prod.snd
  let uniq := decide exts.Nodup
  let named := !(exts.contains 0)
  let stable1 := pairs.all (fun (i, e) =>
    (match st.ever.lookup i with | some e' => e' == e | none => true) &&
    (match st.everExt.lookup e with | some i' => i' == i | none => true))
  let stable2 := st.ever.all (fun (i, e) => pairs[i]? == some (i, e))
  let ever' := pairs.foldl (fun acc (i, e) => if (acc.lookup i).isSome then acc else (i, e) :: acc) st.ever
  let everExt' := pairs.foldl (fun acc (i, e) => if (acc.lookup e).isSome then acc else (e, i) :: acc) st.everExt
  let detail := " ".intercalate (pairs.map (fun (i, e) => toString i ++ ":" ++ toString e))
  ({ st with ever := ever', everExt := everExt' },
   toString pairs.length ++ " " ++ b01 uniq ++ " " ++ b01 (stable1 && stable2) ++ " " ++ b01 named ++ " | " ++ detail)

def step (st : St) (ws : List String) : St × String × String × String :=
  match ws with
  | [kind, shape, m, script] =>
    match m.toNat?, parseScript script with
    | some m, some sc =>
      match hints shape m sc with
      | none => (st, "bad-op", "-", "")
      | some hs =>
        let op := if kind == "stmt" then some (Op.stmt hs) else if kind == "tstmt" then some (Op.tstmt hs) else none
        match op with
        | none => (st, "bad-op", "-", "")
        | some op =>
          let (s', o) := ExtId.step st.m op
          ({ st with m := s' }, showOut o ("reads " ++ toString hs.length), (if o == Out.bad then "-" else "ok"), "")
    | _, _ => (st, "bad-op", "-", "")
  | ["raw", x] =>
    match x.toNat? with
    | some x =>
      let iid := st.m.eng.i2e.length
      let (s', o) := ExtId.step st.m (.raw x)
      ({ st with m := s' }, showOut o ("iid " ++ toString iid), "-", "")
    | none => (st, "bad-op", "-", "")
  | ["dump"] =>
    match st.m.txn with
    | some _ => (st, "bad-op", "-", "")
    | none => let (st', line) := dump st; (st', line, "* 1 1 1", "")
  | [w] =>
    let op : Option Op := match w with
      | "begin" => some .begin | "commit" => some .commit | "rollback" => some .rollback
      | "compact" => some .compact | "del" => some .del | "reopen" => some .reopen | _ => none
    match op with
    | some op => let (s', o) := ExtId.step st.m op; ({ st with m := s' }, showOut o "", "-", "")
    | none => (st, "bad-op", "-", "")
  | _ => (st, "bad-op", "-", "")

def stream : Stream := { σ := St, init := ⟨State.init, [], []⟩, step := step }

end Nervus.Driver.ExtIdStream
