import Nervus.Driver.Util
import Nervus.Spec.OrderedValue
namespace Nervus.Driver.OKeyStream
open Nervus Nervus.OKey Nervus.Driver

/-- value tokens: `n`, `b0`/`b1`, `i<dec>`, `f<hex bits>`, `s<hex|->`, `d<dec>`, `x<hex|->` -/
def parseOV (tok : String) : Option OV :=
  match tok.toList with
  | ['n'] => some .null
  | ['b', '0'] => some (.bool false)
  | ['b', '1'] => some (.bool true)
  | 'i' :: rest => (parseInt? (String.ofList rest)).map .int
  | 'd' :: rest => (parseInt? (String.ofList rest)).map .datetime
  | 'f' :: rest => (parseHexNat? (String.ofList rest)).map .float
  | 's' :: rest => (bytesOfHex (String.ofList rest)).map .str
  | 'x' :: rest => (bytesOfHex (String.ofList rest)).map .blob
  | _ => none

def cmpBytes (a b : Bytes) : String :=
  if bytesLt a b then "lt" else if bytesLt b a then "gt" else "eq"

def b01 (b : Bool) : String := if b then "1" else "0"

def isNaNVal : OV → Bool
  | .float b => isNaN b
  | _ => false

/-- what the property demands for a pair of values of one kind -/
def specPair (a b : OV) : String :=
  if isNaNVal a || isNaNVal b then "-"
  else if kind a ≠ kind b then
    -- different kinds: unequal values ⇒ encodings must differ, and never a prefix
    "lt/gt 0 0"
  else if decide (lt a b) then "lt 0 0"
  else if decide (lt b a) then "gt 0 0"
  else if decide (eqv a b) then "eq 0 0" else "-"

def step (_ : Unit) (ws : List String) : Unit × String × String × String :=
  match ws with
  | ["pair", x, y] =>
    match parseOV x, parseOV y with
    | some a, some b =>
      let ea := enc a; let eb := enc b
      let c := cmpBytes ea eb
      let obs := c ++ " " ++ b01 (properPrefix ea eb) ++ " " ++ b01 (properPrefix eb ea)
      let m := obs ++ " | " ++ hexOfBytes ea ++ " " ++ hexOfBytes eb
      ((), m, specPair a b, "")
    | _, _ => ((), "bad-op", "-", "")
  | ["ikey", i, x, n] =>
    match i.toNat?, parseOV x, n.toNat? with
    | some i, some a, some n => ((), "ok | " ++ hexOfBytes (encIndexKey i a n), "-", "")
    | _, _, _ => ((), "bad-op", "-", "")
  | _ => ((), "bad-op", "-", "")

def stream : Stream := { σ := Unit, init := (), step := step }

end Nervus.Driver.OKeyStream
