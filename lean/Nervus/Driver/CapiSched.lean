import Nervus.Driver.Util
import Nervus.Model.SchedCapi
import Nervus.Model.Generated.PubOrder
/-!
  `capi_sched` stream (C09): the C-API auto-commit write entry point under forced schedules.
  Model-out comes from running the LTS of `Nervus.Model.SchedCapi` with what the extractor found in
  the source (call order, where `commit` releases the writer guard); spec-out is the set of results
  of the sequential orders.
-/
namespace Nervus.Driver.CapiSchedStream
open Nervus Nervus.SchedCapi Nervus.Driver

def parseStmt (tok : String) : Option CStmt :=
  if tok == "inc" then some .inc
  else if tok == "dbl" then some .dbl
  else if tok == "incA" then some .incA
  else if tok == "lab" then some .lab
  else if tok == "merge0" then some (.merge 0)
  else if tok == "merge1" then some (.merge 1)
  else if tok.startsWith "set" then (parseInt? (tok.drop 3).toString).map .set
  else if tok.startsWith "cas" then
    match (tok.drop 3).toString.splitOn "_" with
    | [a, b] => match parseInt? a, parseInt? b with
      | some a, some b => some (.cas a b)
      | _, _ => none
    | _ => none
  else none

def cfg : Cfg :=
  { lockFirst := Generated.autoCommitLockFirst,
    earlyLabel := Generated.commitEarlyReleaseLabel,
    earlyPlain := Generated.commitEarlyReleasePlain }

def isSafe : Bool := cfg.lockFirst && !cfg.earlyLabel && !cfg.earlyPlain

def b01 (b : Bool) : String := if b then "1" else "0"

def tok (d : Db) : String := s!"{d.v}.{d.a}.{d.s0}.{d.s1}"

/-- is the hook point inside `commit` located after a release of the writer guard in the source? -/
def parkOf (point : String) : Option Park :=
  let seq := Generated.commitLockSeq
  match seq.idxOf? ("point:" ++ point), seq.idxOf? "releaseGuard" with
  | some p, some r => some (if r < p then .afterRelease else .inCommit)
  | _, _ => none

def raceOut (st : Db) (park : Park) (a b : CStmt) : Db × String × String :=
  let ab := b.toStmt.seq (a.toStmt.seq st)
  let ba := a.toStmt.seq (b.toStmt.seq st)
  let spec := if ab == ba then tok ab else tok ab ++ "/" ++ tok ba
  let (d, blocked) := race cfg park st a b
  (d, tok d ++ " | 0 0 " ++ b01 blocked, spec)

def iter {α} (f : α → α) : Nat → α → α
  | 0, x => x
  | n + 1, x => iter f n (f x)

/-- state: the committed state the model believes in (none before `open`) -/
def step (st : Option Db) (ws : List String) : Option Db × String × String × String :=
  match ws, st with
  | ["open"], _ => (some ⟨0, 0, 0, 0⟩, "ok", "-", "")
  | ["get"], some d => (some d, tok d, tok d, "")
  | ["seq", a], some d =>
    match parseStmt a with
    | some a =>
      let d' := a.toStmt.seq d
      (some d', tok d' ++ " | 0", tok d', "")
    | none => (st, "bad-op", "-", "")
  | ["race", a, b], some d =>
    match parseStmt a, parseStmt b with
    | some a, some b => let (d', m, s) := raceOut d .between a b; (some d', m, s, "")
    | _, _ => (st, "bad-op", "-", "")
  | ["racec", a, b, point], some d =>
    match parseStmt a, parseStmt b, parkOf point with
    | some a, some b, some park => let (d', m, s) := raceOut d park a b; (some d', m, s, "")
    | _, _, _ => (st, "bad-op", "-", "")
  | ["racek", a, _point], some d =>
    -- `ndb_compact` on another thread while statement `a` is inside commit holding the writer lock.
    -- Compaction reads the run list under the lock (regenerated flag): it waits, then merges `a`'s run too.
    -- If the source reads the run list BEFORE the lock, the stale list lacks `a`'s run and the final
    -- clear of ALL runs drops it (Nervus.Props.C03.C03_counterexample_stale_run_list): `a` has no effect.
    match parseStmt a with
    | some a =>
      let want := a.toStmt.seq d
      -- stale list: the run of `a` (property writes) is dropped; a node it created stays in the node table
      let got := if Generated.compactRunsReadUnderLock then want else { d with a := want.a }
      (some got, tok got ++ " | 0 0 1", tok want, "")
    | none => (st, "bad-op", "-", "")
  | ["stress", n, k], some d =>
    match n.toNat?, k.toNat? with
    | some n, some k =>
      let d' := { d with v := d.v + (n * k : Nat) }
      -- safe configuration: every interleaving is serial (theorem C09), the result is determined;
      -- otherwise the model is nondeterministic here and prints `?`
      (some d', if isSafe then tok d' else "?", tok d', "")
    | _, _ => (st, "bad-op", "-", "")
  | ["stressm", n, k], some d =>
    match n.toNat?, k.toNat? with
    | some n, some k =>
      -- every thread: k rounds of `incA; merge (round % 2)` — sequentially: any order gives this
      let one (r : Nat) (x : Db) : Db := (CStmt.merge (r % 2)).toStmt.seq (CStmt.incA.toStmt.seq x)
      let d' := iter (fun x => (List.range k).foldl (fun y r => one r y) x) n d
      (some d', if isSafe then tok d' else "?", tok d', "")
    | _, _ => (st, "bad-op", "-", "")
  | _, _ => (st, "bad-op", "-", "")

def stream : Stream := { σ := Option Db, init := none, step := step }

end Nervus.Driver.CapiSchedStream
