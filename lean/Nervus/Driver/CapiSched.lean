import Nervus.Driver.Util
import Nervus.Model.SchedCapi
/-!
  `capi_sched` stream (C09): the C-API auto-commit write entry point under forced schedules.
  Model-out comes from running the LTS of `Nervus.Model.SchedCapi` with the call order regenerated
  from the source; spec-out is the set of results of the sequential orders.
-/
namespace Nervus.Driver.CapiSchedStream
open Nervus Nervus.SchedCapi Nervus.Driver

def parseStmt (tok : String) : Option CStmt :=
  if tok == "inc" then some .inc
  else if tok == "dbl" then some .dbl
  else if tok.startsWith "set" then (parseInt? (tok.drop 3).toString).map .set
  else if tok.startsWith "cas" then
    match (tok.drop 3).toString.splitOn "_" with
    | [a, b] => match parseInt? a, parseInt? b with
      | some a, some b => some (.cas a b)
      | _, _ => none
    | _ => none
  else none

def lockFirst : Bool := Generated.autoCommitLockFirst

def b01 (b : Bool) : String := if b then "1" else "0"

/-- state: the counter value the model believes is committed (none before `open`) -/
def step (st : Option Int) (ws : List String) : Option Int × String × String × String :=
  match ws, st with
  | ["open"], _ => (some 0, "ok", "-", "")
  | ["get"], some v => (some v, toString v, toString v, "")
  | ["seq", a], some v =>
    match parseStmt a with
    | some a =>
      let v' := a.toStmt.seq v
      (some v', toString v' ++ " | 0", toString v', "")
    | none => (st, "bad-op", "-", "")
  | ["race", a, b], some v =>
    match parseStmt a, parseStmt b with
    | some a, some b =>
      let ab := b.toStmt.seq (a.toStmt.seq v)
      let ba := a.toStmt.seq (b.toStmt.seq v)
      let spec := if ab == ba then toString ab else toString ab ++ "/" ++ toString ba
      match race lockFirst v a b with
      | some (v', blocked) => (some v', toString v' ++ " | 0 0 " ++ b01 blocked, spec, "")
      | none => (st, "model-stuck", spec, "")
    | _, _ => (st, "bad-op", "-", "")
  | ["stress", n, k], some v =>
    match n.toNat?, k.toNat? with
    | some n, some k =>
      let v' := v + (n * k : Nat)
      -- lock-first: every interleaving is serial (theorem C09), so the result is determined;
      -- snapshot-first: the model is nondeterministic here, it prints `?`
      (some v', if lockFirst then toString v' else "?", toString v', "")
    | _, _ => (st, "bad-op", "-", "")
  | _, _ => (st, "bad-op", "-", "")

def stream : Stream := { σ := Option Int, init := none, step := step }

end Nervus.Driver.CapiSchedStream
