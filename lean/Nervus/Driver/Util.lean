/-
  Driver utilities: line protocol helpers shared by all streams.
  One input line → exactly one output line  `<model-out>\t<spec-out>\t<triggers>`
  where `<x-out>` is `<obs>` or `<obs> | <detail>`; spec-out `-` = the spec says nothing here.
-/
import Nervus.Model.Bytes
namespace Nervus.Driver
open Nervus

/-- a stream: state, initial state and a step producing (model-out, spec-out, triggers) -/
structure Stream where
  σ : Type
  init : σ
  step : σ → List String → σ × String × String × String

def words (line : String) : List String :=
  (line.trimAscii.toString.splitOn " ").filter (· ≠ "")

def out3 (m s t : String) : String := m ++ "\t" ++ s ++ "\t" ++ t

def parseInt? (s : String) : Option Int :=
  if s.startsWith "-" then (s.drop 1).toString.toNat?.map (fun n => -(n : Int))
  else s.toNat?.map (fun n => (n : Int))

def parseHexNat? (s : String) : Option Nat :=
  s.toList.foldl (fun acc c => match acc, hexVal c with
    | some a, some d => some (a * 16 + d)
    | _, _ => none) (some 0)

partial def loop (h : IO.FS.Stream) (out : IO.FS.Stream) (S : Stream) (st : S.σ) : IO Unit := do
  let line ← h.getLine
  if line.isEmpty then return ()
  let ws := words line
  match ws with
  | [] => do out.putStrLn (out3 "" "-" ""); loop h out S st
  | "#case" :: _ => do out.putStrLn (out3 "case" "-" ""); loop h out S S.init
  | _ =>
    let (st', m, s, t) := S.step st ws
    out.putStrLn (out3 m s t)
    loop h out S st'

end Nervus.Driver
