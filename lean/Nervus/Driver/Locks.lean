import Nervus.Driver.Util
import Nervus.Model.LockLTS
import Nervus.Model.Generated.LockOrder
/-!
  `locks` stream (C35).  `mix`: the model's verdict is "done" (theorem `C35_partial`: the regenerated
  relation has no feasible cycle).  `reentry <op>`: the calling thread owns a write transaction; the
  model answers from the regenerated list of operations that ask for `write_lock` again.
-/
namespace Nervus.Driver.LocksStream
open Nervus Nervus.Driver

def step (_ : Unit) (ws : List String) : Unit × String × String × String :=
  match ws with
  | ["mix", _, _, _] => ((), "done", "done", "")
  | "cycle" :: specs =>
    -- forced schedule derived by the extractor from a feasible cycle of the regenerated relation: the
    -- model says the threads end up waiting for each other
    if specs == Generated.cycleWitness && !specs.isEmpty then ((), "HANG", "done", "")
    else ((), "done", "done", "")
  | ["reentry", op] =>
    if Generated.reentrantRoots.contains op then ((), "HANG", "done", "C35-txn-reentry")
    else ((), "done", "done", "")
  | _ => ((), "bad-op", "-", "")

def stream : Stream := { σ := Unit, init := (), step := step }

end Nervus.Driver.LocksStream
