/-
  Driver for the `btree` stream (C26): runs Model.BTree (real layout, `Cfg.real`) and Spec.Multimap
  on byte-string keys and prints model output, spec verdict and known-finding triggers per line.
-/
import Nervus.Driver.Util
import Nervus.Model.BTreeReal
namespace Nervus.Driver.BTreeStream
open Nervus Nervus.BTree Nervus.Driver

def padByte : UInt8 := 0x2e

/-- key token `<hex|->[:<n>]` = the hex bytes followed by n pad bytes -/
def parseKey (tok : String) : Option Bytes :=
  match tok.splitOn ":" with
  | [h] => bytesOfHex h
  | [h, n] => match bytesOfHex h, n.toNat? with
    | some b, some n => some (b ++ List.replicate n padByte)
    | _, _ => none
  | _ => none

/-- canonical token: a trailing run of ≥ 8 pad bytes is written `:n` -/
def keyToken (k : Bytes) : String :=
  let run := (k.reverse.takeWhile (· == padByte)).length
  if run ≥ 8 then
    let p := k.take (k.length - run)
    (if p.isEmpty then "-" else hexOfBytes p) ++ ":" ++ toString run
  else if k.isEmpty then "-" else hexOfBytes k

def showList (l : List (Bytes × Nat)) : String :=
  l.foldl (fun s e => s ++ " " ++ keyToken e.1 ++ ":" ++ toString e.2) (toString l.length)

def showRes (r : Res (List (Bytes × Nat))) : String :=
  match r with
  | .ok l => showList l
  | .err => "err"
  | .loop => "loop"

def showOut : Out → String
  | .ok => "ok" | .found true => "true" | .found false => "false" | .err => "err" | .panic => "panic" | .loop => "loop"

structure St where
  t : Tree Bytes
  m : Multimap.MM Bytes
  equalKeys : Bool      -- an insert met a stored equal key (C26-equal-keys)
  overflow : Bool       -- an insert ended in panic / err (C26-split-overflow)

def init : St := ⟨create Cfg.real, [], false, false⟩

def triggers (s : St) : String :=
  (if s.equalKeys then "C26-equal-keys " else "") ++ (if s.overflow then "C26-split-overflow" else "")

def tail (t : Tree Bytes) : String := "root=" ++ toString t.root ++ " pages=" ++ toString t.next

def dumpPages (t : Tree Bytes) : String :=
  (List.range (t.next - Cfg.real.firstPage)).foldl (fun s i =>
    let id := i + Cfg.real.firstPage
    s ++ " " ++ match t.pages.get id with
      | none => "X" ++ toString id
      | some (.leaf es b r) => "L" ++ toString id ++ ":" ++ toString es.length ++ ":" ++ toString b ++ ":" ++ toString r
      | some (.internal lm cells b) => "I" ++ toString id ++ ":" ++ toString cells.length ++ ":" ++ toString b ++ ":" ++ toString lm) "ok |"

def step (s : St) (ws : List String) : St × String × String × String :=
  let c := Cfg.real
  match ws with
  | ["ins", k, p] =>
    match parseKey k, p.toNat? with
    | some k, some p =>
      let eq := s.equalKeys || Multimap.hasKey k s.m
      let (t', o) := insert c s.t k p
      let ov := s.overflow || (o != .ok)
      let s' : St := ⟨t', Multimap.insert k p s.m, eq, ov⟩
      (s', showOut o ++ " | " ++ tail t', "ok", triggers s')
    | _, _ => (s, "bad-op", "-", "")
  | ["del", k, p] =>
    match parseKey k, p.toNat? with
    | some k, some p =>
      let (t', o) := delete c s.t k p
      let (b, m') := Multimap.delete k p s.m
      let s' : St := { s with t := t', m := m' }
      (s', showOut o ++ " | " ++ tail t', (if b then "true" else "false"), triggers s')
    | _, _ => (s, "bad-op", "-", "")
  | ["scan"] => (s, showRes (scan c s.t), showList s.m, triggers s)
  | ["lb", k] =>
    match parseKey k with
    | some k => (s, showRes (scanFrom c s.t k), showList (Multimap.lowerBound k s.m), triggers s)
    | none => (s, "bad-op", "-", "")
  | ["get", k] =>
    match parseKey k with
    | some k =>
      let sh := fun (o : Option Nat) => match o with | some p => "some " ++ toString p | none => "none"
      let m := match lookup c s.t k with | .ok o => sh o | .err => "err" | .loop => "loop"
      (s, m, sh (Multimap.lookup k s.m), triggers s)
    | none => (s, "bad-op", "-", "")
  | ["dump"] => (s, dumpPages s.t, "-", triggers s)
  | ["reopen"] => (s, "ok", "-", triggers s)
  | _ => (s, "bad-op", "-", "")

def stream : Stream := { σ := St, init := init, step := step }

end Nervus.Driver.BTreeStream
