import Nervus.Driver.Util
import Nervus.Model.TxnLabels
/-! capilbl stream (C24, name-level fragment): the Lean side of harness/src/streams/capilbl.rs -/
namespace Nervus.Driver.CapiLblStream
open Nervus Nervus.TxnLabels Nervus.Driver

structure St where
  code : State
  specG : Graph                       -- committed graph under read-your-writes
  specE : List Nat
  specNext : Nat
  work : Option (Graph × List Nat × Nat)   -- the open transaction's evolving graph / edges / next id
  removed : List Nat
  written : List Nat
  trigs : List String

def parseStmt : List String → Option Stmt
  | ["crn", l, k] => do pure (.crn (← l.toNat?) (← k.toNat?))
  | ["seen", l] => l.toNat?.map .seen
  | ["addl", l, x] => do pure (.addl (← l.toNat?) (← x.toNat?))
  | ["reml", l, x] => do pure (.reml (← l.toNat?) (← x.toNat?))
  | ["remall", x] => x.toNat?.map .remall
  | ["crx", x, k] => do pure (.crx (← x.toNat?) (← k.toNat?))
  | ["setx", x] => x.toNat?.map .setx
  | ["cre", l, t] => do pure (.cre (← l.toNat?) (← t.toNat?))
  | _ => none

def labelName (l : Nat) : String := if l == 0 then "A" else if l == 1 then "B" else "N" ++ toString l

def sortStrs (xs : List String) : List String := xs.mergeSort (fun a b => decide (a ≤ b))

def dumpTok (g : Graph) (edges : List Nat) : String :=
  let nodeTok (n : Node) : String :=
    "+".intercalate (sortStrs (n.labels.eraseDups.map labelName)) ++ "." ++ toString n.k ++ "." ++ (if n.hit then "h" else "-")
  let ns := sortStrs (g.map nodeTok)
  let types := edges.eraseDups
  let es := sortStrs (types.map (fun t => "T" ++ toString t ++ ":" ++ toString (edges.filter (· == t)).length))
  (if ns.isEmpty then "empty" else ",".intercalate ns) ++ "|" ++ (if es.isEmpty then "-" else ",".intercalate es)

def addTrig (ts : List String) (t : String) : List String := if ts.contains t then ts else ts ++ [t]

def step (st : St) (ws : List String) : St × String × String × String :=
  let opOf : Option Op := match ws with
    | "auto" :: rest => (parseStmt rest).map .auto
    | "tq" :: rest => (parseStmt rest).map .tq
    | ["begin"] => some .begin
    | ["commit"] => some .commit
    | ["rollback"] => some .rollback
    | _ => none
  match ws with
  | ["dump"] =>
    match st.code.staged with
    | some _ => (st, "bad-op", "-", "")
    | none => (st, dumpTok st.code.committed st.code.edges, dumpTok st.specG st.specE, " ".intercalate st.trigs)
  | _ =>
    match opOf with
    | none => (st, "bad-op", "-", "")
    | some op =>
      let (c', ok) := codeStep st.code op
      if !ok then (st, "bad-op", "-", "") else
      let st1 : St := { st with code := c' }
      let st2 : St := match op with
        | .auto s =>
          let r := specStmt st.specG st.specNext s
          { st1 with specG := r.1, specE := st.specE ++ r.2, specNext := st.specNext + (r.1.length - st.specG.length) }
        | .begin => { st1 with work := some (st.specG, st.specE, st.specNext), removed := [], written := [] }
        | .tq s =>
          match st.work with
          | none => st1
          | some (g, e, nx) =>
            let r := specStmt g nx s
            let t1 := match s.addsLabel with
              | some x => if st.removed.contains x then addTrig st.trigs "C24-label-readd-lost-at-commit" else st.trigs
              | none => st.trigs
            let t2 := match s with
              | .setx x => if st.written.contains x then addTrig t1 "C24-txn-reads-committed-snapshot" else t1
              | _ => t1
            let removed' := match s.removesLabel with | some x => x :: st.removed | none => st.removed
            let written' := (match s.addsLabel with | some x => [x] | none => []) ++
              (match s.removesLabel with | some x => [x] | none => []) ++ st.written
            { st1 with work := some (r.1, e ++ r.2, nx + (r.1.length - g.length)), trigs := t2,
                       removed := removed', written := written' }
        | .commit =>
          match st.work with
          | none => st1
          | some (g, e, nx) => { st1 with specG := g, specE := e, specNext := nx, work := none }
        | .rollback => { st1 with work := none }
      (st2, "ok", "ok", " ".intercalate st2.trigs)

def stream : Stream :=
  { σ := St, init := ⟨State.init, [], [], 0, none, [], [], []⟩, step := step }

end Nervus.Driver.CapiLblStream
