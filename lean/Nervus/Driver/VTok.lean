/-
  Driver: value tokens (same grammar as harness/src/vtok.rs), temporal oracle tokens, and the native
  instantiation of the model's parameters (`FArith` through Lean's `Float`).  Trusted (not verified),
  exercised by the value/sort/agg streams.
    n | b0 b1 | i<dec> | f<16 hex> | s<hex|-> | L[v,…] | M{<hexkey|->:v,…} | N<dec> | X<dec>
    E<s>.<r>.<d> | D<dec> | B<hex|-> | P[n.n;s.r.d,s.r.d]        oracle: @<hexstr>=<kind>.<a>.<b>.<c>
-/
import Nervus.Driver.Util
import Nervus.Model.Eval
namespace Nervus.Driver.VTok
open Nervus Nervus.Driver

abbrev Cs := List Char

def takeWhileC (p : Char → Bool) : Cs → Cs × Cs
  | [] => ([], [])
  | c :: cs => if p c then let (a, b) := takeWhileC p cs; (c :: a, b) else ([], c :: cs)

def isDecC (c : Char) : Bool := c.isDigit || c == '-'
def isHexC (c : Char) : Bool := (hexVal c).isSome || c == '-'

def pDec (cs : Cs) : Option (Int × Cs) :=
  let (a, rest) := takeWhileC isDecC cs
  (parseInt? (String.ofList a)).map (·, rest)

def pNat (cs : Cs) : Option (Nat × Cs) :=
  let (a, rest) := takeWhileC Char.isDigit cs
  (String.ofList a).toNat?.map (·, rest)

def pHexBytes (cs : Cs) : Option (Bytes × Cs) :=
  let (a, rest) := takeWhileC isHexC cs
  (bytesOfHex (String.ofList a)).map (·, rest)

def eat (c : Char) : Cs → Option Cs
  | d :: cs => if c == d then some cs else none
  | [] => none

def pEKey (cs : Cs) : Option (EKey × Cs) := do
  let (s, cs) ← pNat cs
  let cs ← eat '.' cs
  let (r, cs) ← pNat cs
  let cs ← eat '.' cs
  let (d, cs) ← pNat cs
  pure ((s, r, d), cs)

partial def pSep {α} (item : Cs → Option (α × Cs)) (sep : Char) (cs : Cs) : Option (List α × Cs) := do
  let (x, cs) ← item cs
  match eat sep cs with
  | some cs' => let (xs, cs'') ← pSep item sep cs'; pure (x :: xs, cs'')
  | none => pure ([x], cs)

mutual
partial def pValue : Cs → Option (Value × Cs)
  | 'n' :: cs => some (.null, cs)
  | 'b' :: '0' :: cs => some (.bool false, cs)
  | 'b' :: '1' :: cs => some (.bool true, cs)
  | 'i' :: cs => (pDec cs).map fun (i, r) => (.int i, r)
  | 'D' :: cs => (pDec cs).map fun (i, r) => (.dateTime i, r)
  | 'N' :: cs => (pNat cs).map fun (i, r) => (.nodeId i, r)
  | 'X' :: cs => (pNat cs).map fun (i, r) => (.externalId i, r)
  | 'f' :: cs =>
    let (a, rest) := takeWhileC (fun c => (hexVal c).isSome) cs
    (parseHexNat? (String.ofList a)).map fun b => (.float b, rest)
  | 's' :: cs => (pHexBytes cs).map fun (b, r) => (.str b, r)
  | 'B' :: cs => (pHexBytes cs).map fun (b, r) => (.blob b, r)
  | 'E' :: cs => (pEKey cs).map fun (k, r) => (.edgeKey k, r)
  | 'L' :: '[' :: ']' :: cs => some (.list [], cs)
  | 'L' :: '[' :: cs => do
    let (xs, cs) ← pSep pValue ',' cs
    let cs ← eat ']' cs
    pure (.list xs, cs)
  | 'M' :: '{' :: '}' :: cs => some (.map [], cs)
  | 'M' :: '{' :: cs => do
    let (kvs, cs) ← pSep pEntry ',' cs
    let cs ← eat '}' cs
    -- `BTreeMap::insert`: key-sorted, a later duplicate overwrites
    pure (.map (kvs.foldl (fun m (k, v) => Value.insertKV k v m) []), cs)
  | 'P' :: '[' :: cs => do
    let (ns, cs) ← match cs with
      | ';' :: _ => pure ([], cs)
      | _ => pSep pNat '.' cs
    let cs ← eat ';' cs
    let (es, cs) ← match cs with
      | ']' :: _ => pure ([], cs)
      | _ => pSep pEKey ',' cs
    let cs ← eat ']' cs
    pure (.path ns es, cs)
  | _ => none
partial def pEntry (cs : Cs) : Option ((Str × Value) × Cs) := do
  let (k, cs) ← pHexBytes cs
  let cs ← eat ':' cs
  let (v, cs) ← pValue cs
  pure ((k, v), cs)
end

def parseValue (tok : String) : Option Value :=
  match pValue tok.toList with
  | some (v, []) => some v
  | _ => none

def hex16 (n : Nat) : String :=
  String.ofList ((List.range 16).reverse.map fun k => hexDigit ((n / 16 ^ k) % 16))

/-- canonical quiet NaN on output: NaN payloads are not observed -/
def canonNaN (b : Nat) : Nat := if (F64.ofBits b).isNaN then 0x7ff8000000000000 else b

partial def showValue (canon : Bool) : Value → String
  | .null => "n"
  | .bool b => if b then "b1" else "b0"
  | .int i => s!"i{i}"
  | .float b => "f" ++ hex16 (if canon then canonNaN b else b)
  | .str s => "s" ++ hexOrDash s
  | .list xs => "L[" ++ ",".intercalate (xs.map (showValue canon)) ++ "]"
  | .map kvs => "M{" ++ ",".intercalate (kvs.map fun (k, v) => hexOrDash k ++ ":" ++ showValue canon v) ++ "}"
  | .nodeId n => s!"N{n}"
  | .externalId n => s!"X{n}"
  | .edgeKey (s, r, d) => s!"E{s}.{r}.{d}"
  | .dateTime i => s!"D{i}"
  | .blob b => "B" ++ hexOrDash b
  | .path ns es =>
    "P[" ++ ".".intercalate (ns.map toString) ++ ";" ++
      ",".intercalate (es.map fun (s, r, d) => s!"{s}.{r}.{d}") ++ "]"

/-- `<type> <payload>` observable of a single result (same as `vtok::obs`) -/
def obsValue : Value → String
  | .null => "null -"
  | .bool b => if b then "bool 1" else "bool 0"
  | .int i => s!"int {i}"
  | .float b => "float " ++ hex16 (canonNaN b)
  | .str s => "str " ++ hexOrDash s
  | v => "val " ++ showValue true v

/-! temporal oracle -/

def parseOracle (tok : String) : Option (Str × Nat × TKey) :=
  match tok.toList with
  | '@' :: cs => do
    let (s, cs) ← pHexBytes cs
    let cs ← eat '=' cs
    let (k, cs) ← pNat cs
    let cs ← eat '.' cs
    let (a, cs) ← pDec cs
    let cs ← eat '.' cs
    let (b, cs) ← pDec cs
    let cs ← eat '.' cs
    let (c, cs) ← pDec cs
    if cs.isEmpty then pure (s, k, ⟨a, b, c⟩) else none
  | _ => none

/-- split the words after the op head into value tokens and oracle entries -/
def splitOracle (ws : List String) : List String × List (Str × Nat × TKey) :=
  (ws.filter (fun w => !w.startsWith "@"), (ws.filter (·.startsWith "@")).filterMap parseOracle)

/-! native floating point: the `FArith` instance of the driver -/

def fop (f : Float → Float → Float) (a b : Nat) : Nat :=
  (f (Float.ofBits a.toUInt64) (Float.ofBits b.toUInt64)).toBits.toNat

/-- exact encoding of the dyadic `m · 2^(e-1074)` when it is representable (used by `fmod`, which is exact) -/
def encodeExact (neg : Bool) (m e : Nat) : Nat :=
  let s := if neg then F64.two63 else 0
  if m = 0 then s else
  let L := Nat.log2 m + 1
  -- strip / add factors of two so that the significand has exactly 53 bits (normal) or e = 0 (subnormal)
  if L > 53 then
    let sh := L - 53
    s + (e + sh + 1) * F64.two52 + (m / 2 ^ sh - F64.two52)
  else
    let up := min (53 - L) e
    let m' := m * 2 ^ up
    let e' := e - up
    if m' ≥ F64.two52 then s + (e' + 1) * F64.two52 + (m' - F64.two52) else s + m'

/-- C `fmod` = Rust's `%` on `f64`, computed exactly on the dyadic model (Lean has no `Float.mod`) -/
def fmodBits (a b : Nat) : Nat :=
  match F64.ofBits a, F64.ofBits b with
  | .nan, _ => 0x7ff8000000000000
  | _, .nan => 0x7ff8000000000000
  | .inf _, _ => 0x7ff8000000000000
  | .fin _ _ _, .inf _ => a
  | .fin s m e, .fin _ n f =>
    if n = 0 then 0x7ff8000000000000
    else
      let c := min e f
      let x := m * 2 ^ (e - c)
      let y := n * 2 ^ (f - c)
      encodeExact s (x % y) c

def nativeF : FArith where
  add := fop (· + ·)
  sub := fop (· - ·)
  mul := fop (· * ·)
  div := fop (· / ·)
  rem := fmodBits
  pow := fop Float.pow

/-- the driver's environment: native floats, the temporal oracle of the op line, no duration maps
    (the generators never produce `__kind: 'duration'` maps; if one shows up the result is flagged). -/
def mkEnv (oracle : List (Str × Nat × TKey)) : Env where
  F := nativeF
  temporalKey := fun s => (oracle.find? (fun e => e.1 == s)).map (·.2)
  durationMap := fun kvs => Value.lookup "__kind".toUTF8.toList kvs == some (.str "duration".toUTF8.toList)
  temporalAdd := fun _ _ => .str "unmodelled".toUTF8.toList
  temporalSub := fun _ _ => .str "unmodelled".toUTF8.toList
  durationOp := fun _ _ _ => .str "unmodelled".toUTF8.toList

instance : BEq Value := ⟨fun a b => Value.same a b⟩

/-- strings occurring in a value (map keys excluded) -/
partial def stringsOf : Value → List Str
  | .str s => [s]
  | .list xs => xs.flatMap stringsOf
  | .map kvs => kvs.flatMap fun (_, v) => stringsOf v
  | _ => []

end Nervus.Driver.VTok
