import Nervus.Driver.Util
import Nervus.Model.CApi
import Nervus.Model.CApiJson
/-! capix stream (C34): the Lean side of harness/src/streams/capix.rs -/
namespace Nervus.Driver.CapixStream
open Nervus Nervus.CApi Nervus.CApiJson Nervus.Driver

/-! clause tokens → AST model -/

/-- parses up to the closing `)` of the current group; fuel bounds the nesting walk -/
def parseQ : Nat → List String → Option (Query × List String)
  | 0, _ => none
  | _ + 1, [] => some (.nil, [])
  | fuel + 1, t :: rest =>
    if t == ")" then some (.nil, rest) else
    let simple (c : Clause) : Option (Query × List String) :=
      (parseQ fuel rest).map (fun (q, r) => (.cons c q, r))
    match t with
    | "m" => simple (.match_ false 0)
    | "om" => simple (.match_ true 0)
    | "wh" => simple .where_
    | "u" => simple .unwind
    | "wi" => simple (.with_ 0)
    | "c" => simple .create
    | "mg" => simple .merge
    | "s" => simple (.set .props)
    | "rm" => simple (.remove false)
    | "d" => simple .delete
    | "r" => simple (.return_ 0)
    | "fe(" | "cs(" | "un(" =>
      match parseQ fuel rest with
      | none => none
      | some (inner, rest') =>
        let c : Clause := if t == "fe(" then .foreach inner else if t == "cs(" then .callSub inner else .union inner
        (parseQ fuel rest').map (fun (q, r) => (.cons c q, r))
    | _ => none

/-! value tokens → Value model -/

def insertKV (k : String) (v : Value) : VKVs → VKVs
  | .nil => .cons k v .nil
  | .cons k' v' rest => if k < k' then .cons k v (.cons k' v' rest) else .cons k' v' (insertKV k v rest)

mutual
def parseV : Nat → List String → Option (Value × List String)
  | 0, _ => none
  | _ + 1, [] => none
  | fuel + 1, t :: rest =>
    match t with
    | "n" => some (.null, rest)
    | "t" => some (.bool true, rest)
    | "f" => some (.bool false, rest)
    | "l(" => (parseVs fuel rest).map (fun (vs, r) => (.list vs, r))
    | "m(" => (parseKVs fuel rest).map (fun (kvs, r) => (.map kvs, r))
    | _ =>
      match t.toList with
      | 'i' :: ds => (parseInt? (String.ofList ds)).map (fun i => (.int i, rest))
      | 'F' :: hs => (parseHexNat? (String.ofList hs)).map (fun b => (.float b, rest))
      | 's' :: cs => some (.str (String.ofList cs), rest)
      | _ => none
def parseVs : Nat → List String → Option (Values × List String)
  | 0, _ => none
  | _ + 1, [] => none
  | fuel + 1, t :: rest =>
    if t == ")" then some (.nil, rest) else
    match parseV fuel (t :: rest) with
    | none => none
    | some (v, r) => (parseVs fuel r).map (fun (vs, r') => (.cons v vs, r'))
def parseKVs : Nat → List String → Option (VKVs × List String)
  | 0, _ => none
  | _ + 1, [] => none
  | fuel + 1, t :: rest =>
    if t == ")" then some (.nil, rest) else
    match parseV fuel rest with
    | none => none
    | some (v, r) => (parseKVs fuel r).map (fun (kvs, r') => (insertKV t v kvs, r'))   -- BTreeMap: keys sorted
end

def hexDigit (n : Nat) : Char := if n < 10 then Char.ofNat (48 + n) else Char.ofNat (87 + n)
def hex16 (n : Nat) : String :=
  String.ofList ((List.range 16).reverse.map (fun i => hexDigit ((n / 16 ^ i) % 16)))

mutual
def canon : Json → String
  | .null => "n"
  | .bool b => if b then "t" else "f"
  | .int i => "i" ++ toString i
  | .float b => "F" ++ hex16 b
  | .str s => "s" ++ s
  | .arr xs => "[" ++ ",".intercalate (canons xs) ++ "]"
  | .obj kvs => "{" ++ ",".intercalate (canonKVs kvs) ++ "}"
def canons : Jsons → List String
  | .nil => []
  | .cons x xs => canon x :: canons xs
def canonKVs : JKVs → List String
  | .nil => []
  | .cons k v rest => (k ++ ":" ++ canon v) :: canonKVs rest
end

mutual
/-- what value_to_json drops: non-finite floats (→ null) and blob contents (→ length) -/
def lossyKind : Value → Option String
  | .float f => if isFinite f then none else some "C34-json-nonfinite-float-null"
  | .blob _ => some "C34-json-blob-length-only"
  | .list vs => lossyKinds vs
  | .map kvs => lossyKindKVs kvs
  | _ => none
def lossyKinds : Values → Option String
  | .nil => none
  | .cons v vs => (lossyKind v).orElse (fun _ => lossyKinds vs)
def lossyKindKVs : VKVs → Option String
  | .nil => none
  | .cons _ v rest => (lossyKind v).orElse (fun _ => lossyKindKVs rest)
end

def valLine (v : Value) : String × String × String :=
  match lossyKind v with
  | none => ("eq | " ++ canon (toJson v), "eq", "")
  | some t => ("ne | " ++ canon (toJson v), "eq", t)

/-- error statements of the stream: (C category the substring classifier yields, phase in which the Rust API fails) -/
def errTable : List (String × String × String) := [
  ("paren", "syntax", "prepare"), ("token", "syntax", "prepare"), ("char", "syntax", "prepare"),
  ("unbound", "syntax", "prepare"), ("rebind", "syntax", "prepare"), ("aggwhere", "syntax", "prepare"),
  ("afterreturn", "syntax", "prepare"), ("unioncols", "syntax", "prepare"), ("nofunc", "syntax", "prepare"),
  ("noproc", "execution", "execute"), ("tobool", "execution", "execute"), ("parsedate", "none", "none"),
  ("limitneg", "syntax", "prepare"), ("delconn", "execution", "execute"), ("empty", "syntax", "prepare")]

def step (_ : Unit) (ws : List String) : Unit × String × String × String :=
  match ws with
  | "cls" :: toks =>
    let (explain, body) := match toks with | "ex" :: r => (true, r) | r => (false, r)
    match parseQ 200 body with
    | some (q, []) =>
      -- capi: EXPLAIN is answered before parsing (`write_query_contains_write` returns false)
      let write := !explain && queryContainsWrite q
      let updating := !explain && queryUpdates q
      -- the plan classifier must agree whenever the compile model produces a plan
      let planOk := match compileQuery q none with
        | some p => planContainsWrite p == queryContainsWrite q
        | none => true
      let line (w : Bool) : String := if w then "ref acc eq eq" else "acc ref eq eq"
      ((), if planOk then line write else "plan-classifier-disagrees", line updating, "")
    | _ => ((), "bad-op", "-", "")
  | "val" :: toks =>
    match parseV 200 toks with
    | some (v, []) => let (m, s, t) := valLine v; ((), m, s, t)
    | _ => ((), "bad-op", "-", "")
  | ["prop", tok] =>
    let v : Option Value := match tok.toList with
      | 'b' :: ds => (String.ofList ds).toNat?.map (fun n => Value.blob (List.replicate n 0))
      | 'B' :: ds => (String.ofList ds).toNat?.map (fun n => Value.blob (List.replicate n 1))
      | 'd' :: ds => (parseInt? (String.ofList ds)).map Value.datetime
      | 'F' :: hs => (parseHexNat? (String.ofList hs)).map Value.float
      | 'i' :: ds => (parseInt? (String.ofList ds)).map Value.int
      | _ => none
    match v with
    | some v => let (m, s, t) := valLine v; ((), m, s, t)
    | none => ((), "bad-op", "-", "")
  | ["wr", _, _] =>
    -- `ndb_execute_write` commits whenever the statement succeeded (`Generated.capiAutoCommitUnconditional`,
    -- Props.C34.autocommit_persists_staged), as the Rust path does: same outcome, same database afterwards
    ((), "eq eq", "eq eq", "")
  | ["het", _, _] =>
    -- every row is converted on its own (`Generated.capiReifiesPerRow`): what one row holds cannot change how another
    -- row's values come out, so the C rows equal the Rust rows whatever the mix of plain and graph values
    ((), "eq", "eq", "")
  | ["errc", code] =>
    match errTable.lookup code with
    | some (cat, phase) =>
      let want := if phase == "prepare" then "syntax prepare" else if phase == "execute" then "execution execute" else "none none"
      let m := cat ++ " " ++ phase
      ((), m, want, if m == want then "" else "C34-error-category-by-substring")
    | none => ((), "bad-op", "-", "")
  | _ => ((), "bad-op", "-", "")

def stream : Stream := { σ := Unit, init := (), step := step }

end Nervus.Driver.CapixStream
