import Nervus.Driver.Util
import Nervus.Driver.OKey
import Nervus.Spec.IndexFree
namespace Nervus.Driver.IndexStream
open Nervus Nervus.OKey Nervus.Index Nervus.Driver

/-- label / key tokens are short ASCII names; they travel as base-256 numbers (order preserving for
    names of equal length, which is all the `BTreeMap<String,_>` order of property keys needs here) -/
def nameNat (s : String) : Nat := s.toList.foldl (fun acc c => acc * 256 + c.toNat) 0

structure St where
  /-- model state of the database that receives the `index` ops -/
  w : State
  /-- model state of the database without any index -/
  wo : State
  staged : List TxOp
  /-- history so far (committed ops), for the trigger predicates -/
  hist : List Op

def St.init : St := ⟨State.init, State.init, [], []⟩

def showRows (l : List Nat) : String :=
  if l.isEmpty then "-" else ",".intercalate (l.map toString)

def parseProps (s : String) : Option (List (Key × OV)) :=
  (s.splitOn ",").mapM fun part =>
    match part.splitOn "=" with
    | [k, v] => (OKeyStream.parseOV v).map fun ov => (nameNat k, ov)
    | _ => none

def sortProps (ps : List (Key × OV)) : List (Key × OV) :=
  ps.foldr (fun a acc =>
    let rec ins : List (Key × OV) → List (Key × OV)
      | [] => [a]
      | b :: bs => if a.1 ≤ b.1 then a :: b :: bs else b :: ins bs
    ins acc) []

def cfg : Cfg := Cfg.current

/-- value of the growth profiles (`bulk_val` in harness/src/streams/index.rs): "k<j>" ++ 'x' × pad -/
def bulkVal (j pad : Nat) : OV :=
  .str ((("k" ++ toString j).toList.map fun c => UInt8.ofNat c.toNat) ++ List.replicate pad 0x78)

def stageAll (st : St) (ops : List TxOp) : St × String × String × String :=
  ({ st with staged := st.staged ++ ops }, "ok", "-", "")

def runQuery (st : St) (q : Query) : St × String × String × String :=
  let rw := queryRows cfg st.w q
  let rwo := queryRows cfg st.wo q
  let obs := if rw == rwo then "same" else "diff"
  let m := obs ++ " | w=" ++ showRows rw ++ " wo=" ++ showRows rwo ++ " " ++
    (if usesIndex st.w q then "seek" else "scan")
  -- the spec speaks about well-formed histories only (ill-formed shrinks are not failures)
  (st, m, if WF st.hist then "same" else "-", " ".intercalate (triggerIds cfg st.hist q))

def stage (st : St) (op : TxOp) : St × String × String × String :=
  ({ st with staged := st.staged ++ [op] }, "ok", "-", "")

def apply (st : St) (op : Op) : St :=
  let w := step cfg st.w op
  let wo := match op with
    | .index _ _ => st.wo
    | _ => step cfg st.wo op
  { st with w := w, wo := wo, hist := st.hist ++ [op] }

def step (st : St) (ws : List String) : St × String × String × String :=
  match ws with
  | ["node", l] => stage st (.node (if l == "-" then none else some (nameNat l)))
  | ["label+", n, l] =>
    match n.toNat? with
    | some n => stage st (.labelAdd n (nameNat l))
    | none => (st, "bad-op", "-", "")
  | ["label-", n, l] =>
    match n.toNat? with
    | some n => stage st (.labelDel n (nameNat l))
    | none => (st, "bad-op", "-", "")
  | ["set", n, k, v] =>
    match n.toNat?, OKeyStream.parseOV v with
    | some n, some v => stage st (.set n (nameNat k) v)
    | _, _ => (st, "bad-op", "-", "")
  | ["rem", n, k] =>
    match n.toNat? with
    | some n => stage st (.rem n (nameNat k))
    | none => (st, "bad-op", "-", "")
  | ["del", n] =>
    match n.toNat? with
    | some n => stage st (.del n)
    | none => (st, "bad-op", "-", "")
  | ["commit"] =>
    let st' := apply { st with staged := [] } (.commit st.staged)
    (st', "ok", "-", "")
  | ["index", l, k] => (apply st (.index (nameNat l) (nameNat k)), "ok", "-", "")
  | ["compact"] => (apply st .compact, "ok", "-", "")
  | ["reopen"] => (apply st (.reopen true), "ok", "-", "")
  | ["reopen!"] => (apply st (.reopen false), "ok", "-", "")
  | ["q", _form, labels, props] =>
    match parseProps props with
    | none => (st, "bad-op", "-", "")
    | some ps =>
      let ls := if labels == "-" then [] else (labels.splitOn ":").map nameNat
      runQuery st ⟨ls, sortProps ps⟩
  | ["bulknode", first, count, l, k, m, pad] =>
    match first.toNat?, count.toNat?, m.toNat?, pad.toNat? with
    | some first, some count, some m, some pad =>
      stageAll st ((List.range count).flatMap fun j =>
        [.node (some (nameNat l)), .set (first + j) (nameNat k) (bulkVal ((first + j) % (max m 1)) pad)])
    | _, _, _, _ => (st, "bad-op", "-", "")
  | ["bulkset", first, count, k, m, shift, pad] =>
    match first.toNat?, count.toNat?, m.toNat?, shift.toNat?, pad.toNat? with
    | some first, some count, some m, some shift, some pad =>
      stageAll st ((List.range count).map fun j =>
        .set (first + j) (nameNat k) (bulkVal ((first + j + shift) % (max m 1)) pad))
    | _, _, _, _, _ => (st, "bad-op", "-", "")
  | ["bulkrem", first, count, stp, k] =>
    match first.toNat?, count.toNat?, stp.toNat? with
    | some first, some count, some stp =>
      stageAll st ((List.range count).map fun j => .rem (first + j * stp) (nameNat k))
    | _, _, _ => (st, "bad-op", "-", "")
  | ["bq", _form, l, k, j, pad] =>
    match j.toNat?, pad.toNat? with
    | some j, some pad => runQuery st ⟨[nameNat l], [(nameNat k, bulkVal j pad)]⟩
    | _, _ => (st, "bad-op", "-", "")
  | _ => (st, "bad-op", "-", "")

def stream : Stream := { σ := St, init := St.init, step := step }

end Nervus.Driver.IndexStream
