/-
  `walframe` stream (C17): the real `Wal` / `GraphEngine::open` on a temp dir against Model.WalFrame.
    wopen | wappend <record> | wclose          Wal::open / append(+fsync) / drop
    tail <hex> | chop <k> | flipend <k> <bit>  raw damage at the end of the file (handle closed)
    read                                       Wal::replay_committed_from_path   obs: ok <n> <txids> | err <class>
    wlen                                       detail: <len>:<crc32 of the file>
    eopen | ecommit <ext> | ebig <ext> <size> | eclose    GraphEngine::open, one-node transactions, drop
  model-out = Model with `Cfg.current`; spec-out = the ideal log of Spec.TxLog run on the same operations.
-/
import Nervus.Driver.CodecTok
import Nervus.Spec.TxLog
namespace Nervus.Driver.WalFrameStream
open Nervus Nervus.PropVal Nervus.WalRec Nervus.WalFrame Nervus.Driver Nervus.Driver.Tok

/-- one side (model or ideal) of the simulation -/
structure Side where
  file : Bytes := []
  handle : Bool := false
  /-- engine open: `next_txid` -/
  eng : Option Nat := none
  /-- nodes in the persisted id map (`idmap.next_internal_id()`) -/
  nodes : Nat := 0
  deriving Inhabited

structure St where
  m : Side := {}
  s : Side := {}
  deriving Inhabited

def showRErr : RErr → String
  | .tooLarge _ => "toolarge"
  | .decode _ => "walproto"
  | .fuel => "FUEL"

def showOErr : OErr → String
  | .read e => showRErr e
  | .proto _ => "walproto"

def showAErr : AErr → String
  | .enc (.proto _) => "walproto"
  | .enc .tooLarge => "toolarge"
  | .enc .panic => "PANIC"
  | .tooLarge => "toolarge"

def showTxs (txs : List Tx) : String :=
  let ids := if txs.isEmpty then "-" else ",".intercalate (txs.map fun t => toString t.txid)
  s!"ok {txs.length} {ids}"

def detailTxs (txs : List Tx) : String :=
  " ".intercalate (txs.map fun t => toString t.txid ++ "=" ++ ";".intercalate (t.ops.map showRec))

def maxTxid (txs : List Tx) : Nat := txs.foldl (fun a t => max a t.txid) 0

def idealCfg : WalFrame.Cfg := WalFrame.Cfg.ideal WalRec.Cfg.current WalFrame.Cfg.current.maxLen

/-- raw damage, identical on both sides -/
def damage (ws : List String) (f : Bytes) : Option Bytes :=
  match ws with
  | ["tail", h] => (bytesOfHex h).map (f ++ ·)
  | ["chop", k] => k.toNat?.map fun k => f.take (f.length - k)
  | ["flipend", k, b] =>
    match k.toNat?, b.toNat? with
    | some k, some b =>
      if k < f.length then
        let i := f.length - 1 - k
        some (f.set i ((f.getD i 0) ^^^ (UInt8.ofNat (2 ^ (b % 8)))))
      else some f
    | _, _ => none
  | _ => none

/-- append a list of records through `Wal::append`; stops at the first failure (the earlier frames stay) -/
def appendAll (cfg : WalFrame.Cfg) (f : Bytes) : List Rec → Bytes × Option AErr
  | [] => (f, none)
  | r :: rs =>
    match append cfg f r with
    | .ok f' => appendAll cfg f' rs
    | .error e => (f, some e)

/-- one operation on one side; returns the new side and the output line -/
def run (cfg : WalFrame.Cfg) (ideal : Bool) (sd : Side) (ws : List String) : Side × String :=
  match ws with
  | ["wopen"] =>
    match walOpen cfg sd.file with
    | .ok f => ({ sd with file := f, handle := true }, s!"ok | {f.length}")
    | .error e => (sd, "err " ++ showOErr e)
  | ["wappend", tok] =>
    match parseRec tok with
    | none => (sd, "bad-op")
    | some r =>
      if !sd.handle then (sd, "bad-op") else
      match append cfg sd.file r with
      | .ok f => ({ sd with file := f }, s!"ok | {sd.file.length}")
      | .error e => (sd, "err | " ++ showAErr e)
  | ["wclose"] => ({ sd with handle := false }, "ok")
  | ["read"] =>
    if ideal then
      (sd, showTxs (specTxs (completeFrames cfg.codec cfg.maxLen sd.file).1))
    else
      match recover cfg sd.file with
      | .ok txs => (sd, if txs.isEmpty then showTxs txs else showTxs txs ++ " | " ++ detailTxs txs)
      | .error e => (sd, "err " ++ showOErr e)
  | ["wlen"] => (sd, s!"ok | {sd.file.length}:" ++ hexOfBytes (beBytes 4 (crc32 sd.file)))
  | ["eopen"] =>
    match engineOpen cfg sd.file with
    | .ok (f, txs) => ({ sd with file := f, eng := some (max (maxTxid txs + 1) 1) }, "ok")
    | .error e =>
      if ideal then
        -- the ideal log opens whatever the tail is; protocol junk inside complete frames is skipped
        let f := match walOpen cfg sd.file with
          | .ok f => f
          | .error _ => sd.file
        let txs := specTxs (completeFrames cfg.codec cfg.maxLen f).1
        ({ sd with file := f, eng := some (max (maxTxid txs + 1) 1) }, "ok")
      else (sd, "err " ++ showOErr e)
  | ["eclose"] => ({ sd with eng := none }, "ok")
  | "ecommit" :: ext :: rest =>
    match sd.eng, ext.toNat? with
    | some txid, some ext =>
      let prop : List Rec := match rest with
        | [size] => match size.toNat? with
          | some n => [.setNodeProperty sd.nodes [0x6b] (.str (List.replicate n 0x61))]
          | none => []
        | _ => []
      let recs : List Rec := [.beginTx txid, .createNode ext 0 sd.nodes] ++ prop ++ [.commitTx txid]
      match appendAll cfg sd.file recs with
      | (f, none) => ({ sd with file := f, eng := some (txid + 2), nodes := sd.nodes + 1 }, s!"ok | {sd.nodes}")
      | (f, some e) => ({ sd with file := f, eng := some (txid + 1) }, "err | " ++ showAErr e)
    | _, _ => (sd, "err | noengine")
  | _ =>
    match damage ws sd.file with
    | some f => if sd.handle || sd.eng.isSome then (sd, "bad-op") else ({ sd with file := f }, "ok")
    | none => (sd, "bad-op")

def obsOf (line : String) : String := ((line.splitOn " | ").headD "").trimAscii.toString

def step (st : St) (ws : List String) : St × String × String × String :=
  let (m', mo) := run WalFrame.Cfg.current false st.m ws
  let (s', so) := run idealCfg true st.s ws
  let specOut :=
    match ws with
    | ["wlen"] => "-"
    | ["wclose"] => "-"
    | ["eclose"] => "-"
    | "tail" :: _ => "-"
    | "chop" :: _ => "-"
    | "flipend" :: _ => "-"
    | _ => if so == "bad-op" then "-" else obsOf so
  -- known finding: the complete valid frames of the file violate the transaction protocol
  let trig :=
    if ProtoOk (completeFrames idealCfg.codec idealCfg.maxLen st.s.file).1 then ""
    else "C17-crc-valid-protocol-violating-frames"
  ({ m := m', s := s' }, mo, specOut, trig)

def stream : Stream := { σ := St, init := {}, step := step }

end Nervus.Driver.WalFrameStream
