/-
  `walframe` stream (C17): the real `Wal` / `GraphEngine::open` on a temp dir against Model.WalFrame.
    wopen | wappend <record> | wclose          Wal::open / append(+fsync) / drop
    tail <hex> | chop <k> | flipend <k> <bit>  raw damage at the end of the file (handle closed)
    flipat <pos> <bit> | zeroat <pos> <len>     raw damage anywhere in the file (valid frames may follow it)
    read                                       Wal::replay_committed_from_path   obs: ok <n> <txids> | err <class>
    wlen                                       detail: <len>:<crc32 of the file>
    eopen | ecommit <ext> [<size>|<value>] | eclose       GraphEngine::open, one-node transactions (+ property k), drop
  model-out = Model with `Cfg.current`; spec-out = the ideal log of Spec.TxLog run on the same operations.
-/
import Nervus.Driver.CodecTok
import Nervus.Spec.TxLog
namespace Nervus.Driver.WalFrameStream
open Nervus Nervus.PropVal Nervus.WalRec Nervus.WalFrame Nervus.Driver Nervus.Driver.Tok

/-- one side (model or ideal) of the simulation -/
structure Side where
  file : Bytes := []
  /-- `Wal` handle open: its `tail_checked` flag -/
  handle : Option Bool := none
  /-- engine open: `next_txid` and the `tail_checked` flag of the engine's `Wal` -/
  eng : Option (Nat × Bool) := none
  /-- nodes in the persisted id map (`idmap.next_internal_id()`) -/
  nodes : Nat := 0
  deriving Inhabited

structure St where
  m : Side := {}
  s : Side := {}
  deriving Inhabited

def showRErr : RErr → String
  | .tooLarge _ => "toolarge"
  | .decode _ => "walproto"
  | .fuel => "FUEL"

def showOErr : OErr → String
  | .read e => showRErr e
  | .proto _ => "walproto"

def showAErr : AErr → String
  | .enc (.proto _) => "walproto"
  | .enc .tooLarge => "toolarge"
  | .enc .panic => "PANIC"
  | .tooLarge => "toolarge"
  | .scan e => showRErr e

/-- obs of `read`: the committed transactions in file order, each with exactly its operations:
    `ok <n> <txid=rec;rec|txid=…>` (`-` if none) -/
def showTxs (txs : List Tx) : String :=
  let body := if txs.isEmpty then "-" else
    "|".intercalate (txs.map fun t => toString t.txid ++ "=" ++ ";".intercalate (t.ops.map showRec))
  -- `/` separates alternatives in a spec field: records are rendered with `~` here
  s!"ok {txs.length} {body.replace "/" "~"}"

def maxTxid (txs : List Tx) : Nat := txs.foldl (fun a t => max a t.txid) 0

def idealCfg : WalFrame.Cfg := WalFrame.Cfg.ideal WalRec.Cfg.current WalFrame.Cfg.current.maxLen

/-- raw damage, identical on both sides -/
def damage (ws : List String) (f : Bytes) : Option Bytes :=
  match ws with
  | ["tail", h] => (bytesOfHex h).map (f ++ ·)
  | ["chop", k] => k.toNat?.map fun k => f.take (f.length - k)
  | ["flipend", k, b] =>
    match k.toNat?, b.toNat? with
    | some k, some b =>
      if k < f.length then
        let i := f.length - 1 - k
        some (f.set i ((f.getD i 0) ^^^ (UInt8.ofNat (2 ^ (b % 8)))))
      else some f
    | _, _ => none
  | ["flipat", p, b] =>
    match p.toNat?, b.toNat? with
    | some i, some b =>
      if i < f.length then some (f.set i ((f.getD i 0) ^^^ (UInt8.ofNat (2 ^ (b % 8))))) else some f
    | _, _ => none
  | ["zeroat", p, n] =>
    match p.toNat?, n.toNat? with
    | some i, some n =>
      some (f.take i ++ List.replicate (min n (f.length - i)) 0 ++ f.drop (i + n))
    | _, _ => none
  | _ => none

/-- append a list of records through `Wal::append`; stops at the first failure (the earlier frames stay) -/
def appendAll (cfg : WalFrame.Cfg) (h : Handle) : List Rec → Handle × Option AErr
  | [] => (h, none)
  | r :: rs =>
    match append cfg h r with
    | .ok h' => appendAll cfg h' rs
    | .error e => (h, some e)

/-- one operation on one side; returns the new side and the output line -/
def run (cfg : WalFrame.Cfg) (ideal : Bool) (sd : Side) (ws : List String) : Side × String :=
  if (ws == ["wopen"] || ws == ["eopen"]) && (sd.handle.isSome || sd.eng.isSome) then (sd, "bad-op") else
  match ws with
  | ["wopen"] =>
    let h := walOpen sd.file
    ({ sd with handle := some h.tailChecked }, s!"ok | {sd.file.length}")
  | ["wappend", tok] =>
    match parseRec tok, sd.handle with
    | some r, some tc =>
      match append cfg ⟨sd.file, tc⟩ r with
      | .ok h =>
        -- `offset = file.metadata()?.len()` is taken after the tail check
        let flen := match encodeBody cfg.codec r with
          | .ok b => 8 + b.length
          | .error _ => 0
        ({ sd with file := h.file, handle := some h.tailChecked }, s!"ok | {h.file.length - flen}")
      | .error e => (sd, "err | " ++ showAErr e)
    | _, _ => (sd, "bad-op")
  | ["wclose"] => ({ sd with handle := none }, "ok")
  | ["read"] =>
    if ideal then
      (sd, showTxs (specTxs (completeFrames cfg.codec cfg.maxLen sd.file).1))
    else
      match recover cfg sd.file with
      | .ok txs => (sd, showTxs txs)
      | .error e => (sd, "err " ++ showOErr e)
  | ["wlen"] => (sd, s!"ok | {sd.file.length}:" ++ hexOfBytes (beBytes 4 (crc32 sd.file)))
  | ["eopen"] =>
    match engineOpen cfg sd.file with
    | .ok (h, txs) => ({ sd with eng := some (max (maxTxid txs + 1) 1, h.tailChecked) }, "ok")
    | .error e =>
      if ideal then
        -- the ideal log opens whatever the tail is; protocol junk inside complete frames is skipped
        let txs := specTxs (completeFrames cfg.codec cfg.maxLen sd.file).1
        ({ sd with eng := some (max (maxTxid txs + 1) 1, false) }, "ok")
      else (sd, "err " ++ showOErr e)
  | ["eclose"] => ({ sd with eng := none }, "ok")
  | ["eprops"] =>
    -- property `k` of the internal nodes 0..5 as the open engine sees them: what the committed transactions of
    -- the log (plus this session's commits, which are in the file as well) set, last write wins
    if sd.eng.isNone then (sd, "err | noengine") else
    let txs := if ideal then specTxs (completeFrames cfg.codec cfg.maxLen sd.file).1 else
      match recover cfg sd.file with
      | .ok t => t
      | .error _ => []
    let sets : List (Nat × PV) := txs.flatMap fun t => t.ops.filterMap fun r =>
      match r with
      | .setNodeProperty n k v => if k = [0x6b] then some (n, v) else none
      | _ => none
    let val (i : Nat) : String := match (sets.reverse.find? (·.1 = i)) with
      | some (_, v) => showV v
      | none => "-"
    (sd, "ok " ++ "|".intercalate ((List.range 6).map val))
  | "ecommit" :: ext :: rest =>
    match sd.eng, ext.toNat? with
    | some (txid, tc), some ext =>
      -- optional property `k`: a number = a string of that many `a`s, otherwise a value token
      let prop : List Rec := match rest with
        | [tok] => match tok.toNat? with
          | some n => [.setNodeProperty sd.nodes [0x6b] (.str (List.replicate n 0x61))]
          | none => match parseVal tok with
            | some v => [.setNodeProperty sd.nodes [0x6b] v]
            | none => []
        | _ => []
      let recs : List Rec := [.beginTx txid, .createNode ext 0 sd.nodes] ++ prop ++ [.commitTx txid]
      match appendAll cfg ⟨sd.file, tc⟩ recs with
      | (h, none) => ({ sd with file := h.file, eng := some (txid + 2, h.tailChecked), nodes := sd.nodes + 1 }, s!"ok | {sd.nodes}")
      | (h, some e) => ({ sd with file := h.file, eng := some (txid + 1, h.tailChecked) }, "err | " ++ showAErr e)
    | _, _ => (sd, "err | noengine")
  | _ =>
    match damage ws sd.file with
    | some f => if sd.handle.isSome || sd.eng.isSome then (sd, "bad-op") else ({ sd with file := f }, "ok")
    | none => (sd, "bad-op")

def obsOf (line : String) : String := ((line.splitOn " | ").headD "").trimAscii.toString

def step (st : St) (ws : List String) : St × String × String × String :=
  let (m', mo) := run WalFrame.Cfg.current false st.m ws
  let (s', so) := run idealCfg true st.s ws
  let specOut :=
    match ws with
    | ["wlen"] => "-"
    | ["wclose"] => "-"
    | ["eclose"] => "-"
    | "tail" :: _ => "-"
    | "chop" :: _ => "-"
    | "flipend" :: _ => "-"
    | "flipat" :: _ => "-"
    | "zeroat" :: _ => "-"
    | _ => if so == "bad-op" then "-" else obsOf so
  -- known finding: the complete valid frames of the file violate the transaction protocol
  let trig :=
    if ProtoOk (completeFrames idealCfg.codec idealCfg.maxLen st.s.file).1 then ""
    else "C17-crc-valid-protocol-violating-frames"
  ({ m := m', s := s' }, mo, specOut, trig)

def stream : Stream := { σ := St, init := {}, step := step }

end Nervus.Driver.WalFrameStream
