/-
  Driver for the `agg` stream (C21): `Nervus.Model.Agg` on `agg` / `group` lines
  (see harness/src/streams/agg.rs).
-/
import Nervus.Driver.VTok
import Nervus.Model.Agg
import Nervus.Spec.CypherValue
import Nervus.Spec.Findings
namespace Nervus.Driver.AggStream
open Nervus Nervus.Eval Nervus.Driver Nervus.Driver.VTok

def ruleObs (z : Int) : String :=
  if Spec.i64Min ≤ z ∧ z ≤ Spec.i64Max then s!"int {z}" else "float *"

def isNum : Value → Bool
  | .int _ | .float _ => true
  | _ => false

def isInt : Value → Bool
  | .int _ => true
  | _ => false

def intMin (xs : List Int) : Int := xs.foldl (fun m x => if x < m then x else m) (xs.headD 0)
def intMax (xs : List Int) : Int := xs.foldl (fun m x => if x > m then x else m) (xs.headD 0)

/-- the model's result of aggregate `fn` on the group's values -/
def evalAgg (E : Env) (fn : String) (vs : List Value) : Option Value :=
  match fn with
  | "count*" => some (Agg.countStar vs)
  | "count" => some (Agg.count vs)
  | "sum" => some (Agg.sum E.F vs)
  | "avg" => some (Agg.avg E.F vs)
  | "min" => some (Agg.min E vs)
  | "max" => some (Agg.max E vs)
  | "collect" => some (Agg.collect vs)
  | "countd" => some (Agg.countDistinct vs)
  | "sumd" => some (Agg.sumDistinct E.F vs)
  | "avgd" => some (Agg.avgDistinct E.F vs)
  | "mind" => some (Agg.minDistinct E vs)
  | "maxd" => some (Agg.maxDistinct E vs)
  | "collectd" => some (Agg.collectDistinct vs)
  | _ => none

/-- min / max by the Spec: when the Spec orders every pair of the group's values (numbers, booleans, strings —
    same-kind temporal strings chronologically —, different kinds) and that order is a total preorder on them, the
    result is the fold of the group with it: the first least / the last greatest element (`min_by` / `max_by`) -/
def specExtreme (E : Env) (isMin : Bool) (xs : List Value) : String :=
  if xs.isEmpty then "null -" else
  let total := xs.all fun a => xs.all fun b => (Spec.orderOpinion E a b).isSome
  let c (a b : Value) : Ordering := (Spec.orderOpinion E a b).getD .eq
  let pre := xs.all fun a => xs.all fun b =>
    c a b == (c b a).swap && xs.all fun d => !(c a b != .gt && c b d != .gt && c a d == .gt)
  if total && pre then
    obsValue (((if isMin then Agg.minBy c xs else Agg.maxBy c xs)).getD .null)
  else "-"

/-- what the definitions demand, as an observation pattern (`-`: no opinion) -/
def specAgg (E : Env) (fn : String) (vs : List Value) : String :=
  let nn := Spec.nonNull vs
  let distinct := fn.endsWith "d"
  let xs := if distinct then Spec.distinctReps nn else nn
  match fn with
  | "count*" => s!"int {vs.length}"
  | "count" | "countd" => s!"int {xs.length}"
  | "collect" | "collectd" => obsValue (.list xs)
  | "sum" | "sumd" =>
    if xs.all isInt then ruleObs (Spec.intSum xs)
    else if xs.all isNum then "float *" else "-"
  | "avg" | "avgd" =>
    if !xs.all isNum then "-" else if xs.isEmpty then "null -" else "float *"
  | "min" | "mind" => specExtreme E true xs
  | "max" | "maxd" => specExtreme E false xs
  | _ => "-"

def step (_ : Unit) (ws : List String) : Unit × String × String × String :=
  match ws with
  | "agg" :: fn :: rest =>
    let (toks, oracle) := splitOracle rest
    match toks.mapM parseValue with
    | some vs =>
      let E := mkEnv oracle
      match evalAgg E fn vs with
      | some r => ((), obsValue r, specAgg E fn vs, "")
      | none => ((), "bad-op", "-", "")
    | none => ((), "bad-op", "-", "")
  | "group" :: rest =>
    let (toks, _) := splitOracle rest
    match toks.mapM parseValue with
    | some vs =>
      let groups := Agg.groupRows false (vs.map fun v => ([v], ()))
      let items := groups.map fun (k, rs) => showValue true (k.headD .null) ++ ":" ++ s!"i{rs.length}"
      let sorted := (items.toArray.qsort (· < ·)).toList
      let m := s!"{groups.length} | " ++ (if sorted.isEmpty then "-" else " ".intercalate sorted)
      ((), m, s!"{(Spec.distinctReps vs).length}", "")
    | none => ((), "bad-op", "-", "")
  | _ => ((), "bad-op", "-", "")

def stream : Stream := { σ := Unit, init := (), step := step }

end Nervus.Driver.AggStream
