/-
  Driver/Bulk.lean — line-protocol driver of the `bulk` stream (C30): model-out = the model of
  BulkLoader::commit + GraphEngine::open, spec-out = the dump of the model engine that loaded the same
  data through one write transaction (`bulk = tx`).  core/Std imports only.
-/
import Nervus.Driver.Engine
import Nervus.Model.Bulk
namespace Nervus.Driver.BulkStream
open Nervus Nervus.Driver Nervus.Storage Nervus.Driver.EngineStream

structure St where
  nodes : List BulkNode := []
  edges : List BulkEdge := []
  eng : Option Engine := none
  bulkLoaded : Bool := false

def parseProps (s : String) : Option (List (Nat × Nat)) :=
  if s == "-" then some []
  else (s.splitOn ",").mapM (fun kv =>
    match kv.splitOn "=" with
    | [k, v] => some (encodeTok k, encodeTok v)
    | _ => none)

def txEngine (st : St) : Option Engine :=
  match Storage.run Cfg.current [.tx (txLoad st.nodes st.edges) true] with
  | .ok s => some s
  | .error _ => none

def step (st : St) (ws0 : List String) : St × String × String × String :=
  let ws := stripTag ws0
  match ws with
  | ["bnode", x, label, props] =>
    match x.toNat?, parseProps props with
    | some x, some p => ({ st with nodes := st.nodes ++ [⟨x, encodeTok label, p⟩] }, "ok", "-", "")
    | _, _ => (st, "bad-op", "-", "")
  | ["bedge", s, rel, d, props] =>
    match s.toNat?, d.toNat?, parseProps props with
    | some s, some d, some p => ({ st with edges := st.edges ++ [⟨s, encodeTok rel, d, p⟩] }, "ok", "-", "")
    | _, _, _ => (st, "bad-op", "-", "")
  | ["bulkload"] =>
    match bulkLoad st.nodes st.edges with
    | none => ({ st with eng := none, bulkLoaded := false }, "err", "-", "")
    | some d =>
      match Engine.open d with
      | .ok e => ({ st with eng := some e, bulkLoaded := true }, "ok", "-", "")
      | .error _ => ({ st with eng := none, bulkLoaded := false }, "openerr", "-", "")
  | ["txload"] =>
    if !bulkValid st.nodes st.edges then ({ st with eng := none, bulkLoaded := false }, "invalid", "-", "")
    else match txEngine st with
      | some e => ({ st with eng := some e, bulkLoaded := false }, "ok", "-", "")
      | none => ({ st with eng := none, bulkLoaded := false }, "err", "-", "")
  | ["dump"] =>
    match st.eng with
    | none => (st, "noengine", "-", "")
    | some e =>
      let (_, full) := modelDump Cfg.current e
      if st.bulkLoaded then
        let spec := match txEngine st with
          | some t => (modelDump Cfg.current t).1
          | none => "-"
        (st, full, spec, if bulkDupEdgeKey st.edges then "C30-parallel-edges-same-property-key" else "")
      else (st, full, "-", "")
  | _ => (st, "bad-op", "-", "")

def stream : Stream := { σ := St, init := {}, step := step }

end Nervus.Driver.BulkStream
