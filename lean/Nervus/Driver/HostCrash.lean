import Nervus.Driver.Util
import Nervus.Model.Depth
/-! crash stream (C16): the Lean side of harness/src/streams/crash.rs.  The model's only prediction is about nesting:
    without a depth limit, nesting far beyond what any stack holds aborts the process. -/
namespace Nervus.Driver.HostCrashStream
open Nervus Nervus.Depth Nervus.Driver

def kinds : List String := ["paren", "list", "not", "neg", "plus", "and", "prop", "fn", "case", "sub", "foreach"]

/-- depth of whichever recursion the kind drives (parser recursion or walks over the AST), in levels -/
def levels (kind : String) (n : Nat) : Nat :=
  match kind with
  | "plus" | "and" => astDepth (chain n)
  | "prop" => astDepth (accesses n)
  | "not" | "neg" => parserDepth (prefixes n)
  | _ => parserDepth (nest n)

/-- an 8 MiB stack cannot hold 20 000 frames of these recursions (measured: the smallest frames are > 400 bytes);
    depths between 1 000 and 20 000 are not generated because the outcome depends on the build profile -/
def overflows (kind : String) (n : Nat) : Bool :=
  match Generated.parserDepthLimit with
  | some _ => false
  | none => decide (20000 ≤ levels kind n)

def step (_ : Unit) (ws : List String) : Unit × String × String × String :=
  match ws with
  | ["deep", kind, n, _mode] =>
    match n.toNat? with
    | some n =>
      if !kinds.contains kind then ((), "bad-op", "-", "") else
      if overflows kind n then ((), "ABORT 6", "ok", "C16-unbounded-recursion-depth")
      else ((), "ok | rows", "ok", "")
    | none => ((), "bad-op", "-", "")
  | ["mut", _, _] => ((), "ok", "ok", "")
  | ["tmo", _, _, _] => ((), "ok", "ok", "")
  | ["sweep", _, _, arity] =>
    -- boundary sweep: every argument tuple gives a value or an error; the line also says how many tuples ran
    -- (pool sizes of harness/src/streams/hostsweep.rs: POOL = 37, POOL3 = 10)
    match arity.toNat? with
    | some 1 => ((), "ok | 37", "ok", "")
    | some 2 => ((), "ok | 1369", "ok", "")
    | some 3 => ((), "ok | 13690", "ok", "")
    | _ => ((), "bad-op", "-", "")
  | _ => ((), "bad-op", "-", "")

def stream : Stream := { σ := Unit, init := (), step := step }

end Nervus.Driver.HostCrashStream
