/-
  Driver for the `update` stream (C12).  State = the MODEL's committed graph (which tracks the real database).
  `update` line: model-out = `ok <reported count>` of Update.step, spec-out = `ok <Counts.total>` of Spec.apply on
  the same pre-state.  `dump` line: model-out = dump of the model graph, spec-out = dump of the graph the
  reference semantics produces for the last statement from the same pre-state.
-/
import Nervus.Driver.Util
import Nervus.Driver.CySexp
import Nervus.Spec.UpdateSem
import Nervus.Model.QUpdate
import Nervus.Model.QAlgebra
import Nervus.Model.UFindings
namespace Nervus.Driver.UpdateStream
open Nervus Nervus.Cy Nervus.Cy.Sexp Nervus.Driver

structure St where
  nodes : List NodeRec := []
  rels : List RelRec := []
  g : Graph := ⟨[], []⟩
  next : Nat := 0
  names : List String := []
  relRun : List (RelId × Nat) := []   -- commit number of the newest run that holds a copy of the identity
  commitNo : Nat := 0
  committed : Bool := false       -- `commit` seen: the database exists (before that the runner answers bad-op)
  specG : Graph := ⟨[], []⟩        -- reference result of the last statement
  trig : List String := []         -- triggers of the last statement (repeated on its dump line)

def setItemsOf (xs : List SExp) : Option (List SetItem) :=
  xs.mapM fun
    | .list [.atom "sprop", .atom x, .atom k, e] => do return .prop x k (← exprOf e)
    | .list (.atom "smap" :: .atom x :: kvs) => do
      return .mapReplace x (← kvs.mapM fun | .list [.atom k, e] => do return (k, ← exprOf e) | _ => none)
    | .list (.atom "smerge" :: .atom x :: kvs) => do
      return .mapMerge x (← kvs.mapM fun | .list [.atom k, e] => do return (k, ← exprOf e) | _ => none)
    | .list (.atom "slabels" :: .atom x :: ls) => do
      return .labels x (← ls.mapM fun | .atom l => some l | _ => none)
    | _ => none

def uclauseOf : SExp → Option UClause
  | .list (.atom "create" :: ps) => do return .create (← ps.mapM pathOf)
  | .list (.atom "set" :: its) => do return .set (← setItemsOf its)
  | .list (.atom "remove" :: its) => do
    return .remove (← its.mapM fun
      | .list [.atom "rprop", .atom x, .atom k] => some (.prop x k)
      | .list (.atom "rlabels" :: .atom x :: ls) => do return .labels x (← ls.mapM fun | .atom l => some l | _ => none)
      | _ => none)
  | .list (.atom "delete" :: .atom d :: vs) => do
    return .delete (d == "1") (← vs.mapM fun | .atom v => some v | _ => none)
  | .list [.atom "merge", p, .list (.atom "oncreate" :: oc), .list (.atom "onmatch" :: om)] => do
    return .merge (← pathOf p) (← setItemsOf oc) (← setItemsOf om)
  | _ => none

def stmtOf : SExp → Option Stmt
  | .list [.atom "stmt", .list (.atom "reads" :: rs), .list (.atom "updates" :: us)] => do
    return ⟨← rs.mapM clauseOf, ← us.mapM uclauseOf⟩
  | _ => none

/-! ### neighbour enumeration order of the storage engine (read_path_iters.rs `NeighborsIter`, memtable.rs
    `freeze_into_run`): L0 runs newest first (`publish_run` pushes in front), inside a run the edges of a node sorted
    by `EdgeKey` = (src, rel type id, dst).  The model enumerates `g.rels` in list order, so the driver keeps that
    list in the engine's order: key (age of the newest run holding the identity, src, type id, dst).  (Copies of one
    identity that live in different runs are enumerated apart by the engine; the model keeps them together at the
    newest run — a residual approximation, only observable when such copies drive conflicting writes.) -/

def createdRels (ops : List Update.TxOp) : List RelId :=
  ops.filterMap fun | .createEdge r => some r | _ => none

def bumpRuns (relRun : List (RelId × Nat)) (run : Nat) (rs : List RelId) : List (RelId × Nat) :=
  rs.foldl (fun m r => (m.filter (·.1 != r)) ++ [(r, run)]) relRun

def lexLe : List Nat → List Nat → Bool
  | a :: as, b :: bs => a < b || (a == b && lexLe as bs)
  | _, _ => true

def idxOfName (names : List String) (t : String) : Nat :=
  match names.findIdx? (· == t) with | some i => i | none => names.length

def sortRels (names : List String) (relRun : List (RelId × Nat)) (commitNo : Nat) (rels : List RelRec) : List RelRec :=
  let key (e : RelRec) : List Nat :=
    [commitNo - ((relRun.lookup e.id).getD 0), e.id.src, idxOfName names e.id.typ, e.id.dst]
  rels.mergeSort fun a b => lexLe (key a) (key b)

def stmtsOf : SExp → Option (List Stmt)
  | .list (.atom "stmts" :: ss) => ss.mapM stmtOf
  | _ => none

def paramsOf (t : String) : Option (List (String × Val)) :=
  if t == "-" then some [] else
  (t.splitOn ",").mapM fun kv => match kv.splitOn "=" with
    | [k, v] => (valOfTok v).map fun s => (k, s.toVal)
    | _ => none

def pvText : Scalar → String
  | .null => "z" | .bool true => "bt" | .bool false => "bf" | .int i => "i" ++ toString i
  | .str s => "s:" ++ s | .node n => "?N" ++ toString n | .rel _ => "?R"

def sortStrings (xs : List String) : List String := xs.mergeSort fun a b => !(b < a)

def propsText (ps : Props) : String :=
  if ps.isEmpty then "-" else ",".intercalate (sortStrings (ps.map fun (k, v) => k ++ "=" ++ pvText v))

def natLt (a b : Nat × String) : Bool := a.1 < b.1

def dump (g : Graph) : String :=
  let nodes := (g.nodes.map fun n =>
    (n.id, toString n.id ++ ":" ++ (if n.labels.isEmpty then "-" else "+".intercalate (sortStrings n.labels.eraseDups)) ++
      ":" ++ propsText n.props)).mergeSort fun a b => a.1 ≤ b.1
  let rels := (g.rels.filter (·.mult > 0)).map fun e =>
    ((e.id.src, e.id.typ, e.id.dst), toString e.id.src ++ "-" ++ e.id.typ ++ "-" ++ toString e.id.dst ++ "*" ++
      toString e.mult ++ ":" ++ propsText e.props)
  let rels := rels.mergeSort fun a b =>
    a.1.1 < b.1.1 || (a.1.1 == b.1.1 && (a.1.2.1 < b.1.2.1 || (a.1.2.1 == b.1.2.1 && a.1.2.2 ≤ b.1.2.2)))
  "g " ++ (if nodes.isEmpty then "-" else ";".intercalate (nodes.map (·.2))) ++ " " ++
    (if rels.isEmpty then "-" else ";".intercalate (rels.map (·.2)))

def errLine (e : Err) : String := "err " ++ e.toString

def namesOfStmt (s : Stmt) : List String :=
  s.updates.flatMap fun
    | .create ps => ps.flatMap fun p => p.start.labels ++ p.steps.flatMap fun (rp, np) => rp.types ++ np.labels
    | .merge p oc om => p.start.labels ++ (p.steps.flatMap fun (rp, np) => rp.types ++ np.labels) ++
        (oc ++ om).flatMap fun | .labels _ ls => ls | _ => []
    | .set its => its.flatMap fun | .labels _ ls => ls | _ => []
    | _ => []

def stepUpdate (st : St) (ps : String) (sx : List String) : St × String × String × String :=
    if !st.committed then (st, "bad-op", "-", "") else
    match paramsOf ps, (parse (" ".intercalate sx)).bind stmtOf with
    | some params, some stmt =>
      let trig := UFindings.triggers small params st.g st.names stmt
      let (specOut, specG) := match Spec.apply small params (Update.live st.g) st.next stmt with
        | .ok (g', _, c) => ("ok " ++ toString c.total, g')
        | .error e => (errLine e, Update.live st.g)
      match Update.runStmt small params st.g st.next st.names stmt with
      | .ok (ops, created, count, names') =>
        let commitNo := st.commitNo + 1
        let relRun := bumpRuns st.relRun commitNo (createdRels ops)
        let g0 := Update.applyOps st.g ops
        let g' : Graph := { g0 with rels := sortRels names' relRun commitNo g0.rels }
        ({ st with g := g', next := st.next + created, names := names', specG, trig, relRun, commitNo },
          "ok " ++ toString count, specOut, " ".intercalate trig)
      | .error e => ({ st with specG, trig }, errLine e, specOut, " ".intercalate trig)
    | _, _ => (st, "bad-op", "-", "")

def step (st : St) (ws : List String) : St × String × String × String :=
  match ws with
  | ["n", ls, ps] =>
    match propsOfTok ps with
    | some props => ({ st with nodes := st.nodes ++ [⟨st.nodes.length, labelsOfTok ls, props⟩] }, "ok", "-", "")
    | none => (st, "bad-op", "-", "")
  | ["r", s, t, d, ps] =>
    match s.toNat?, d.toNat?, propsOfTok ps with
    | some s, some d, some props =>
      let rels := if st.rels.any (·.id == ⟨s, t, d⟩) then
          st.rels.map fun e => if e.id == ⟨s, t, d⟩ then
            { e with mult := e.mult + 1, props := props.foldl (fun ps (k, v) => Spec.setKey ps k v) e.props } else e
        else st.rels ++ [⟨⟨s, t, d⟩, 1, props⟩]
      ({ st with rels }, "ok", "-", "")
    | _, _, _ => (st, "bad-op", "-", "")
  | ["commit"] =>
    -- a relationship line naming a node that does not exist makes the runner's build fail: no database
    if st.rels.any fun e => e.id.src ≥ st.nodes.length || e.id.dst ≥ st.nodes.length then
      ({ st with committed := false }, "err", "-", "")
    else
    let ids := st.nodes.map fun n => toString n.id
    let names := (st.nodes.flatMap (·.labels) ++ st.rels.map (·.id.typ)).eraseDups
    let g : Graph := ⟨st.nodes, sortRels names [] 0 st.rels⟩
    ({ st with g, specG := g, next := st.nodes.length, names, committed := true, relRun := [], commitNo := 0 },
      "ok " ++ (if ids.isEmpty then "-" else ",".intercalate ids), "-", "")
  | ["dump"] => if st.committed then (st, dump st.g, dump st.specG, " ".intercalate st.trig) else (st, "bad-op", "-", "")
  | "updatet" :: ps :: _paths :: _texts :: sx =>
    -- several statements in one write transaction against one snapshot
    if !st.committed then (st, "bad-op", "-", "") else
    match paramsOf ps, (parse (" ".intercalate sx)).bind stmtsOf with
    | some params, some stmts =>
      let trig := (stmts.flatMap fun stmt => UFindings.triggers small params st.g st.names stmt).eraseDups
      let showCounts (cs : List Nat) : String := "ok " ++ ",".intercalate (cs.map toString)
      let (specOut, specG) := match Spec.applyTxn small params (Update.live st.g) st.next stmts with
        | .ok (g', _, cs) => (showCounts cs, g')
        | .error e => (errLine e, Update.live st.g)
      match Update.runTxn small params st.g st.next st.names stmts with
      | .ok (ops, created, counts, names') =>
        let commitNo := st.commitNo + 1
        let relRun := bumpRuns st.relRun commitNo (createdRels ops)
        let g0 := Update.applyOps st.g ops
        let g' : Graph := { g0 with rels := sortRels names' relRun commitNo g0.rels }
        ({ st with g := g', next := st.next + created, names := names', specG, trig, relRun, commitNo },
          showCounts counts, specOut, " ".intercalate trig)
      | .error e => ({ st with specG, trig }, errLine e, specOut, " ".intercalate trig)
    | _, _ => (st, "bad-op", "-", "")
  | "updatew" :: ps :: _text :: sx => stepUpdate st ps sx      -- execute_write: same stages, same calls
  | "update" :: ps :: _text :: sx => stepUpdate st ps sx
  | _ => (st, "bad-op", "-", "")

def stream : Stream := { σ := St, init := {}, step := step }

end Nervus.Driver.UpdateStream
