/-
  Driver/Cypher14.lean — line-protocol driver of the `cypher14` stream (C14).  The statements are
  instances of a few templates over node tags (property `k`); the driver models what the executor
  does for each template on top of the storage model: MATCH on the statement's snapshot, CREATE through
  the write API, DELETE through `execDelete` (safety check against the SNAPSHOT).
  spec-out of `check`: no dangling relationship.  core/Std imports only.
-/
import Nervus.Driver.Engine
import Nervus.Model.QueryDelete
namespace Nervus.Driver.Cypher14
open Nervus Nervus.Driver Nervus.Storage Nervus.Driver.EngineStream

def kCode : Nat := encodeTok "k"
def labA : Nat := encodeTok "A"
def labB : Nat := encodeTok "B"
def relR : Nat := encodeTok "R"

structure St where
  eng : Option Engine := none
  txn : Option Txn := none              -- open multi-statement transaction
  extCtr : Nat := 1000                  -- external ids are clock-based in the real code and unobservable here
  trig : Bool := false

/-- all decimal numbers in a statement, in order -/
def numbers (s : String) : List Nat :=
  let (acc, cur) := s.toList.foldl (fun (st : List Nat × Option Nat) ch =>
    if ch.isDigit then (st.1, some (st.2.getD 0 * 10 + (ch.toNat - 48)))
    else match st.2 with
      | some n => (st.1 ++ [n], none)
      | none => st) ([], none)
  match cur with
  | some n => acc ++ [n]
  | none => acc

def has (s sub : String) : Bool := (s.splitOn sub).length > 1

/-- MATCH (x {k: t}) on the snapshot: live nodes whose property k is t -/
def findTag (snap : Engine) (t : Nat) : List Nat :=
  snap.nodes.filter (fun n => snap.nodeProp n kCode == some t)

/-- CREATE of one labelled, tagged node through the write API -/
def createTagged (s : Engine) (t : Txn) (ext label tag : Nat) : Engine × Txn × Option Nat :=
  let (s1, lid) := s.getOrCreateLabel label
  match t.createNode s1 ext lid with
  | some (t1, iid) => (s1, t1.setNodeProp iid kCode tag, some iid)
  | none => (s1, t, none)

/-- one statement inside a transaction: new engine (interning), new txn, result text -/
def runStmt (c : Cfg) (s : Engine) (t : Txn) (ext : Nat) (stmt : String) : Engine × Txn × Nat × String :=
  let ns := numbers stmt
  let delResult := fun (s' : Engine) (r : DeleteResult) (t0 : Txn) (base : Nat) =>
    match r with
    | .ok t' n => (s', t', ext + 2, s!"ok {base + n}")
    | .hasRels => (s', t0, ext + 2, "err hasrels")
    | .panic => (s', t0, ext + 2, "PANIC")
  if has stmt "WITH" then
    -- CREATE (a:A {k: t1})-[:R]->(b:B {k: t2}) WITH x [DETACH] DELETE x
    match ns with
    | [t1, t2] =>
      let (s1, ta, ia) := createTagged s t ext labA t1
      let (s2, tb, ib) := createTagged s1 ta (ext + 1) labB t2
      match ia, ib with
      | some a, some b =>
        let (s3, r) := s2.getOrCreateLabel relR
        let tc := tb.createEdge ⟨a, r, b⟩
        let victim := if has stmt "DELETE a" then a else b
        -- the delete runs against the statement's snapshot `s` (the committed state)
        delResult s3 (execDelete c s tc (has stmt "DETACH") [victim] []) tc 3
      | _, _ => (s2, tb, ext + 2, "err other")
    | _ => (s, t, ext, "bad-stmt")
  else if stmt.startsWith "CREATE" then
    match ns with
    | [t1] =>
      let (s1, ta, _) := createTagged s t ext labA t1
      (s1, ta, ext + 1, "ok 1")
    | [t1, t2] =>
      let (s1, ta, ia) := createTagged s t ext labA t1
      let (s2, tb, ib) := createTagged s1 ta (ext + 1) labB t2
      match ia, ib with
      | some a, some b =>
        let (s3, r) := s2.getOrCreateLabel relR
        (s3, tb.createEdge ⟨a, r, b⟩, ext + 2, "ok 3")
      | _, _ => (s2, tb, ext + 2, "err other")
    | _ => (s, t, ext, "bad-stmt")
  else if has stmt "CREATE" then
    -- MATCH (a {k: t1}), (b {k: t2}) CREATE (a)-[:R]->(b)
    match ns with
    | [t1, t2] =>
      let pairs := (findTag s t1).flatMap (fun a => (findTag s t2).map (fun b => (a, b)))
      if pairs.isEmpty then (s, t, ext, "ok 0")
      else
        let (s1, r) := s.getOrCreateLabel relR
        (s1, pairs.foldl (fun t p => t.createEdge ⟨p.1, r, p.2⟩) t, ext, s!"ok {pairs.length}")
    | _ => (s, t, ext, "bad-stmt")
  else if has stmt "DELETE r" then
    -- MATCH (a {k: t1})-[r:R]->(b {k: t2}) DELETE r
    match ns with
    | [t1, t2] =>
      match s.interner.getId relR with
      | none => (s, t, ext, "ok 0")
      | some r =>
        let found := (findTag s t1).flatMap (fun a =>
          ((s.neighbors a (some r)).getD []).filter (fun e => s.nodeProp e.dst kCode == some t2))
        match execDelete c s t false [] (dedupE found) with
        | .ok t' n => (s, t', ext, s!"ok {n}")
        | .hasRels => (s, t, ext, "err hasrels")
        | .panic => (s, t, ext, "PANIC")
    | _ => (s, t, ext, "bad-stmt")
  else
    -- MATCH (a {k: t}) [DETACH] DELETE a
    match ns with
    | [t1] =>
      match execDelete c s t (has stmt "DETACH") (findTag s t1) [] with
      | .ok t' n => (s, t', ext, s!"ok {n}")
      | .hasRels => (s, t, ext, "err hasrels")
      | .panic => (s, t, ext, "PANIC")
    | _ => (s, t, ext, "bad-stmt")

/-- the transaction deletes a node that gained a relationship in the same transaction -/
def txTrigger (t : Txn) : Bool :=
  t.mt.edges.any (fun e => t.mt.tombNodes.contains e.src || t.mt.tombNodes.contains e.dst)

def showK (s : Engine) (n : Nat) : String :=
  match s.nodeProp n kCode with
  | some v => toString v
  | none => "null"

def checkLine (c : Cfg) (s : Engine) : String × String :=
  let live := s.nodes
  let outs := live.map (fun n => (s.neighbors n none).getD [])
  let ins := live.map (fun n => (s.incoming c n none).getD [])
  let dang := (outs.flatten.filter (fun e => !live.contains e.dst)).map (fun e => s!"o{e.src}>{e.dst}") ++
              (ins.flatten.filter (fun e => !live.contains e.src)).map (fun e => s!"i{e.src}>{e.dst}")
  let d := joinOr (sortStr (GraphSpec.dedup dang))
  let m1 := joinOr (sortStr (outs.flatten.map (fun e => s!"{showK s e.src}>{showK s e.dst}")))
  let m2 := joinOr (sortStr (ins.flatten.map (fun e => s!"{showK s e.src}>{showK s e.dst}")))
  (s!"dangling={d}", s!"dangling={d} | n={live.length} out={outs.flatten.length} in={ins.flatten.length} m1={m1} m2={m2}")

def step (st : St) (ws0 : List String) : St × String × String × String :=
  let ws := stripTag ws0
  let c := Cfg.current
  match ws with
  | ["open"] => ({ eng := some {} }, "ok", "-", "")
  | "q" :: rest =>
    match st.eng with
    | none => (st, "nodb", "-", "")
    | some s =>
      let (s0, t0) := s.beginWrite
      let (s1, t1, ext, res) := runStmt c s0 t0 st.extCtr (" ".intercalate rest)
      if res.startsWith "ok" then
        let (s2, okc) := s1.commit c t1
        ({ st with eng := some s2, txn := none, extCtr := ext, trig := st.trig || txTrigger t1 },
         if okc then res else "err commit", "-", "")
      else ({ st with eng := some s1, txn := none, extCtr := ext }, res, "-", "")
  | ["qbegin"] =>
    match st.eng with
    | none => (st, "nodb", "-", "")
    | some s => let (s0, t0) := s.beginWrite; ({ st with eng := some s0, txn := some t0 }, "ok", "-", "")
  | "qs" :: rest =>
    match st.eng, st.txn with
    | some s, some t =>
      let (s1, t1, ext, res) := runStmt c s t st.extCtr (" ".intercalate rest)
      ({ st with eng := some s1, txn := some t1, extCtr := ext }, res, "-", "")
    | _, _ => (st, "notxn", "-", "")
  | ["qcommit"] =>
    match st.eng, st.txn with
    | some s, some t =>
      let (s2, okc) := s.commit c t
      ({ st with eng := some s2, txn := none, trig := st.trig || txTrigger t }, if okc then "ok" else "err", "-", "")
    | _, _ => (st, "notxn", "-", "")
  | ["qabort"] => ({ st with txn := none }, "ok", "-", "")
  | ["compact"] =>
    match st.eng with
    | none => (st, "nodb", "-", "")
    | some s => ({ st with eng := some (s.compact c), txn := none }, "ok", "-", "")
  | ["check"] =>
    match st.eng with
    | none => (st, "nodb", "-", "")
    | some s =>
      let (_, full) := checkLine c s
      (st, full, "dangling=-", if st.trig then "C14-delete-ignores-staged-relationships" else "")
  | _ => (st, "bad-op", "-", "")

def stream : Stream := { σ := St, init := {}, step := step }

end Nervus.Driver.Cypher14
