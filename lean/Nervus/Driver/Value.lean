/-
  Driver for the `value` stream (C23): the model evaluator (`Nervus.Model.Eval`) and the Spec's
  opinion (`Nervus.Spec.CypherValue`) on `bin` / `un` / `laws` lines (see harness/src/streams/value.rs).
-/
import Nervus.Driver.VTok
import Nervus.Spec.CypherValue
import Nervus.Spec.Findings
namespace Nervus.Driver.ValueStream
open Nervus Nervus.Eval Nervus.Driver Nervus.Driver.VTok

def binOps : List (String × BinOp) := [
  ("eq", .eq), ("ne", .ne), ("and", .and), ("or", .or), ("xor", .xor), ("lt", .lt), ("le", .le),
  ("gt", .gt), ("ge", .ge), ("add", .add), ("sub", .sub), ("mul", .mul), ("div", .div), ("mod", .mod),
  ("pow", .pow), ("in", .inList), ("sw", .startsWith), ("ew", .endsWith), ("ct", .contains),
  ("isnull", .isNull), ("isnotnull", .isNotNull)]

/-! ### known-finding triggers (the predicates of `Nervus.Spec.Findings`) -/

def triggers (E : Env) (vs : List Value) : String :=
  " ".intercalate (
    -- K1: two different spellings of one temporal value (ordered equal, not `=`), or a non-transitive mix of
    -- temporal and text comparisons; same-kind temporal strings with different keys are NOT a trigger
    (if !(Spec.strEqOK E (vs.flatMap Spec.stringsOf) && Spec.strTransOn E (vs.flatMap Spec.stringsOf)) then ["C23-temporal-string-compare"] else []) ++
    -- K2: a list operand contains a map / graph id / blob …: inside lists `<` uses the ORDER BY comparator
    (if !vs.all Spec.inScope then ["C23-list-nonplain-order"] else []))

/-! ### the Spec's opinion on one operator application -/

def ruleObs (z : Int) : String :=
  if Spec.i64Min ≤ z ∧ z ≤ Spec.i64Max then s!"int {z}" else "float *"

def boolObs (b : Bool) : String := if b then "bool 1" else "bool 0"

def cmpOpOf : BinOp → Option CmpOp
  | .lt => some .lt | .le => some .le | .gt => some .gt | .ge => some .ge | _ => none

def specBin (E : Env) (op : BinOp) (a b : Value) : String :=
  match op with
  | .and => obsValue (Spec.triValue (Spec.and3 (Spec.tri a) (Spec.tri b)))
  | .or => obsValue (Spec.triValue (Spec.or3 (Spec.tri a) (Spec.tri b)))
  | .xor => obsValue (Spec.triValue (Spec.xor3 (Spec.tri a) (Spec.tri b)))
  | .isNull => boolObs a.isNull
  | .isNotNull => boolObs (!a.isNull)
  | .inList => match b with
    | .null => "null -"
    -- `x IN list`: the Kleene OR of the element equalities
    | .list items => obsValue (Spec.triValue (items.foldr (fun it acc => Spec.or3 (Spec.eq3 a it) acc) (some false)))
    | _ => "-"
  -- `=` / `<>` on ALL values: the Spec's `eq3` (lists and maps: Kleene AND of the element equalities)
  | .eq => obsValue (Spec.triValue (Spec.eq3 a b))
  | .ne => obsValue (Spec.triValue (Spec.not3 (Spec.eq3 a b)))
  | op =>
    if a.isNull || b.isNull then "null -" else
    match op, a, b with
    | .add, .int x, .int y => ruleObs (x + y)
    | .sub, .int x, .int y => ruleObs (x - y)
    | .mul, .int x, .int y => ruleObs (x * y)
    | .div, .int x, .int y => if y = 0 then "-" else ruleObs (Int.tdiv x y)
    | .mod, .int x, .int y => if y = 0 then "-" else s!"int {Int.tmod x y}"
    | op, a, b =>
      let numeric := (Spec.numVal a).isSome && (Spec.numVal b).isSome
      if numeric then
        match op, Spec.numCmp a b with
        | .eq, o => boolObs (o == some .eq)
        | .ne, o => boolObs (o != some .eq)
        | op, some o => match cmpOpOf op with
          | some c => boolObs (c.test o)
          | none => "-"
        | op, none => if (cmpOpOf op).isSome then "bool 0" else "-"
      else match op, a, b with
        | .eq, .str x, .str y => boolObs (x == y)
        | .ne, .str x, .str y => boolObs (x != y)
        | op, .str x, .str y => match cmpOpOf op with
          | some c => boolObs (c.test (Spec.strOrder E x y))
          | none => "-"
        | _, _, _ => "-"

def specUn (op : String) (a : Value) : String :=
  match op, a with
  | "not", a => obsValue (Spec.triValue (Spec.not3 (Spec.tri a)))
  | "neg", .null => "null -"
  | "neg", .int i => ruleObs (-i)
  | "neg", .float _ => "float *"
  | _, _ => "-"

/-! ### the laws (same function as `law_verdicts` in harness/src/streams/value.rs) -/

def triC : Value → Char
  | .bool true => 'T'
  | .bool false => 'F'
  | .null => 'N'
  | _ => '?'

def b01 (b : Bool) : String := if b then "1" else "0"

def lawVerdicts (r : Array Char) (cleanA cleanB cleanC : Bool) : String :=
  let g (i : Nat) : Char := r.getD i '?'
  let aa := g 0; let ab := g 1; let ba := g 2; let bc := g 3; let ac := g 4
  let ltab := g 5; let leab := g 6; let gtab := g 7; let geab := g 8; let gtba := g 9; let geba := g 10
  let ltbc := g 11; let lebc := g 12; let ltac := g 13; let leac := g 14
  let tOr (x y : Char) : Char := if x == 'T' || y == 'T' then 'T' else 'F'
  let l1 := if cleanA then b01 (aa == 'T') else "-"
  let l2 := b01 (ab == ba)
  let l3 := if ab == 'T' && bc == 'T' then b01 (ac == 'T') else "-"
  let l4 := b01 (ltab == gtba && leab == geba)
  let l5 := if cleanA && cleanB then
      (if ltab == 'N' then b01 (leab == 'N') else b01 (leab == tOr ltab ab)) else "-"
  let l6 := if cleanA && cleanB && ltab != 'N' then
      b01 (([ltab, ab, gtab].filter (· == 'T')).length == 1 && geab == tOr gtab ab) else "-"
  let l7 := if cleanA && cleanB && cleanC && ltab == 'T' && ltbc == 'T' then b01 (ltac == 'T') else "-"
  let l8 := if cleanA && cleanB && cleanC && leab == 'T' && lebc == 'T' then b01 (leac == 'T') else "-"
  " ".intercalate [l1, l2, l3, l4, l5, l6, l7, l8]

def lawsSpec : String := "1/- 1 1/- 1 1/- 1/- 1/- 1/-"

def step (_ : Unit) (ws : List String) : Unit × String × String × String :=
  match ws with
  | head :: rest =>
    let (toks, oracle) := splitOracle rest
    let E := mkEnv oracle
    match head, toks with
    | "bin", [op, a, b] =>
      match binOps.lookup op, parseValue a, parseValue b with
      | some o, some a, some b =>
        ((), obsValue (evalBin E o a b), specBin E o a b, triggers E [a, b])
      | _, _, _ => ((), "bad-op", "-", "")
    | "un", [op, a] =>
      match parseValue a with
      | some a =>
        let r := match op with
          | "not" => some (not3 a)
          | "neg" => some (negate a)
          | _ => none
        match r with
        | some r => ((), obsValue r, specUn op a, "")
        | none => ((), "bad-op", "-", "")
      | none => ((), "bad-op", "-", "")
    | "laws", [a, b, c] =>
      match parseValue a, parseValue b, parseValue c with
      | some a, some b, some c =>
        let eq := cypherEquals
        let cv := compareValues E
        let raw : Array Char := #[
          eq a a, eq a b, eq b a, eq b c, eq a c,
          cv .lt a b, cv .le a b, cv .gt a b, cv .ge a b, cv .gt b a, cv .ge b a,
          cv .lt b c, cv .le b c, cv .lt a c, cv .le a c].map triC
        let m := lawVerdicts raw (Spec.clean a) (Spec.clean b) (Spec.clean c) ++ " | " ++ String.ofList raw.toList
        ((), m, lawsSpec, triggers E [a, b, c])
      | _, _, _ => ((), "bad-op", "-", "")
    | _, _ => ((), "bad-op", "-", "")
  | [] => ((), "bad-op", "-", "")

def stream : Stream := { σ := Unit, init := (), step := step }

end Nervus.Driver.ValueStream
