/-
  Driver for the `pager` stream (C18).
  component level: Model.Pager step by step (exact page ids, next_page_id, node-table location).
  engine level: the same model at the granularity "which engine call allocates at least one page"
  (GraphEngine::open: catalog + two HNSW roots; compact: CSR pages first; create_index: a root;
  set_vector: a blob) — enough to decide whether the node table grows into a foreign page.
-/
import Nervus.Driver.Util
import Nervus.Model.PagerReal
namespace Nervus.Driver.PagerStream
open Nervus Nervus.Pager Nervus.Driver

structure St where
  started : Bool     -- a `mode` line created the state the other ops need
  eng : Bool
  s : Sys
  trig : Bool        -- some node-table growth met the trigger (C18-i2e-growth)
  damaged : List Nat -- node-table pages that another structure wrote after the node table did
  csrHit : Bool      -- … and that page is the first page of a CSR segment
  stale : Bool       -- reopened since the CSR page was hit (the damaged bytes are read back)
  fresh : Nat        -- owner-id counter for engine-level structures
  abused : Bool      -- the harness freed a page only the node table owns (no engine op does that): spec silent

def init : St := ⟨false, false, Pager.init Cfg.real, false, [], false, false, 0, false⟩

def c : Cfg := Cfg.real

def okErr {α : Type} (r : Except Err α) : String :=
  match r with
  | .ok _ => "ok"
  | .error .notOwner => "notowner"
  | .error _ => "err"

def tail (s : Sys) : String :=
  "start=" ++ toString (s.i2eStart.getD 0) ++ " len=" ++ toString s.i2eLen ++ " next=" ++ toString s.pg.next

/-- the page the op is about to write, and its writer -/
def target (s : Sys) : Op → Option (Nat × Owner)
  | .createNode => s.i2eStart.map (fun st => (i2ePage c st s.i2eLen, Owner.i2e))
  | .alloc _ => none
  | .rewrite o p => some (p, .other o)

def foreign (s : Sys) (p : Nat) (w : Owner) : List Owner := (owners s p).filter (· ≠ w)

def isCsr : Owner → Bool
  | .other id => 1000 ≤ id && id < 2000
  | _ => false

/-- one model op with the bookkeeping of triggers and clashes -/
def apply (st : St) (op : Op) : St × Except Err Unit :=
  let t := i2eConflict c st.s op
  match step c st.s op with
  | .error e => ({ st with trig := st.trig || t }, .error e)
  | .ok s' =>
    -- the page written is the one whose content changed; look at who else claims it
    let wrote : Option (Nat × Owner) :=
      match op with
      | .alloc o => (s'.own.head?).map (fun x => (x.1, Owner.other o))
      | _ => match target st.s op with
        | some x => some x
        | none => s'.i2eStart.map (fun p => (i2ePage c p 0, Owner.i2e))
    let others := match wrote with | some (p, w) => foreign s' p w | none => []
    let dmg := match wrote with
      | some (p, .other _) => if s'.own.contains (p, Owner.i2e) then p :: st.damaged else st.damaged
      | _ => st.damaged
    ({ st with s := s', trig := st.trig || t, damaged := dmg,
               csrHit := st.csrHit || others.any isCsr }, .ok ())

def applyN (st : St) (op : Op) : Nat → St × Bool
  | 0 => (st, true)
  | n+1 =>
    match apply st op with
    | (st', .ok _) => applyN st' op n
    | (st', .error _) => (st', false)

/-- the node table's pages -/
def i2ePages (s : Sys) : List Nat :=
  match s.i2eStart with
  | none => []
  | some st => (List.range ((s.i2eLen + c.recsPerPage - 1) / c.recsPerPage)).map (· + st)

/-- IdMap::load can read every node-table page -/
def i2eReadable (s : Sys) : Bool := (i2ePages s).all (fun p => s.pg.isAlloc p)

/-- what `check` looks at: every other structure's page still holds what that structure wrote last,
    no node-table page was overwritten by someone else, the node table can be loaded -/
def intact (st : St) : Bool :=
  st.s.own.all (fun x => match x.2 with
    | .i2e => true
    | .other o => match st.s.data.get x.1 with
      | some (w, _) => w == Owner.other o
      | none => false) &&
  st.damaged.isEmpty && i2eReadable st.s

def trigStr (st : St) : String := if st.trig then "C18-i2e-growth" else ""

def allocEng (st : St) (kind : Nat) : St :=
  let st' := (apply st (.alloc (kind + st.fresh))).1
  { st' with fresh := st.fresh + 1 }

def stepStarted (st : St) (ws : List String) : St × String × String × String :=
  match ws with
  | ["mode", "pg"] => ({ init with started := true, eng := false }, "ok", "-", "")
  | ["mode", "eng"] =>
    -- GraphEngine::open on an empty directory: index catalog page, then the two reserved HNSW trees
    let st := allocEng (allocEng (allocEng { init with started := true, eng := true } 10) 20) 30
    (st, "ok", "-", "")
  | ["alloc", o] =>
    match o.toNat? with
    | some o =>
      let (st', r) := apply st (.alloc o)
      match r with
      | .ok _ => (st', toString ((st'.s.own.head?).map (·.1) |>.getD 0) ++ " | next=" ++ toString st'.s.pg.next, "-", trigStr st')
      | .error _ => (st', "err", "-", trigStr st')
    | none => (st, "bad-op", "-", "")
  | ["rewrite", o, p] =>
    match o.toNat?, p.toNat? with
    | some o, some p =>
      let (st', r) := apply st (.rewrite o p)
      (st', okErr r, "-", trigStr st')
    | _, _ => (st, "bad-op", "-", "")
  | ["nodes", n] =>
    match n.toNat? with
    | some n =>
      let (st', ok) := applyN st .createNode n
      if st.eng then (st', (if ok then "ok" else "err"), "ok", trigStr st')
      else (st', (if ok then "ok" else "err") ++ " | " ++ tail st'.s, "-", trigStr st')
    | none => (st, "bad-op", "-", "")
  | ["free", p] =>
    match p.toNat? with
    | some p =>
      match free c st.s.pg p with
      | .ok pg' =>
        let s' := { st.s with pg := pg', own := st.s.own.filter (fun x => !(x.1 == p && x.2 != Owner.i2e)) }
        let mine := st.s.own.contains (p, Owner.i2e) && !(st.s.own.any (fun x => x.1 == p && x.2 != Owner.i2e))
        ({ st with s := s', abused := st.abused || mine }, "ok", "-", trigStr st)
      | .error _ => (st, "err", "-", trigStr st)
    | none => (st, "bad-op", "-", "")
  | ["check"] => (st, (if intact st then "ok" else "corrupt"), (if st.abused then "-" else "ok"), trigStr st)
  | ["reopen"] =>
    if st.eng then ({ st with stale := st.stale || st.csrHit }, "ok", "ok", trigStr st)
    else if i2eReadable st.s then (st, "ok | " ++ tail st.s, "-", trigStr st)
    else (st, "err", "-", trigStr st)
  | ["edge", _, _] => (st, "ok", "ok", trigStr st)
  | ["prop", _, _] => (st, "ok", "ok", trigStr st)
  | ["vec", _] => let st' := allocEng st 3000; (st', "ok", "ok", trigStr st')
  | ["compact"] =>
    -- CsrSegment::persist allocates first (offsets pages), then the property tree / blobs / statistics
    let st' := allocEng (allocEng st 1000) 2000
    (st', "ok", "ok", trigStr st')
  | ["index"] => let st' := allocEng st 4000; (st', "ok", "ok", trigStr st')
  | ["owners"] =>
    let pages := (st.s.i2eLen + c.recsPerPage - 1) / c.recsPerPage
    (st, (if decide (ownedOnce st.s) then "ok" else "conflict") ++ " | i2e=" ++ toString pages, "ok", trigStr st)
  | ["dump"] => (st, (if st.stale then "bad" else "ok"), "ok", trigStr st)
  | _ => (st, "bad-op", "-", "")

/-- an op that needs a state which does not exist (no `mode` line yet — e.g. a shrunk replay that lost
    its set-up) is `bad-op` on both sides and the spec says nothing about it -/
def step (st : St) (ws : List String) : St × String × String × String :=
  match ws with
  | ["mode", _] => stepStarted st ws
  | _ => if st.started then stepStarted st ws else (st, "bad-op", "-", "")

def stream : Stream := { σ := St, init := init, step := step }

end Nervus.Driver.PagerStream
