/-
  Driver for the `crash` and `fault` streams (C01, C02, C08): executes scenario lines on the model
  (`Model/IOSteps`), computes the admissible outcomes from `Spec/TxLog`, and names the known-finding
  triggers that explain a model outcome the spec rejects.  Line formats: see
  harness/src/streams/crash.rs.
-/
import Nervus.Driver.Util
import Nervus.Model.IOSteps
import Nervus.Model.IndexSteps
namespace Nervus.Driver.CrashStream
open Nervus Nervus.Crash Nervus.Driver

inductive Tok where
  | openT
  | tx (n e p : Nat)
  | compact | close | drop | dump
  | crash (k : Nat) (var : String)
  | fault (k : Nat)
deriving Repr, Inhabited

def parseNats (s : String) : Option (List Nat) :=
  (s.splitOn ".").mapM (fun x => x.toNat?)

def parseTok (s : String) : Option Tok :=
  match s with
  | "open" => some .openT
  | "compact" => some .compact
  | "close" => some .close
  | "drop" => some .drop
  | "dump" => some .dump
  | _ =>
    match s.toList with
    | 't' :: rest =>
      match parseNats (String.ofList rest) with
      | some [n, e, p] => if (p > 0 ∧ n = 0) ∨ n + e + p = 0 then none else some (.tx n e p)
      | _ => none
    | 'X' :: rest =>
      match (String.ofList rest).splitOn "." with
      | k :: v :: vs => k.toNat?.map (fun k => .crash k (".".intercalate (v :: vs)))
      | _ => none
    | 'F' :: rest => (String.ofList rest).toNat?.map .fault
    | _ => none

/-- payload of transaction number `t` (harness convention) -/
def mkTx (t n e p : Nat) : Tx :=
  { nodes := (List.range n).map (fun j => t * 1000 + j + 1)
    edges := (List.range e).map (fun j => t * 1000 + j)
    props := (List.range p).map (fun j => t * 10000 + j) }

structure Variant where
  power : Bool := false
  mask : Nat := 0
  wk : Nat := 0
  torn : Option Nat := none
  loseRename : Bool := false
deriving Repr, Inhabited

def parseVariant (s : String) : Option Variant :=
  if s = "p" then some {} else
  match s.splitOn "." with
  | m :: w :: rest =>
    match m.toList with
    | 'w' :: ds =>
      match (String.ofList ds).toNat?, w.toNat? with
      | some mask, some wk =>
        rest.foldlM (fun (v : Variant) (x : String) =>
          if x = "r" then some { v with loseRename := true }
          else match x.toList with
            | 't' :: is => (String.ofList is).toNat?.map (fun i => { v with torn := some i })
            | _ => none) { power := true, mask := mask, wk := wk }
      | _, _ => none
    | _ => none
  | _ => none

def Variant.mode (v : Variant) (np : Nat) : CrashMode :=
  if !v.power then .proc else
  .power ((List.range np).map (fun i =>
    if v.torn = some i then Sel.torn
    else if i < 64 ∧ (v.mask / 2 ^ i) % 2 = 1 then Sel.keep else Sel.drop)) v.wk v.loseRename

/-- canonical crash variants of a step with `np` unsynced pager operations, `nw` unsynced log
    writes and `nr` unsynced renames — must agree with `variants` in harness/src/streams/crash.rs -/
def variants (np nw nr : Nat) : List String := Id.run do
  let mut out : List String := ["p"]
  if np + nw + nr = 0 then return out
  let np := min np 16
  let full : Nat := if np = 0 then 0 else 2 ^ np - 1
  let singles : List Nat := if np ≤ 4 then List.range np else [0, 1, np - 2, np - 1]
  let masks : List Nat := [0] ++ singles.map (fun i => 2 ^ i) ++ singles.map (fun i => full - 2 ^ i) ++ [full]
  let mut seen : List (Nat × Nat) := []
  let mut cands : List (Nat × Nat) := []
  for m in masks do
    cands := cands ++ [(m, 0), (m, nw)]
  if nw ≥ 1 then cands := cands ++ [(full, nw - 1), (0, nw - 1)]
  if nw ≥ 3 then cands := cands ++ [(full, 1)]
  for (m, w) in cands do
    if (m = full ∧ w = nw) ∨ seen.contains (m, w) then continue
    seen := seen ++ [(m, w)]
    out := out ++ [s!"w{m}.{w}"]
  for i in singles.take 3 do
    out := out ++ [s!"w0.{nw}.t{i}"]
  if nr > 0 then out := out ++ [s!"w{full}.{nw}.r"]
  return out

/-! ## model execution -/

structure Flags where
  tornAppend : Bool := false     -- a commit was appended behind a torn log tail
  liveTree : Bool := false       -- a crash hit a compaction that splits / tears a leaf of the live property tree
  idmapFault : Bool := false     -- an injected error hit the node-table phase of a commit
deriving Repr, Inhabited

structure Sys where
  fs : FS := {}
  mem : Option Mem := none
  txs : List Tx := []
  stop : Stop := .none
  var : Variant := {}
  armed : Bool := false
  tornTail : Bool := false       -- the log currently ends in / contains a torn frame
  flags : Flags := {}
deriving Inhabited

def cfg : Cfg := cfgOfSource

def labels (ss : List Step) : String :=
  if ss.isEmpty then "-" else " ".intercalate (ss.map Step.label)

def count (xs : List Nat) (p : Nat → Bool) : Nat := (xs.filter p).length

/-- the view the harness computes from lookups: per transaction `1` (everything there), `0`
    (nothing there) or `p` -/
def dumpPattern (s : Sys) : String :=
  match s.mem with
  | none => "closed"
  | some m =>
    let vol := s.fs.pv
    let edgesVis : List Nat := (m.segs.flatMap (·.2)) ++ m.runs.flatMap (·.edges)
    let runProps : List Nat := m.runs.flatMap (·.props)
    let chars := s.txs.map (fun tx =>
      let nn := count tx.nodes (fun x => m.exts.contains x)
      let ee := count tx.edges (fun e => edgesVis.contains e)
      let baseThere := match tx.nodes with | x :: _ => m.exts.contains x | [] => true
      let pl := if baseThere then
          count tx.props (fun q => runProps.contains q || (m.proot != 0 && treeHas vol m.proot m.ptop q))
        else 0
      -- the property scan of the node fails when its seek hits a garbage root or a page that did not
      -- persist (point lookups in the runs still work)
      let scanOk := tx.props.isEmpty || m.proot == 0 ||
        (scanSeekOk vol m.proot m.ptop (tx.props.headD 0) && !scanHitsTorn vol m.proot (tx.props.headD 0))
      if nn == tx.nodes.length && ee == tx.edges.length && pl == tx.props.length && scanOk then '1'
      else if nn == 0 && ee == 0 && pl == 0 then '0' else 'p')
    let present := (s.txs.map (fun tx => count tx.nodes (fun x => m.exts.contains x))).foldl (· + ·) 0
    let pat := if chars.isEmpty then "-" else String.ofList chars
    if present ≠ m.exts.length then pat ++ "!" else pat

def splitsLeaf (acts : List Action) : Bool :=
  (ioSteps acts).any (fun s => match s with
    | .pg (.inode ..) _ => true
    | _ => false)

def writesLiveLeaf (m : Mem) (acts : List Action) : Bool :=
  m.proot != 0 && (ioSteps acts).any (fun s => match s with
    | .pg (.leaf k ..) _ => k == m.proot
    | _ => false)

/-- execute one operation token; returns the new system, the result token and the step log -/
def execOp (s : Sys) (tok : Tok) : Sys × String × String :=
  let finish := fun (s : Sys) (out : Outcome) (okMem : Option Mem) (isOpen : Bool) =>
    let suffix := if s.armed && !out.fired then "~" else ""
    let s' : Sys := { s with stop := .none, armed := false }
    if out.dead then
      let np := out.fs.pj.length
      let fs' := out.fs.crash (s.var.mode np)
      let torn := validLen fs'.wf < fs'.wf.length
      ({ s' with fs := fs', mem := none, tornTail := torn }, "dead", s!"died-at-{out.steps.length}")
    else
      match out.err with
      | some e =>
        let m := if isOpen then none else some out.mem
        ({ s' with fs := out.fs, mem := m }, s!"err:{e.name}{suffix}", labels out.steps)
      | none => ({ s' with fs := out.fs, mem := okMem.orElse (fun _ => some out.mem) }, s!"ok{suffix}", labels out.steps)
  match tok with
  | .openT =>
    let s := { s with mem := none }
    let out := run (openA cfg s.fs.pv s.fs.wf) s.stop s.fs {}
    let (s', r, st) := finish s out none true
    -- a handle exists only if open returned Ok
    let s' := if out.dead || out.err.isSome then { s' with mem := none } else s'
    (s', r, st)
  | .tx n e p =>
    let t := s.txs.length + 1
    let tx := mkTx t n e p
    let s := { s with txs := s.txs ++ [tx] }
    match s.mem with
    | none => ({ s with stop := .none, armed := false }, if s.armed then "closed~" else "closed", "-")
    | some m =>
      let out := run (commitA cfg m s.fs.pv s.fs.wf tx) s.stop s.fs m
      -- trigger bookkeeping
      let nWal := 3 * (txRecs 0 0 tx).length + 1
      let idmapFault := match s.stop with | .faultAt k => out.fired && k ≥ nWal | _ => false
      let tornAppend := s.tornTail && !cfg.tailTolerant
      let s := { s with flags := { s.flags with idmapFault := s.flags.idmapFault || idmapFault,
                                                 tornAppend := s.flags.tornAppend || tornAppend } }
      finish s out none false
  | .compact =>
    match s.mem with
    | none => ({ s with stop := .none, armed := false }, if s.armed then "closed~" else "closed", "-")
    | some m =>
      let acts := compactA cfg m s.fs.pv s.fs.wf
      let out := run acts s.stop s.fs m
      let risky := match s.stop with
        | .crashAt _ => out.dead && (splitsLeaf acts || (writesLiveLeaf m acts && s.var.torn.isSome))
        | _ => false
      let tornAppend := s.tornTail && !cfg.tailTolerant && !m.runs.isEmpty
      let s := { s with flags := { s.flags with liveTree := s.flags.liveTree || risky,
                                                 tornAppend := s.flags.tornAppend || tornAppend } }
      finish s out none false
  | .close =>
    match s.mem with
    | none => ({ s with stop := .none, armed := false }, if s.armed then "closed~" else "closed", "-")
    | some m =>
      let out := run (closeA cfg m s.fs.pv s.fs.wf) s.stop s.fs m
      let (s', r, st) := finish s out none false
      ({ s' with mem := none }, r, st)
  | .drop => ({ s with mem := none, stop := .none, armed := false }, if s.armed then "ok~" else "ok", "-")
  | .dump => ({ s with stop := .none, armed := false }, dumpPattern s ++ (if s.armed then "~" else ""), "-")
  | .crash k v =>
    ({ s with stop := .crashAt k, var := (parseVariant v).getD {}, armed := true }, "marker", "-")
  | .fault k => ({ s with stop := .faultAt k, var := {}, armed := true }, "marker", "-")

def isMarker : Tok → Bool
  | .crash .. => true
  | .fault .. => true
  | _ => false

/-- run a scenario: results and step logs of the operation tokens (markers excluded) -/
def runScenario (toks : List Tok) : Sys × List String × List String :=
  toks.foldl (fun (acc : Sys × List String × List String) tok =>
    let (s, rs, ss) := acc
    let (s', r, st) := execOp s tok
    if isMarker tok then (s', rs, ss) else
    -- after the process died nothing else runs until the next `open`
    (s', rs ++ [r], ss ++ [st])) ({}, [], [])

/-! ## spec side -/

def stripTilde (r : String) : String :=
  if r.endsWith "~" then String.ofList (r.toList.take (r.length - 1)) else r

/-- admissible result sequences given the operation tokens and the model's own results for the
    positions the spec does not speak about -/
def specAlternatives (toks : List Tok) (results : List String) : List (List String) :=
  let ops := toks.filter (fun t => !isMarker t)
  let init : List (Spec.St × List String × Nat) := [({}, [], 0)]
  let final := (ops.zip results).foldl (fun (states : List (Spec.St × List String × Nat)) (tr : Tok × String) =>
    let (tok, r) := tr
    let r0 := stripTilde r
    match tok with
    | .openT =>
      if r0 = "dead" ∨ r0.startsWith "err:io" then states.map (fun (s, o, n) => (s, o ++ [r], n))
      else
        -- open must succeed, and decides every commit in limbo
        let tok' := if r0 = "ok" then r else "ok"
        states.flatMap (fun (s, o, n) => (Spec.reopen s).map (fun s' => (s', o ++ [tok'], n)))
    | .tx .. =>
      states.map (fun (s, o, n) =>
        let t := n + 1
        if r0 = "ok" then ({ s with vis := s.vis ++ [t] }, o ++ [r], t)
        else if r0 = "closed" then (s, o ++ [r], t)
        else ({ s with limbo := s.limbo ++ [t] }, o ++ [r], t))
    | .dump =>
      states.map (fun (s, o, n) => (s, o ++ [if r0 = "closed" then r else Spec.pattern s n], n))
    | _ => states.map (fun (s, o, n) => (s, o ++ [r], n))) init
  (final.map (fun x => x.2.1)).eraseDups

/-- the model's results with, in `alts`, what the spec admits -/
structure Judged where
  results : List String
  steps : List String
  alts : List (List String)
  flags : Flags

def judge (toks : List Tok) : Judged :=
  let (s, rs, ss) := runScenario toks
  { results := rs, steps := ss, alts := specAlternatives toks rs, flags := s.flags }

def causes (f : Flags) : List String :=
  (if f.tornAppend then ["C01-torn-tail-append"] else []) ++
  (if f.liveTree then ["C01-live-tree-in-place"] else []) ++
  (if f.idmapFault then ["C08-node-table-apply-failure"] else [])

def joinC (xs : List String) : String := ",".intercalate xs

def dropN (xs : List String) (n : Nat) : List String := xs.drop n

/-- triggers for a scenario whose model outcome the spec rejects -/
def blame (j : Judged) (from_ : Nat) : List String :=
  if j.alts.any (fun a => dropN a from_ == dropN j.results from_) then []
  else
    let c := causes j.flags
    if c.isEmpty then ["unexplained"] else c

def parseToks (ws : List String) : Option (List Tok) := ws.mapM parseTok

def insertAt (xs : List Tok) (i : Nat) (x : Tok) : List Tok := xs.take i ++ [x] ++ xs.drop i

def enumLine (stream : String) (idx : String) (rest : List String) : Unit × String × String × String :=
    match idx.toNat?, parseToks rest with
    | some idx, some toks =>
      if idx ≥ toks.length then ((), "bad-op", "-", "") else
      -- the steps of the op under enumeration, from a crash-free run of the prefix
      let (s0, _, _) := runScenario (toks.take idx)
      let nSteps :=
        let (_, _, st) := execOp s0 (toks.getD idx .dump)
        if st = "-" then 0 else (st.splitOn " ").length
      let markers : List Tok := (List.range nSteps).flatMap (fun k =>
        if stream = "fault" then [Tok.fault k]
        else
          -- pending operations at the moment of death
          let b := match toks.getD idx .dump, s0.mem with
            | .openT, _ => some ((openA cfg s0.fs.pv s0.fs.wf), ({} : Mem))
            | .tx n e p, some m => some (commitA cfg m s0.fs.pv s0.fs.wf (mkTx (s0.txs.length + 1) n e p), m)
            | .compact, some m => some (compactA cfg m s0.fs.pv s0.fs.wf, m)
            | .close, some m => some (closeA cfg m s0.fs.pv s0.fs.wf, m)
            | _, _ => none
          match b with
          | none => []
          | some (acts, m0) =>
            let out := run acts (.crashAt k) s0.fs m0
            let np := out.fs.pj.length
            let nw := out.fs.wf.length - out.fs.wdur
            let nr := if out.fs.ren.isSome then 1 else 0
            (variants np nw nr).map (fun v => Tok.crash k v))
      let fields := markers.map (fun mk =>
        let j := judge (insertAt toks idx mk)
        let name := match mk with
          | .crash k v => s!"X{k}.{v}"
          | .fault k => s!"F{k}"
          | _ => "?"
        let mo := name ++ "=" ++ joinC (dropN j.results idx)
        let so := "/".intercalate ((j.alts.map (fun a => name ++ "=" ++ joinC (dropN a idx))).eraseDups)
        (mo, so, blame j idx))
      if fields.isEmpty then ((), "none", "-", "") else
      ((), " ".intercalate (fields.map (·.1)), " ".intercalate (fields.map (·.2.1)),
        " ".intercalate ((fields.flatMap (·.2.2)).eraseDups))
    | _, _ => ((), "bad-op", "-", "")

def step (stream : String) (_ : Unit) (ws : List String) : Unit × String × String × String :=
  match ws with
  | ["idx", k] =>
    -- witness of C02-index-before-commit (index pages are outside `content`): label L, index L.k,
    -- commit node 1 {k:1}, then process death at I/O step k of the commit of node 2 {k:2}, whose
    -- steps are: 9 log fragments (BeginTx, CreateNode, SetNodeProperty), the index leaf page, the
    -- catalog page, 3 fragments of CommitTx, the log sync, the node table.  Model of the code as
    -- it is: the entry is in the index as soon as the leaf page write (step 9) was performed.
    match k.toNat? with
    | none => ((), "bad-op", "-", "")
    | some k =>
      if k > 13 then ((), "bad-op", "-", "") else
      -- computed on the index component of the model (`Model/IndexSteps`)
      match ixProbe cfgOfSource k ⟨.proc, []⟩ with
      | none => ((), "open-failed", "absent nonode", "C02-index-before-commit")
      | some (nodes, hits) =>
        let m := (if hits.isEmpty then "absent" else "indexed") ++ (if nodes.contains 2001 then " node" else " nonode")
        ((), m, "absent nonode", if m != "absent nonode" then "C02-index-before-commit" else "")
  | kind :: rest =>
    if kind != "scen" && kind != "scenq" then
      match kind, rest with
      | "enum", idx :: rest => enumLine stream idx rest
      | "enumf", idx :: rest => enumLine stream idx rest   -- same line, the harness kills a forked process instead of simulating the death
      | _, _ => ((), "bad-op", "-", "")
    else
    match parseToks rest with
    | none => ((), "bad-op", "-", "")
    | some toks =>
      let j := judge toks
      let m := if kind == "scenq" then joinC j.results else joinC j.results ++ " | " ++ " ; ".intercalate j.steps
      let sp := "/".intercalate ((j.alts.map joinC).eraseDups)
      ((), m, sp, " ".intercalate (blame j 0))
  | _ => ((), "bad-op", "-", "")

def stream : Stream := { σ := Unit, init := (), step := step "crash" }
def faultStream : Stream := { σ := Unit, init := (), step := step "fault" }

end Nervus.Driver.CrashStream
