/-
  Driver for the `vacuum` stream (C28): predicts the outcome of vacuum's mark phase and of
  vacuum_in_place from the regenerated layout (Layout.real) and from whether the history has compacted
  a segment; the page-level inclusion is computed by the harness on the real files.
-/
import Nervus.Driver.Util
import Nervus.Model.VacuumReal
namespace Nervus.Driver.VacuumStream
open Nervus Nervus.Vacuum Nervus.Driver

structure St where
  isOpen : Bool
  log : List Tx          -- the committed manifest / checkpoint history of the WAL, segments as abstract ids
  epoch : Nat            -- the running engine's manifest_epoch
  segs : List Nat        -- … and its published segments
  pending : Bool         -- a published L0 run exists (a transaction with edges / properties since the last compaction)
  txid : Nat
  fresh : Nat
  damaged : Bool         -- vacuum ran with roots that differ from the ones the engine recovers

def init : St := ⟨true, [], 0, [], false, 1, 10, false⟩

def L : Layout := Layout.real

def vRoots (st : St) := (vacuumScan ScanOps.vacuumReal st.log).roots
def eRoots (st : St) := (engineScan ScanOps.engineReal st.log).roots

/-- outcome of the mark phase: the CSR layout vacuum reads, and whether it starts from the roots
    the engine recovers from the same log -/
def markOutcome (st : St) : String :=
  let seg := !(vRoots st).1.isEmpty
  if seg && !L.magicOk then "err"
  else if (eRoots st).1.any (fun x => !(vRoots st).1.contains x) then "missing"
  else if (vRoots st).2 != (eRoots st).2 then "missing"
  else if seg && L.csrLists < Generated.csrMetaLists then "missing"
  else "ok"

def manifestTx (st : St) (segs : List Nat) (epoch : Nat) : Tx :=
  ⟨st.txid, [.manifest epoch segs 1 1, .checkpoint st.txid epoch 1 1]⟩

def idList (s : String) : Option (List Nat) :=
  if s == "-" then some [] else (s.splitOn ";").mapM (·.toNat?)

/-- `<id>=<typed page>` -/
def parsePage (tok : String) : Option (Nat × Page) :=
  match tok.splitOn "=" with
  | [id, rest] =>
    match id.toNat?, rest.splitOn ":" with
    | some id, ["R"] => some (id, .raw)
    | some id, ["B", nx] => nx.toNat?.map (fun n => (id, .blob n))
    | some id, ["L", r, pl] => match r.toNat?, idList pl with
      | some r, some pl => some (id, .leaf pl r)
      | _, _ => none
    | some id, ["I", r, kids] => match r.toNat?, idList kids with
      | some r, some kids => some (id, .internal kids r)
      | _, _ => none
    | some id, ["C", es] =>
      if es == "-" then some (id, .catalog []) else
      ((es.splitOn ";").mapM (fun (e : String) => match e.splitOn "/" with
        | [r, f] => (String.toNat? r).map (fun r => (r, f == "1"))
        | _ => none)).map (fun (l : List (Nat × Bool)) =>
          -- vacuum visits the catalog (a BTreeMap) in NAME order: the harness names user indexes `L.p<i>`
          -- and the blob-valued trees `__sys_hnsw_vec` (first) / `__sys_hnsw_graph` (second), so the user
          -- indexes come first, then graph, then vec
          (id, Page.catalog (l.filter (fun (e : Nat × Bool) => !e.2) ++ (l.filter (fun (e : Nat × Bool) => e.2)).reverse)))
    | some id, ["M", ls] => ((ls.splitOn "|").mapM idList).map (fun l => (id, .csrMeta l))
    | _, _ => none
  | _ => none

def insertSorted (x : Nat) : List Nat → List Nat
  | [] => [x]
  | y :: ys => if x ≤ y then x :: y :: ys else y :: insertSorted x ys

def graphLine (ws : List String) : Option String :=
  match ws with
  | i2s :: i2l :: cat :: props :: stats :: segs :: pages =>
    match i2s.toNat?, i2l.toNat?, cat.toNat?, props.toNat?, stats.toNat?, idList segs, pages.mapM parsePage with
    | some i2s, some i2l, some cat, some props, some stats, some segs, some pages =>
      let d : Db := { pages := pages, i2eStart := i2s, i2eLen := i2l, catalogRoot := cat, propsRoot := props,
                      statsRoot := stats, segments := segs }
      match mark L d 100000 with
      | .ok keep => some ((keep.foldl (fun acc p => insertSorted p acc) []).foldl (fun s p => s ++ " " ++ toString p) "ok |")
      | .error _ => some "err"
    | _, _, _, _, _, _, _ => none
  | _ => none

def step (st : St) (ws : List String) : St × String × String × String :=
  let wr := fun (st' : St) => if st.isOpen then (st', "ok", "ok", "") else (st, "closed", "ok", "")
  match ws with
  | ["bulk", _, _] =>
    -- BulkLoader::initialize_wal: one tx with ManifestSwitch{epoch 0, segments} + Checkpoint{epoch 0}
    ({ st with log := [⟨0, [.manifest 0 [1] 1 1, .checkpoint 0 0 1 1]⟩], segs := [1], epoch := 0, isOpen := true },
      "ok", "ok", "")
  | ["nodes", _] => wr { st with txid := st.txid + 1 }
  | ["edge", _, _] => wr { st with txid := st.txid + 1, pending := true }
  | ["prop", _, _] => wr { st with txid := st.txid + 1, pending := true }
  | ["vec", _] => wr st
  | ["index"] => wr st
  | ["compact"] =>
    if st.isOpen && st.pending then
      let segs := st.fresh :: st.segs
      wr { st with log := st.log ++ [manifestTx st segs (st.epoch + 1)], epoch := st.epoch + 1, segs := segs,
                   pending := false, txid := st.txid + 1, fresh := st.fresh + 1 }
    else wr st
  | ["ckclose"] =>
    if st.isOpen then
      -- checkpoint_on_close: with no pending run the WAL is rewritten as ONE snapshot tx that re-emits the current manifest
      let st' := if st.pending then st else { st with log := [manifestTx st st.segs st.epoch], txid := st.txid + 1 }
      ({ st' with isOpen := false }, "ok", "ok", "")
    else (st, "closed", "ok", "")
  | ["close"] => ({ st with isOpen := false }, "ok", "-", "")
  | ["reopen"] =>
    if st.damaged then ({ st with isOpen := false }, "err", "ok", "")
    else ({ st with isOpen := true, epoch := (engineScan ScanOps.engineReal st.log).epoch, segs := (eRoots st).1 }, "ok", "ok", "")
  | ["reach"] => if st.isOpen then (st, markOutcome st, "ok", "") else (st, "closed", "-", "")
  | ["vacuum"] =>
    if st.isOpen then (st, "open", "-", "")
    else
      let o := markOutcome st
      if o == "err" then (st, "err", "ok", "") else ({ st with damaged := st.damaged || o == "missing" }, "ok", "ok", "")
  | "g" :: rest => (st, (graphLine rest).getD "bad-op", "-", "")
  | ["dump"] => if st.isOpen then (st, "ok", "ok", "") else (st, "closed", "-", "")
  | _ => (st, "bad-op", "-", "")

def stream : Stream := { σ := St, init := init, step := step }

end Nervus.Driver.VacuumStream
