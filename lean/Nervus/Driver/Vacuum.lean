/-
  Driver for the `vacuum` stream (C28): predicts the outcome of vacuum's mark phase and of
  vacuum_in_place from the regenerated layout (Layout.real) and from whether the history has compacted
  a segment; the page-level inclusion is computed by the harness on the real files.
-/
import Nervus.Driver.Util
import Nervus.Model.VacuumReal
namespace Nervus.Driver.VacuumStream
open Nervus Nervus.Vacuum Nervus.Driver

structure St where
  isOpen : Bool
  hasSegment : Bool

def init : St := ⟨true, false⟩

def L : Layout := Layout.real

/-- outcome of the mark phase on a database with / without a segment -/
def markOutcome (seg : Bool) : String :=
  if seg && !L.magicOk then "err"
  else if seg && L.csrLists < Generated.csrMetaLists then "missing"
  else "ok"

def step (st : St) (ws : List String) : St × String × String × String :=
  let wr := fun (st' : St) => if st.isOpen then (st', "ok", "ok", "") else (st, "closed", "ok", "")
  match ws with
  | ["nodes", _] => wr st
  | ["edge", _, _] => wr st
  | ["prop", _, _] => wr st
  | ["vec", _] => wr st
  | ["index"] => wr st
  | ["compact"] => wr { st with hasSegment := true }
  | ["close"] => ({ st with isOpen := false }, "ok", "-", "")
  | ["reopen"] => ({ st with isOpen := true }, "ok", "ok", "")
  | ["reach"] => if st.isOpen then (st, markOutcome st.hasSegment, "ok", "") else (st, "closed", "-", "")
  | ["vacuum"] =>
    if st.isOpen then (st, "open", "-", "")
    else (st, (if markOutcome st.hasSegment == "err" then "err" else "ok"), "ok", "")
  | ["dump"] => if st.isOpen then (st, "ok", "ok", "") else (st, "closed", "-", "")
  | _ => (st, "bad-op", "-", "")

def stream : Stream := { σ := St, init := init, step := step }

end Nervus.Driver.VacuumStream
