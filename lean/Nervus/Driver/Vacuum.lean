/-
  Driver for the `vacuum` stream (C28): predicts the outcome of vacuum's mark phase and of
  vacuum_in_place from the regenerated layout (Layout.real) and from whether the history has compacted
  a segment; the page-level inclusion is computed by the harness on the real files.
-/
import Nervus.Driver.Util
import Nervus.Model.VacuumReal
namespace Nervus.Driver.VacuumStream
open Nervus Nervus.Vacuum Nervus.Driver

structure St where
  isOpen : Bool
  hasSegment : Bool

def init : St := ⟨true, false⟩

def L : Layout := Layout.real

/-- outcome of the mark phase on a database with / without a segment -/
def markOutcome (seg : Bool) : String :=
  if seg && !L.magicOk then "err"
  else if seg && L.csrLists < Generated.csrMetaLists then "missing"
  else "ok"

def idList (s : String) : Option (List Nat) :=
  if s == "-" then some [] else (s.splitOn ";").mapM (·.toNat?)

/-- `<id>=<typed page>` -/
def parsePage (tok : String) : Option (Nat × Page) :=
  match tok.splitOn "=" with
  | [id, rest] =>
    match id.toNat?, rest.splitOn ":" with
    | some id, ["R"] => some (id, .raw)
    | some id, ["B", nx] => nx.toNat?.map (fun n => (id, .blob n))
    | some id, ["L", r, pl] => match r.toNat?, idList pl with
      | some r, some pl => some (id, .leaf pl r)
      | _, _ => none
    | some id, ["I", r, kids] => match r.toNat?, idList kids with
      | some r, some kids => some (id, .internal kids r)
      | _, _ => none
    | some id, ["C", es] =>
      if es == "-" then some (id, .catalog []) else
      ((es.splitOn ";").mapM (fun (e : String) => match e.splitOn "/" with
        | [r, f] => (String.toNat? r).map (fun r => (r, f == "1"))
        | _ => none)).map (fun (l : List (Nat × Bool)) =>
          -- vacuum visits the catalog (a BTreeMap) in NAME order: the harness names user indexes `L.p<i>`
          -- and the blob-valued trees `__sys_hnsw_vec` (first) / `__sys_hnsw_graph` (second), so the user
          -- indexes come first, then graph, then vec
          (id, Page.catalog (l.filter (fun (e : Nat × Bool) => !e.2) ++ (l.filter (fun (e : Nat × Bool) => e.2)).reverse)))
    | some id, ["M", ls] => ((ls.splitOn "|").mapM idList).map (fun l => (id, .csrMeta l))
    | _, _ => none
  | _ => none

def insertSorted (x : Nat) : List Nat → List Nat
  | [] => [x]
  | y :: ys => if x ≤ y then x :: y :: ys else y :: insertSorted x ys

def graphLine (ws : List String) : Option String :=
  match ws with
  | i2s :: i2l :: cat :: props :: stats :: segs :: pages =>
    match i2s.toNat?, i2l.toNat?, cat.toNat?, props.toNat?, stats.toNat?, idList segs, pages.mapM parsePage with
    | some i2s, some i2l, some cat, some props, some stats, some segs, some pages =>
      let d : Db := { pages := pages, i2eStart := i2s, i2eLen := i2l, catalogRoot := cat, propsRoot := props,
                      statsRoot := stats, segments := segs }
      match mark L d 100000 with
      | .ok keep => some ((keep.foldl (fun acc p => insertSorted p acc) []).foldl (fun s p => s ++ " " ++ toString p) "ok |")
      | .error _ => some "err"
    | _, _, _, _, _, _, _ => none
  | _ => none

def step (st : St) (ws : List String) : St × String × String × String :=
  let wr := fun (st' : St) => if st.isOpen then (st', "ok", "ok", "") else (st, "closed", "ok", "")
  match ws with
  | ["nodes", _] => wr st
  | ["edge", _, _] => wr st
  | ["prop", _, _] => wr st
  | ["vec", _] => wr st
  | ["index"] => wr st
  | ["compact"] => wr { st with hasSegment := true }
  | ["close"] => ({ st with isOpen := false }, "ok", "-", "")
  | ["reopen"] => ({ st with isOpen := true }, "ok", "ok", "")
  | ["reach"] => if st.isOpen then (st, markOutcome st.hasSegment, "ok", "") else (st, "closed", "-", "")
  | ["vacuum"] =>
    if st.isOpen then (st, "open", "-", "")
    else (st, (if markOutcome st.hasSegment == "err" then "err" else "ok"), "ok", "")
  | "g" :: rest => (st, (graphLine rest).getD "bad-op", "-", "")
  | ["dump"] => if st.isOpen then (st, "ok", "ok", "") else (st, "closed", "-", "")
  | _ => (st, "bad-op", "-", "")

def stream : Stream := { σ := St, init := init, step := step }

end Nervus.Driver.VacuumStream
