/-
  Model/QueryDelete.lean — mirrors nervusdb-query/src/executor/create_delete_ops.rs
  `ensure_non_detach_delete_safety` and `execute_delete_on_rows`: the query-level DELETE on top of the
  storage write API.  The attachments of a node are looked up in the SNAPSHOT the statement was
  started with — never in the relationships staged by the transaction itself.  core/Std imports only.
-/
import Nervus.Model.EngineRun
namespace Nervus.Storage

def dedupE : List Edge → List Edge
  | [] => []
  | e :: es => if es.contains e then dedupE es else e :: dedupE es

/-- every relationship the snapshot shows at node `n`, in either direction (`none` = a read panicked) -/
def attached (c : Cfg) (snap : Engine) (n : Nat) : Option (List Edge) := do
  let o ← snap.neighbors n none
  let i ← snap.incoming c n none
  pure (o ++ i)

/-- ensure_non_detach_delete_safety -/
def deleteSafe (c : Cfg) (snap : Engine) (detach : Bool) (nodes : List Nat) (explicit : List Edge) : Option Bool :=
  if detach then some true
  else (nodes.mapM (attached c snap)).map (fun ls => ls.flatten.all explicit.contains)

inductive DeleteResult
  | ok (t : Txn) (count : Nat)
  | hasRels                       -- "Cannot delete node with relationships without DETACH DELETE"
  | panic
deriving Repr

/-- execute_delete_on_rows: safety check against the snapshot, then (DETACH) the snapshot's
    relationships of each node, the explicitly deleted relationships, the nodes -/
def execDelete (c : Cfg) (snap : Engine) (t : Txn) (detach : Bool) (nodes : List Nat) (explicit : List Edge) :
    DeleteResult :=
  match deleteSafe c snap detach nodes explicit with
  | none => .panic
  | some false => .hasRels
  | some true =>
    match (if detach then (nodes.mapM (attached c snap)).map (fun ls => dedupE ls.flatten) else some []) with
    | none => .panic
    | some detached =>
      let t1 := detached.foldl Txn.tombstoneEdge t
      let t2 := explicit.foldl Txn.tombstoneEdge t1
      let t3 := nodes.foldl Txn.tombstoneNode t2
      .ok t3 (detached.length + explicit.length + nodes.length)

/-- no relationship any read returns from a live node ends at a node that is not live -/
def noDangling (c : Cfg) (s : Engine) : Bool :=
  s.nodes.all (fun n =>
    match s.neighbors n none, s.incoming c n none with
    | some o, some i => o.all (fun e => s.nodes.contains e.dst) && i.all (fun e => s.nodes.contains e.src)
    | _, _ => false)

end Nervus.Storage
