/-
  Model of the result operators of nervusdb-query as the Rust implements them
  (executor/plan_dispatch.rs, plan_iterators.rs, plan_mid.rs, plan_tail.rs, projection_sort.rs,
  join_apply.rs, runtime_limits.rs, query_api.rs `Params::check_*`).

  * A `Result<Row>` iterator is the list of items it yields when drained (`Stream`).
  * Every operator is a *transducer* (`Trans`): what one `next()`-driven pull of ONE input item
    emits, a `done` test (`next()` returns `None` without pulling) and what is emitted when the
    input is exhausted.  `Trans.run` is the drained output, `Trans.need` is how many input items
    the operator pulls to serve `d` calls of its own `next()` — the model's notion of "the rows the
    query consumes" (laziness: LIMIT, first-error stop).
  * The model is GENERIC: rows `ρ`, values `ν`, errors `ε`, expressions `χ`, keys `κ`, aggregate
    specs `α` are type parameters; evaluation is the parameter `Sem`.
  * Limits: every plan node is wrapped by the guard iterator and the `check_*` sites are placed
    where the Rust has them; their verdicts come from a `LimEnv` (collection/apply checks are
    functions of the observed size, row-budget and clock checks are oracles indexed by site and
    call number, because the Rust keeps one global counter / reads the wall clock).
    `LimEnv.unlimited` (no check ever fires) is the unlimited run.
  * `Quirks` selects between the behaviour of the pinned tree and the repaired one; the current
    values are regenerated from the source (Generated/OpQuirks.lean).
  core-only imports.
-/
import Nervus.Model.Generated.OpQuirks
namespace Nervus.PlanOps

/-- `Result<Row>` -/
abbrev Item (ε ρ : Type) := Except ε ρ
/-- the items a `Result<Row>` iterator yields when drained -/
abbrev Stream (ε ρ : Type) := List (Except ε ρ)

instance instDecEqExcept {ε ρ : Type} [DecidableEq ε] [DecidableEq ρ] : DecidableEq (Except ε ρ) :=
  fun a b =>
    match a, b with
    | .ok x, .ok y => if h : x = y then isTrue (by rw [h]) else isFalse (fun h' => h (by injection h'))
    | .error x, .error y => if h : x = y then isTrue (by rw [h]) else isFalse (fun h' => h (by injection h'))
    | .ok _, .error _ => isFalse (fun h => by cases h)
    | .error _, .ok _ => isFalse (fun h => by cases h)

def Item.isOk {ε ρ : Type} : Except ε ρ → Bool
  | .ok _ => true
  | .error _ => false

def allOk {ε ρ : Type} (s : Stream ε ρ) : Bool := s.all Item.isOk

/-- driver level: `iter.collect::<Result<Vec<Row>>>()` — the first `Err` wins, else all rows -/
def collect {ε ρ : Type} : Stream ε ρ → Except ε (List ρ)
  | [] => .ok []
  | .error e :: _ => .error e
  | .ok r :: s =>
    match collect s with
    | .ok rs => .ok (r :: rs)
    | .error e => .error e

/-- how many `next()` calls `collect` makes that return an item: through the first `Err` -/
def collectDemand {ε ρ : Type} : Stream ε ρ → Nat
  | [] => 0
  | .error _ :: _ => 1
  | .ok _ :: s => collectDemand s + 1

/-! ## evaluation environment (abstract) -/

/-- how a predicate value is classified (evaluator.rs: `Value::Bool(b)`, `Value::Null`, anything else) -/
inductive Truth where
  | tt | ff | null | other
  deriving DecidableEq, Repr

/-- what `UNWIND` sees in a value (plan_tail.rs execute_unwind: `Value::List`, `Value::Null`, other) -/
inductive ListView (ν : Type) where
  | list (xs : List ν)
  | null
  | scalar

/-- the places where an operator receives an `Err` item from an input of its own (the operators
    with a hand-written forwarding arm; Distinct / Union / Skip / OrderBy have their own flags) -/
inductive OpKind where
  | filter | project | unwind | aggregate
  | matchOut | matchOutVarLen | matchIn | matchUndirected | matchBoundRel
  | procedureCall | fixupOuter | fixupFiltered
  | apply | applySub | cartesianLeft | cartesianRight
  deriving DecidableEq, Repr

def OpKind.all : List OpKind :=
  [.filter, .project, .unwind, .aggregate, .matchOut, .matchOutVarLen, .matchIn, .matchUndirected,
   .matchBoundRel, .procedureCall, .fixupOuter, .fixupFiltered, .apply, .applySub, .cartesianLeft,
   .cartesianRight]

/-- the name tools/extract.py uses for the place -/
def OpKind.name : OpKind → String
  | .filter => "filter" | .project => "project" | .unwind => "unwind" | .aggregate => "aggregate"
  | .matchOut => "matchOut" | .matchOutVarLen => "matchOutVarLen" | .matchIn => "matchIn"
  | .matchUndirected => "matchUndirected" | .matchBoundRel => "matchBoundRel"
  | .procedureCall => "procedureCall" | .fixupOuter => "fixupOuter" | .fixupFiltered => "fixupFiltered"
  | .apply => "apply" | .applySub => "applySub" | .cartesianLeft => "cartesianLeft"
  | .cartesianRight => "cartesianRight"

/-- the expansion iterators (match_out_plan.rs, match_in_undirected_plan.rs, match_bound_rel_plan.rs) -/
inductive ExpandKind where
  | matchOut | matchOutVarLen | matchIn | matchUndirected | matchBoundRel
  deriving DecidableEq, Repr

def ExpandKind.op : ExpandKind → OpKind
  | .matchOut => .matchOut | .matchOutVarLen => .matchOutVarLen | .matchIn => .matchIn
  | .matchUndirected => .matchUndirected | .matchBoundRel => .matchBoundRel

/-- which known quirks of the pinned tree are present (true = defect present) -/
structure Quirks where
  distinctDropsErr : Bool
  unionDropsErr : Bool
  skipDropsErr : Bool
  orderByKeepsErr : Bool
  filterNonBoolDrops : Bool
  existsSwallowsErr : Bool
  /-- the guard skips `take_failure` on the pull that finds its operator exhausted -/
  guardDropsFailureAtEnd : Bool
  /-- the places whose forwarding arm for an `Err` input item is missing: the item is skipped -/
  drops : List OpKind
  deriving DecidableEq, Repr

def Quirks.dropsErr (Q : Quirks) (k : OpKind) : Bool := Q.drops.contains k

def Quirks.repaired : Quirks := ⟨false, false, false, false, false, false, false, []⟩
def Quirks.pinned : Quirks := ⟨true, true, true, true, true, true, false, []⟩
/-- the working tree, as read by tools/extract.py -/
def Quirks.current : Quirks :=
  ⟨Generated.distinctDropsErr, Generated.unionDropsErr, Generated.skipDropsErr,
   Generated.orderByKeepsErr, Generated.filterNonBoolDrops, Generated.existsSwallowsErr,
   Generated.guardDropsFailureAtEnd,
   OpKind.all.filter (fun k => Generated.dropsInputErr.contains k.name)⟩

/-- where in the plan tree a check sits: every execution of every node has its own oracle -/
inductive Site where
  | root
  | left (s : Site)
  | right (s : Site)
  | exec (k : Nat) (s : Site)
  | inner (s : Site)
  deriving DecidableEq, Repr

/-- verdicts of the limit checks (`none` = the check passes).
    `coll stage observed` = `Params::check_collection_size`, `apply observed` =
    `check_apply_rows_per_outer`: functions of the observed size.
    `row site i` = `note_emitted_row` at the guard of `site` for its i-th item, `time site i` =
    the i-th `check_timeout` at `site`: ORACLES (one global row counter, wall clock). -/
structure LimEnv (ε : Type) where
  coll : String → Nat → Option ε
  apply : Nat → Option ε
  row : Site → Nat → Option ε
  time : Site → Nat → Option ε

/-- the unlimited run: no check ever fires -/
def LimEnv.unlimited {ε : Type} : LimEnv ε :=
  ⟨fun _ _ => Option.none, fun _ => Option.none, fun _ _ => Option.none, fun _ _ => Option.none⟩

/-- abstract evaluation: everything the operators ask of rows, values and expressions -/
structure Sem (χ ρ ν ε κ α : Type) where
  /-- `ensure_runtime_expression_compatible(e,row)?` then `evaluate_expression_value(e,row)`;
      first argument = the parameters (outer row of a correlated subquery), second = the row.
      The `coll` argument is the collection-size check used by `Function(range)`. -/
  eval : (String → Nat → Option ε) → χ → ρ → ρ → Except ε ν
  /-- evaluating the expression PARKS a failure (`Params::record_failure`): an `EXISTS { subquery }`
      inside it failed; the evaluator goes on with `null` in its place (that value is what `eval`
      answers) and the runtime guard of the enclosing node reports the parked error -/
  park : (String → Nat → Option ε) → χ → ρ → ρ → Option ε
  truth : ν → Truth
  listView : ν → ListView ν
  /-- `Row::default()` -/
  empty : ρ
  /-- `Row::with` -/
  set : ρ → String → ν → ρ
  /-- `Row::join` -/
  join : ρ → ρ → ρ
  /-- Apply: the parameters extended with the columns of the outer row -/
  bind : ρ → ρ → ρ
  /-- DISTINCT / UNION key: the `Debug` text of the column values -/
  dkey : ρ → κ
  /-- `evaluate_row_window_expression` (argument of SKIP / LIMIT) -/
  window : χ → ρ → Except ε Nat
  /-- `evaluator::order_compare` -/
  cmp : ν → ν → Ordering
  /-- aggregation: key of the `group_by` columns -/
  gkey : List String → ρ → κ
  /-- `validate_aggregate_runtime_expressions` for one row -/
  aggCheck : (String → Nat → Option ε) → List (α × String) → ρ → ρ → Except ε Unit
  /-- the finalisation closure of `execute_aggregate` for one group (rows in arrival order);
      its `check_collection_size` sites use the first argument -/
  aggFinal : (String → Nat → Option ε) → List String → List (α × String) → ρ → List ρ → Except ε ρ
  /-- a failure parked while the finalisation closure evaluated the aggregate arguments of one group -/
  aggPark : (String → Nat → Option ε) → List (α × String) → ρ → List ρ → Option ε
  /-- the error `FilterIter` raises for a predicate that is neither boolean nor null (repaired tree) -/
  nonBool : ε
  /-- `IndexSeek`: `snapshot.lookup_index(label, field, value)` for the seek named by the key
      (alias, label, field), tombstones filtered, as rows binding the alias; `none` = the value is
      not a null / bool / string or there is no such index: the fallback plan runs -/
  lookup : String → ν → Option (List ρ)
  /-- `ProcedureCallIter`, steps 3b–4 for one outer row: implicit fixture arguments (from the
      parameters), registry lookup, `proc.execute(args)`, and the result rows joined to the outer
      row under the YIELD aliases; arguments: procedure key, parameters, outer row, argument values -/
  call : String → ρ → ρ → List ν → Except ε (List ρ)
  /-- `row_contains_all_bindings(row, outer)` (OptionalWhereFixup) -/
  contains : ρ → ρ → Bool
  /-- `Value::Null` -/
  null : ν

/-! ## transducers -/

/-- an operator over one input stream -/
structure Trans (σ ε ρ : Type) where
  /-- one pulled input item: new state and the items the operator yields before it pulls again -/
  step : σ → Except ε ρ → σ × Stream ε ρ
  /-- `next()` returns `None` without pulling -/
  done : σ → Bool
  /-- items yielded once the input has returned `None` -/
  flush : σ → Stream ε ρ

/-- the drained output -/
def Trans.run {σ ε ρ : Type} (t : Trans σ ε ρ) : σ → Stream ε ρ → Stream ε ρ
  | st, [] => if t.done st then [] else t.flush st
  | st, x :: xs =>
    if t.done st then [] else (t.step st x).2 ++ t.run (t.step st x).1 xs

/-- number of `next()` calls the operator makes on its input to answer `d` calls of its own
    `next()` (the input items it obtains are `s.take (need …)`; one more than `s.length` = the
    call that finds the input exhausted) -/
def Trans.need {σ ε ρ : Type} (t : Trans σ ε ρ) : σ → Stream ε ρ → Nat → Nat
  | st, [], d => if d = 0 ∨ t.done st = true then 0 else 1
  | st, x :: xs, d =>
    if d = 0 ∨ t.done st = true then 0
    else if d ≤ (t.step st x).2.length then 1
    else 1 + t.need (t.step st x).1 xs (d - (t.step st x).2.length)

/-- an operator whose arm for an `Err` input item is missing (`drops`): the item is skipped -/
def dropErrT {σ ε ρ : Type} (drops : Bool) (t : Trans σ ε ρ) : Trans σ ε ρ where
  done := t.done
  step st x :=
    match x with
    | .ok r => t.step st (.ok r)
    | .error e => if drops then (st, []) else t.step st (.error e)
  flush := t.flush

/-- the same for a stream that is consumed whole by a loop -/
def dropErrs {ε ρ : Type} (drops : Bool) (s : Stream ε ρ) : Stream ε ρ :=
  if drops then s.filter Item.isOk else s

/-- `a` if it is there, else `b` (`record_failure` keeps the FIRST error) -/
def firstSome {β : Type} : Option β → Option β → Option β
  | some a, _ => some a
  | none, b => b

/-- an operator together with the failures its expression evaluation parks
    (`Params::record_failure`) and the `take_failure` of the runtime guards
    (runtime_limits.rs RuntimeGuardIter::next: `let item = self.inner.next(); take_failure()?`).
    `parks st x` = processing the input item `x` parks a failure, `flushParks st` = the work done
    once the input is exhausted parks one.  The parked failure is taken by the FIRST guard whose
    wrapped `next()` returns afterwards:
    * the operator's own guard, if the operator returns an item for this input item: that item is
      replaced by the error;
    * otherwise the guard of the operator's INPUT, on the next pull: the operator receives the error
      in place of the next input item (state `some e`: the next step processes `.error e`), also in
      place of the final `None` — unless that guard skips the check on the exhausting pull
      (`dropAtEnd`), in which case only an item of the final work can still be replaced. -/
def parkT {σ ε ρ : Type} (t : Trans σ ε ρ) (parks : σ → Except ε ρ → Option ε)
    (flushParks : σ → Option ε) (dropAtEnd : Bool) : Trans (σ × Option ε) ε ρ where
  done s := t.done s.1
  step s x :=
    match s.2 with
    | some e => (((t.step s.1 (.error e)).1, none), (t.step s.1 (.error e)).2)
    | none =>
      match parks s.1 x with
      | none => (((t.step s.1 x).1, none), (t.step s.1 x).2)
      | some e =>
        match (t.step s.1 x).2 with
        | [] => (((t.step s.1 x).1, some e), [])
        | _ :: rest => (((t.step s.1 x).1, none), .error e :: rest)
  flush s :=
    match s.2 with
    | some e =>
      if dropAtEnd then
        (match t.flush s.1 with
         | [] => []
         | _ :: rest => .error e :: rest)
      else (t.step s.1 (.error e)).2 ++ t.flush (t.step s.1 (.error e)).1
    | none =>
      match flushParks s.1 with
      | none => t.flush s.1
      | some e =>
        match t.flush s.1 with
        | [] => if dropAtEnd then [] else [.error e]
        | _ :: rest => .error e :: rest

/-- the failure parked (if any) among the input items pulled — and the final work done — to answer
    `d` calls; after the first one the error is on its way up and nothing else is processed -/
def parkEvents {σ ε ρ : Type} (t : Trans σ ε ρ) (parks : σ → Except ε ρ → Option ε)
    (flushParks : σ → Option ε) : σ → Stream ε ρ → Nat → List ε
  | st, [], d => if d = 0 ∨ t.done st = true then [] else (flushParks st).toList
  | st, x :: xs, d =>
    if d = 0 ∨ t.done st = true then []
    else match parks st x with
      | some e => [e]
      | none =>
        if d ≤ (t.step st x).2.length then []
        else parkEvents t parks flushParks (t.step st x).1 xs (d - (t.step st x).2.length)

section ops
variable {χ ρ ν ε κ α : Type} [DecidableEq κ]

/-- the first failure parked by evaluating the expressions `es` on a row -/
def rowParks (S : Sem χ ρ ν ε κ α) (L : LimEnv ε) (env : ρ) (es : List χ) {σ : Type} :
    σ → Except ε ρ → Option ε
  | _, .ok r => es.findSome? (fun e => S.park L.coll e env r)
  | _, .error _ => none

def noFlushParks {σ : Type} : σ → Option ε := fun _ => none

/-! ### RuntimeGuardIter (runtime_limits.rs) — wraps the iterator of EVERY plan node -/

structure GuardSt where
  calls : Nat
  dead : Bool

/-- mirrors `RuntimeGuardIter::next`: `check_timeout` opens every call (the one of the NEXT call is
    attached to the current item: it fires before anything is pulled), an `Ok` row is counted by
    `note_emitted_row` and replaced by the limit error if the budget is exceeded, an `Err` passes.
    After a timeout the Rust would answer `Err(timeout)` to every later call (time is monotone);
    the model ends the stream there (`dead`). -/
def guardT (L : LimEnv ε) (site : Site) : Trans GuardSt ε ρ where
  done st := st.dead
  step st x :=
    let out : Stream ε ρ :=
      match x with
      | .ok r => (match L.row site st.calls with
                  | some e => [.error e]
                  | none => [.ok r])
      | .error e => [.error e]
    match L.time site (st.calls + 1) with
    | some e => (⟨st.calls + 1, true⟩, out ++ [.error e])
    | none => (⟨st.calls + 1, false⟩, out)
  flush _ := []

/-- `wrap_plan_iterator`: the guard around a node's stream (the first call's `check_timeout` first) -/
def guard (L : LimEnv ε) (site : Site) (s : Stream ε ρ) : Stream ε ρ :=
  match L.time site 0 with
  | some e => [.error e]
  | none => (guardT L site).run ⟨0, false⟩ s

/-- pulls of the guard on its node for `d` calls -/
def guardNeed (L : LimEnv ε) (site : Site) (s : Stream ε ρ) (d : Nat) : Nat :=
  match L.time site 0 with
  | some _ => 0
  | none => (guardT (ρ := ρ) L site).need ⟨0, false⟩ s d

/-! ### Filter (plan_iterators.rs FilterIter::next) -/

/-- one input row of `FilterIter::next`: `ensure…?`, evaluate, keep on `Bool(true)` -/
def filterRow (S : Sem χ ρ ν ε κ α) (Q : Quirks) (L : LimEnv ε) (env : ρ) (pred : χ) (r : ρ) :
    Stream ε ρ :=
  -- a failure parked while the predicate was checked / evaluated wins: `FilterIter` takes it right
  -- after the evaluation, and if `ensure…` failed before, the guard replaces that error by it
  match S.park L.coll pred env r with
  | some e => [.error e]
  | none =>
    match S.eval L.coll pred env r with
    | .error e => [.error e]
    | .ok v =>
      match S.truth v with
      | .tt => [.ok r]
      | .ff => []
      | .null => []
      | .other => if Q.filterNonBoolDrops then [] else [.error S.nonBool]

/-- stateless per-row operator: an `Err` input item is returned as it is -/
def mapT (f : ρ → Stream ε ρ) : Trans Unit ε ρ where
  done _ := false
  step _ x :=
    match x with
    | .ok r => ((), f r)
    | .error e => ((), [.error e])
  flush _ := []

def filterT (S : Sem χ ρ ν ε κ α) (Q : Quirks) (L : LimEnv ε) (env : ρ) (pred : χ) : Trans Unit ε ρ :=
  mapT (filterRow S Q L env pred)

/-! ### Project (plan_mid.rs execute_project) -/

/-- the `map` closure: `?` on the first failing projection -/
def projectRow (S : Sem χ ρ ν ε κ α) (L : LimEnv ε) (env : ρ) (projs : List (String × χ)) (r : ρ) :
    Except ε ρ :=
  projs.foldlM (fun acc p => (S.eval L.coll p.2 env r).map (S.set acc p.1)) S.empty

def projectT (S : Sem χ ρ ν ε κ α) (L : LimEnv ε) (env : ρ) (projs : List (String × χ)) : Trans Unit ε ρ :=
  mapT (fun r => [projectRow S L env projs r])

/-! ### Distinct / Union (plan_tail.rs execute_distinct, execute_union) -/

/-- the `filter` closure with its `seen` set; `dropsErr` = the pinned tree's `false` for `Err` items -/
def distinctT (S : Sem χ ρ ν ε κ α) (dropsErr : Bool) : Trans (List κ) ε ρ where
  done _ := false
  step seen x :=
    match x with
    | .ok r => if S.dkey r ∈ seen then (seen, []) else (S.dkey r :: seen, [.ok r])
    | .error e => if dropsErr then (seen, []) else (seen, [.error e])
  flush _ := []

/-! ### Skip / Limit (plan_tail.rs execute_skip, execute_limit) -/

/-- pinned tree: `Iterator::skip(n)` discards the first n ITEMS; repaired: only `Ok` rows are
    counted and skipped. State = rows still to skip. -/
def skipT (dropsErr : Bool) : Trans Nat ε ρ where
  done _ := false
  step n x :=
    match x with
    | .ok r => if n > 0 then (n - 1, []) else (0, [.ok r])
    | .error e => if dropsErr && n > 0 then (n - 1, []) else (n, [.error e])
  flush _ := []

/-- `Iterator::take(n)`: state = items still to yield; at 0 `next()` returns `None` without pulling -/
def limitT : Trans Nat ε ρ where
  done n := n == 0
  step n x := (n - 1, [x])
  flush _ := []

/-! ### per-row expansion: Unwind, CartesianProduct, Apply, expand (MatchOut with input), EXISTS filter -/

/-- state = number of input items seen (index of the next execution / timeout check) -/
def flatMapT (g : Nat → ρ → Stream ε ρ) : Trans Nat ε ρ where
  done _ := false
  step k x :=
    match x with
    | .ok r => (k + 1, g k r)
    | .error e => (k + 1, [.error e])
  flush _ := []

/-- plan_tail.rs execute_unwind, the `flat_map` closure for an `Ok` row -/
def unwindRow (S : Sem χ ρ ν ε κ α) (L : LimEnv ε) (site : Site) (env : ρ) (e : χ) (alias : String)
    (k : Nat) (r : ρ) : Stream ε ρ :=
  match L.time (.inner site) k with
  | some err => [.error err]
  | none =>
    match S.eval L.coll e env r with
    | .error err => [.error err]
    | .ok v =>
      match S.listView v with
      | .list xs =>
        (match L.coll "Unwind.list" xs.length with
         | some err => [.error err]
         | none => xs.map (fun it => .ok (S.set r alias it)))
      | .null => []
      | .scalar => [.ok (S.set r alias v)]

/-- `check_timeout("Apply.next")` opens every call of `ApplyIter::next`: one check before each
    buffered row is yielded and one before the next outer row is pulled (attached to this batch) -/
def timeGate (f : Nat → Option ε) : Nat → Stream ε ρ → Stream ε ρ
  | i, [] => (match f i with
              | some e => [.error e]
              | none => [])
  | i, x :: xs => (match f i with
                   | some e => [.error e]
                   | none => x :: timeGate f (i + 1) xs)

/-! ### blocking operators: OrderBy (plan_mid.rs), Aggregate (projection_sort.rs) -/

structure BlockSt (β : Type) where
  acc : β
  n : Nat
  dead : Bool

/-- the comparator closure of `sortable.sort_by`: first non-`Equal` key decides, direction of the left item -/
def cmpKeys (cmp : ν → ν → Ordering) : List (ν × Bool) → List (ν × Bool) → Ordering
  | (a, asc) :: as, (b, _) :: bs =>
    match cmp a b with
    | .eq => cmpKeys cmp as bs
    | o => if asc then o else o.swap
  | _, _ => .eq

/-- `sort_by` is a stable sort (for a comparator that is a total preorder; otherwise the Rust
    result is unspecified): insertion sort, an element goes before the first one it is `le` to -/
def insertSorted {β : Type} (le : β → β → Bool) (x : β) : List β → List β
  | [] => [x]
  | y :: ys => if le x y then x :: y :: ys else y :: insertSorted le x ys

def stableSort {β : Type} (le : β → β → Bool) : List β → List β
  | [] => []
  | x :: xs => insertSorted le x (stableSort le xs)

/-- sort keys of one row: `ensure…` for every item first, then the values -/
def orderKeys (S : Sem χ ρ ν ε κ α) (L : LimEnv ε) (env : ρ) (keys : List (χ × Bool)) (r : ρ) :
    Except ε (List (ν × Bool)) :=
  keys.mapM (fun k => (S.eval L.coll k.1 env r).map (fun v => (v, k.2)))

def keyedItem (S : Sem χ ρ ν ε κ α) (L : LimEnv ε) (env : ρ) (keys : List (χ × Bool)) :
    Except ε ρ → Except ε ρ × List (ν × Bool)
  | .ok r => (match orderKeys S L env keys r with
              | .ok ks => (.ok r, ks)
              | .error e => (.error e, []))
  | .error e => (.error e, [])

/-- repaired tree: a row with its sort keys, or the error that stands in its place -/
def keyedRow (S : Sem χ ρ ν ε κ α) (L : LimEnv ε) (env : ρ) (keys : List (χ × Bool)) :
    Except ε ρ → Except ε (ρ × List (ν × Bool))
  | .ok r => (orderKeys S L env keys r).map (fun ks => (r, ks))
  | .error e => .error e

def keyLe (cmp : ν → ν → Ordering) {β : Type} (a b : β × List (ν × Bool)) : Bool :=
  cmpKeys cmp a.2 b.2 != .gt

/-- execute_order_by after the collect loop.  Pinned tree: every item gets its keys (an `Err`
    item or a failing key evaluation gets the empty key), then the stable sort.  Repaired tree:
    the first `Err` (in input order) is the only output (`position(|(row,_)| row.is_err())`). -/
def orderByFinish (S : Sem χ ρ ν ε κ α) (Q : Quirks) (L : LimEnv ε) (env : ρ) (keys : List (χ × Bool))
    (items : Stream ε ρ) : Stream ε ρ :=
  if Q.orderByKeepsErr then
    (stableSort (keyLe S.cmp) (items.map (keyedItem S L env keys))).map (·.1)
  else match items.mapM (keyedRow S L env keys) with
    | .error e => [.error e]
    | .ok ks => (stableSort (keyLe S.cmp) ks).map (fun k => .ok k.1)

/-- execute_order_by, the collect loop: `check_timeout`, (repaired: an `Err` item ends the query),
    push, `check_collection_size("OrderBy.collect")`.  acc = collected items, newest first. -/
def orderByT (S : Sem χ ρ ν ε κ α) (Q : Quirks) (L : LimEnv ε) (site : Site) (env : ρ)
    (keys : List (χ × Bool)) : Trans (BlockSt (Stream ε ρ)) ε ρ where
  done st := st.dead
  step st x :=
    match L.time (.inner site) st.n with
    | some e => (⟨st.acc, st.n + 1, true⟩, [.error e])
    | none =>
      match x, Q.orderByKeepsErr with
      | .error e, false => (⟨st.acc, st.n + 1, true⟩, [.error e])
      | _, _ =>
        match L.coll "OrderBy.collect" (st.acc.length + 1) with
        | some e => (⟨x :: st.acc, st.n + 1, true⟩, [.error e])
        | none => (⟨x :: st.acc, st.n + 1, false⟩, [])
  flush st := orderByFinish S Q L env keys st.acc.reverse

/-- insert a row into its group (groups in order of first occurrence; the Rust `HashMap` order is
    unspecified — the harness compares results as bags) -/
def groupInsert (k : κ) (r : ρ) : List (κ × List ρ) → List (κ × List ρ)
  | [] => [(k, [r])]
  | (k', rs) :: gs => if k = k' then (k', rs ++ [r]) :: gs else (k', rs) :: groupInsert k r gs

/-- execute_aggregate, "Convert to result rows": one item per group -/
def aggFinish (S : Sem χ ρ ν ε κ α) (L : LimEnv ε) (site : Site) (env : ρ) (groupBy : List String)
    (aggs : List (α × String)) (groups : List (κ × List ρ)) : Stream ε ρ :=
  let gs : List (List ρ) := if groups.isEmpty && groupBy.isEmpty then [[]] else groups.map (·.2)
  gs.zipIdx.map (fun g =>
    match L.time (.inner (.inner site)) g.2 with
    | some e => .error e
    | none => S.aggFinal L.coll groupBy aggs env g.1)

/-- execute_aggregate, the collect loop: `check_timeout`, an `Err` item ends the query,
    validation of the aggregate arguments, grouping, the two `check_collection_size` sites -/
def aggregateT (S : Sem χ ρ ν ε κ α) (L : LimEnv ε) (site : Site) (env : ρ) (groupBy : List String)
    (aggs : List (α × String)) : Trans (BlockSt (List (κ × List ρ))) ε ρ where
  done st := st.dead
  step st x :=
    match L.time (.inner site) st.n with
    | some e => (⟨st.acc, st.n + 1, true⟩, [.error e])
    | none =>
      match x with
      | .error e => (⟨st.acc, st.n + 1, true⟩, [.error e])
      | .ok r =>
        match S.aggCheck L.coll aggs env r with
        | .error e => (⟨st.acc, st.n + 1, true⟩, [.error e])
        | .ok _ =>
          let acc' := groupInsert (S.gkey groupBy r) r st.acc
          match L.coll "Aggregate.groups" acc'.length with
          | some e => (⟨acc', st.n + 1, true⟩, [.error e])
          | none =>
            match L.coll "Aggregate.rows" (st.n + 1) with
            | some e => (⟨acc', st.n + 1, true⟩, [.error e])
            | none => (⟨acc', st.n + 1, false⟩, [])
  flush st := aggFinish S L site env groupBy aggs st.acc

/-- a failure parked while the sort keys of the collected rows are evaluated (all rows, in input
    order, whatever their number) -/
def orderByFlushParks (S : Sem χ ρ ν ε κ α) (L : LimEnv ε) (env : ρ) (keys : List (χ × Bool)) :
    BlockSt (Stream ε ρ) → Option ε :=
  fun st => st.acc.reverse.findSome? (fun it => rowParks S L env (keys.map (·.1)) () it)

/-- a failure parked while the groups are finalised -/
def aggregateFlushParks (S : Sem χ ρ ν ε κ α) (L : LimEnv ε) (env : ρ) (aggs : List (α × String)) :
    BlockSt (List (κ × List ρ)) → Option ε :=
  fun st => st.acc.findSome? (fun g => S.aggPark L.coll aggs env g.2)

/-! ### ProcedureCall (join_apply.rs ProcedureCallIter::next) -/

/-- one outer row: `ensure…?` + evaluate for every argument in order, then the call; an error of
    either is the only item for this row -/
def procRow (S : Sem χ ρ ν ε κ α) (L : LimEnv ε) (env : ρ) (name : String) (args : List χ) (r : ρ) :
    Stream ε ρ :=
  match args.mapM (fun a => S.eval L.coll a env r) with
  | .error e => [.error e]
  | .ok vs =>
    match S.call name env r vs with
    | .error e => [.error e]
    | .ok rows => rows.map .ok

/-! ### IndexSeek (index_seek_plan.rs) -/

/-- a failure parked while the iterator was BUILT: the node's guard takes it on its first pull, in
    place of the first item (or of the end of the stream) -/
def parkHead (p : Option ε) (dropAtEnd : Bool) (s : Stream ε ρ) : Stream ε ρ :=
  match p with
  | none => s
  | some e =>
    match s with
    | [] => if dropAtEnd then [] else [.error e]
    | _ :: rest => .error e :: rest

/-- the seek value is usable (`ensure…` passes) and the index answers for it -/
def seekHit (S : Sem χ ρ ν ε κ α) (L : LimEnv ε) (env : ρ) (key : String) (value : χ) : Option (List ρ) :=
  match S.eval L.coll value env S.empty with
  | .error _ => none
  | .ok v => S.lookup key v

/-- execute_index_seek: `ensure…` on the empty row (its error is the only item), then the rows of
    the index entry, or the fallback plan's (guarded) iterator -/
def seekBody (S : Sem χ ρ ν ε κ α) (L : LimEnv ε) (env : ρ) (key : String) (value : χ)
    (fallback : Stream ε ρ) : Stream ε ρ :=
  match S.eval L.coll value env S.empty with
  | .error e => [.error e]
  | .ok v =>
    match S.lookup key v with
    | some rows => rows.map .ok
    | none => fallback

/-! ### OptionalWhereFixup (plan_mid.rs execute_optional_where_fixup) -/

structure LoopSt where
  n : Nat
  rows : Nat
  dead : Bool

/-- a collect loop `for item in execute_plan(..) { check_timeout?; item?; push; check_collection_size? }`
    seen as a pass-through: the rows it pushes, then the error that ends it -/
def loopT (L : LimEnv ε) (timeSite : Site) (stage : String) : Trans LoopSt ε ρ where
  done st := st.dead
  step st x :=
    match L.time timeSite st.n with
    | some e => (⟨st.n + 1, st.rows, true⟩, [.error e])
    | none =>
      match x with
      | .error e => (⟨st.n + 1, st.rows, true⟩, [.error e])
      | .ok r =>
        match L.coll stage (st.rows + 1) with
        | some e => (⟨st.n + 1, st.rows + 1, true⟩, [.error e])
        | none => (⟨st.n + 1, st.rows + 1, false⟩, [.ok r])
  flush _ := []

/-- the merge loop: per outer row `check_timeout`, the filtered rows that contain its bindings (or
    the row padded with nulls), `check_collection_size("OptionalWhereFixup.output")`;
    `i` = index of the outer row, `n` = rows put out so far -/
def fixupMerge (S : Sem χ ρ ν ε κ α) (L : LimEnv ε) (site : Site) (nulls : List String) (filtered : List ρ) :
    Nat → Nat → List ρ → Except ε (List ρ)
  | _, _, [] => .ok []
  | i, n, o :: os =>
    match L.time (.inner (.inner (.inner site))) i with
    | some e => .error e
    | none =>
      let ms := filtered.filter (fun r => S.contains r o)
      let out := if ms.isEmpty then [nulls.foldl (fun acc a => S.set acc a S.null) o] else ms
      match L.coll "OptionalWhereFixup.output" (n + out.length) with
      | some e => .error e
      | none => (fixupMerge S L site nulls filtered (i + 1) (n + out.length) os).map (out ++ ·)

/-- the whole of execute_optional_where_fixup given the two (guarded, drained) input streams:
    the first failure of any of the three loops is the only item -/
def fixupBody (S : Sem χ ρ ν ε κ α) (Q : Quirks) (L : LimEnv ε) (site : Site) (nulls : List String)
    (outer filtered : Stream ε ρ) : Stream ε ρ :=
  match collect ((dropErrT (Q.dropsErr .fixupOuter) (loopT L (.inner site) "OptionalWhereFixup.outer")).run
      ⟨0, 0, false⟩ outer) with
  | .error e => [.error e]
  | .ok orows =>
    match collect ((dropErrT (Q.dropsErr .fixupFiltered)
        (loopT L (.inner (.inner site)) "OptionalWhereFixup.filtered")).run ⟨0, 0, false⟩ filtered) with
    | .error e => [.error e]
    | .ok frows =>
      match fixupMerge S L site nulls frows 0 0 orows with
      | .error e => [.error e]
      | .ok rows => rows.map .ok

end ops

/-! ## plans -/

/-- the plan nodes `execute_plan` dispatches on (`executor::Plan`), all of them:
    ReturnOne / Values / NodeScan / Match* without input = `scan`; Create / Delete / Set* / Remove* /
    Foreach (which `execute_plan` answers with `once(Err(..))`) = `fail`; Match* with input = `expand`;
    the others by name. -/
inductive Plan (χ ρ ε α : Type) where
  /-- a leaf whose rows are facts of the graph and all `Ok`: ReturnOne (`[empty]`), Values,
      NodeScan (also OPTIONAL: the null row when nothing matches), MatchOut / MatchOutVarLen in scan
      mode, MatchIn / MatchUndirected without input (their `once(Ok(Row::default()))` expanded) -/
  | scan (rows : List ρ)
  /-- a write plan met on the read path: plan_tail.rs write_only_plan_error,
      plan_head.rs write_only_foreach_error -/
  | fail (e : ε)
  /-- the leaf of a correlated subquery: `Values { rows: [outer_row] }` -/
  | arg
  /-- index_seek_plan.rs: seek value evaluated on the empty row; index rows or the fallback plan -/
  | indexSeek (key : String) (value : χ) (fallback : Plan χ ρ ε α)
  | filter (pred : χ) (inp : Plan χ ρ ε α)
  /-- `WHERE EXISTS { sub }`: Filter whose predicate runs `exists_subquery_has_rows` -/
  | filterExists (sub : Plan χ ρ ε α) (inp : Plan χ ρ ε α)
  | project (projs : List (String × χ)) (inp : Plan χ ρ ε α)
  | distinct (inp : Plan χ ρ ε α)
  | unwind (e : χ) (alias : String) (inp : Plan χ ρ ε α)
  /-- MatchOut (ExpandIter) / MatchOutVarLen / MatchIn / MatchUndirected / MatchBoundRel with an
      input plan: `g row` = what the iterator yields for one input row — a function of the graph:
      the matching neighbours bound into the row, the OPTIONAL null row, nothing, or (ExpandIter)
      the single error "Variable … is not a node" / "… not found".
      The `limit` field of these plans is not modelled: the planner never sets it
      (Generated.matchLimitPushedDown). -/
  | expand (kind : ExpandKind) (g : ρ → Stream ε ρ) (inp : Plan χ ρ ε α)
  /-- join_apply.rs ProcedureCallIter -/
  | procedureCall (name : String) (args : List χ) (inp : Plan χ ρ ε α)
  /-- plan_mid.rs execute_optional_where_fixup (OPTIONAL MATCH … WHERE) -/
  | fixup (nulls : List String) (outer filtered : Plan χ ρ ε α)
  | skip (n : χ) (inp : Plan χ ρ ε α)
  | limit (n : χ) (inp : Plan χ ρ ε α)
  | orderBy (keys : List (χ × Bool)) (inp : Plan χ ρ ε α)
  | aggregate (groupBy : List String) (aggs : List (α × String)) (inp : Plan χ ρ ε α)
  | union (all : Bool) (l r : Plan χ ρ ε α)
  | cartesian (l r : Plan χ ρ ε α)
  | apply (inp sub : Plan χ ρ ε α)

/-- length of the longest operator path below the node (nested executions — the right side of a
    CartesianProduct, the subquery of an Apply / EXISTS filter, the fallback of an IndexSeek — count
    as children) -/
def Plan.depth {χ ρ ε α : Type} : Plan χ ρ ε α → Nat
  | .scan _ => 0
  | .fail _ => 0
  | .arg => 0
  | .indexSeek _ _ fb => fb.depth + 1
  | .filter _ inp => inp.depth + 1
  | .filterExists sub inp => max inp.depth sub.depth + 1
  | .project _ inp => inp.depth + 1
  | .distinct inp => inp.depth + 1
  | .unwind _ _ inp => inp.depth + 1
  | .expand _ _ inp => inp.depth + 1
  | .procedureCall _ _ inp => inp.depth + 1
  | .fixup _ outer filtered => max outer.depth filtered.depth + 1
  | .skip _ inp => inp.depth + 1
  | .limit _ inp => inp.depth + 1
  | .orderBy _ inp => inp.depth + 1
  | .aggregate _ _ inp => inp.depth + 1
  | .union _ l r => max l.depth r.depth + 1
  | .cartesian l r => max l.depth r.depth + 1
  | .apply inp sub => max inp.depth sub.depth + 1

section run
variable {χ ρ ν ε κ α : Type} [DecidableEq κ]

def joinItem (S : Sem χ ρ ν ε κ α) (l : ρ) : Except ε ρ → Except ε ρ
  | .ok r => .ok (S.join l r)
  | .error e => .error e

/-- join_apply.rs ApplyIter::next for one outer row, given the drained subquery stream:
    `iter.collect()?`, `check_apply_rows_per_outer`, then the buffered rows joined to the outer row -/
def applyRow (S : Sem χ ρ ν ε κ α) (L : LimEnv ε) (site : Site) (k : Nat) (outer : ρ) (sub : Stream ε ρ) :
    Stream ε ρ :=
  match collect sub with
  | .error e => [.error e]
  | .ok rows =>
    match L.apply rows.length with
    | some e => [.error e]
    | none => timeGate (L.time (.inner (.exec k site))) 0 (rows.map (fun r => .ok (S.join outer r)))

/-- query_api.rs exists_subquery_has_rows + the evaluator's EXISTS arm + FilterIter, for one row:
    the subquery's first item decides; pinned tree: an `Err` becomes `Null` and the row is dropped -/
def existsRow (Q : Quirks) (outer : ρ) (sub : Stream ε ρ) : Stream ε ρ :=
  match sub.head? with
  | none => []
  | some (.ok _) => [.ok outer]
  | some (.error e) => if Q.existsSwallowsErr then [] else [.error e]

/-- `execute_plan`: the stream of a plan node (drained), guard included.
    `env` = parameters / outer row of the enclosing correlated subquery. -/
def runL (S : Sem χ ρ ν ε κ α) (Q : Quirks) (L : LimEnv ε) : Site → ρ → Plan χ ρ ε α → Stream ε ρ
  | site, _, .scan rows => guard L site (rows.map .ok)
  | site, _, .fail e => guard L site [.error e]
  | site, env, .arg => guard L site [.ok env]
  | site, env, .indexSeek key value fb =>
    guard L site (parkHead (S.park L.coll value env S.empty) Q.guardDropsFailureAtEnd
      (seekBody S L env key value (runL S Q L (.left site) env fb)))
  | site, env, .filter pred inp =>
    guard L site ((dropErrT (Q.dropsErr .filter) (filterT S Q L env pred)).run ()
      (runL S Q L (.left site) env inp))
  | site, env, .filterExists sub inp =>
    guard L site ((dropErrT (Q.dropsErr .filter)
      (flatMapT (fun k r => existsRow Q r (runL S Q L (.exec k site) (S.bind env r) sub)))).run 0
      (runL S Q L (.left site) env inp))
  | site, env, .project projs inp =>
    guard L site ((parkT (dropErrT (Q.dropsErr .project) (projectT S L env projs))
      (rowParks S L env (projs.map (·.2))) noFlushParks
      Q.guardDropsFailureAtEnd).run ((), none) (runL S Q L (.left site) env inp))
  | site, env, .distinct inp =>
    guard L site ((distinctT S Q.distinctDropsErr).run [] (runL S Q L (.left site) env inp))
  | site, env, .unwind e alias inp =>
    guard L site ((parkT (dropErrT (Q.dropsErr .unwind) (flatMapT (unwindRow S L site env e alias)))
      (rowParks S L env [e]) noFlushParks
      Q.guardDropsFailureAtEnd).run (0, none) (runL S Q L (.left site) env inp))
  | site, env, .expand kind g inp =>
    guard L site ((dropErrT (Q.dropsErr kind.op) (flatMapT (fun _ r => g r))).run 0
      (runL S Q L (.left site) env inp))
  | site, env, .procedureCall name args inp =>
    guard L site ((parkT (dropErrT (Q.dropsErr .procedureCall) (flatMapT (fun _ r => procRow S L env name args r)))
      (rowParks S L env args) noFlushParks
      Q.guardDropsFailureAtEnd).run (0, none) (runL S Q L (.left site) env inp))
  | site, env, .fixup nulls outer filtered =>
    guard L site (fixupBody S Q L site nulls (runL S Q L (.left site) env outer)
      (runL S Q L (.right site) env filtered))
  | site, env, .skip n inp =>
    guard L site (match S.window n env with
      | .error e => [.error e]
      | .ok k => (skipT Q.skipDropsErr).run k (runL S Q L (.left site) env inp))
  | site, env, .limit n inp =>
    guard L site (match S.window n env with
      | .error e => [.error e]
      | .ok k => limitT.run k (runL S Q L (.left site) env inp))
  | site, env, .orderBy keys inp =>
    guard L site ((parkT (orderByT S Q L site env keys) (fun _ _ => none) (orderByFlushParks S L env keys)
      Q.guardDropsFailureAtEnd).run (⟨[], 0, false⟩, none) (runL S Q L (.left site) env inp))
  | site, env, .aggregate groupBy aggs inp =>
    guard L site ((parkT (dropErrT (Q.dropsErr .aggregate) (aggregateT S L site env groupBy aggs))
      (fun _ _ => none) (aggregateFlushParks S L env aggs)
      Q.guardDropsFailureAtEnd).run (⟨[], 0, false⟩, none) (runL S Q L (.left site) env inp))
  | site, env, .union all l r =>
    guard L site (
      if all then runL S Q L (.left site) env l ++ runL S Q L (.right site) env r
      else (distinctT S Q.unionDropsErr).run [] (runL S Q L (.left site) env l ++ runL S Q L (.right site) env r))
  | site, env, .cartesian l r =>
    guard L site ((dropErrT (Q.dropsErr .cartesianLeft)
      (flatMapT (fun k lrow =>
        (dropErrs (Q.dropsErr .cartesianRight) (runL S Q L (.exec k site) env r)).map (joinItem S lrow)))).run 0
      (runL S Q L (.left site) env l))
  | site, env, .apply inp sub =>
    guard L site (match L.time (.inner site) 0 with
      | some e => [.error e]
      | none => (dropErrT (Q.dropsErr .apply)
          (flatMapT (fun k r => applyRow S L site k r
            (dropErrs (Q.dropsErr .applySub) (runL S Q L (.exec k site) (S.bind env r) sub))))).run 0
          (runL S Q L (.left site) env inp))

/-- the query-level result: `execute_streaming(..).collect::<Result<Vec<_>>>()` -/
def execute (S : Sem χ ρ ν ε κ α) (Q : Quirks) (L : LimEnv ε) (params : ρ) (p : Plan χ ρ ε α) :
    Except ε (List ρ) :=
  collect (runL S Q L .root params p)

end run

end Nervus.PlanOps
