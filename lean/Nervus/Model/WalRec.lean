/-
  Nervus.Model.WalRec — mirrors nervusdb-storage/src/wal.rs
  `WalRecord::{record_type, encode_body, decode_body}` and `read_u64`.
  Tags, `PAGE_SIZE` and the ManifestSwitch length check are regenerated from the source
  (`Generated/WalTags.lean`).  Slice expressions that would panic are the explicit outcome `WErr.panic`.
-/
import Nervus.Model.PropVal
import Nervus.Model.Generated.WalTags
namespace Nervus.WalRec
open Nervus Nervus.PropVal

/-- `WalRecord` (`String` fields are byte lists, see `Rec.wf`; `SegmentPointer` is a pair) -/
inductive Rec
  | beginTx (txid : Nat)
  | commitTx (txid : Nat)
  | pageWrite (pageId : Nat) (page : Bytes)
  | pageFree (pageId : Nat)
  | createLabel (name : Bytes) (labelId : Nat)
  | createNode (externalId labelId internalId : Nat)
  | addNodeLabel (node labelId : Nat)
  | removeNodeLabel (node labelId : Nat)
  | createEdge (src rel dst : Nat)
  | tombstoneNode (node : Nat)
  | tombstoneEdge (src rel dst : Nat)
  | manifestSwitch (epoch : Nat) (segments : List (Nat × Nat)) (propertiesRoot statsRoot : Nat)
  | checkpoint (upToTxid epoch propertiesRoot statsRoot : Nat)
  | setNodeProperty (node : Nat) (key : Bytes) (value : PV)
  | setEdgeProperty (src rel dst : Nat) (key : Bytes) (value : PV)
  | removeNodeProperty (node : Nat) (key : Bytes)
  | removeEdgeProperty (src rel dst : Nat) (key : Bytes)
  deriving Repr, DecidableEq

/-- what the record codec does (regenerated): the property-value decoder's configuration, the constant of
    ManifestSwitch's second length check, and whether `encode_body` refuses values the decoder would refuse -/
structure Cfg where
  pv : PropVal.Cfg
  manifestTailCheck : Nat
  encodeChecksNesting : Bool
  deriving Repr, DecidableEq

def Cfg.current : Cfg := ⟨PropVal.Cfg.current, Generated.walManifestTailCheck, Generated.walEncodeChecksNesting⟩
def Cfg.pinned : Cfg := ⟨PropVal.Cfg.pinned, 8, false⟩

/-- `Error::WalProtocol(msg)`, `Error::WalRecordTooLarge(_)`; `panic` is not a Rust error -/
inductive WErr
  | proto (msg : String)
  | tooLarge
  | panic
  deriving Repr, DecidableEq

def u32 (n : Nat) : Bool := decide (n < two32)
def u64 (n : Nat) : Bool := decide (n < two64)

/-- Rust's type invariants for a `WalRecord` value: integer widths, `[u8; PAGE_SIZE]`, `String`s are UTF-8,
    `PropertyValue`s are well formed -/
def Rec.wf : Rec → Bool
  | .beginTx t => u64 t
  | .commitTx t => u64 t
  | .pageWrite p page => u64 p && decide (page.length = Generated.walPageSize)
  | .pageFree p => u64 p
  | .createLabel name l => validUtf8 name && u32 l
  | .createNode e l i => u64 e && u32 l && u32 i
  | .addNodeLabel n l => u32 n && u32 l
  | .removeNodeLabel n l => u32 n && u32 l
  | .createEdge s r d => u32 s && u32 r && u32 d
  | .tombstoneNode n => u32 n
  | .tombstoneEdge s r d => u32 s && u32 r && u32 d
  | .manifestSwitch e segs p s => u64 e && segs.all (fun x => u64 x.1 && u64 x.2) && u64 p && u64 s
  | .checkpoint a b c d => u64 a && u64 b && u64 c && u64 d
  | .setNodeProperty n k v => u32 n && validUtf8 k && v.wf
  | .setEdgeProperty s r d k v => u32 s && u32 r && u32 d && validUtf8 k && v.wf
  | .removeNodeProperty n k => u32 n && validUtf8 k
  | .removeEdgeProperty s r d k => u32 s && u32 r && u32 d && validUtf8 k

open Generated in
/-- mirrors `WalRecord::record_type` -/
def Rec.tag : Rec → UInt8
  | .beginTx .. => walTagBeginTx
  | .commitTx .. => walTagCommitTx
  | .pageWrite .. => walTagPageWrite
  | .pageFree .. => walTagPageFree
  | .createLabel .. => walTagCreateLabel
  | .createNode .. => walTagCreateNode
  | .addNodeLabel .. => walTagAddNodeLabel
  | .removeNodeLabel .. => walTagRemoveNodeLabel
  | .createEdge .. => walTagCreateEdge
  | .tombstoneNode .. => walTagTombstoneNode
  | .tombstoneEdge .. => walTagTombstoneEdge
  | .manifestSwitch .. => walTagManifestSwitch
  | .checkpoint .. => walTagCheckpoint
  | .setNodeProperty .. => walTagSetNodeProperty
  | .setEdgeProperty .. => walTagSetEdgeProperty
  | .removeNodeProperty .. => walTagRemoveNodeProperty
  | .removeEdgeProperty .. => walTagRemoveEdgeProperty

def le4 (n : Nat) : Bytes := leBytes 4 n
def le8 (n : Nat) : Bytes := leBytes 8 n

/-- `key_len = u32::try_from(len).map_err(WalRecordTooLarge)?; key_len.to_le_bytes(); key_bytes` -/
def encStr (s : Bytes) : Except WErr Bytes :=
  if s.length < two32 then .ok (le4 s.length ++ s) else .error .tooLarge

def encSegs : List (Nat × Nat) → Bytes
  | [] => []
  | (i, m) :: t => le8 i ++ (le8 m ++ encSegs t)

/-- `value.nesting_depth() > PropertyValue::MAX_NESTING_DEPTH` (only where the guard exists) -/
def nestingRefused (cfg : Cfg) (v : PV) : Bool :=
  cfg.encodeChecksNesting && (match cfg.pv.maxDepth with
    | some m => decide (m < v.nesting)
    | none => false)

/-- `value.encode()` behind the nesting guard of the `fix:` commit
    (`if value.nesting_depth() > MAX_NESTING_DEPTH { return Err(WalProtocol(..)) }`);
    a value `encode` would panic on (`expect`) is `WErr.panic` -/
def encVal (cfg : Cfg) (v : PV) : Except WErr Bytes :=
  if nestingRefused cfg v then
    .error (.proto "property value nested too deeply")
  else match encodeChecked v with
    | some b => .ok b
    | none => .error .panic

/-- the records `encode_body` accepts (returns `Ok`): names/keys shorter than 2^32 bytes, fewer than 2^32
    segments, property values the nesting guard lets through -/
def Rec.fitsWire (cfg : Cfg) : Rec → Bool
  | .createLabel name _ => decide (name.length < two32)
  | .manifestSwitch _ segs _ _ => decide (segs.length < two32)
  | .setNodeProperty _ k v => decide (k.length < two32) && !nestingRefused cfg v
  | .setEdgeProperty _ _ _ k v => decide (k.length < two32) && !nestingRefused cfg v
  | .removeNodeProperty _ k => decide (k.length < two32)
  | .removeEdgeProperty _ _ _ k => decide (k.length < two32)
  | _ => true

/-- mirrors `WalRecord::encode_body` (payload after the type byte) -/
def encodePayload (cfg : Cfg) : Rec → Except WErr Bytes
  | .beginTx t => .ok (le8 t)
  | .commitTx t => .ok (le8 t)
  | .pageWrite p page => .ok (le8 p ++ page)
  | .pageFree p => .ok (le8 p)
  | .createLabel name l => (encStr name).map fun s => le4 l ++ s
  | .createNode e l i => .ok (le8 e ++ (le4 l ++ le4 i))
  | .addNodeLabel n l => .ok (le4 n ++ le4 l)
  | .removeNodeLabel n l => .ok (le4 n ++ le4 l)
  | .createEdge s r d => .ok (le4 s ++ (le4 r ++ le4 d))
  | .tombstoneNode n => .ok (le4 n)
  | .tombstoneEdge s r d => .ok (le4 s ++ (le4 r ++ le4 d))
  | .manifestSwitch e segs p s =>
    if segs.length < two32 then .ok (le8 e ++ (le4 segs.length ++ (encSegs segs ++ (le8 p ++ le8 s))))
    else .error (.proto "too many segments")
  | .checkpoint a b c d => .ok (le8 a ++ (le8 b ++ (le8 c ++ le8 d)))
  | .setNodeProperty n k v =>
    match encStr k with
    | .error e => .error e
    | .ok ks => (encVal cfg v).map fun vb => le4 n ++ (ks ++ vb)
  | .setEdgeProperty s r d k v =>
    match encStr k with
    | .error e => .error e
    | .ok ks => (encVal cfg v).map fun vb => le4 s ++ (le4 r ++ (le4 d ++ (ks ++ vb)))
  | .removeNodeProperty n k => (encStr k).map fun ks => le4 n ++ ks
  | .removeEdgeProperty s r d k => (encStr k).map fun ks => le4 s ++ (le4 r ++ (le4 d ++ ks))

/-- mirrors `WalRecord::encode_body`: `out.push(self.record_type()); …` -/
def encodeBody (cfg : Cfg) (r : Rec) : Except WErr Bytes := (encodePayload cfg r).map fun p => r.tag :: p

/-! ### decode_body -/

/-- `uN::from_le_bytes(payload[a..b].try_into().unwrap())`: `panic` if the slice is out of range -/
def rd (p : Bytes) (a b : Nat) : Except WErr Nat :=
  match slice p a b with
  | some x => .ok (leVal x)
  | none => .error .panic

/-- mirrors `read_u64` -/
def readU64 (p : Bytes) : Except WErr Nat :=
  if p.length ≠ 8 then .error (.proto "invalid u64 payload length") else rd p 0 8

/-- `String::from_utf8(payload[a..b].to_vec()).map_err(|_| WalProtocol(msg))` -/
def rdStr (p : Bytes) (a b : Nat) (msg : String) : Except WErr Bytes :=
  match slice p a b with
  | none => .error .panic
  | some s => if validUtf8 s then .ok s else .error (.proto msg)

/-- `PropertyValue::decode(value_bytes).map_err(|_| WalProtocol("property decode error"))`;
    a panic inside the value decoder stays a panic -/
def rdVal (cfg : Cfg) (bs : Bytes) : Except WErr PV :=
  match decode cfg.pv bs with
  | .ok v => .ok v
  | .error .panic => .error .panic
  | .error .fuel => .error .panic
  | .error _ => .error (.proto "property decode error")

/-- the segment loop of the ManifestSwitch arm: `count` times `payload[offset..offset+8]`,
    `payload[offset+8..offset+16]`, `offset += 16` -/
def rdSegs (p : Bytes) : Nat → Nat → Except WErr (List (Nat × Nat))
  | 0, _ => .ok []
  | n + 1, off => do
    let i ← rd p off (off + 8)
    let m ← rd p (off + 8) (off + 16)
    let t ← rdSegs p n (off + 16)
    pure ((i, m) :: t)

/-! the arms of `decode_body`'s `match ty`, one definition each (`p` is `payload = &body[1..]`) -/

open Generated in
/-- arm 3 (PageWrite): exact length, `page.copy_from_slice(&payload[8..])` -/
def armPageWrite (p : Bytes) : Except WErr Rec :=
  if p.length ≠ 8 + walPageSize then .error (.proto "invalid PageWrite payload length")
  else do
    let pid ← rd p 0 8
    match slice p 8 p.length with
    | none => .error .panic
    | some page => if page.length = walPageSize then pure (.pageWrite pid page) else .error .panic

/-- arm 15 (CreateLabel) -/
def armCreateLabel (p : Bytes) : Except WErr Rec :=
  if p.length < 4 + 4 then .error (.proto "invalid CreateLabel payload length")
  else do
    let l ← rd p 0 4
    let n ← rd p 4 8
    if p.length < 8 + n then .error (.proto "invalid CreateLabel payload length")
    else do
      let name ← rdStr p 8 (8 + n) "invalid UTF-8 in label name"
      pure (.createLabel name l)

/-- arm 5 (CreateNode) -/
def armCreateNode (p : Bytes) : Except WErr Rec :=
  if p.length ≠ 8 + 4 + 4 then .error (.proto "invalid CreateNode payload length")
  else do
    let e ← rd p 0 8
    let l ← rd p 8 12
    let i ← rd p 12 16
    pure (.createNode e l i)

/-- arm 16 (AddNodeLabel) -/
def armAddNodeLabel (p : Bytes) : Except WErr Rec :=
  if p.length ≠ 8 then .error (.proto "invalid AddNodeLabel payload length")
  else do
    let n ← rd p 0 4
    let l ← rd p 4 8
    pure (.addNodeLabel n l)

/-- arm 17 (RemoveNodeLabel) -/
def armRemoveNodeLabel (p : Bytes) : Except WErr Rec :=
  if p.length ≠ 8 then .error (.proto "invalid RemoveNodeLabel payload length")
  else do
    let n ← rd p 0 4
    let l ← rd p 4 8
    pure (.removeNodeLabel n l)

/-- arm 6 (CreateEdge) -/
def armCreateEdge (p : Bytes) : Except WErr Rec :=
  if p.length ≠ 12 then .error (.proto "invalid CreateEdge payload length")
  else do
    let s ← rd p 0 4
    let r ← rd p 4 8
    let d ← rd p 8 12
    pure (.createEdge s r d)

/-- arm 7 (TombstoneNode) -/
def armTombstoneNode (p : Bytes) : Except WErr Rec :=
  if p.length ≠ 4 then .error (.proto "invalid TombstoneNode payload length")
  else do
    let n ← rd p 0 4
    pure (.tombstoneNode n)

/-- arm 8 (TombstoneEdge) -/
def armTombstoneEdge (p : Bytes) : Except WErr Rec :=
  if p.length ≠ 12 then .error (.proto "invalid TombstoneEdge payload length")
  else do
    let s ← rd p 0 4
    let r ← rd p 4 8
    let d ← rd p 8 12
    pure (.tombstoneEdge s r d)

/-- arm 9 (ManifestSwitch): `segments_end = 12 + count * 16`, second check `payload.len() < segments_end + K`
    (`K = cfg.manifestTailCheck`), `Vec::with_capacity(count)` (`count * 16 ≤ payload.len()` by that check),
    then `payload[segments_end .. segments_end + 16]` is read -/
def armManifestSwitch (cfg : Cfg) (p : Bytes) : Except WErr Rec :=
  if p.length < 8 + 4 + 8 + 8 then .error (.proto "invalid ManifestSwitch payload length")
  else do
    let e ← rd p 0 8
    let count ← rd p 8 12
    if p.length < 12 + count * 16 + cfg.manifestTailCheck then
      .error (.proto "invalid ManifestSwitch payload length")
    else do
      let segs ← rdSegs p count 12
      let pr ← rd p (12 + count * 16) (12 + count * 16 + 8)
      let sr ← rd p (12 + count * 16 + 8) (12 + count * 16 + 16)
      pure (.manifestSwitch e segs pr sr)

/-- arm 10 (Checkpoint) -/
def armCheckpoint (p : Bytes) : Except WErr Rec :=
  if p.length ≠ 32 then .error (.proto "invalid Checkpoint payload length")
  else do
    let a ← rd p 0 8
    let b ← rd p 8 16
    let c ← rd p 16 24
    let d ← rd p 24 32
    pure (.checkpoint a b c d)

/-- arm 11 (SetNodeProperty): the value is whatever follows the key (`PropertyValue::decode` ignores a tail) -/
def armSetNodeProperty (cfg : Cfg) (p : Bytes) : Except WErr Rec :=
  if p.length < 4 + 4 then .error (.proto "invalid SetNodeProperty payload length")
  else do
    let n ← rd p 0 4
    let kl ← rd p 4 8
    if p.length < 8 + kl then .error (.proto "invalid SetNodeProperty payload length")
    else do
      let k ← rdStr p 8 (8 + kl) "invalid UTF-8 in key"
      let v ← rdVal cfg (p.drop (8 + kl))
      pure (.setNodeProperty n k v)

/-- arm 12 (SetEdgeProperty) -/
def armSetEdgeProperty (cfg : Cfg) (p : Bytes) : Except WErr Rec :=
  if p.length < 12 + 4 then .error (.proto "invalid SetEdgeProperty payload length")
  else do
    let s ← rd p 0 4
    let r ← rd p 4 8
    let d ← rd p 8 12
    let kl ← rd p 12 16
    if p.length < 16 + kl then .error (.proto "invalid SetEdgeProperty payload length")
    else do
      let k ← rdStr p 16 (16 + kl) "invalid UTF-8 in key"
      let v ← rdVal cfg (p.drop (16 + kl))
      pure (.setEdgeProperty s r d k v)

/-- arm 13 (RemoveNodeProperty): exact length -/
def armRemoveNodeProperty (p : Bytes) : Except WErr Rec :=
  if p.length < 4 + 4 then .error (.proto "invalid RemoveNodeProperty payload length")
  else do
    let n ← rd p 0 4
    let kl ← rd p 4 8
    if p.length ≠ 8 + kl then .error (.proto "invalid RemoveNodeProperty payload length")
    else do
      let k ← rdStr p 8 (8 + kl) "invalid UTF-8 in key"
      pure (.removeNodeProperty n k)

/-- arm 14 (RemoveEdgeProperty): exact length -/
def armRemoveEdgeProperty (p : Bytes) : Except WErr Rec :=
  if p.length < 12 + 4 then .error (.proto "invalid RemoveEdgeProperty payload length")
  else do
    let s ← rd p 0 4
    let r ← rd p 4 8
    let d ← rd p 8 12
    let kl ← rd p 12 16
    if p.length ≠ 16 + kl then .error (.proto "invalid RemoveEdgeProperty payload length")
    else do
      let k ← rdStr p 16 (16 + kl) "invalid UTF-8 in key"
      pure (.removeEdgeProperty s r d k)

open Generated in
/-- mirrors `WalRecord::decode_body`: `if body.is_empty() {..}`, `ty = body[0]`, `payload = &body[1..]`, `match ty` -/
def decodeBody (cfg : Cfg) (body : Bytes) : Except WErr Rec :=
  match body with
  | [] => .error (.proto "empty record body")
  | ty :: p =>
    if ty = walTagBeginTx then (readU64 p).map .beginTx
    else if ty = walTagCommitTx then (readU64 p).map .commitTx
    else if ty = walTagPageWrite then armPageWrite p
    else if ty = walTagPageFree then (readU64 p).map .pageFree
    else if ty = walTagCreateLabel then armCreateLabel p
    else if ty = walTagCreateNode then armCreateNode p
    else if ty = walTagAddNodeLabel then armAddNodeLabel p
    else if ty = walTagRemoveNodeLabel then armRemoveNodeLabel p
    else if ty = walTagCreateEdge then armCreateEdge p
    else if ty = walTagTombstoneNode then armTombstoneNode p
    else if ty = walTagTombstoneEdge then armTombstoneEdge p
    else if ty = walTagManifestSwitch then armManifestSwitch cfg p
    else if ty = walTagCheckpoint then armCheckpoint p
    else if ty = walTagSetNodeProperty then armSetNodeProperty cfg p
    else if ty = walTagSetEdgeProperty then armSetEdgeProperty cfg p
    else if ty = walTagRemoveNodeProperty then armRemoveNodeProperty p
    else if ty = walTagRemoveEdgeProperty then armRemoveEdgeProperty p
    else .error (.proto "unknown record type")

end Nervus.WalRec
