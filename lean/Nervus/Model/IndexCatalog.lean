/-
  Nervus.Model.IndexCatalog — the roots of the property indexes: in memory (`IndexCatalog.entries`)
  and on disk (the catalog page `GraphEngine::open` loads them from) (C15, reopen).

  Mirrors
    nervusdb-storage/src/engine.rs   WriteTxn::commit, block "Apply Index Updates": every IndexOp
                                     loads the tree at the in-memory root, optionally deletes, optionally
                                     inserts, stores the new root in memory; then the catalog page is
                                     written — unconditionally, or under a flag (shape regenerated);
                                     GraphEngine::create_index (get_or_create flushes, backfill inserts,
                                     update_root flushes); GraphEngine::open (roots = catalog page)
  Which insert moves a root is the B-tree's business (a root split allocates a new root page): here an
  operation simply CARRIES the root after its delete and after its insert — any values at all.
  Core-only imports.
-/
import Nervus.Model.Generated.IndexFlags
namespace Nervus.IndexCatalog

/-- when `commit` writes the catalog page -/
inductive Flush
  /-- `catalog.flush(&mut pager)?` after the loop, unconditionally -/
  | always
  /-- `if flag { flush }`, `flag |= tree.root() != re.root` after the insert of every operation -/
  | anyMoved
  /-- `flag = tree.root() != re.root` (plain assignment): only the last operation counts -/
  | lastMoved
  /-- accumulated, but in some arm the flag is computed before the insert -/
  | beforeInsert
  deriving Repr, DecidableEq

def Flush.ofCode : Nat → Flush
  | 0 => .always
  | 1 => .anyMoved
  | 2 => .lastMoved
  | _ => .beforeInsert

def Flush.current : Flush := Flush.ofCode Generated.idxCatalogFlush
def backfillRecordsRoot : Bool := Generated.idxBackfillRecordsRoot

abbrev Roots := List (Nat × Nat)   -- index id ↦ root page

def getRoot (rs : Roots) (i : Nat) : Option Nat := rs.lookup i

def setRoot : Roots → Nat → Nat → Roots
  | [], _, _ => []
  | (j, r) :: rest, i, r' => if j = i then (j, r') :: rest else (j, r) :: setRoot rest i r'

structure Cat where
  mem : Roots
  disk : Roots
  deriving Repr, DecidableEq

/-- one IndexOp as executed: the index, the root after its (optional) delete, the root after its
    (optional) insert — arbitrary page ids -/
structure IOp where
  idx : Nat
  afterDelete : Nat
  afterInsert : Nat
  deriving Repr, DecidableEq

/-- the loop body: `(flag, mem)` -/
def opStep (f : Flush) (st : Bool × Roots) (op : IOp) : Bool × Roots :=
  match getRoot st.2 op.idx with
  | none => st      -- `catalog.entries.get_mut(&name)` is None: nothing happens
  | some before =>
    let flag := match f with
      | .always => st.1
      | .anyMoved => st.1 || op.afterInsert != before
      | .lastMoved => op.afterInsert != before
      | .beforeInsert => st.1 || op.afterDelete != before
    (flag, setRoot st.2 op.idx op.afterInsert)

/-- mirrors the "Apply Index Updates" block (skipped when there is no index operation) -/
def commit (f : Flush) (c : Cat) (ops : List IOp) : Cat :=
  if ops.isEmpty then c
  else
    let r := ops.foldl (opStep f) (false, c.mem)
    let flush := match f with
      | .always => true
      | _ => r.1
    { mem := r.2, disk := if flush then r.2 else c.disk }

/-- mirrors `create_index` for a new name: `get_or_create` (new tree at `root`, catalog flushed),
    the backfill inserts move the root to `rootAfter`, `update_root` (flush) records it -/
def createIndex (records : Bool) (c : Cat) (id root rootAfter : Nat) : Cat :=
  if (getRoot c.mem id).isSome then c
  else
    let mem1 := c.mem ++ [(id, root)]
    let mem2 := setRoot mem1 id rootAfter
    { mem := mem2, disk := if records then mem2 else mem1 }

/-- `GraphEngine::open`: the roots are whatever the catalog page says -/
def reopen (c : Cat) : Cat := { c with mem := c.disk }

inductive Ev
  | commit (ops : List IOp)
  | createIndex (id root rootAfter : Nat)
  | reopen

def step (f : Flush) (records : Bool) (c : Cat) : Ev → Cat
  | .commit ops => commit f c ops
  | .createIndex id r r' => createIndex records c id r r'
  | .reopen => reopen c

def run (f : Flush) (records : Bool) (evs : List Ev) : Cat := evs.foldl (step f records) ⟨[], []⟩

end Nervus.IndexCatalog
