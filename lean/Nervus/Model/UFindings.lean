/-
  Decidable trigger predicates of the known findings of C12 (one per line of known_findings.jsonl).
-/
import Nervus.Model.QUpdate
import Nervus.Model.QFindings
namespace Nervus.Cy.UFindings
open Nervus.Cy

variable (A : Algebra) (params : List (String × Val))

/-- the rows the update clauses of a statement are driven by (model side) -/
def prefixRows (g : Graph) (s : Stmt) : Table :=
  match Update.compileStmt s with
  | .ok w => match Exec.exec A { g, params } w.input with | .ok t => t | .error _ => []
  | .error _ => []

def setItemVar : SetItem → String
  | .prop x _ _ => x | .mapReplace x _ => x | .mapMerge x _ => x | .labels x _ => x

def mergeClauses (s : Stmt) : List (PathPat × List SetItem × List SetItem) :=
  s.updates.filterMap fun | .merge p oc om => some (p, oc, om) | _ => none

/-- C12-merge-set-not-counted: MERGE with ON CREATE SET / ON MATCH SET (their writes are not counted; how often
    ON MATCH is applied — once per enumerated direction and copy — is therefore not observable in the count) -/
def mergeSet (s : Stmt) : Bool := (mergeClauses s).any fun (_, oc, om) => !oc.isEmpty || !om.isEmpty

def patternVars (p : PathPat) : List String :=
  p.start.var.toList ++ p.steps.flatMap fun (rp, np) => rp.var.toList ++ np.var.toList

/-- C12-null-bound-variable-recreated: a CREATE / MERGE pattern names a variable that some driving row binds to
    null (the write path takes it for unbound and creates a fresh node) -/
def nullBound (g : Graph) (s : Stmt) : Bool :=
  let rows := prefixRows A params g s
  let vars := s.updates.flatMap fun
    | .create ps => ps.flatMap patternVars
    | .merge p _ _ => patternVars p
    | _ => []
  rows.any fun r => vars.any fun x => r.get x == some .null

/-- the entity a row binds `x` to -/
def entOf (r : Row) (x : String) : Option Val :=
  match r.get x with
  | some (.node n) => some (.node n) | some (.rel e) => some (.rel e) | _ => none

/-- every entity a SET / REMOVE item touches, over all driving rows (one entry per row and item) -/
def touched (g : Graph) (s : Stmt) : List Val :=
  let rows := prefixRows A params g s
  let vars := s.updates.flatMap fun
    | .set its => its.map setItemVar
    | .remove its => its.map fun | .prop x _ => x | .labels x _ => x
    | _ => []
  rows.flatMap fun r => vars.filterMap (entOf r)

/-- the touches whose effect or count the engine DECIDES by looking at the entity: REMOVE, SET = map, SET += map,
    SET labels, and `SET x.k = e` where `e` is null on the row (a removal).  A plain assignment of a non-null value
    is not among them: it is issued and counted unconditionally. -/
def decided (g : Graph) (s : Stmt) : List Val :=
  let rows := prefixRows A params g s
  rows.flatMap fun r => s.updates.flatMap fun
    | .set its => its.filterMap fun
      | .prop x _ e => if eval A { g, params } r e == .null then entOf r x else none
      | .mapReplace x _ => entOf r x
      | .mapMerge x _ => entOf r x
      | .labels x _ => entOf r x
    | .remove its => its.filterMap fun | .prop x _ => entOf r x | .labels x _ => entOf r x
    | _ => []

def countVal (v : Val) (l : List Val) : Nat := (l.filter (· == v)).length

/-- C12-writes-decided-against-snapshot: SET map / REMOVE / label / null-assignment items decide what to write and
    what to count against the statement-start snapshot (plus the per-variable row overlay); wrong as soon as the
    entity of such an item is touched at least twice by the statement.  Kept narrow on purpose: a statement that
    only repeats plain non-null assignments `SET x.k = v` (UNWIND-driven rows, several items on one key) triggers
    nothing — there the last assignment must win, unconditionally (`update_refines_set_prop_rows`). -/
def repeatedTarget (g : Graph) (s : Stmt) : Bool :=
  let all := touched A params g s
  (decided A params g s).any fun v => countVal v all ≥ 2

/-- C12-merge-partial-pattern-reuse: relationship MERGE whose end nodes are not both bound re-uses existing
    nodes that match the node patterns instead of matching / creating the whole pattern -/
def mergePartial (g : Graph) (s : Stmt) : Bool :=
  let rows := prefixRows A params g s
  (mergeClauses s).any fun (p, _, _) =>
    !p.steps.isEmpty && rows.any fun r =>
      (p.start :: p.steps.map (·.2)).any fun np => match np.var.bind r.get with
        | some (.node _) => false | _ => true

/-- C12-merge-stale-overlay: ON CREATE SET overwrites a property the MERGE pattern matches on (later rows still
    match the created entity through the stale overlay) -/
def mergeStale (s : Stmt) : Bool :=
  (mergeClauses s).any fun (p, oc, _) =>
    let keys := p.start.props.map (·.1) ++ p.steps.flatMap fun (rp, np) => rp.props.map (·.1) ++ np.props.map (·.1)
    oc.any fun | .prop _ k _ => keys.contains k | .mapReplace .. => true | .mapMerge _ m => m.any (keys.contains ·.1) | _ => false

/-- C12-merge-set-items-reordered (what is left after fix 5723576): inside ON CREATE SET / ON MATCH SET of a MERGE a map
    item is written before a property item on the same variable; `compile_merge_set_items` flattens the
    subclauses into property / map / label lists -/
def setReordered (s : Stmt) : Bool :=
  let bad (items : List SetItem) : Bool :=
    let rec go : List SetItem → Bool
      | [] => false
      | it :: rest =>
        (match it with
          | .mapReplace x _ => rest.any fun | .prop y _ _ => x == y | _ => false
          | .mapMerge x _ => rest.any fun | .prop y _ _ => x == y | _ => false
          | _ => false) || go rest
    go items
  s.updates.any fun | .merge _ oc om => bad oc || bad om | _ => false

/-- C12-deleted-rel-props-resurrect: the statement creates a relationship identity that was deleted earlier and
    whose property map is still stored (root cause in the storage engine: C06) -/
def relResurrect (g : Graph) (names : List String) (s : Stmt) : Bool :=
  match Update.runStmt A params g (g.nodes.foldl (fun m n => max m (n.id + 1)) 0) names s with
  | .ok (ops, _, _, _) => ops.any fun
    | .createEdge r => g.rels.any fun e => e.id == r && e.mult == 0 && !e.props.isEmpty
    | _ => false
  | .error _ => false

def triggers (g : Graph) (names : List String) (s : Stmt) : List String :=
  (if mergeSet s then ["C12-merge-set-not-counted"] else []) ++
  (if nullBound A params g s then ["C12-null-bound-variable-recreated"] else []) ++
  (if repeatedTarget A params g s then ["C12-writes-decided-against-snapshot"] else []) ++
  (if mergePartial A params g s then ["C12-merge-partial-pattern-reuse"] else []) ++
  (if mergeStale s then ["C12-merge-stale-overlay"] else []) ++
  (if setReordered s then ["C12-merge-set-items-reordered"] else []) ++
  (if relResurrect A params g names s then ["C12-deleted-rel-props-resurrect"] else [])

end Nervus.Cy.UFindings
