/-
  Nervus.Model.WalFrame — mirrors nervusdb-storage/src/wal.rs
  `Wal::{open, valid_end, append}`, `WalReader::{next_record, try_read_u32}`, `replay_committed_from_path`
  and the WAL part of `GraphEngine::open` (engine.rs: `Wal::open(&wal_path)?` … `wal.replay_committed()?`).

  The log file is a byte list.  `frame body = le32 |body| ++ le32 (crc32 body) ++ body`.
  What the source does about a bad tail is configuration regenerated from the source (`Cfg.current`);
  `Cfg.pinned` is the tree as pinned.  I/O errors (`Error::Io`) are not modelled here (C08).
-/
import Nervus.Model.WalRec
import Nervus.Model.Crc32
namespace Nervus.WalFrame
open Nervus Nervus.PropVal Nervus.WalRec

structure Cfg where
  /-- the record codec -/
  codec : WalRec.Cfg
  /-- `MAX_WAL_RECORD_LEN` -/
  maxLen : Nat
  /-- reader: a length field above the cap ends the log (`Ok(None)`) instead of `Err(WalRecordTooLarge)` -/
  oversizeIsEof : Bool
  /-- reader: a CRC-valid body that `decode_body` rejects ends the log instead of propagating the error -/
  undecodableIsEof : Bool
  /-- the first `Wal::append` through a handle cuts the file back to the end of the last valid record
      (`if !self.tail_checked { … set_len(valid_end) … }`) before it writes -/
  truncatesBeforeAppend : Bool
  /-- `Wal::append` refuses bodies above the cap instead of writing a record no reader accepts -/
  appendRejectsOversize : Bool
  /-- replay groups records positionally: every `BeginTx` drops the records buffered so far
      (`pending.clear()`), so an unfinished transaction can never leak into a later one -/
  beginResetsPending : Bool
  deriving Repr, DecidableEq

/-- the source as it is now -/
def Cfg.current : Cfg :=
  ⟨WalRec.Cfg.current, Generated.walMaxRecordLen, Generated.walOversizeIsEof, Generated.walUndecodableIsEof,
   Generated.walTruncatesBeforeAppend, Generated.walAppendRejectsOversize, Generated.walReplayResetsPendingAtBegin⟩
/-- the source as pinned -/
def Cfg.pinned : Cfg := ⟨WalRec.Cfg.pinned, 1048576, false, false, false, false, true⟩

/-- `len.to_le_bytes() ++ crc.to_le_bytes() ++ body` as written by `Wal::append` -/
def frame (body : Bytes) : Bytes := le4 body.length ++ (le4 (crc32 body) ++ body)

/-- reader errors: `Error::WalRecordTooLarge(len)`, or the `decode_body` error propagated by `?` -/
inductive RErr
  | tooLarge (len : Nat)
  | decode (e : WErr)
  | fuel
  deriving Repr, DecidableEq

/-- outcome of one `WalReader::next_record` on the unread part of the file -/
inductive Step
  | eof                          -- `Ok(None)`
  | err (e : RErr)               -- `Err(_)`
  | record (r : Rec) (rest : Bytes) -- `Ok(Some((offset, record)))`, `rest` = the file after the record
  deriving Repr, DecidableEq

/-- mirrors `WalReader::next_record` on the unread suffix `bs`:
    `try_read_u32` (short read ⇒ `Ok(None)`), the length cap, `try_read_u32` for the CRC, `read_exact` of the body
    (`UnexpectedEof` ⇒ `Ok(None)`; `vec![0u8; len]` is at most 1 MiB thanks to the cap), CRC comparison
    (mismatch ⇒ `Ok(None)`), `decode_body`. -/
def nextRecord (cfg : Cfg) (bs : Bytes) : Step :=
  if bs.length < 4 then .eof
  else
    let len := leVal (bs.take 4)
    if len > cfg.maxLen then (if cfg.oversizeIsEof then .eof else .err (.tooLarge len))
    else if bs.length < 8 then .eof
    else
      let crc := leVal ((bs.drop 4).take 4)
      if bs.length < 8 + len then .eof
      else
        let body := (bs.drop 8).take len
        if crc32 body ≠ crc then .eof
        else match decodeBody cfg.codec body with
          | .ok r => .record r (bs.drop (8 + len))
          | .error e => if cfg.undecodableIsEof then .eof else .err (.decode e)

/-- how the read loop ended: `Ok(None)` with the unread tail, or the error `next_record()?` propagates -/
inductive Stop
  | eof (tail : Bytes)
  | err (e : RErr)
  deriving Repr, DecidableEq

/-- `while let Some(record) = reader.next_record()? { … }`: the records handed to the loop body, in order, and
    how the loop ended (`reader.offset = file.len() - tail.len()`).  The records read before an error are kept:
    the loop body has already processed them.  `fuel` bounds the loop (every record takes at least 8 bytes);
    `readAll` supplies `|file| + 1`, which is never exhausted. -/
def readGo (cfg : Cfg) : Nat → Bytes → List Rec × Stop
  | 0, _ => ([], .err .fuel)
  | fuel + 1, bs =>
    match nextRecord cfg bs with
    | .eof => ([], .eof bs)
    | .err e => ([], .err e)
    | .record r rest => ((readGo cfg fuel rest).1.cons r, (readGo cfg fuel rest).2)

def readAll (cfg : Cfg) (file : Bytes) : List Rec × Stop := readGo cfg (file.length + 1) file

/-- `CommittedTx` -/
structure Tx where
  txid : Nat
  ops : List Rec
  deriving Repr, DecidableEq

/-- `Error::WalProtocol("CommitTx without matching BeginTx")`, `Error::WalProtocol("op outside tx")` -/
inductive PErr
  | commitWithoutBegin
  | opOutsideTx
  deriving Repr, DecidableEq

/-- the loop body of `replay_committed_from_path` over the records read:
    state = (`current_txid`, `pending`, `out`) -/
def commitGo : Option Nat → List Rec → List Tx → List Rec → Except PErr (List Tx)
  | _, _, out, [] => .ok out
  | cur, pend, out, r :: rs =>
    match r with
    | .beginTx t => commitGo (some t) [] out rs
    | .commitTx t =>
      if cur ≠ some t then .error .commitWithoutBegin
      else commitGo none [] (out ++ [⟨t, pend⟩]) rs
    | other =>
      if cur = none then .error .opOutsideTx
      else commitGo cur (pend ++ [other]) out rs

/-- mirrors `replay_committed_from_path` applied to the records of the file -/
def committed (rs : List Rec) : Except PErr (List Tx) := commitGo none [] [] rs

/-- the grouping loop WITHOUT the reset at `BeginTx` (the buffered records of an unfinished transaction stay and
    are handed out with the next transaction that commits): what the source does when the recogniser finds no
    `pending.clear()` in the `BeginTx` arm -/
def commitGoKeep : Option Nat → List Rec → List Tx → List Rec → Except PErr (List Tx)
  | _, _, out, [] => .ok out
  | cur, pend, out, r :: rs =>
    match r with
    | .beginTx t => commitGoKeep (some t) pend out rs
    | .commitTx t =>
      if cur ≠ some t then .error .commitWithoutBegin
      else commitGoKeep none [] (out ++ [⟨t, pend⟩]) rs
    | other =>
      if cur = none then .error .opOutsideTx
      else commitGoKeep cur (pend ++ [other]) out rs

/-- the grouping as the current source does it -/
def committedCfg (cfg : Cfg) (rs : List Rec) : Except PErr (List Tx) :=
  if cfg.beginResetsPending then committed rs else commitGoKeep none [] [] rs

/-- why opening failed -/
inductive OErr
  | read (e : RErr)
  | proto (e : PErr)
  deriving Repr, DecidableEq

/-- mirrors `Wal::replay_committed`: the loop body groups the records as they are read, so a protocol error at
    record `i` is raised before record `i + 1` is read; a reader error surfaces only if the records before it
    were accepted -/
def recover (cfg : Cfg) (file : Bytes) : Except OErr (List Tx) :=
  match committedCfg cfg (readAll cfg file).1 with
  | .error e => .error (.proto e)
  | .ok txs =>
    match (readAll cfg file).2 with
    | .eof _ => .ok txs
    | .err e => .error (.read e)

/-- a `Wal` handle: the log file it appends to and its `tail_checked` flag -/
structure Handle where
  file : Bytes
  tailChecked : Bool
  deriving Repr, DecidableEq

/-- mirrors `Wal::open`: opens (creates) the file; the content is not touched -/
def walOpen (file : Bytes) : Handle := ⟨file, false⟩

/-- mirrors `Wal::valid_end`: `while reader.next_record()?.is_some() {}`, `reader.offset` — as the prefix of
    the file that ends there -/
def validPrefix (cfg : Cfg) (file : Bytes) : Except RErr Bytes :=
  match (readAll cfg file).2 with
  | .err e => .error e
  | .eof tail => .ok (file.take (file.length - tail.length))

/-- `Wal::append` failures: `encode_body` error, `Error::WalRecordTooLarge`, or an error of the tail scan -/
inductive AErr
  | enc (e : WErr)
  | tooLarge
  | scan (e : RErr)
  deriving Repr, DecidableEq

/-- mirrors `Wal::append`: `encode_body()?`, `u32::try_from(body.len())`, (fix: the cap), (fix: on the first
    append through this handle `set_len(valid_end)`), then `seek(End(0))` and the three `write_all`s — the file
    grows by one frame at its *end*.  A failing append leaves file and handle as they were. -/
def append (cfg : Cfg) (h : Handle) (r : Rec) : Except AErr Handle :=
  match encodeBody cfg.codec r with
  | .error e => .error (.enc e)
  | .ok body =>
    if ¬ body.length < two32 then .error .tooLarge
    else if cfg.appendRejectsOversize && decide (body.length > cfg.maxLen) then .error .tooLarge
    else if cfg.truncatesBeforeAppend && !h.tailChecked then
      match validPrefix cfg h.file with
      | .error e => .error (.scan e)
      | .ok f => .ok ⟨f ++ frame body, true⟩
    else .ok ⟨h.file ++ frame body, h.tailChecked⟩

/-- a writer appending records one after the other through one handle; stops at the first failure -/
def appendAll (cfg : Cfg) (h : Handle) : List Rec → Except AErr Handle
  | [] => .ok h
  | r :: rs =>
    match append cfg h r with
    | .ok h' => appendAll cfg h' rs
    | .error e => .error e

/-- the WAL part of `GraphEngine::open`: `Wal::open(&wal_path)?` then `wal.replay_committed()?`: the handle the
    engine will commit through and the committed transactions handed to the rest of recovery -/
def engineOpen (cfg : Cfg) (file : Bytes) : Except OErr (Handle × List Tx) :=
  match recover cfg file with
  | .error e => .error e
  | .ok txs => .ok (walOpen file, txs)

/-- the frames of a list of bodies, back to back -/
def frames : List Bytes → Bytes
  | [] => []
  | b :: bs => frame b ++ frames bs

end Nervus.WalFrame
