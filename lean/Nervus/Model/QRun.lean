/-
  The modelled query pipeline (prepare + execute_streaming collected): `run = exec ∘ compile`, and the
  agreement relation between a model result and a reference result (bags of rows; errors by class).
-/
import Nervus.Spec.Denote
import Nervus.Model.QCompile
import Nervus.Model.QExec
import Nervus.Model.QFindings
namespace Nervus.Cy

/-- query_api `prepare` followed by `execute_streaming(...).collect()` -/
def Exec.run (A : Algebra) (env : Env) (q : Query) : Except Err Table :=
  match Compile.compile q with
  | .ok plan => Exec.exec A env plan
  | .error e => .error e

def okRows : Except Err Table → Option Table
  | .ok t => some t
  | .error _ => none

/-- model result and reference result agree: same error class, or the same bag of rows.
    (Under a final ORDER BY the reference result is a list; agreement of the *sequence* up to ties is the
    subject of the OrderBy operator lemma, the bag is what is compared here.) -/
def agreesB (m : Except Err Table) (s : Except Err Spec.Result) : Bool :=
  match m, s with
  | .ok rows, .ok res => rows.isPerm res.rows
  | .error e, .error e' => e == e'
  | _, _ => false

def Agrees (m : Except Err Table) (s : Except Err Spec.Result) : Prop := agreesB m s = true

instance (m : Except Err Table) (s : Except Err Spec.Result) : Decidable (Agrees m s) := by
  unfold Agrees; infer_instance

/-- fragment F1 as a syntactic predicate on the AST: within one MATCH clause every relationship variable occurs
    once (re-using one is a compile-time error of the engine).  Everything else that is outside F1 — variable
    length, path variables, re-binding a relationship variable of an earlier clause, … — either cannot be
    expressed in the AST type or is excluded by `WellScoped`. -/
def InF1 (q : Query) : Bool :=
  q.all fun
    | .match_ _ pats =>
      let rv := pats.flatMap fun p => p.steps.flatMap fun (rp, _) => rp.var.toList
      rv.eraseDups.length == rv.length
    | _ => true

/-- none of the known findings of C11 is triggered by (graph, query) -/
def NoKnownTrigger (A : Algebra) (env : Env) (q : Query) : Bool := (Findings.triggers A env q).isEmpty

end Nervus.Cy
