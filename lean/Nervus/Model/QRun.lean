/-
  The modelled query pipeline (prepare + execute_streaming collected): `run = exec ∘ compile`, and the
  agreement relation between a model result and a reference result (bags of rows; errors by class).
-/
import Nervus.Spec.Denote
import Nervus.Model.QCompile
import Nervus.Model.QExec
import Nervus.Model.QFindings
namespace Nervus.Cy

/-- query_api `prepare` followed by `execute_streaming(...).collect()` -/
def Exec.run (A : Algebra) (env : Env) (q : Query) : Except Err Table :=
  match Compile.compile q with
  | .ok plan => Exec.exec A env plan
  | .error e => .error e

def okRows : Except Err Table → Option Table
  | .ok t => some t
  | .error _ => none

/-- model result and reference result agree: same error class, or the same bag of rows.
    (Under a final ORDER BY the reference result is a list; agreement of the *sequence* up to ties is the
    subject of the OrderBy operator lemma, the bag is what is compared here.) -/
def agreesB (m : Except Err Table) (s : Except Err Spec.Result) : Bool :=
  match m, s with
  | .ok rows, .ok res => rows.isPerm res.rows
  | .error e, .error e' => e == e'
  | _, _ => false

def Agrees (m : Except Err Table) (s : Except Err Spec.Result) : Prop := agreesB m s = true

instance (m : Except Err Table) (s : Except Err Spec.Result) : Decidable (Agrees m s) := by
  unfold Agrees; infer_instance

/-- fragment F1 as a syntactic predicate on the AST: within one MATCH clause every relationship variable occurs
    once (re-using one is a compile-time error of the engine).  Everything else that is outside F1 — variable
    length, path variables, re-binding a relationship variable of an earlier clause, … — either cannot be
    expressed in the AST type or is excluded by `WellScoped`. -/
def InF1 (q : Query) : Bool :=
  q.all fun
    | .match_ _ pats =>
      let rv := pats.flatMap fun p => p.steps.flatMap fun (rp, _) => rp.var.toList
      rv.eraseDups.length == rv.length
    | _ => true

/-- a projection of the relational core: plain items (no aggregate), no ORDER BY; DISTINCT, SKIP, LIMIT are free -/
def coreProj (p : Proj) : Bool := !p.items.any Spec.isAgg && p.orderBy.isEmpty

/-- the MATCH-free relational core of F1: any sequence of UNWIND, WHERE (not as the first clause — the parser never
    produces that) and WITH, closed by RETURN.  The flag says whether a clause precedes. -/
def coreClauses : Bool → Query → Bool
  | _, [.return_ p] => coreProj p
  | _, .unwind _ _ :: q => coreClauses true q
  | _, .with_ p none :: q => coreProj p && coreClauses true q
  | true, .where_ _ :: q => coreClauses true q
  | _, _ => false

def InCore (q : Query) : Bool := coreClauses false q

/-- a core projection whose result is determined as a bag from a bag: no SKIP, LIMIT (DISTINCT is fine) -/
def bagProj (p : Proj) : Bool := coreProj p && p.skip.isNone && p.limit.isNone

/-- core clauses with `bagProj` projections (what may follow the MATCH of an F1a query) -/
def bagClauses : Bool → Query → Bool
  | _, [.return_ p] => bagProj p
  | _, .unwind _ _ :: q => bagClauses true q
  | _, .with_ p none :: q => bagProj p && bagClauses true q
  | true, .where_ _ :: q => bagClauses true q
  | _, _ => false

/-- the names a core tail introduces (UNWIND variables, projection aliases) -/
def introduced : Query → List String
  | [] => []
  | .unwind _ x :: q => x :: introduced q
  | .with_ p _ :: q => p.items.map (·.alias) ++ introduced q
  | .return_ p :: q => p.items.map (·.alias) ++ introduced q
  | _ :: q => introduced q

/-- the result is determined as a bag: no SKIP / LIMIT and no `collect` from the first MATCH on.  (Which rows a
    window keeps among ties and the element order of a collected list depend on the order in which the expansions
    produce rows; the stream compares those as sequences up to ties / as counts, `Agrees` compares bags.) -/
def BagDetermined (q : Query) : Bool :=
  (q.dropWhile fun | .match_ _ _ => false | _ => true).all fun
    | .with_ p _ | .return_ p =>
      p.skip.isNone && p.limit.isNone &&
        p.items.all fun it => match it.expr with | .agg .collect _ => false | _ => true
    | _ => true

/-- the aggregate folds (except `collect`) do not depend on the order of their input -/
def AggBagInvariant (A : Algebra) : Prop :=
  ∀ k, k ≠ AggKind.collect → ∀ l l' : List Val, l.Perm l' → A.agg k l = A.agg k l'

/-- none of the known findings of C11 is triggered by (graph, query) -/
def NoKnownTrigger (A : Algebra) (env : Env) (q : Query) : Bool := (Findings.triggers A env q).isEmpty

end Nervus.Cy
