/-
  Model of the streaming executor of nervusdb-query for the plans of fragment F1: executor/plan_dispatch.rs
  `execute_plan` and the operator files.  Iterators are modelled as lists (the operators have no side effects;
  an `Err` item makes the collected result an error — modelled eagerly, see the note at `expandOut`).
  The order in which the storage engine enumerates nodes / neighbours is NOT modelled (graph list order is
  used); results are compared as bags unless an ORDER BY over the whole row fixes the sequence.
  Assumption: no property index exists (IndexSeek falls back to its `fallback` plan; indexes are C15).
-/
import Nervus.Model.QPlan
namespace Nervus.Cy.Exec
open Nervus.Cy

variable (A : Algebra) (env : Env)

/-- `snapshot.neighbors(src, rel)` chained over the resolved relationship types (read_path.rs ExpandIter);
    an empty `rels` list means "any type"; one entry per parallel copy -/
def outEdges (g : Graph) (src : Nat) (rels : List String) : List RelId :=
  if rels.isEmpty then g.copies.filter (·.src == src)
  else rels.flatMap fun t => g.copies.filter fun e => e.src == src && e.typ == t

/-- `snapshot.incoming_neighbors_erased(dst, rel)` chained likewise (match_in_undirected_plan.rs) -/
def inEdges (g : Graph) (dst : Nat) (rels : List String) : List RelId :=
  if rels.isEmpty then g.copies.filter (·.dst == dst)
  else rels.flatMap fun t => g.copies.filter fun e => e.dst == dst && e.typ == t

/-- path_usage.rs `edge_multiplicity` -/
def edgeMultiplicity (g : Graph) (e : RelId) : Nat :=
  max ((g.copies.filter fun c => c.src == e.src && c.typ == e.typ && c.dst == e.dst).length) 1

/-- path_usage.rs `path_alias_contains_edge`: an identity may be re-used until all its copies are used up -/
def pathContains (g : Graph) (r : Row) (pathAlias : Option String) (e : RelId) : Bool :=
  match pathAlias with
  | some a => match r.get a with
    | some (.path _ es) =>
      let used := es.count e
      if used == 0 then false else used ≥ edgeMultiplicity g e
    | _ => false
  | none => false

/-- binding_utils.rs `row_matches_node_binding` -/
def nodeBindingOk (r : Row) (alias : String) (cand : Nat) : Bool :=
  match r.get alias with
  | none => true
  | some (.node n) => n == cand
  | some _ => false

/-- label_constraint.rs `node_matches_label_constraint` (an unknown label can match nothing) -/
def labelsOk (g : Graph) (n : Nat) (labels : List String) : Bool := labels.all (g.hasLabel n)

/-- core_types.rs `Row::join_path` -/
def joinPath (r : Row) (alias : String) (src : Nat) (e : RelId) (dst : Nat) : Row :=
  match r.get alias with
  | some (.path ns es) => r.set alias (.path (ns ++ [dst]) (es ++ [e]))
  | _ => r.set alias (.path [src, dst] [e])

def withOpt (r : Row) (x : Option String) (v : Val) : Row :=
  match x with | some x => r.set x v | none => r

def joinPathOpt (r : Row) (alias : Option String) (src : Nat) (e : RelId) (dst : Nat) : Row :=
  match alias with | some a => joinPath r a src e dst | none => r

/-- one outgoing step for a row whose source is node `s` (read_path.rs `ExpandIter::next`, edge arm) -/
def stepOut (g : Graph) (r : Row) (s : Nat) (rels : List String) (edge : Option String) (dst : String)
    (dstLabels : List String) (path : Option String) : List Row :=
  (outEdges g s rels).filterMap fun e =>
    if pathContains g r path e || !nodeBindingOk r dst e.dst || !labelsOk g e.dst dstLabels then none
    else some (joinPathOpt ((withOpt r edge (.rel e)).set dst (.node e.dst)) path e.src e e.dst)

/-- one incoming step (match_in_undirected_plan.rs `execute_match_in`, candidate arm) -/
def stepIn (g : Graph) (r : Row) (s : Nat) (rels : List String) (edge : Option String) (dst : String)
    (dstLabels : List String) (path : Option String) : List Row :=
  (inEdges g s rels).filterMap fun e =>
    if pathContains g r path e || !nodeBindingOk r dst e.src || !labelsOk g e.src dstLabels then none
    else some (joinPathOpt (withOpt (r.set dst (.node e.src)) edge (.rel e)) path e.dst e e.src)

/-- the incoming half of an undirected step skips self-loops (`if edge.src == edge.dst { continue }`) -/
def stepInNoLoop (g : Graph) (r : Row) (s : Nat) (rels : List String) (edge : Option String) (dst : String)
    (dstLabels : List String) (path : Option String) : List Row :=
  (inEdges g s rels).filterMap fun e =>
    if pathContains g r path e || e.src == e.dst || !nodeBindingOk r dst e.src || !labelsOk g e.src dstLabels
    then none
    else some (joinPathOpt (withOpt (r.set dst (.node e.src)) edge (.rel e)) path e.dst e e.src)

def stepOutU (g : Graph) (r : Row) (s : Nat) (rels : List String) (edge : Option String) (dst : String)
    (dstLabels : List String) (path : Option String) : List Row :=
  (outEdges g s rels).filterMap fun e =>
    if pathContains g r path e || !nodeBindingOk r dst e.dst || !labelsOk g e.dst dstLabels then none
    else some (joinPathOpt (withOpt (r.set dst (.node e.dst)) edge (.rel e)) path e.src e e.dst)

/-- `execute_match_undirected`: per relationship type, outgoing then incoming -/
def stepBoth (g : Graph) (r : Row) (s : Nat) (rels : List String) (edge : Option String) (dst : String)
    (dstLabels : List String) (path : Option String) : List Row :=
  if rels.isEmpty then stepOutU g r s [] edge dst dstLabels path ++ stepInNoLoop g r s [] edge dst dstLabels path
  else rels.flatMap fun t =>
    stepOutU g r s [t] edge dst dstLabels path ++ stepInNoLoop g r s [t] edge dst dstLabels path

/-- MatchOut over an input table.  A source that is not a node is an `Err` item of the stream
    ("Variable … is not a node" / "not found"); a null source drops the row (non-optional expand).
    Eager error: a LIMIT upstream could stop pulling before the error item — cannot happen for F1 plans of
    well-scoped queries, where the source is always a node or null. -/
def expandOut (g : Graph) (src : String) (rels : List String) (edge : Option String) (dst : String)
    (dstLabels : List String) (path : Option String) : Table → Except Err Table
  | [] => .ok []
  | r :: rest => do
    let here ← match r.get src with
      | some (.node s) => pure (stepOut g r s rels edge dst dstLabels path)
      | some .null => pure []
      | _ => throw .other
    return here ++ (← expandOut g src rels edge dst dstLabels path rest)

/-- MatchIn / MatchUndirected: a row whose source is not a node id yields nothing -/
def expandWith (step : Row → Nat → List Row) (src : String) (T : Table) : Table :=
  T.flatMap fun r => match r.get src with
    | some (.node s) => step r s
    | _ => []

/-- binding_utils.rs `row_contains_all_bindings` / `binding_values_equal` (node ↔ node, rel ↔ rel, else `==`) -/
def containsAllBindings (cand outer : Row) : Bool :=
  outer.all fun (k, v) => match cand.get k with
    | some w => w == v
    | none => false

/-- plan_mid.rs `execute_optional_where_fixup` -/
def optionalFixup (outer filtered : Table) (nullAliases : List String) : Table :=
  outer.flatMap fun o =>
    let m := filtered.filter fun r => containsAllBindings r o
    if m.isEmpty then [nullAliases.foldl (fun r a => r.set a .null) o] else m

/-- plan_mid.rs `execute_project`: `Row::default().with(alias, value)` for each projection -/
def projectRow (r : Row) (projs : List (String × Expr)) : Row :=
  projs.foldl (fun out (a, e) => out.set a (eval A env r e)) []

/-- the grouping of projection_sort.rs `execute_aggregate` (HashMap keyed by the group values; the model keeps
    groups in order of first occurrence — the real order is arbitrary) -/
def groupRows (groupBy : List String) : Table → List (List Val × Table)
  | [] => []
  | r :: rest =>
    let gs := groupRows groupBy rest
    let k := groupBy.filterMap r.get
    if gs.any (·.1 == k) then gs.map fun (k', rs) => if k' == k then (k', r :: rs) else (k', rs)
    else (k, [r]) :: gs

def aggValue (f : AggFn) (rows : Table) : Val :=
  match f.kind with
  | .countStar => A.agg .countStar (rows.map fun _ => .null)
  | k => A.agg k (rows.map fun r => eval A env r f.arg)

def aggregate (groupBy : List String) (aggs : List (AggFn × String)) (T : Table) : Table :=
  let groups := groupRows groupBy T
  let groups := if groups.isEmpty && groupBy.isEmpty then [([], [])] else groups
  groups.map fun (key, rows) =>
    let base : Row := (groupBy.zip key).foldl (fun r (k, v) => r.set k v) []
    aggs.foldl (fun r (f, a) => r.set a (aggValue A env f rows)) base

/-- the comparator of plan_mid.rs `execute_order_by` as a `≤` test on the precomputed keys -/
def keysLe : List (Val × Bool) → List (Val × Bool) → Bool
  | (a, asc) :: ra, (b, _) :: rb =>
    match A.ord a b with
    | .eq => keysLe ra rb
    | .lt => asc
    | .gt => !asc
  | _, _ => true

def orderBy (items : List (Expr × Bool)) (T : Table) : Table :=
  let keyed := T.map fun r => (r, items.map fun (e, asc) => (eval A env r e, asc))
  (keyed.mergeSort fun a b => keysLe A a.2 b.2).map (·.1)

/-- plan_tail.rs `evaluate_row_window_expression` on a literal -/
def windowArg : Lit → Except Err Nat
  | .int i => if i < 0 then .error .syntax else .ok i.toNat
  | _ => .error .syntax

/-- plan_tail.rs `execute_distinct`: first occurrence per key; the key is the `Debug` text of the values in
    column order (column names are not part of it) — modelled as equality of the value lists -/
def distinct : Table → Table
  | [] => []
  | r :: rest => r :: (distinct rest).filter fun r' => r'.vals != r.vals

/-- plan_tail.rs `execute_unwind` -/
def unwind (e : Expr) (alias : String) (T : Table) : Table :=
  T.flatMap fun r => match eval A env r e with
    | .list xs => xs.map fun v => r.set alias v.toVal
    | .null => []
    | v => [r.set alias v]

/-- plan_dispatch.rs `execute_plan` -/
def exec : Plan → Except Err Table
  | .returnOne => .ok [[]]
  | .nodeScan a l =>
    .ok ((env.g.nodes.filter fun n => match l with | some l => n.labels.contains l | none => true).map
      fun n => [(a, Val.node n.id)])
  | .matchOut i s rs e d dl _ p => do expandOut env.g s rs e d dl p (← exec i)
  | .matchIn i s rs e d dl _ p => do
    return expandWith (fun r n => stepIn env.g r n rs e d dl p) s (← exec i)
  | .matchUndirected i s rs e d dl _ p => do
    return expandWith (fun r n => stepBoth env.g r n rs e d dl p) s (← exec i)
  | .filter i e => do return (← exec i).filter (evalBool A env · e)
  | .optionalWhereFixup o f ns => do return optionalFixup (← exec o) (← exec f) ns
  | .project i ps => do return (← exec i).map (projectRow A env · ps)
  | .aggregate i gb as => do return aggregate A env gb as (← exec i)
  | .orderBy i items => do return orderBy A env items (← exec i)
  | .skip i n => do let k ← windowArg n; return (← exec i).drop k
  | .limit i n => do let k ← windowArg n; return (← exec i).take k
  | .distinct i => do return distinct (← exec i)
  | .unwind i e a => do return unwind A env e a (← exec i)
  | .indexSeek _ _ _ _ fb => exec fb
  | .cartesianProduct l r => do
    let ls ← exec l
    let rs ← exec r
    return ls.flatMap fun a => rs.map fun b => a ++ b

end Nervus.Cy.Exec
