/-
  Nervus.Model.Depth — nesting structure of the recursive-descent expression parser (C16).
  Mirrors nervusdb-query/src/parser.rs
    parse_expression_bp   (Pratt loop: the left operand is extended *iteratively*, the right operand by a recursive call)
    parse_prefix_expression (NOT / unary minus: recursive call of parse_expression_bp)
    parse_primary_expression ('(' expr ')', '[' … ']', f(…), CASE …: recursive calls; postfix `.prop` / `[i]`: a loop)
  with two observations: the recursion depth the parser reaches, and the depth of the AST it builds (= the recursion
  depth of everything that walks the AST afterwards: validation, planning, evaluation, Drop).
  `Generated.ExecLimits` holds what the source says about limits.  Core only.
-/
import Nervus.Model.Generated.ExecLimits
namespace Nervus.Depth

/-- expression shapes, by how the parser gets to them -/
inductive E where
  | atom                           -- literal / variable: one token
  | group (inner : E)              -- ( e ), [ e ], f( e ), CASE WHEN true THEN e END : recursive call
  | prefix (inner : E)             -- NOT e, - e : recursive call
  | infix (lhs rhs : E)            -- lhs op rhs : lhs was already parsed by this frame's loop, rhs by a recursive call
  | postfix (inner : E)            -- e.prop, e[0] : a loop in parse_primary_expression, no recursion
deriving Repr, DecidableEq

def tokens : E → Nat
  | .atom => 1
  | .group e => tokens e + 2
  | .prefix e => tokens e + 1
  | .infix l r => tokens l + tokens r + 1
  | .postfix e => tokens e + 2

/-- depth of the `parse_expression_bp` recursion while this expression is parsed (frames on the stack) -/
def parserDepth : E → Nat
  | .atom => 1
  | .group e => parserDepth e + 1
  | .prefix e => parserDepth e + 1
  | .infix l r => max (parserDepth l) (parserDepth r + 1)
  | .postfix e => parserDepth e

/-- depth of the AST that comes out (`Expression::Binary(Box, Box)`, `Unary(Box)`, `PropertyAccess(Box)` …) -/
def astDepth : E → Nat
  | .atom => 1
  | .group e => astDepth e + 1      -- lists / calls / CASE add a node (plain parentheses do not; upper bound)
  | .prefix e => astDepth e + 1
  | .infix l r => max (astDepth l) (astDepth r) + 1
  | .postfix e => astDepth e + 1

/-- the existing guard: `advance()` counts steps against `max(PARSE_STEP_FLOOR, tokens * PARSE_STEP_FACTOR)` -/
def stepBudget (tokenCount : Nat) : Nat := max Generated.parseStepFloor (tokenCount * Generated.parseStepFactor)

/-- `advance()` is called once per consumed token on these shapes (no backtracking) -/
def steps (e : E) : Nat := tokens e

/-- what the parser would have to refuse if it had the configured nesting limit -/
def withinLimit (e : E) : Bool :=
  match Generated.parserDepthLimit with
  | some b => decide (parserDepth e ≤ b ∧ astDepth e ≤ b)
  | none => true

/-- witnesses: `n` nested groups, `n` prefixes, a left chain of `n` infix operators, `n` postfix accesses -/
def nest : Nat → E
  | 0 => .atom
  | n + 1 => .group (nest n)
def prefixes : Nat → E
  | 0 => .atom
  | n + 1 => .prefix (prefixes n)
def chain : Nat → E
  | 0 => .atom
  | n + 1 => .infix (chain n) .atom
def accesses : Nat → E
  | 0 => .atom
  | n + 1 => .postfix (accesses n)

end Nervus.Depth
