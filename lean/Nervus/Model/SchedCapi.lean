/-
  Nervus.Model.SchedCapi — labelled transition system of the C-API auto-commit write path.

  mirrors nervusdb-capi/src/lib.rs `execute_write_count`:
      let snapshot = db.snapshot();            -- `snap`
      let mut txn = db.begin_write();          -- `lock`   (GraphEngine::begin_write: write_lock.lock())
      prepared.execute_mixed(&snapshot, &mut txn, params)?   -- `exec`  (reads `snapshot`, stages writes in `txn`)
      txn.commit()?                            -- `commit` (publishes the staged writes)
      -- `txn` dropped                         -- `unlock` (MutexGuard of write_lock released)
  and nervusdb-storage/src/engine.rs `WriteTxn::commit(self)`: the writer guard `_guard` lives to the end of
  `commit` — AFTER the publication stores (idmap, node labels, run) that later snapshots read — unless the
  source drops it earlier; where the source releases it is the parameter `Cfg.earlyLabel / earlyPlain`
  (regenerated `Generated.commitEarlyRelease*`): then the thread steps `unlock` BEFORE `commit`.
  The ORDER of the first two calls is not fixed here: it is the parameter `lockFirst`, which the
  driver and the theorems instantiate with `Generated.autoCommitLockFirst` (regenerated from the source).

  Atomic steps = the lock-delimited actions.  `snap` is atomic here although the real `snapshot()`
  is several field reads (that is C03's subject); inside `write_lock` no other writer publishes, so for
  the lock-then-snapshot order the reads are of a quiescent state.
  Threads are indexed by `Nat` (any number of them); each runs a list of statements.
-/
import Nervus.Model.Generated.CallOrder
namespace Nervus.SchedCapi

/-- A write statement: evaluated against the snapshot it either fails (`none`: the `?` after
    `execute_mixed`, the transaction is dropped) or yields the staged writes, applied to the
    committed state at commit time (`SET n.v = <value computed from the snapshot>`). -/
structure Stmt (σ : Type) where
  run : σ → Option (σ → σ)
  /-- the statement creates a node or adds/removes a label (`has_label_mutations` in `commit`) -/
  labelMut : Bool := false

/-- what the source says about the auto-commit path -/
structure Cfg where
  lockFirst : Bool          -- `begin_write()` before `snapshot()` in execute_write_count
  earlyLabel : Bool := false  -- commit releases the writer guard before its publication stores (label-mutating tx)
  earlyPlain : Bool := false  -- … for every other transaction
  deriving DecidableEq, Repr

def Cfg.early {σ} (c : Cfg) (st : Stmt σ) : Bool := if st.labelMut then c.earlyLabel else c.earlyPlain

/-- what the statement does when it runs alone (snapshot = committed state) -/
def Stmt.seq {σ} (st : Stmt σ) (d : σ) : σ :=
  match st.run d with
  | some w => w d
  | none => d

/-- run statements one at a time -/
def runSeq {σ} (l : List (Stmt σ)) (d : σ) : σ := l.foldl (fun d st => st.seq d) d

inductive Pc (σ : Type) where
  | idle
  | snapped (v : σ)                    -- snapshot taken, writer lock not yet held   (snapshot-first order)
  | locked                             -- writer lock held, snapshot not yet taken   (lock-first order)
  | ready (v : σ)                      -- lock held and snapshot taken
  | staged (w : Option (σ → σ))        -- statement executed against the snapshot
  | released (w : Option (σ → σ))      -- lock released BEFORE the staged writes are published (early release)
  | finished                           -- committed / aborted, lock still held

structure Thread (σ : Type) where
  todo : List (Stmt σ)
  pc : Pc σ

structure State (σ : Type) where
  db : σ                               -- committed state
  lock : Option Nat                    -- owner of `write_lock`
  threads : Nat → Thread σ
  hist : List (Nat × Stmt σ)           -- ghost: statements in the order they left the commit step

inductive Label where
  | snap (i : Nat) | lock (i : Nat) | exec (i : Nat) | commit (i : Nat) | unlock (i : Nat)
  deriving DecidableEq, Repr

def setThread {σ} (s : State σ) (i : Nat) (t : Thread σ) : State σ :=
  { s with threads := fun j => if j = i then t else s.threads j }

/-- one atomic step; `none` = not enabled -/
def step {σ} (cfg : Cfg) (s : State σ) : Label → Option (State σ)
  | .snap i =>
    match (s.threads i).pc, (s.threads i).todo with
    | .idle, _ :: _ => if cfg.lockFirst then none else some (setThread s i { s.threads i with pc := .snapped s.db })
    | .locked, _ => some (setThread s i { s.threads i with pc := .ready s.db })
    | _, _ => none
  | .lock i =>
    match s.lock with
    | some _ => none                   -- non-re-entrant mutex: blocked
    | none =>
      match (s.threads i).pc, (s.threads i).todo with
      | .idle, _ :: _ => if cfg.lockFirst then some { setThread s i { s.threads i with pc := .locked } with lock := some i } else none
      | .snapped v, _ => some { setThread s i { s.threads i with pc := .ready v } with lock := some i }
      | _, _ => none
  | .exec i =>
    match (s.threads i).pc, (s.threads i).todo with
    | .ready v, st :: _ => some (setThread s i { s.threads i with pc := .staged (st.run v) })
    | _, _ => none
  | .commit i =>
    match (s.threads i).pc, (s.threads i).todo with
    | .staged (some w), st :: rest =>
      if cfg.early st then none else   -- the source releases the guard first
      some { setThread s i { todo := rest, pc := .finished } with db := w s.db, hist := s.hist ++ [(i, st)] }
    | .staged none, st :: rest =>
      some { setThread s i { todo := rest, pc := .finished } with hist := s.hist ++ [(i, st)] }
    | .released (some w), st :: rest =>  -- publication WITHOUT the writer lock
      some { setThread s i { todo := rest, pc := .idle } with db := w s.db, hist := s.hist ++ [(i, st)] }
    | .released none, st :: rest =>
      some { setThread s i { todo := rest, pc := .idle } with hist := s.hist ++ [(i, st)] }
    | _, _ => none
  | .unlock i =>
    match (s.threads i).pc, (s.threads i).todo with
    | .finished, _ => some { setThread s i { s.threads i with pc := .idle } with lock := none }
    | .staged (some w), st :: _ =>
      if cfg.early st then some { setThread s i { s.threads i with pc := .released (some w) } with lock := none } else none
    | _, _ => none

def init {σ} (prog : Nat → List (Stmt σ)) (d0 : σ) : State σ :=
  { db := d0, lock := none, threads := fun i => { todo := prog i, pc := .idle }, hist := [] }

/-- reachability: any number of threads, any interleaving, any length -/
inductive Reach {σ} (cfg : Cfg) (s0 : State σ) : State σ → Prop where
  | refl : Reach cfg s0 s0
  | step {s s'} (l : Label) : Reach cfg s0 s → step cfg s l = some s' → Reach cfg s0 s'

/-- run a schedule (list of labels); `none` if some label is not enabled -/
def runTrace {σ} (cfg : Cfg) : State σ → List Label → Option (State σ)
  | s, [] => some s
  | s, l :: ls => match step cfg s l with
    | some s' => runTrace cfg s' ls
    | none => none

/-- statements of thread `i` that have left the commit step, in order (ghost) -/
def doneOf {σ} (s : State σ) (i : Nat) : List (Stmt σ) :=
  (s.hist.filter (fun p => p.1 == i)).map (·.2)

/-! ### a deterministic scheduler over the LTS (used by the driver and by the counterexamples) -/

/-- the next label of thread `i`, from its program point -/
def nextLabel {σ} (cfg : Cfg) (s : State σ) (i : Nat) : Option Label :=
  match (s.threads i).pc, (s.threads i).todo with
  | .idle, _ :: _ => some (if cfg.lockFirst then .lock i else .snap i)
  | .idle, [] => none
  | .snapped _, _ => some (.lock i)
  | .locked, _ => some (.snap i)
  | .ready _, _ => some (.exec i)
  | .staged (some _), st :: _ => some (if cfg.early st then .unlock i else .commit i)
  | .staged _, _ => some (.commit i)
  | .released _, _ => some (.commit i)
  | .finished, _ => some (.unlock i)

/-- run thread `i` until `stop` holds of its program point, it blocks, or it has nothing left -/
def runUntil {σ} (cfg : Cfg) (stop : Pc σ → Bool) : Nat → State σ → Nat → State σ
  | 0, s, _ => s
  | fuel + 1, s, i =>
    if stop (s.threads i).pc then s else
    match nextLabel cfg s i with
    | none => s
    | some l => match step cfg s l with
      | some s' => runUntil cfg stop fuel s' i
      | none => s          -- blocked on the writer lock

def runToEnd {σ} (cfg : Cfg) (s : State σ) (i : Nat) : State σ := runUntil cfg (fun _ => false) 16 s i

def threadDone {σ} (s : State σ) (i : Nat) : Bool :=
  (s.threads i).todo.isEmpty && (match (s.threads i).pc with | .idle => true | _ => false)

/-- where thread 0 is parked by the forced schedules of the `capi_sched` stream -/
inductive Park where
  | between      -- hook `capi.autocommit.between`: after the first of snapshot()/begin_write()
  | inCommit     -- a hook inside `commit` that precedes the release of the writer guard
  | afterRelease -- a hook inside `commit` after an early release, before `publish_run`
  deriving DecidableEq, Repr

def Park.stop {σ} : Park → Pc σ → Bool
  | .between, .locked | .between, .snapped _ => true
  | .inCommit, .staged _ => true
  | .afterRelease, .released _ => true
  | .afterRelease, .finished => true       -- no early release happened on this path: parked after publication
  | _, _ => false

/-- forced schedule: thread 0 runs to the park point, thread 1 runs its whole statement if it can,
    thread 0 resumes, thread 1 finishes.  Result: final state and "thread 1 was blocked". -/
def forced {σ} (cfg : Cfg) (park : Park) (s0 : State σ) : State σ × Bool :=
  let s1 := runUntil cfg park.stop 16 s0 0
  let s2 := runToEnd cfg s1 1
  let blocked := !threadDone s2 1
  let s3 := runToEnd cfg s2 0
  (runToEnd cfg s3 1, blocked)

/-! ### the concrete instance used by the `capi_sched` stream -/

/-- what the stream observes: the counter `c.v`, the number of `:A` audit nodes, the number of
    `:S {k:0}` and `:S {k:1}` nodes -/
structure Db where
  v : Int
  a : Nat
  s0 : Nat
  s1 : Nat
  deriving DecidableEq, Repr

/-- statement tokens of the stream -/
inductive CStmt where
  | inc | dbl | set (k : Int) | cas (a b : Int)    -- `MATCH (c:C) [WHERE c.v = a] SET c.v = …` (no label mutation)
  | incA                                            -- `MATCH (c:C) SET c.v = c.v + 1 CREATE (:A)`
  | merge (k : Nat)                                 -- `MERGE (:S {k: k})`
  | lab                                             -- `MATCH (c:C) SET c:Hot, c.v = c.v + 1` (label addition)
  deriving DecidableEq, Repr

/-- the staged writes are computed from the snapshot: absolute property values, node creations as deltas -/
def CStmt.toStmt : CStmt → Stmt Db
  | .inc => { run := fun d => some (fun c => { c with v := d.v + 1 }) }
  | .dbl => { run := fun d => some (fun c => { c with v := d.v * 2 }) }
  | .set k => { run := fun _ => some (fun c => { c with v := k }) }
  | .cas a b => { run := fun d => some (fun c => if d.v = a then { c with v := b } else c) }
  | .incA => { run := fun d => some (fun c => { c with v := d.v + 1, a := c.a + 1 }), labelMut := true }
  | .merge k => { run := fun d => some (fun c =>
      if k = 0 then (if d.s0 = 0 then { c with s0 := c.s0 + 1 } else c)
      else (if d.s1 = 0 then { c with s1 := c.s1 + 1 } else c)), labelMut := true }
  | .lab => { run := fun d => some (fun c => { c with v := d.v + 1 }), labelMut := true }

def prog2 (a b : CStmt) : Nat → List (Stmt Db)
  | 0 => [a.toStmt]
  | 1 => [b.toStmt]
  | _ => []

def race (cfg : Cfg) (park : Park) (d0 : Db) (a b : CStmt) : Db × Bool :=
  let (s, blocked) := forced cfg park (init (prog2 a b) d0)
  (s.db, blocked)

end Nervus.SchedCapi
