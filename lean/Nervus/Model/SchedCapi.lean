/-
  Nervus.Model.SchedCapi — labelled transition system of the C-API auto-commit write path.

  mirrors nervusdb-capi/src/lib.rs `execute_write_count`:
      let snapshot = db.snapshot();            -- `snap`
      let mut txn = db.begin_write();          -- `lock`   (GraphEngine::begin_write: write_lock.lock())
      prepared.execute_mixed(&snapshot, &mut txn, params)?   -- `exec`  (reads `snapshot`, stages writes in `txn`)
      txn.commit()?                            -- `commit` (publishes the staged writes)
      -- `txn` dropped                         -- `unlock` (MutexGuard of write_lock released)
  The ORDER of the first two calls is not fixed here: it is the parameter `lockFirst`, which the
  driver and the theorems instantiate with `Generated.autoCommitLockFirst` (regenerated from the source).

  Atomic steps = the lock-delimited actions.  `snap` is atomic here although the real `snapshot()`
  is several field reads (that is C03's subject); inside `write_lock` no other writer publishes, so for
  the lock-then-snapshot order the reads are of a quiescent state.
  Threads are indexed by `Nat` (any number of them); each runs a list of statements.
-/
import Nervus.Model.Generated.CallOrder
namespace Nervus.SchedCapi

/-- A write statement: evaluated against the snapshot it either fails (`none`: the `?` after
    `execute_mixed`, the transaction is dropped) or yields the staged writes, applied to the
    committed state at commit time (`SET n.v = <value computed from the snapshot>`). -/
structure Stmt (σ : Type) where
  run : σ → Option (σ → σ)

/-- what the statement does when it runs alone (snapshot = committed state) -/
def Stmt.seq {σ} (st : Stmt σ) (d : σ) : σ :=
  match st.run d with
  | some w => w d
  | none => d

/-- run statements one at a time -/
def runSeq {σ} (l : List (Stmt σ)) (d : σ) : σ := l.foldl (fun d st => st.seq d) d

inductive Pc (σ : Type) where
  | idle
  | snapped (v : σ)                    -- snapshot taken, writer lock not yet held   (snapshot-first order)
  | locked                             -- writer lock held, snapshot not yet taken   (lock-first order)
  | ready (v : σ)                      -- lock held and snapshot taken
  | staged (w : Option (σ → σ))        -- statement executed against the snapshot
  | finished                           -- committed / aborted, lock still held

structure Thread (σ : Type) where
  todo : List (Stmt σ)
  pc : Pc σ

structure State (σ : Type) where
  db : σ                               -- committed state
  lock : Option Nat                    -- owner of `write_lock`
  threads : Nat → Thread σ
  hist : List (Nat × Stmt σ)           -- ghost: statements in the order they left the commit step

inductive Label where
  | snap (i : Nat) | lock (i : Nat) | exec (i : Nat) | commit (i : Nat) | unlock (i : Nat)
  deriving DecidableEq, Repr

def setThread {σ} (s : State σ) (i : Nat) (t : Thread σ) : State σ :=
  { s with threads := fun j => if j = i then t else s.threads j }

/-- one atomic step; `none` = not enabled -/
def step {σ} (lockFirst : Bool) (s : State σ) : Label → Option (State σ)
  | .snap i =>
    match (s.threads i).pc, (s.threads i).todo with
    | .idle, _ :: _ => if lockFirst then none else some (setThread s i { s.threads i with pc := .snapped s.db })
    | .locked, _ => some (setThread s i { s.threads i with pc := .ready s.db })
    | _, _ => none
  | .lock i =>
    match s.lock with
    | some _ => none                   -- non-re-entrant mutex: blocked
    | none =>
      match (s.threads i).pc, (s.threads i).todo with
      | .idle, _ :: _ => if lockFirst then some { setThread s i { s.threads i with pc := .locked } with lock := some i } else none
      | .snapped v, _ => some { setThread s i { s.threads i with pc := .ready v } with lock := some i }
      | _, _ => none
  | .exec i =>
    match (s.threads i).pc, (s.threads i).todo with
    | .ready v, st :: _ => some (setThread s i { s.threads i with pc := .staged (st.run v) })
    | _, _ => none
  | .commit i =>
    match (s.threads i).pc, (s.threads i).todo with
    | .staged (some w), st :: rest =>
      some { setThread s i { todo := rest, pc := .finished } with db := w s.db, hist := s.hist ++ [(i, st)] }
    | .staged none, st :: rest =>
      some { setThread s i { todo := rest, pc := .finished } with hist := s.hist ++ [(i, st)] }
    | _, _ => none
  | .unlock i =>
    match (s.threads i).pc with
    | .finished => some { setThread s i { s.threads i with pc := .idle } with lock := none }
    | _ => none

def init {σ} (prog : Nat → List (Stmt σ)) (d0 : σ) : State σ :=
  { db := d0, lock := none, threads := fun i => { todo := prog i, pc := .idle }, hist := [] }

/-- reachability: any number of threads, any interleaving, any length -/
inductive Reach {σ} (lockFirst : Bool) (s0 : State σ) : State σ → Prop where
  | refl : Reach lockFirst s0 s0
  | step {s s'} (l : Label) : Reach lockFirst s0 s → step lockFirst s l = some s' → Reach lockFirst s0 s'

/-- run a schedule (list of labels); `none` if some label is not enabled -/
def runTrace {σ} (lockFirst : Bool) : State σ → List Label → Option (State σ)
  | s, [] => some s
  | s, l :: ls => match step lockFirst s l with
    | some s' => runTrace lockFirst s' ls
    | none => none

/-- statements of thread `i` that have left the commit step, in order (ghost) -/
def doneOf {σ} (s : State σ) (i : Nat) : List (Stmt σ) :=
  (s.hist.filter (fun p => p.1 == i)).map (·.2)

/-- the labels of one complete statement of thread `i`, in the order of the source -/
def stmtLabels (lockFirst : Bool) (i : Nat) : List Label :=
  (if lockFirst then [.lock i, .snap i] else [.snap i, .lock i]) ++ [.exec i, .commit i, .unlock i]

/-! ### the concrete instance used by the `capi_sched` stream: one counter `n.v` -/

/-- statement tokens of the stream: `inc`, `dbl`, `set<k>`, `cas<a>_<b>` -/
inductive CStmt where
  | inc | dbl | set (k : Int) | cas (a b : Int)
  deriving DecidableEq, Repr

/-- `MATCH (n:C) [WHERE n.v = a] SET n.v = <expr over the snapshot>` — the staged write is the
    absolute value computed from the snapshot -/
def CStmt.toStmt : CStmt → Stmt Int
  | .inc => ⟨fun v => some (fun _ => v + 1)⟩
  | .dbl => ⟨fun v => some (fun _ => v * 2)⟩
  | .set k => ⟨fun _ => some (fun _ => k)⟩
  | .cas a b => ⟨fun v => some (fun d => if v = a then b else d)⟩

def prog2 (a b : CStmt) : Nat → List (Stmt Int)
  | 0 => [a.toStmt]
  | 1 => [b.toStmt]
  | _ => []

/-- The forced schedule of the stream's `race a b` line: thread 0 runs up to the hook point between
    the two calls, thread 1 runs its whole statement if it can (it blocks when thread 0 holds the
    lock), thread 0 resumes, thread 1 finishes.  Returns (final value, thread 1 was blocked). -/
def raceSchedule (lockFirst : Bool) : List Label × Bool :=
  if lockFirst then
    ([.lock 0] ++ [.snap 0, .exec 0, .commit 0, .unlock 0] ++ stmtLabels true 1, true)
  else
    ([.snap 0] ++ stmtLabels false 1 ++ [.lock 0, .exec 0, .commit 0, .unlock 0], false)

def race (lockFirst : Bool) (v0 : Int) (a b : CStmt) : Option (Int × Bool) :=
  let (tr, blocked) := raceSchedule lockFirst
  (runTrace lockFirst (init (prog2 a b) v0) tr).map (fun s => (s.db, blocked))

end Nervus.SchedCapi
