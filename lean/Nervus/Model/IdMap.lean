/-
  Model/IdMap.lean — mirrors nervusdb-storage/src/idmap.rs (node table: persisted i2e records with
  the FIRST label only, in-memory e2i map and label vectors) and label_interner.rs.
  core/Std imports only.
-/
import Nervus.Model.MemTable
import Nervus.Model.Generated.WalOrder
import Nervus.Model.Generated.Sizes
namespace Nervus.Storage

/-- `LabelId::MAX`: the query layer's "no label" marker (UNLABELED_LABEL_ID) -/
def labelMax : Nat := 4294967295

/-- idmap.rs I2eRecord (flags are always 0) -/
structure I2e where
  ext : Nat
  label : Nat
deriving DecidableEq, Repr

/-- idmap.rs IdMap.  `i2e` is both the in-memory vector and the persisted node table (every
    `apply_create_node` writes the record through the pager); `e2i` and `i2l` are memory only. -/
structure IdMap where
  e2i : List (Nat × Nat) := []      -- HashMap external → internal
  i2l : List (List Nat) := []       -- per internal id: label ids, sorted, deduplicated
  i2e : List I2e := []
deriving Repr

namespace IdMap

/-- IdMap::load: rebuild from the persisted records — ONE label per node, external id 0 is not indexed -/
def load (disk : List I2e) : IdMap :=
  { e2i := (disk.zipIdx.filter (fun p => p.1.ext != 0)).map (fun p => (p.1.ext, p.2)),
    i2l := disk.map (fun r => [r.label]),
    i2e := disk }

/-! ### the node table on disk: a run of pages with `R` records each -/

/-- the pages of the table: record `k` sits on page `k / R` in slot `k % R` (idmap.rs i2e_location) -/
def tablePages (R : Nat) (recs : List I2e) : List (List I2e) :=
  (List.range ((recs.length + R - 1) / R)).map (fun i => (recs.drop (i * R)).take R)

/-- read_i2e_record: record `k` -/
def readRec (R : Nat) (pages : List (List I2e)) (k : Nat) : Option I2e :=
  (pages[k / R]?).bind (fun pg => pg[k % R]?)

/-- IdMap::load, record by record: `for k in 0..i2e_len { read_i2e_record(k) }` -/
def readPerRecord (R : Nat) (pages : List (List I2e)) (n : Nat) : List I2e :=
  (List.range n).filterMap (readRec R pages)

/-- IdMap::load, page by page: every page once, `R` slots of each page but the last; of the last page
    `n % R` slots (`modulo`) or what is left, `n - page_index * R` -/
def readPerPage (modulo : Bool) (R : Nat) (pages : List (List I2e)) (n : Nat) : List I2e :=
  let pc := (n + R - 1) / R
  (List.range pc).flatMap (fun pi =>
    let inPage := if pi + 1 == pc then (if modulo then n % R else n - pi * R) else R
    ((pages[pi]?).getD []).take inPage)

/-- the records IdMap::load gets out of the file that holds `recs` (`i2e_len = recs.length`), read the way
    the current source reads them (regenerated table) -/
def readNodeTable (recs : List I2e) : List I2e :=
  if Generated.idmapLoadPerRecord then
    readPerRecord Generated.i2eRecordsPerPage (tablePages Generated.i2eRecordsPerPage recs) recs.length
  else
    readPerPage Generated.idmapLoadLastPageModulo Generated.i2eRecordsPerPage
      (tablePages Generated.i2eRecordsPerPage recs) recs.length

/-- IdMap::next_internal_id -/
def nextId (m : IdMap) : Nat := m.i2e.length

/-- IdMap::lookup -/
def lookup (m : IdMap) (x : Nat) : Option Nat := m.e2i.lookup x

inductive Err | nonDense | dupExt | noNode
deriving DecidableEq, Repr

/-- IdMap::apply_create_node (= apply_create_node_multi_label with `vec![label_id]`) -/
def applyCreate (m : IdMap) (x label iid : Nat) : Except Err IdMap :=
  if iid != m.nextId then .error .nonDense
  else if (m.e2i.lookup x).isSome then .error .dupExt
  else .ok { e2i := (x, iid) :: m.e2i, i2l := m.i2l ++ [[label]], i2e := m.i2e ++ [⟨x, label⟩] }

/-- IdMap::apply_add_label: push + sort unless present (memory only — nothing is persisted) -/
def applyAddLabel (m : IdMap) (n l : Nat) : Except Err IdMap :=
  match m.i2l[n]? with
  | none => .error .noNode
  | some ls => .ok { m with i2l := m.i2l.set n (if ls.contains l then ls else isort (· ≤ ·) (ls ++ [l])) }

/-- IdMap::apply_remove_label (memory only) -/
def applyRemoveLabel (m : IdMap) (n l : Nat) : Except Err IdMap :=
  match m.i2l[n]? with
  | none => .error .noNode
  | some ls => .ok { m with i2l := m.i2l.set n (ls.filter (· != l)) }

end IdMap

/-- label_interner.rs LabelInterner: `i2s`; `s2i` is its inverse (names are unique) -/
abbrev Interner := List Nat    -- names are opaque tokens (Nat codes)

namespace Interner

/-- LabelInterner::get_id -/
def getId (t : Interner) (name : Nat) : Option Nat :=
  let i := t.idxOf name
  if i < t.length then some i else none

/-- LabelInterner::get_name -/
def getName (t : Interner) (id : Nat) : Option Nat := t[id]?

end Interner

end Nervus.Storage
