/-
  Nervus.Model.TxnLabels — the name-level fragment of explicit transactions (C24): statements that add / remove
  labels by name, create nodes under a label that is new to the database, and create relationships of a new type,
  inside one explicit C-API transaction.

  Mirrors
    nervusdb-capi/src/lib.rs  ndb_txn_query → execute_write_in_txn: WHICH snapshot a statement gets.  On the current
        tree `db.snapshot()` is taken for every statement (`Generated.capiTxnSnapshotPerStatement`); the model makes
        the acquisition explicit (`snapKnown`) so that a per-transaction cached view is expressible too.
    nervusdb-storage/src/engine.rs  WriteTxn::get_or_create_label: label names are interned WRITE-THROUGH (published
        at once, not staged): `known` grows during the transaction and survives a rollback;
        WriteTxn::{add_node_label, remove_node_label} push to pending lists; commit applies created nodes, then every
        label addition, then every label removal (by kind, not in statement order).
    nervusdb-query/src/executor/write_path.rs  execute_set_labels (per matched row: intern, stage the addition),
        execute_remove_labels (per matched row: `snapshot.resolve_label_id(label)` — unknown name ⇒ nothing staged),
    nervusdb-query/src/executor/write_orchestration.rs  execute_node_scan_with_staged_creates (a label scan also
        yields the nodes created earlier in the transaction).
  Core only.
-/
import Nervus.Model.Generated.CapiTxn
namespace Nervus.TxnLabels

structure Node where
  id : Nat
  labels : List Nat      -- a set; 0, 1 = base labels A, B; ≥ 2 = labels new to the database
  k : Nat
  hit : Bool             -- property `hit` (written by `setx`)
deriving Repr, DecidableEq

abbrev Graph := List Node

inductive Stmt where
  | crn (l k : Nat)        -- CREATE (:L {k})
  | seen (l : Nat)         -- MATCH (n:L) SET n.seen = 1        (touches nothing that is dumped)
  | addl (l x : Nat)       -- MATCH (n:L) SET n:X
  | reml (l x : Nat)       -- MATCH (n:L) REMOVE n:X
  | remall (x : Nat)       -- MATCH (n) REMOVE n:X
  | crx (x k : Nat)        -- CREATE (:X {k})
  | setx (x : Nat)         -- MATCH (n:X) SET n.hit = 1
  | cre (l t : Nat)        -- MATCH (n:L) CREATE (n)-[:T]->(n)
deriving Repr, DecidableEq

inductive Prim where
  | create (n : Node)
  | addL (id x : Nat)
  | remL (id x : Nat)
  | hit (id : Nat)
  | edge (t : Nat)
deriving Repr, DecidableEq

def createdNodes : List Prim → List Node
  | [] => []
  | .create n :: ps => n :: createdNodes ps
  | _ :: ps => createdNodes ps

def addsFor (id : Nat) : List Prim → List Nat
  | [] => []
  | .addL i x :: ps => if i = id then x :: addsFor id ps else addsFor id ps
  | _ :: ps => addsFor id ps

def remsFor (id : Nat) : List Prim → List Nat
  | [] => []
  | .remL i x :: ps => if i = id then x :: remsFor id ps else remsFor id ps
  | _ :: ps => remsFor id ps

def hitsFor (id : Nat) (ps : List Prim) : Bool := ps.contains (.hit id)

def edgesOf : List Prim → List Nat
  | [] => []
  | .edge t :: ps => t :: edgesOf ps
  | _ :: ps => edgesOf ps

/-- mirrors step 3 of `WriteTxn::commit`: created nodes, then every label addition, then every label removal -/
def finalLabels (n : Node) (ps : List Prim) : List Nat :=
  (n.labels ++ addsFor n.id ps).filter (fun x => !(remsFor n.id ps).contains x)

def applyCommit (g : Graph) (ps : List Prim) : Graph :=
  (g ++ createdNodes ps).map (fun n => { n with labels := finalLabels n ps, hit := n.hit || hitsFor n.id ps })

/-- the rows of `MATCH (n:L)` inside the transaction: committed nodes carrying the label in the snapshot, plus the
    nodes created earlier in the transaction under that label -/
def scanLabel (g : Graph) (created : List Node) (l : Nat) : List Node :=
  (g ++ created).filter (fun n => n.labels.contains l)

/-- one statement: what it stages and which label names it interns (write-through).
    `snapKnown` = the label table of the snapshot the statement was given. -/
def exec (g : Graph) (created : List Node) (snapKnown : List Nat) (next : Nat) : Stmt → List Prim × List Nat
  | .crn l k => ([.create ⟨next, [l], k, false⟩], [l])
  | .crx x k => ([.create ⟨next, [x], k, false⟩], [x])
  | .seen _ => ([], [])
  | .addl l x =>
    let rows := scanLabel g created l
    (rows.map (fun n => .addL n.id x), if rows.isEmpty then [] else [x])
  | .reml l x =>
    if snapKnown.contains x then ((scanLabel g created l).map (fun n => .remL n.id x), []) else ([], [])
  | .remall x =>
    if snapKnown.contains x then ((g ++ created).map (fun n => .remL n.id x), []) else ([], [])
  | .setx x =>
    -- a label the snapshot does not know resolves to no rows; property writes reach committed nodes only
    ((g.filter (fun n => n.labels.contains x)).map (fun n => .hit n.id), [])
  | .cre l t => ((scanLabel g created l).map (fun _ => .edge t), [])

/-- database + open transaction -/
structure State where
  committed : Graph
  edges : List Nat               -- relationship types of the committed relationships (a multiset)
  allocated : Nat
  known : List Nat               -- published label names
  staged : Option (List Prim)
  view : Option (List Nat)       -- label table of the transaction's cached snapshot (only used when snapshots are
                                 -- taken once per transaction)
deriving Repr, DecidableEq

def State.init : State := ⟨[], [], 0, [], none, none⟩

inductive Op where
  | auto (s : Stmt) | begin | tq (s : Stmt) | commit | rollback
deriving Repr, DecidableEq

/-- `perStmt`: a fresh snapshot for every statement (what execute_write_in_txn does) or one per transaction -/
def step (perStmt : Bool) (σ : State) : Op → State × Bool
  | .auto s =>
    match σ.staged with
    | some _ => (σ, false)
    | none =>
      let r := exec σ.committed [] σ.known σ.allocated s
      ({ σ with committed := applyCommit σ.committed r.1, edges := σ.edges ++ edgesOf r.1,
                allocated := σ.allocated + (createdNodes r.1).length, known := σ.known ++ r.2 }, true)
  | .begin =>
    match σ.staged with
    | some _ => (σ, false)
    | none => ({ σ with staged := some [], view := none }, true)
  | .tq s =>
    match σ.staged with
    | none => (σ, false)
    | some ps =>
      let snapKnown := if perStmt then σ.known else σ.view.getD σ.known
      let created := createdNodes ps
      let r := exec σ.committed created snapKnown (σ.allocated + created.length) s
      ({ σ with staged := some (ps ++ r.1), known := σ.known ++ r.2, view := some snapKnown }, true)
  | .commit =>
    match σ.staged with
    | none => (σ, false)
    | some ps =>
      ({ σ with committed := applyCommit σ.committed ps, edges := σ.edges ++ edgesOf ps,
                allocated := σ.allocated + (createdNodes ps).length, staged := none, view := none }, true)
  | .rollback =>
    match σ.staged with
    | none => (σ, false)
    | some _ => ({ σ with staged := none, view := none }, true)

def run (perStmt : Bool) (σ : State) (ops : List Op) : State := ops.foldl (fun σ op => (step perStmt σ op).1) σ

/-- one explicit transaction: begin, the statements, commit -/
def txnOps (stmts : List Stmt) : List Op := .begin :: (stmts.map .tq ++ [.commit])

/-- the code: the snapshot policy is read off `execute_write_in_txn` (regenerated) -/
def codeStep := step Generated.capiTxnSnapshotPerStatement

/-! ### what read-your-writes demands: statements applied one after the other to the evolving graph -/

/-- what one statement does to the label set of one node under read-your-writes (the node's *current* labels) -/
def nodeStep (s : Stmt) (ls : List Nat) : List Nat :=
  match s with
  | .addl l x => if ls.contains l then ls ++ [x] else ls
  | .reml l x => if ls.contains l then ls.filter (· != x) else ls
  | .remall x => ls.filter (· != x)
  | _ => ls

/-- the labels of a node after a whole transaction under read-your-writes -/
def specNodeLabels (ls : List Nat) (stmts : List Stmt) : List Nat := stmts.foldl (fun ls s => nodeStep s ls) ls

def specStmt (g : Graph) (next : Nat) : Stmt → Graph × List Nat
  | .crn l k => (g ++ [⟨next, [l], k, false⟩], [])
  | .crx x k => (g ++ [⟨next, [x], k, false⟩], [])
  | .setx x => (g.map (fun n => if n.labels.contains x then { n with hit := true } else n), [])
  | .cre l t => (g, (g.filter (fun n => n.labels.contains l)).map (fun _ => t))
  | s => (g.map (fun n => { n with labels := nodeStep s n.labels }), [])

/-- a whole transaction under read-your-writes, from the committed graph -/
def specTxn (g : Graph) (next : Nat) : List Stmt → Graph × List Nat
  | [] => (g, [])
  | s :: ss =>
    let r := specStmt g next s
    let rest := specTxn r.1 (next + (r.1.length - g.length)) ss
    (rest.1, r.2 ++ rest.2)

/-- the same transaction as the code runs it with a fresh snapshot per statement: stage, then commit -/
def codeTxnPrims (g : Graph) (known : List Nat) (next : Nat) : List Prim → List Stmt → List Prim
  | ps, [] => ps
  | ps, s :: ss =>
    let created := createdNodes ps
    let r := exec g created known (next + created.length) s
    codeTxnPrims g (known ++ r.2) next (ps ++ r.1) ss

/-! ### the fragment and the trigger predicates -/

/-- base labels (matched on) are 0, 1; labels written by name are ≥ 2 -/
def Stmt.wellFormed : Stmt → Bool
  | .crn l _ => l < 2
  | .seen l => l < 2
  | .addl l x => l < 2 && 2 ≤ x
  | .reml l x => l < 2 && 2 ≤ x
  | .remall x => 2 ≤ x
  | .crx x _ => 2 ≤ x
  | .setx x => 2 ≤ x
  | .cre l _ => l < 2

def Stmt.addsLabel : Stmt → Option Nat
  | .addl _ x => some x
  | .crx x _ => some x
  | _ => none

def Stmt.removesLabel : Stmt → Option Nat
  | .reml _ x => some x
  | .remall x => some x
  | _ => none

/-- C24-label-readd-lost-at-commit: a label is added (or a node created under it) after the transaction has removed
    it.  `removed` = labels removed so far. -/
def reAdds (removed : List Nat) : List Stmt → Bool
  | [] => false
  | s :: ss =>
    (match s.addsLabel with | some x => removed.contains x | none => false) ||
      reAdds (match s.removesLabel with | some x => x :: removed | none => removed) ss

/-- C24-txn-reads-committed-snapshot in this fragment: `MATCH (n:X)` after the transaction has written label X -/
def readsWrittenLabel (written : List Nat) : List Stmt → Bool
  | [] => false
  | s :: ss =>
    (match s with | .setx x => written.contains x | _ => false) ||
      readsWrittenLabel ((match s.addsLabel with | some x => [x] | none => []) ++
        (match s.removesLabel with | some x => [x] | none => []) ++ written) ss

end Nervus.TxnLabels
