/-
  Model/MemTable.lean — mirrors nervusdb-storage/src/memtable.rs (the write buffer of one
  transaction) and `freeze_into_run`.

  Representation notes (each is a data refinement of the Rust containers, validated by the `engine`
  correspondence stream):
  * `out: HashMap<src, Vec<EdgeKey>>` and `in_: HashMap<dst, Vec<EdgeKey>>` always hold the same
    multiset (create_edge pushes to both, tombstone_edge retains on both), partitioned by src / dst
    in insertion order.  The model keeps the ONE insertion-ordered list `edges`;
    `out[s] = edges.filter (·.src = s)`, `in_[d] = edges.filter (·.dst = d)`.
  * `BTreeSet`s are lists without duplicates (sorted when they are iterated: `freeze`).
  * nested `HashMap<node, HashMap<key, value>>` are flattened to association lists with unique
    `(node, key)` keys; `removed_*: HashMap<node, BTreeSet<key>>` to lists of `(node, key)`.
    (A removed-set may be left empty in Rust after `set` un-removes its last key; such an entry
    always coexists with a non-empty property entry of the same node, so `is_empty` is unaffected.)
  Hash-map iteration order reaches an output only through the `*_for_wal` lists; the model emits them
  in stored order and the replay theorems do not depend on that order.
  core/Std imports only.
-/
namespace Nervus.Storage

abbrev PV := Nat

/-- nervusdb_api::EdgeKey (field order = derive(Ord) order) -/
structure Edge where
  src : Nat
  rel : Nat
  dst : Nat
deriving DecidableEq, Repr

/-- derive(Ord) on EdgeKey: lexicographic (src, rel, dst) -/
def Edge.le (a b : Edge) : Bool :=
  a.src < b.src || (a.src == b.src && (a.rel < b.rel || (a.rel == b.rel && a.dst ≤ b.dst)))

/-- insertion sort (structural, kernel-evaluable); stands for `Vec::sort` / BTree iteration order -/
def insertBy {α} (le : α → α → Bool) (a : α) : List α → List α
  | [] => [a]
  | b :: bs => if le a b then a :: b :: bs else b :: insertBy le a bs

def isort {α} (le : α → α → Bool) : List α → List α
  | [] => []
  | a :: as => insertBy le a (isort le as)

/-- set insert on a duplicate-free list -/
def setInsert {α} [DecidableEq α] (a : α) (s : List α) : List α :=
  if s.contains a then s else a :: s

/-- map insert (overwrite) on an association list with unique keys -/
def upsert {κ ν} [DecidableEq κ] (k : κ) (v : ν) (m : List (κ × ν)) : List (κ × ν) :=
  (k, v) :: m.filter (·.1 != k)

def mapErase {κ ν} [DecidableEq κ] (k : κ) (m : List (κ × ν)) : List (κ × ν) :=
  m.filter (·.1 != k)

structure MemTable where
  edges : List Edge := []
  tombNodes : List Nat := []
  tombEdges : List Edge := []
  nprops : List ((Nat × Nat) × PV) := []
  eprops : List ((Edge × Nat) × PV) := []
  nDel : List (Nat × Nat) := []
  eDel : List (Edge × Nat) := []
deriving Repr

namespace MemTable

/-- MemTable::create_edge -/
def createEdge (m : MemTable) (e : Edge) : MemTable := { m with edges := m.edges ++ [e] }

/-- MemTable::tombstone_node -/
def tombstoneNode (m : MemTable) (n : Nat) : MemTable := { m with tombNodes := setInsert n m.tombNodes }

/-- MemTable::tombstone_edge: drops the copies staged so far, records the tombstone.
    (Does NOT touch the edge's properties.) -/
def tombstoneEdge (m : MemTable) (e : Edge) : MemTable :=
  { m with edges := m.edges.filter (· != e), tombEdges := setInsert e m.tombEdges }

/-- MemTable::set_node_property: insert + un-remove -/
def setNodeProp (m : MemTable) (n k : Nat) (v : PV) : MemTable :=
  { m with nprops := upsert (n, k) v m.nprops, nDel := m.nDel.filter (· != (n, k)) }

/-- MemTable::remove_node_property -/
def removeNodeProp (m : MemTable) (n k : Nat) : MemTable :=
  { m with nprops := mapErase (n, k) m.nprops, nDel := setInsert (n, k) m.nDel }

/-- MemTable::set_edge_property -/
def setEdgeProp (m : MemTable) (e : Edge) (k : Nat) (v : PV) : MemTable :=
  { m with eprops := upsert (e, k) v m.eprops, eDel := m.eDel.filter (· != (e, k)) }

/-- MemTable::remove_edge_property -/
def removeEdgeProp (m : MemTable) (e : Edge) (k : Nat) : MemTable :=
  { m with eprops := mapErase (e, k) m.eprops, eDel := setInsert (e, k) m.eDel }

end MemTable

/-- snapshot.rs L0Run.  `edges` is `edges_by_src` flattened (BTreeMap by src of sorted Vecs = the
    sorted list); `edges_by_dst[d]` is the same list filtered by dst (each Vec sorted). -/
structure Run where
  txid : Nat
  edges : List Edge
  tombNodes : List Nat
  tombEdges : List Edge
  nprops : List ((Nat × Nat) × PV)
  eprops : List ((Edge × Nat) × PV)
  nDel : List (Nat × Nat)
  eDel : List (Edge × Nat)
deriving Repr

/-- MemTable::freeze_into_run -/
def MemTable.freeze (m : MemTable) (txid : Nat) : Run :=
  { txid, edges := isort Edge.le m.edges,
    tombNodes := isort (· ≤ ·) m.tombNodes, tombEdges := isort Edge.le m.tombEdges,
    nprops := m.nprops, eprops := m.eprops, nDel := m.nDel, eDel := m.eDel }

namespace Run

/-- read_path_run_state.rs run_is_empty -/
def isEmpty (r : Run) : Bool :=
  r.edges.isEmpty && r.tombNodes.isEmpty && r.tombEdges.isEmpty && r.nprops.isEmpty &&
  r.eprops.isEmpty && r.nDel.isEmpty && r.eDel.isEmpty

/-- read_path_run_state.rs run_has_properties -/
def hasProperties (r : Run) : Bool :=
  !(r.nprops.isEmpty && r.eprops.isEmpty && r.nDel.isEmpty && r.eDel.isEmpty)

/-- read_path_run_edges.rs edges_for_src -/
def edgesForSrc (r : Run) (s : Nat) : List Edge := r.edges.filter (·.src == s)

/-- read_path_run_edges.rs edges_for_dst -/
def edgesForDst (r : Run) (d : Nat) : List Edge := r.edges.filter (·.dst == d)

/-- read_path_run_props.rs node_property_in_run -/
def nodeProp (r : Run) (n k : Nat) : Option PV :=
  if r.nDel.contains (n, k) then none else r.nprops.lookup (n, k)

/-- read_path_run_props.rs edge_property_in_run -/
def edgeProp (r : Run) (e : Edge) (k : Nat) : Option PV :=
  if r.eDel.contains (e, k) then none else r.eprops.lookup (e, k)

end Run

end Nervus.Storage
