/-
  Nervus.Model.Recovery — the on-disk state at the abstraction level of the crash properties
  (C01, C02, C08) and the model of what `GraphEngine::open` reads from it.

  * the log is a list of *fragments* (one per `write_all` of `Wal::append`); a record is either
    completely written (three consecutive fragments) or torn.  The byte level (CRC, lengths,
    arbitrary tails) is the subject of C17 (`Model/WalFrame`), not of this file.
  * the page file is a set of logical components (meta page, node table slots, catalog, segments,
    property trees); page ids appear only as labels of I/O steps and as keys of components.
  * a transaction is an opaque payload: lists of external node ids, edge ids and property ids.
  Core imports only (the driver links this file).
-/
import Nervus.Spec.CrashTxLog
namespace Nervus.Crash

/-- WAL records at this abstraction (mirrors `WalRecord`; page/label records do not occur) -/
inductive Rec where
  | begin (t : Nat)
  | node (ext iid : Nat)
  | edge (e : Nat)
  | prop (q : Nat)
  | manifest (epoch : Nat) (segs : List Nat) (proot : Nat) (ptop : Bool)
  | checkpoint (upto epoch : Nat) (proot : Nat) (ptop : Bool)
  | commit (t : Nat)
deriving DecidableEq, Repr, Inhabited

/-- one `write_all` of `Wal::append`: length field, CRC field, body -/
inductive Frag where
  | len (r : Rec)
  | crc (r : Rec)
  | body (r : Rec)
deriving DecidableEq, Repr, Inhabited

def frame (r : Rec) : List Frag := [.len r, .crc r, .body r]

def frames : List Rec → List Frag
  | [] => []
  | r :: rs => .len r :: .crc r :: .body r :: frames rs

/-- mirrors `WalReader::next_record` iterated: a record is returned iff its frame is complete;
    a torn frame — at the end of the file or followed by later appends — is the end of the log
    (length/CRC mismatch ⇒ `Ok(None)`; the byte-level cases are C17's). -/
def readAll : List Frag → List Rec
  | .len r :: .crc r' :: .body r'' :: rest =>
    if r = r' ∧ r = r'' then r :: readAll rest else []
  | _ => []

/-- number of fragments that `readAll` accepts (the valid end of the log) -/
def validLen : List Frag → Nat
  | .len r :: .crc r' :: .body r'' :: rest =>
    if r = r' ∧ r = r'' then 3 + validLen rest else 0
  | _ => 0

inductive Err where
  | commitMismatch | opOutsideTx | nonDense | remapped | dupExt | segMissing | catBad | idxBad
  | walClosed | io | nodeMissing
deriving DecidableEq, Repr, Inhabited

def Err.name : Err → String
  | .commitMismatch => "walproto:CommitTx_without_matching_BeginTx"
  | .opOutsideTx => "walproto:op_outside_tx"
  | .nonDense => "walproto:non-dense_internal_id"
  | .remapped => "walproto:external_id_remapped"
  | .dupExt => "walproto:duplicate_external_id"
  | .segMissing => "seg"
  | .catBad => "walproto:index_catalog:_bad_magic"
  | .idxBad => "walproto:index_page:_bad_magic"
  | .walClosed => "walproto:wal_file_is_closed"
  | .io => "io"
  | .nodeMissing => "walproto:node_not_found"

/-- a committed transaction of the log -/
structure CTx where
  txid : Nat
  ops : List Rec
deriving DecidableEq, Repr, Inhabited

/-- mirrors `Wal::replay_committed_from_path`: BeginTx clears the pending list (an unfinished
    transaction followed by a new BeginTx is dropped), CommitTx must match, ops need a BeginTx. -/
def committedAux : List Rec → Option Nat → List Rec → List CTx → Except Err (List CTx)
  | [], _, _, acc => .ok acc.reverse
  | .begin t :: rs, _, _, acc => committedAux rs (some t) [] acc
  | .commit t :: rs, cur, pend, acc =>
    if cur = some t then committedAux rs none [] (⟨t, pend.reverse⟩ :: acc) else .error .commitMismatch
  | r :: rs, cur, pend, acc =>
    match cur with
    | none => .error .opOutsideTx
    | some _ => committedAux rs cur (r :: pend) acc

def committed (rs : List Rec) : Except Err (List CTx) := committedAux rs none [] []

/-- mirrors `RecoveryState` / `scan_recovery_state` -/
structure RScan where
  epoch : Nat := 0
  segs : List Nat := []
  ckpt : Nat := 0
  maxTxid : Nat := 0
  proot : Nat := 0
  ptop : Bool := false
deriving DecidableEq, Repr, Inhabited

def scanOp (s : RScan) : Rec → RScan
  | .manifest ep segs pr pt =>
    if ep ≥ s.epoch then { s with epoch := ep, segs := segs, ckpt := 0, proot := pr, ptop := pt } else s
  | .checkpoint up ep pr pt =>
    if ep = s.epoch then { s with ckpt := max s.ckpt up, proot := pr, ptop := pt } else s
  | _ => s

def scanTx (s : RScan) (tx : CTx) : RScan :=
  tx.ops.foldl scanOp { s with maxTxid := max s.maxTxid tx.txid }

def scan (txs : List CTx) : RScan := txs.foldl scanTx {}

/-! ## page file -/

/-- the fields of the meta page that matter here (mirrors `pager::Meta`) -/
structure Meta where
  init : Bool := false       -- the magic is present (the page was written at least once)
  nextPage : Nat := 2
  i2eStart : Nat := 0
  i2eLen : Nat := 0
  nextInt : Nat := 0
  catRoot : Nat := 0
  nextIdx : Nat := 0
deriving DecidableEq, Repr, Inhabited

/-- a persisted CSR segment: `need` pages (data pages + its meta page), `have` = written parts -/
structure SegImg where
  key : Nat
  edges : List Nat
  need : Nat
  got : List Nat
deriving DecidableEq, Repr, Inhabited

def SegImg.complete (s : SegImg) : Bool := (List.range s.need).all (fun j => s.got.contains j)

/-- a leaf page of a property tree: entries in slot order (`none` = a cell whose bytes never
    reached the disk: torn page write), `sib` = the right-sibling pointer is set -/
structure LeafImg where
  entries : List (Option Nat)
  sib : Bool
  pid : Nat := 0          -- page id (label only)
deriving DecidableEq, Repr, Inhabited

/-- a property B-tree: `key` = page id of its first leaf (the root at creation); `inode` = the
    separator keys of the internal root once the first leaf was split; `blobs` = properties whose
    value blob page was written -/
structure TreeImg where
  key : Nat
  leaves : List LeafImg
  inode : Option (List Nat)
  blobs : List Nat
  inodePid : Nat := 0     -- page id of the internal root (label only)
deriving DecidableEq, Repr, Inhabited

structure PImg where
  len : Nat := 0                    -- file length in pages
  hdr : Meta := {}
  bm : Nat := 2                     -- allocation bitmap page: data pages 2 … bm-1 are marked allocated
  i2e : List Nat := []              -- slots of the node table page (external ids, 0 = empty)
  cat : Option (List Nat) := none   -- catalog page: `none` = never written (zero page)
  idx : List Nat := []              -- index root pages that were initialised
  segs : List SegImg := []
  trees : List TreeImg := []
deriving DecidableEq, Repr, Inhabited

/-- the logical effect of one unsynced pager operation (`set_len` or a page write) -/
inductive PEff where
  | setLen (n : Nat)
  | hdr (m : Meta)
  | bitmap (top : Nat)
  | slot (idx ext : Nat)
  | cat (entries : List Nat)
  | idxRoot (p : Nat)
  | segPart (key j need : Nat) (edges : List Nat)
  | treeNew (key : Nat)
  | blob (key q : Nat)
  | leaf (key i : Nat) (entries : List (Option Nat)) (sib : Bool) (pid : Nat)
  | inode (key : Nat) (seps : List Nat) (pid : Nat)
  | stats
deriving DecidableEq, Repr, Inhabited

def setSlot : List Nat → Nat → Nat → List Nat
  | [], 0, v => [v]
  | [], i+1, v => 0 :: setSlot [] i v
  | _ :: xs, 0, v => v :: xs
  | x :: xs, i+1, v => x :: setSlot xs i v

def getSlot : List Nat → Nat → Nat
  | [], _ => 0
  | x :: _, 0 => x
  | _ :: xs, i + 1 => getSlot xs i

def updSeg (segs : List SegImg) (key j need : Nat) (edges : List Nat) : List SegImg :=
  if segs.any (fun s => s.key == key) then
    segs.map (fun s => if s.key == key then { s with got := j :: s.got } else s)
  else
    { key := key, edges := edges, need := need, got := [j] } :: segs

def updTree (trees : List TreeImg) (key : Nat) (f : TreeImg → TreeImg) : List TreeImg :=
  trees.map (fun t => if t.key == key then f t else t)

def setLeaf : List LeafImg → Nat → LeafImg → List LeafImg
  | [], _, l => [l]
  | _ :: ls, 0, l => l :: ls
  | x :: ls, i+1, l => x :: setLeaf ls i l

def applyEff (e : PEff) (p : PImg) : PImg :=
  match e with
  | .setLen n => { p with len := max p.len n }
  | .hdr m => { p with hdr := m }
  | .bitmap top => { p with bm := top }
  | .slot i x => { p with i2e := setSlot p.i2e i x }
  | .cat es => { p with cat := some es }
  | .idxRoot r => { p with idx := r :: p.idx }
  | .segPart k j need es => { p with segs := updSeg p.segs k j need es }
  | .treeNew k => { p with trees := { key := k, leaves := [⟨[], false, k⟩], inode := none, blobs := [] } :: p.trees }
  | .blob k q => { p with trees := updTree p.trees k (fun t => { t with blobs := q :: t.blobs }) }
  | .leaf k i es sib pid => { p with trees := updTree p.trees k (fun t => { t with leaves := setLeaf t.leaves i ⟨es, sib, pid⟩ }) }
  | .inode k seps pid => { p with trees := updTree p.trees k (fun t => { t with inode := some seps, inodePid := pid }) }
  | .stats => p

def applyEffs (es : List PEff) (p : PImg) : PImg := es.foldl (fun p e => applyEff e p) p

/-- the node a property key belongs to (keys of the model: node · 10000 + j; the first 5 bytes of
    the real key are tag + node) -/
def keyNode (q : Nat) : Nat := q / 10000

/-- a leaf rewrite that inserts ONE cell (`leaf_insert_at`: the slot array, in the first half of
    the page, gets the new slot at position `i`; the cell itself is put below the existing cells —
    cell n occupies the bytes [8192 − 27(n+1), 8192 − 27n)): torn, a new cell that lies in the second
    half (27·n ≤ 4096) is bytes that were never written — the entry at `i` is unreadable, all
    others are as before; the ONE cell that straddles the middle of the page (n = 152) keeps the
    head of its key (tag + node) and loses the rest: it compares below every key of its node, and
    the prefix scan of that node runs into it and fails (`some (keyNode q)`: a marker below all keys) -/
def tornInsert (oes es : List (Option Nat)) : Option (List (Option Nat)) :=
  let i := ((List.range oes.length).find? (fun j => es.getD j none != oes.getD j none)).getD oes.length
  if es.length = oes.length + 1 ∧ es.take i = oes.take i ∧ es.drop (i + 1) = oes.drop i ∧ 27 * oes.length < 4096
  then some (es.set i (if 27 * es.length ≤ 4096 then none else (es.getD i none).map keyNode)) else none

/-- what reaches the disk of a page write that is torn in the middle (first half of the page
    persists, 512-byte sectors are atomic): meta fields, catalog entries, blob/segment contents of
    the sizes used here and B-tree page headers + slot arrays lie in the first half; a node-table
    slot ≥ 256, a freshly inserted leaf cell (cells grow downwards from the page end; while
    27·(n+1) ≤ 4096) and the cells of an internal root lie in the second half; a deletion only
    shifts slots (first half). -/
def tornEff (p : PImg) : PEff → Option PEff
  | .slot i x => if i < 256 then some (.slot i x) else none
  | .leaf k i es sib pid =>
    let old := ((p.trees.find? (fun t => t.key == k)).bind (fun t => t.leaves[i]?)).map (·.entries)
    match old with
    | some oes =>
      match tornInsert oes es with
      | some r => some (.leaf k i r sib pid)
      | none => some (.leaf k i es sib pid)
    | none =>
      -- a leaf on a fresh page (the right half of a split): the cells in the second half of the
      -- page — the first ⌊4096/27⌋ ones, cells grow downwards from the page end — do not persist
      some (.leaf k i ((List.range es.length).map (fun j => if 27 * (j + 1) ≤ 4096 then none else es.getD j none)) sib pid)
  | .inode k seps pid =>
    -- an internal root that is REWRITTEN in place (a separator appended after a leaf split): the
    -- new header and slot array persist, the new cell (second half of the page) does not — the
    -- descent reads garbage and every lookup through this root fails.  A root written to a fresh
    -- page is not reachable before the write that links it.
    match (p.trees.find? (fun t => t.key == k)).bind (·.inode) with
    | some _ => some (.inode k (List.replicate (seps.length + 2) 0) pid)
    | none => some (.inode k seps pid)
  | e => some e

/-- per unsynced operation: lost, persisted, or torn -/
inductive Sel where
  | drop | keep | torn
deriving DecidableEq, Repr, Inhabited

/-- power-loss image of the page file: durable image plus the selected unsynced operations,
    in issue order -/
def applySel : List (PEff × Sel) → PImg → PImg
  | [], p => p
  | (e, .keep) :: rest, p => applySel rest (applyEff e p)
  | (_, .drop) :: rest, p => applySel rest p
  | (e, .torn) :: rest, p =>
    match tornEff p e with
    | some e' => applySel rest (applyEff e' p)
    | none => applySel rest p

/-! ## property tree lookups (mirror `read_node_property_from_store` → `cursor_lower_bound`) -/

def optLt : Option Nat → Nat → Bool
  | none, _ => true          -- an unreadable cell decodes as the empty key, smaller than every key
  | some a, q => a < q

/-- `Page::leaf_lower_bound` on the slot array, literally (lo/hi/mid), `fuel ≥ log₂ n + 1` -/
def lowerBoundAux (es : List (Option Nat)) (q : Nat) : Nat → Nat → Nat → Nat
  | 0, lo, _ => lo
  | fuel+1, lo, hi =>
    if lo < hi then
      let mid := (lo + hi) / 2
      if optLt (es.getD mid none) q then lowerBoundAux es q fuel (mid + 1) hi
      else lowerBoundAux es q fuel lo mid
    else lo

def lowerBound (es : List (Option Nat)) (q : Nat) : Nat :=
  lowerBoundAux es q (es.length + 1) 0 es.length

/-- point lookup in the leaf chain starting at leaf `i`: the lower-bound slot of leaf `i`, or —
    when that is past the last slot and a right sibling exists — slot 0 of the next non-empty
    leaf (the cursor does NOT search the sibling) -/
def chainFirst : List LeafImg → Option (Option Nat)
  | [] => none
  | l :: rest =>
    match l.entries with
    | e :: _ => some e
    | [] => if l.sib then chainFirst rest else none

def leafFind (leaves : List LeafImg) (i q : Nat) : Bool :=
  match leaves[i]? with
  | none => false
  | some l =>
    let k := lowerBound l.entries q
    if k < l.entries.length then l.entries.getD k none == some q
    else if l.sib then chainFirst (leaves.drop (i + 1)) == some (some q) else false

/-- `internal_child_for_key`: number of separators ≤ q -/
def route (seps : List Nat) (q : Nat) : Nat := (seps.filter (fun s => s ≤ q)).length

/-- is property `q` readable through the tree `key`, entered at the leaf (`top = false`) or at
    the internal root (`top = true`) -/
def treeHas (p : PImg) (key : Nat) (top : Bool) (q : Nat) : Bool :=
  match p.trees.find? (fun t => t.key == key) with
  | none => false
  | some t =>
    let found :=
      if top then
        match t.inode with
        | none => false
        | some seps => leafFind t.leaves (route seps q) q
      else leafFind t.leaves 0 q
    found && t.blobs.contains q

/-- does the prefix scan of a node's properties (`extend_node_properties_from_store`) get started:
    its lower-bound seek (for a key just below `q0`, the node's first property) descends from the
    internal root; it fails — and the whole scan of that node returns nothing — when the root is
    the garbage a torn in-place rewrite leaves (`tornEff`) or when the child it is sent to is a
    page that did not persist.  (Running into such a page later, over a sibling link, just ends
    the scan.) -/
def scanSeekOk (p : PImg) (key : Nat) (top : Bool) (q0 : Nat) : Bool :=
  !top || match p.trees.find? (fun t => t.key == key) with
    | some t =>
      (match t.inode with
       | some seps =>
         !(decide (2 ≤ seps.length) && seps.all (· == 0)) && decide ((seps.filter (· < q0)).length < t.leaves.length)
       | none => false)
    | none => false

/-- the prefix scan of the node of key `q0` runs into a half-written cell of that node (`tornInsert`) -/
def scanHitsTorn (p : PImg) (key : Nat) (q0 : Nat) : Bool :=
  match p.trees.find? (fun t => t.key == key) with
  | some t => t.leaves.any (fun l => l.entries.contains (some (keyNode q0)))
  | none => false

end Nervus.Crash
