/-
  Nervus.Model.CApi — the two write classifiers the C API depends on (C34):
    nervusdb-capi/src/lib.rs                               query_contains_write / clause_contains_write  (AST walk)
    nervusdb-query/src/query_api/plan_introspection.rs     plan_contains_write                             (compiled plan)
  and the part of nervusdb-query/src/query_api/compile_core.rs compile_m3_plan that decides which plan constructor
  a clause becomes and where the plan built so far ends up inside it.
  Both classifiers are evaluated *from the regenerated arm tables* (`Generated.WriteClass`), so the theorems are about
  the arms the source has now.  Core only.
-/
import Nervus.Model.Generated.WriteClass
namespace Nervus.CApi

/-! ### plans -/

inductive WK where   -- plan nodes of updating clauses (all carry `input`)
  | create | delete | setProperty | setPropertiesFromMap | setLabels | removeProperty | removeLabels
deriving Repr, DecidableEq

inductive UK where   -- read operators with one `input`
  | filter | project | limit | skip | orderBy | distinct | unwind | aggregate | procedureCall | matchBoundRel
deriving Repr, DecidableEq

inductive MK where   -- expansions with `input: Option<Box<Plan>>`
  | matchOut | matchIn | matchUndirected | matchOutVarLen
deriving Repr, DecidableEq

inductive LK where
  | nodeScan | returnOne | values
deriving Repr, DecidableEq

def WK.name : WK → String
  | .create => "Create" | .delete => "Delete" | .setProperty => "SetProperty"
  | .setPropertiesFromMap => "SetPropertiesFromMap" | .setLabels => "SetLabels"
  | .removeProperty => "RemoveProperty" | .removeLabels => "RemoveLabels"

def UK.name : UK → String
  | .filter => "Filter" | .project => "Project" | .limit => "Limit" | .skip => "Skip" | .orderBy => "OrderBy"
  | .distinct => "Distinct" | .unwind => "Unwind" | .aggregate => "Aggregate" | .procedureCall => "ProcedureCall"
  | .matchBoundRel => "MatchBoundRel"

def MK.name : MK → String
  | .matchOut => "MatchOut" | .matchIn => "MatchIn" | .matchUndirected => "MatchUndirected"
  | .matchOutVarLen => "MatchOutVarLen"

def LK.name : LK → String
  | .nodeScan => "NodeScan" | .returnOne => "ReturnOne" | .values => "Values"

/-- `executor::Plan`, by shape -/
inductive Plan where
  | write (k : WK) (input : Plan)
  | foreach (input sub : Plan)
  | unary (k : UK) (input : Plan)
  | optFixup (outer filtered : Plan)
  | indexSeek (fallback : Plan)
  | expand0 (k : MK)                      -- `input: None`
  | expand1 (k : MK) (input : Plan)       -- `input: Some(..)`
  | apply (input subquery : Plan)
  | cart (left right : Plan)
  | union (left right : Plan)
  | leaf (k : LK)
deriving Repr, DecidableEq

/-- does the arm of `plan_contains_write` for constructor `c` say `true`? (no arm ⇒ the Rust would not compile) -/
def armWrite (c : String) : Bool :=
  match Generated.planArms.lookup c with
  | some (w, _) => w
  | none => false

/-- does the arm for `c` recurse into field `f`? -/
def armRec (c f : String) : Bool :=
  match Generated.planArms.lookup c with
  | some (_, fs) => fs.contains f
  | none => false

/-- mirrors `plan_contains_write`, arm by arm, through the regenerated table -/
def planContainsWrite : Plan → Bool
  | .write k i => armWrite k.name || (armRec k.name "input" && planContainsWrite i)
  | .foreach i s => armWrite "Foreach" || (armRec "Foreach" "input" && planContainsWrite i) ||
      (armRec "Foreach" "sub_plan" && planContainsWrite s)
  | .unary k i => armWrite k.name || (armRec k.name "input" && planContainsWrite i)
  | .optFixup o f => armWrite "OptionalWhereFixup" || (armRec "OptionalWhereFixup" "outer" && planContainsWrite o) ||
      (armRec "OptionalWhereFixup" "filtered" && planContainsWrite f)
  | .indexSeek fb => armWrite "IndexSeek" || (armRec "IndexSeek" "fallback" && planContainsWrite fb)
  | .expand0 k => armWrite k.name
  | .expand1 k i => armWrite k.name || (armRec k.name "input?" && planContainsWrite i)
  | .apply i s => armWrite "Apply" || (armRec "Apply" "input" && planContainsWrite i) ||
      (armRec "Apply" "subquery" && planContainsWrite s)
  | .cart l r => armWrite "CartesianProduct" || (armRec "CartesianProduct" "left" && planContainsWrite l) ||
      (armRec "CartesianProduct" "right" && planContainsWrite r)
  | .union l r => armWrite "Union" || (armRec "Union" "left" && planContainsWrite l) ||
      (armRec "Union" "right" && planContainsWrite r)
  | .leaf k => armWrite k.name

/-! ### the AST (clause kinds; expressions and patterns do not matter for the classification) -/

/-- how `compile_set_plan_v2` / `compile_remove_plan_v2` layer their (non-empty) item groups -/
inductive SetShape where
  | props | maps | labels | propsMaps | propsLabels | mapsLabels | all
deriving Repr, DecidableEq

mutual
inductive Clause where
  | match_ (optional : Bool) (shape : Nat)   -- `shape` picks one of the plans compile_match_plan can build
  | where_
  | with_ (shape : Nat)                       -- projection / aggregation / distinct / order / skip / limit layers
  | return_ (shape : Nat)
  | unwind
  | callProc
  | create
  | merge
  | set (s : SetShape)
  | remove (labelsToo : Bool)
  | delete
  | foreach (updates : Query)
  | callSub (q : Query)
  | union (q : Query)
inductive Query where
  | nil
  | cons (c : Clause) (rest : Query)
end

/-- `ast::Clause` variant name as the capi classifier sees it -/
def Clause.kind : Clause → String
  | .match_ .. => "Match" | .where_ => "Where" | .with_ _ => "With" | .return_ _ => "Return" | .unwind => "Unwind"
  | .callProc => "Call.Procedure" | .create => "Create" | .merge => "Merge" | .set _ => "Set"
  | .remove _ => "Remove" | .delete => "Delete" | .foreach _ => "Foreach" | .callSub _ => "Call.Subquery"
  | .union _ => "Union"

mutual
/-- mirrors capi `clause_contains_write` through the regenerated arm lists -/
def clauseContainsWrite : Clause → Bool
  | .foreach u => Generated.clauseWriteKinds.contains "Foreach" ||
      (Generated.clauseRecurseKinds.contains "Foreach" && queryContainsWrite u)
  | .callSub q => Generated.clauseWriteKinds.contains "Call.Subquery" ||
      (Generated.clauseRecurseKinds.contains "Call.Subquery" && queryContainsWrite q)
  | .union q => Generated.clauseWriteKinds.contains "Union" ||
      (Generated.clauseRecurseKinds.contains "Union" && queryContainsWrite q)
  | .match_ .. => Generated.clauseWriteKinds.contains "Match"
  | .where_ => Generated.clauseWriteKinds.contains "Where"
  | .with_ _ => Generated.clauseWriteKinds.contains "With"
  | .return_ _ => Generated.clauseWriteKinds.contains "Return"
  | .unwind => Generated.clauseWriteKinds.contains "Unwind"
  | .callProc => Generated.clauseWriteKinds.contains "Call.Procedure"
  | .create => Generated.clauseWriteKinds.contains "Create"
  | .merge => Generated.clauseWriteKinds.contains "Merge"
  | .set _ => Generated.clauseWriteKinds.contains "Set"
  | .remove _ => Generated.clauseWriteKinds.contains "Remove"
  | .delete => Generated.clauseWriteKinds.contains "Delete"
/-- mirrors capi `query_contains_write`: `query.clauses.iter().any(clause_contains_write)` -/
def queryContainsWrite : Query → Bool
  | .nil => false
  | .cons c rest => clauseContainsWrite c || queryContainsWrite rest
end

mutual
/-- what "write statement" means to a reader of the documentation: an updating clause at any depth -/
def clauseUpdates : Clause → Bool
  | .create | .merge | .set _ | .remove _ | .delete => true
  | .foreach _ => true                 -- FOREACH bodies consist of updating clauses only
  | .callSub q => queryUpdates q
  | .union q => queryUpdates q
  | _ => false
def queryUpdates : Query → Bool
  | .nil => false
  | .cons c rest => clauseUpdates c || queryUpdates rest
end

/-! ### compile_m3_plan: which constructor, and where the plan so far goes -/

/-- the plans `compile_match_plan` builds around the plan so far (`prev`), selected by `shape` -/
def matchPlan (shape : Nat) (prev : Option Plan) : Plan :=
  match prev with
  | none =>
    match shape % 4 with
    | 0 => .leaf .nodeScan
    | 1 => .indexSeek (.leaf .nodeScan)
    | 2 => .expand1 .matchOut (.leaf .nodeScan)
    | _ => .unary .matchBoundRel (.expand1 .matchUndirected (.indexSeek (.leaf .nodeScan)))
  | some p =>
    match shape % 5 with
    | 0 => .cart p (.leaf .nodeScan)
    | 1 => .expand1 .matchOut p
    | 2 => .expand1 .matchIn (.expand1 .matchOutVarLen p)
    | 3 => .expand1 .matchOut (.cart p (.indexSeek (.leaf .nodeScan)))
    | _ => .unary .matchBoundRel p

/-- projection layers of WITH / RETURN around `input` -/
def projPlan (shape : Nat) (input : Plan) : Plan :=
  match shape % 4 with
  | 0 => .unary .project input
  | 1 => .unary .limit (.unary .skip (.unary .orderBy (.unary .project input)))
  | 2 => .unary .distinct (.unary .project input)
  | _ => .unary .project (.unary .aggregate input)

def setPlan (s : SetShape) (input : Plan) : Plan :=
  match s with
  | .props => .write .setProperty input
  | .maps => .write .setPropertiesFromMap input
  | .labels => .write .setLabels input
  | .propsMaps => .write .setPropertiesFromMap (.write .setProperty input)
  | .propsLabels => .write .setLabels (.write .setProperty input)
  | .mapsLabels => .write .setLabels (.write .setPropertiesFromMap input)
  | .all => .write .setLabels (.write .setPropertiesFromMap (.write .setProperty input))

def removePlan (labelsToo : Bool) (input : Plan) : Plan :=
  if labelsToo then .write .removeLabels (.write .removeProperty input) else .write .removeProperty input

def orReturnOne (p : Option Plan) : Plan := p.getD (.leaf .returnOne)

/- mirrors the clause loop of `compile_m3_plan`.  State: the plan so far (`none` before the first clause).
    Result `none` = a compile error (e.g. "SET need input", "Clauses after RETURN are not supported"). -/
mutual
def compileClause : Clause → Option Plan → Option Plan
  | .match_ optional shape, plan =>
    if optional then some (.optFixup (orReturnOne plan) (matchPlan shape plan))
    else some (matchPlan shape plan)
  | .where_, plan => plan.map (fun p => .unary .filter p)                       -- "WHERE cannot be the first clause"
  | .with_ shape, plan => some (projPlan shape (orReturnOne plan))
  | .return_ shape, plan => some (projPlan shape (orReturnOne plan))
  | .unwind, plan => some (.unary .unwind (orReturnOne plan))
  | .callProc, plan => some (.unary .procedureCall (orReturnOne plan))
  | .create, plan => some (.write .create (orReturnOne plan))
  | .merge, plan => some (.write .create (orReturnOne plan))                    -- compile_merge_plan builds Plan::Create
  | .set s, plan => plan.map (setPlan s)                                        -- "SET need input"
  | .remove l, plan => plan.map (removePlan l)
  | .delete, plan => plan.map (fun p => .write .delete p)
  | .foreach updates, plan =>
    (compileQuery updates (some (.leaf .values))).map (fun sub => .foreach (orReturnOne plan) sub)
  | .callSub q, plan =>
    -- the subquery is seeded with a projection of the outer bindings when it starts with WITH, else with nothing
    (compileQuery q none).map (fun sub => .apply (orReturnOne plan) sub)
  | .union q, plan =>
    match plan, compileQuery q none with
    | some l, some r => some (.union l r)
    | _, _ => none
def compileQuery : Query → Option Plan → Option Plan
  | .nil, plan => plan                                                          -- `None` here is "Empty query"
  | .cons c rest, plan =>
    match compileClause c plan with
    | none => none
    | some p => compileQuery rest (some p)
end

end Nervus.CApi
