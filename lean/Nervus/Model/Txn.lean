/-
  Nervus.Model.Txn — statements inside transactions (C13, C24): what a Cypher write statement stages, row by row,
  and what it reads, for a small statement language over labelled nodes.

  Mirrors
    nervusdb-capi/src/lib.rs        execute_write_count (auto-commit: snapshot → begin_write → execute_mixed → commit;
                                    on error the transaction is dropped), execute_write_in_txn (explicit transaction:
                                    `db.snapshot()` = committed state, writes go into the caller's WriteTxn, nothing is
                                    undone on error), ndb_txn_commit / ndb_txn_rollback
    nervusdb-query/src/executor/create_delete_ops.rs  execute_create_from_rows (per row: create_node, then the
                                    property expressions in pattern order — the node is staged before they are checked)
    nervusdb-query/src/executor/write_path.rs         execute_set (per matched row: evaluate, then stage)
    nervusdb-storage/src/engine.rs  WriteTxn (staged = created_nodes + memtable), commit
  The two switches `atomic` and `ryw` select the semantics: the code is `(false, false)`;
  `Spec.TxnSem` uses the other combinations.  After fix (statement savepoint in execute_write_in_txn) the code is `(true, false)`;
  `(false, false)` is the pinned tree, kept for the counterexample theorems.  Core only; `Generated.CapiTxn` is re-read from the source on every check.
-/
import Nervus.Model.Generated.CapiTxn
namespace Nervus.Txn

/-- the payload property `q` of a node: the literals `true`, `false`, `'x'`, `1` -/
inductive Q where
  | t | f | x | one
deriving Repr, DecidableEq

/-- `toBoolean(q)`: booleans map to themselves, the string `'x'` to null, the integer is a runtime error
    (`InvalidArgumentValue`); `toBoolean(null) = null`. -/
def toBool : Option Q → Except Unit (Option Bool)
  | some .t => .ok (some true)
  | some .f => .ok (some false)
  | some .x => .ok none
  | some .one => .error ()
  | none => .ok none

structure Node where
  id : Nat
  lbl : Nat
  k : Nat
  q : Option Q
  p : Option Bool
deriving Repr, DecidableEq

/-- live nodes in internal-id order (the order of a label scan) -/
abbrev Graph := List Node

/-- staged primitive writes; each carries the label of the node it was derived from -/
inductive Prim where
  | add (n : Node)
  | setQ (id lbl : Nat) (q : Q)
  | setP (id lbl : Nat) (p : Option Bool)     -- `none`: SET … = null removes the property
  | del (id lbl : Nat)
deriving Repr, DecidableEq

def Prim.lbl : Prim → Nat
  | .add n => n.lbl
  | .setQ _ l _ => l
  | .setP _ l _ => l
  | .del _ l => l

def Prim.isAdd : Prim → Bool
  | .add _ => true
  | _ => false

/-- mirrors how a committed transaction's staged writes show up in the next snapshot: created nodes appear,
    property writes are last-writer-wins per node, a tombstone hides the node whatever else was staged for it -/
def applyPrim (g : Graph) : Prim → Graph
  | .add n => g ++ [n]
  | .setQ id l q => g.map (fun n => if n.id = id ∧ n.lbl = l then { n with q := some q } else n)
  | .setP id l p => g.map (fun n => if n.id = id ∧ n.lbl = l then { n with p := p } else n)
  | .del id l => g.filter (fun n => ¬ (n.id = id ∧ n.lbl = l))

def applyAll (g : Graph) (ps : List Prim) : Graph := ps.foldl applyPrim g

def adds (ps : List Prim) : Nat := (ps.filter Prim.isAdd).length

/-- the statement language of the `capi` streams -/
inductive Stmt where
  /-- `UNWIND rows AS r CREATE (:L {k: r[0], q: r[1]})`, with `withP` also `p: toBoolean(r[1])` -/
  | create (lbl : Nat) (rows : List (Nat × Q)) (withP : Bool)
  /-- `MATCH (n:L) SET n.p = toBoolean(n.q)` -/
  | setp (lbl : Nat)
  /-- `MATCH (n:L) WHERE n.q = v SET n.q = w` -/
  | setw (lbl : Nat) (v w : Q)
  /-- `MATCH (n:L) DELETE n` (the nodes of these streams have no relationships) -/
  | del (lbl : Nat)
  /-- `MERGE (:L {k: K})` -/
  | merge (lbl : Nat) (k : Nat)
  /-- `UNWIND ds AS d MATCH (n:L) SET n.q = d, n.p = toBoolean(d)`: the same property slots of the same nodes are
      written once per list element; `toBoolean(1)` fails after earlier elements have been staged -/
  | setrep (lbl : Nat) (ds : List Q)
  /-- `MERGE (n:L {k: K}) ON MATCH SET n.q = w`: on the match branch it stages a property write for every matching
      node and creates nothing — the executor's write count is 0 -/
  | mergeset (lbl : Nat) (k : Nat) (w : Q)
  /-- a statement that is refused before execution: syntax error, or a read statement sent to the write API -/
  | refused
deriving Repr, DecidableEq

/-- the label whose nodes a statement reads -/
def Stmt.reads : Stmt → Option Nat
  | .create .. => none
  | .setp l => some l
  | .setw l _ _ => some l
  | .del l => some l
  | .merge l _ => some l
  | .setrep l _ => some l
  | .mergeset l _ _ => some l
  | .refused => none

/-- the label whose nodes a statement may write -/
def Stmt.writes : Stmt → Option Nat
  | .create l _ _ => some l
  | .setp l => some l
  | .setw l _ _ => some l
  | .del l => some l
  | .merge l _ => some l
  | .setrep l _ => some l
  | .mergeset l _ _ => some l
  | .refused => none

/-- result of executing one statement: what it staged (in order) and whether it then failed -/
structure Res where
  prims : List Prim
  failed : Bool
deriving Repr, DecidableEq

/-- mirrors `execute_create_from_rows`: per row the node is created (with `k`, `q`), then `p` is evaluated -/
def execCreate (lbl : Nat) (withP : Bool) : Nat → List (Nat × Q) → Res
  | _, [] => ⟨[], false⟩
  | id, (k, q) :: rows =>
    let node : Prim := .add ⟨id, lbl, k, some q, none⟩
    if withP then
      match toBool (some q) with
      | .error _ => ⟨if Generated.createStagesNodeBeforeProps then [node] else [], true⟩
      | .ok none =>
        let r := execCreate lbl withP (id + 1) rows
        ⟨node :: r.prims, r.failed⟩
      | .ok (some b) =>
        let r := execCreate lbl withP (id + 1) rows
        ⟨node :: .setP id lbl (some b) :: r.prims, r.failed⟩
    else
      let r := execCreate lbl withP (id + 1) rows
      ⟨node :: r.prims, r.failed⟩

/-- mirrors `execute_set` over the matched rows: evaluate, stage, next row; stop at the first error -/
def execSetp (lbl : Nat) : List Node → Res
  | [] => ⟨[], false⟩
  | n :: ns =>
    match toBool n.q with
    | .error _ => ⟨[], true⟩
    | .ok v =>
      let r := execSetp lbl ns
      ⟨.setP n.id lbl v :: r.prims, r.failed⟩

/-- one UNWIND element of `setrep` over the matched nodes: per node `q` is staged, then `p` is evaluated -/
def execSetRepRow (lbl : Nat) (d : Q) : List Node → Res
  | [] => ⟨[], false⟩
  | n :: ns =>
    match toBool (some d) with
    | .error _ => ⟨[.setQ n.id lbl d], true⟩
    | .ok v =>
      let r := execSetRepRow lbl d ns
      ⟨.setQ n.id lbl d :: .setP n.id lbl v :: r.prims, r.failed⟩

/-- `UNWIND ds … MATCH (n:L) SET …`: the outer loop is the list, the inner loop the matched nodes -/
def execSetRep (lbl : Nat) (nodes : List Node) : List Q → Res
  | [] => ⟨[], false⟩
  | d :: ds =>
    let r := execSetRepRow lbl d nodes
    if r.failed then r
    else
      let rest := execSetRep lbl nodes ds
      ⟨r.prims ++ rest.prims, rest.failed⟩

/-- the nodes a statement sees: `view` restricted to its label -/
def scan (view : Graph) (lbl : Nat) : List Node := view.filter (fun n => n.lbl = lbl)

/-- one statement against the graph `view` (what its MATCH/MERGE reads see); `next` = next internal id -/
def exec (view : Graph) (next : Nat) : Stmt → Res
  | .create l rows withP => execCreate l withP next rows
  | .setp l => execSetp l (scan view l)
  | .setw l v w => ⟨((scan view l).filter (fun n => n.q = some v)).map (fun n => .setQ n.id l w), false⟩
  | .del l => ⟨(scan view l).map (fun n => .del n.id l), false⟩
  | .merge l k =>
    if (scan view l).any (fun n => n.k = k) then ⟨[], false⟩
    else ⟨[.add ⟨next, l, k, none, none⟩], false⟩
  | .setrep l ds => execSetRep l (scan view l) ds
  | .mergeset l k w =>
    let hits := (scan view l).filter (fun n => n.k = k)
    if hits.isEmpty then ⟨[.add ⟨next, l, k, none, none⟩], false⟩
    else ⟨hits.map (fun n => .setQ n.id l w), false⟩
  | .refused => ⟨[], true⟩

/-- the write count the executor reports (`execute_mixed`'s second component): the MERGE path counts only the
    entities it created; the other statements count what they staged -/
def reportedCount (s : Stmt) (r : Res) : Nat :=
  match s with
  | .merge .. => adds r.prims
  | .mergeset .. => adds r.prims
  | _ => r.prims.length

/-- does `execute_write_count` commit after a successful statement?  Unconditionally (regenerated); the alternative
    "skip the commit when the reported count is 0" is what seeded fault C34-seed4 does. -/
def autoCommits (unconditional : Bool) (count : Nat) : Bool := unconditional || count != 0

/-- database + at most one explicit write transaction -/
structure State where
  committed : Graph
  allocated : Nat                  -- i2e_len: internal ids handed out to committed nodes so far
  staged : Option (List Prim)      -- `some ps`: an explicit transaction is open and has staged `ps`
deriving Repr, DecidableEq

def State.init : State := ⟨[], 0, none⟩

inductive Op where
  | auto (s : Stmt)      -- ndb_execute_write
  | begin                -- ndb_begin_write
  | tq (s : Stmt)        -- ndb_txn_query
  | commit               -- ndb_txn_commit
  | rollback             -- ndb_txn_rollback
deriving Repr, DecidableEq

inductive Out where
  | ok | err | bad
deriving Repr, DecidableEq

/-- semantics selected by two switches:
    `atomic`: a failed statement of an explicit transaction leaves the staged writes as they were;
    `ryw`   : a statement of an explicit transaction reads committed ⊕ staged instead of committed.
    The code is `step false false`. -/
def step (atomic ryw : Bool) (σ : State) : Op → State × Out
  | .auto s =>
    match σ.staged with
    | some _ => (σ, .bad)
    | none =>
      let r := exec σ.committed σ.allocated s
      if r.failed then (σ, .err)     -- the transaction is dropped
      else if autoCommits Generated.capiAutoCommitUnconditional (reportedCount s r) then
        (⟨applyAll σ.committed r.prims, σ.allocated + adds r.prims, none⟩, .ok)
      else (σ, .ok)                  -- success reported, transaction dropped without commit
  | .begin =>
    match σ.staged with
    | some _ => (σ, .bad)
    | none => (⟨σ.committed, σ.allocated, some []⟩, .ok)
  | .tq s =>
    match σ.staged with
    | none => (σ, .bad)
    | some ps =>
      let view := if ryw then applyAll σ.committed ps else σ.committed
      let r := exec view (σ.allocated + adds ps) s
      if r.failed then
        (⟨σ.committed, σ.allocated, some (if atomic then ps else ps ++ r.prims)⟩, .err)
      else (⟨σ.committed, σ.allocated, some (ps ++ r.prims)⟩, .ok)
  | .commit =>
    match σ.staged with
    | none => (σ, .bad)
    | some ps => (⟨applyAll σ.committed ps, σ.allocated + adds ps, none⟩, .ok)
  | .rollback =>
    match σ.staged with
    | none => (σ, .bad)
    | some _ => (⟨σ.committed, σ.allocated, none⟩, .ok)

def run (atomic ryw : Bool) (σ : State) : List Op → State
  | [] => σ
  | op :: ops => run atomic ryw (step atomic ryw σ op).1 ops

/-- the code as it is: the two switches are read off `execute_write_in_txn` (regenerated table) -/
def codeStep := step Generated.capiTxnStmtAtomic Generated.capiTxnReadsStaged
def codeRun := run Generated.capiTxnStmtAtomic Generated.capiTxnReadsStaged

/-! ### trigger predicates of the two known findings -/

/-- C13: the statement fails after it has already staged something (explicit transaction) -/
def partialEffect (σ : State) (s : Stmt) : Bool :=
  match σ.staged with
  | none => false
  | some ps =>
    let r := exec σ.committed (σ.allocated + adds ps) s
    r.failed && !r.prims.isEmpty

/-- C13 trigger over a history of the *pinned tree* (`step false false`, before the statement savepoint):
    some statement of an explicit transaction fails after staging -/
def anyPartialEffect (σ : State) : List Op → Bool
  | [] => false
  | op :: ops =>
    (match op with | .tq s => partialEffect σ s | _ => false) || anyPartialEffect (step false false σ op).1 ops

/-- C24 trigger, on the statement sequence alone: a statement of an explicit transaction reads a label that an
    earlier statement of the same transaction writes.  The tracker state is `none` outside a transaction and
    `some w` inside one, `w` = the labels written so far. -/
def hit (w : Option (List Nat)) : Op → Bool
  | .tq s => match w, s.reads with
    | some ws, some l => ws.contains l
    | _, _ => false
  | _ => false

def track (w : Option (List Nat)) : Op → Option (List Nat)
  | .begin => match w with | none => some [] | some ws => some ws
  | .tq s => match w with
    | some ws => some (match s.writes with | some l => l :: ws | none => ws)
    | none => none
  | .commit => none
  | .rollback => none
  | .auto _ => w

def readsOwnWrites (w : Option (List Nat)) : List Op → Bool
  | [] => false
  | op :: ops => hit w op || readsOwnWrites (track w op) ops

end Nervus.Txn
