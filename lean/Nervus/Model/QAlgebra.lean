/-
  The concrete value algebra used by the executable driver and by the closed counterexample theorems:
  evaluator_equality.rs `cypher_equals`, evaluator_compare.rs `compare_values` / `order_compare`, and the
  aggregate arms of projection_sort.rs, restricted to ints, strings, bools, null, nodes, relationships and flat
  lists.  Integers are compared exactly (the generator stays far below 2^53, where the engine's `as f64`
  comparison is exact; larger values are C23's subject).  The theorems of C11/C12 are parametric in the algebra.
-/
import Nervus.Spec.CyAst
namespace Nervus.Cy


def scalarEq : Scalar → Scalar → Val
  | .null, _ => .null
  | _, .null => .null
  | a, b => .bool (a == b)

def listEq : List Scalar → List Scalar → Bool → Val
  | [], [], sawNull => if sawNull then .null else .bool true
  | a :: as, b :: bs, sawNull => match scalarEq a b with
    | .bool true => listEq as bs sawNull
    | .bool false => .bool false
    | _ => listEq as bs true
  | _, _, _ => .bool false

def cyEq : Val → Val → Val
  | .null, _ => .null
  | _, .null => .null
  | .list a, .list b => if a.length != b.length then .bool false else listEq a b false
  | a, b => .bool (a == b)

def rank : Val → Nat
  | .node _ => 1 | .rel _ => 2 | .list _ => 3 | .path _ _ => 4 | .str _ => 5 | .bool _ => 6 | .int _ => 7 | .null => 10

def cmpRel (a b : RelId) : Ordering :=
  (compare a.src b.src).then ((compare a.typ b.typ).then (compare a.dst b.dst))

/-- `order_compare_non_null` on scalars -/
def ordScalar : Scalar → Scalar → Ordering
  | .null, .null => .eq
  | .null, _ => .gt
  | _, .null => .lt
  | .bool a, .bool b => compare a b
  | .int a, .int b => compare a b
  | .str a, .str b => compare a b
  | .node a, .node b => compare a b
  | .rel a, .rel b => cmpRel a b
  | a, b => compare (rank a.toVal) (rank b.toVal)

def ordList : List Scalar → List Scalar → Ordering
  | [], [] => .eq
  | [], _ => .lt
  | _, [] => .gt
  | a :: as, b :: bs => match ordScalar a b with | .eq => ordList as bs | o => o

/-- evaluator.rs `order_compare` -/
def cyOrd : Val → Val → Ordering
  | .null, .null => .eq
  | .null, _ => .gt
  | _, .null => .lt
  | .list a, .list b => ordList a b
  | a, b => match a.toScalar?, b.toScalar? with
    | some x, some y => ordScalar x y
    | _, _ => compare (rank a) (rank b)

/-- evaluator_compare.rs `compare_values` (range comparison): same-kind only, otherwise null -/
def cyRange (f : Ordering → Bool) : Val → Val → Val
  | .null, _ => .null
  | _, .null => .null
  | .int a, .int b => .bool (f (compare a b))
  | .bool a, .bool b => .bool (f (compare a b))
  | .str a, .str b => .bool (f (compare a b))
  | _, _ => .null

def cyCmp : CmpOp → Val → Val → Val
  | .eq, a, b => cyEq a b
  | .ne, a, b => notVal (cyEq a b)
  | .lt, a, b => cyRange (· == .lt) a b
  | .le, a, b => cyRange (· != .gt) a b
  | .gt, a, b => cyRange (· == .gt) a b
  | .ge, a, b => cyRange (· != .lt) a b

def dedupVals : List Val → List Val
  | [] => []
  | v :: vs => v :: (dedupVals vs).filter (· != v)

def wrapI64 (i : Int) : Int :=
  let m : Int := 18446744073709551616
  let r := i % m
  if r ≥ 9223372036854775808 then r - m else r

def pickBy (better : Ordering → Bool) : List Val → Val
  | [] => .null
  | v :: vs => vs.foldl (fun best x => if better (cyOrd x best) then x else best) v

def cyAgg : AggKind → List Val → Val
  | .countStar, vs => .int vs.length
  | .count, vs => .int (vs.filter (· != .null)).length
  | .countDistinct, vs => .int (dedupVals (vs.filter (· != .null))).length
  | .sum, vs => .int (wrapI64 (vs.foldl (fun acc v => match v with | .int i => acc + i | _ => acc) 0))
  | .min, vs => pickBy (· == .lt) (vs.filter (· != .null))          -- min_by: first minimum
  | .max, vs => pickBy (· != .lt) (vs.filter (· != .null))          -- max_by: last maximum
  | .collect, vs => .list ((vs.filter (· != .null)).filterMap Val.toScalar?)

def small : Algebra := { cmp := cyCmp, ord := cyOrd, agg := cyAgg }


end Nervus.Cy
