/-
  Nervus.Model.IOSteps — every engine operation as the list of I/O steps the code performs, in
  code order (validated line by line against the H1 step log of the real engine), the file-system
  state (durable image + unsynced operations), crash images, and the model of
  `GraphEngine::{open, commit, compact, checkpoint_on_close}` at the abstraction of
  `Model/Recovery`.  In-memory updates are interleaved with the I/O steps exactly where the code
  performs them, so that stopping a program at step k (process death, power loss, injected error)
  leaves the memory and the files in the state the code leaves them.
-/
import Nervus.Model.Recovery
import Nervus.Model.Generated.CrashCfg
namespace Nervus.Crash

/-- switches regenerated from the source (`Generated.CrashCfg`) -/
structure Cfg where
  tailTolerant : Bool    -- the first `Wal::append` through a handle cuts an undecodable tail off (C17's fix)
  syncSlot : Bool        -- node-table slot is synced before `i2e_len` counts it
  syncCreate : Bool      -- catalog / index root pages are synced before they are referenced
  freshZero : Bool       -- a zero/short meta page is treated as a fresh file
  walRollback : Bool     -- failed append / failed commit fsync take the bytes out of the log again
  leafCap : Nat          -- entries per property-tree leaf (page size, header and key length)
deriving DecidableEq, Repr, Inhabited

def cfgOfSource : Cfg :=
  { tailTolerant := Generated.walAppendCutsTail
    syncSlot := Generated.idmapSyncsSlotBeforeLen
    syncCreate := Generated.catalogSyncsBeforeReference
    freshZero := Generated.pagerReinitsZeroMeta
    walRollback := Generated.walRollsBackFailedCommit
    leafCap := (Generated.pageSize - Generated.btreeLeafHeader) / (1 + Generated.propKeyLen + 8 + 2) }

structure Run where
  txid : Nat
  edges : List Nat
  props : List Nat
deriving DecidableEq, Repr, Inhabited

/-- in-memory state of an open `GraphEngine` (the parts that decide I/O and visibility) -/
structure Mem where
  nextTxid : Nat := 1
  pm : Meta := {}                 -- `Pager.meta`
  idLen : Nat := 0                -- `IdMap.i2e_len` (= next internal id)
  idStart : Nat := 0              -- `IdMap.i2e_start`
  exts : List Nat := []           -- `IdMap.i2e` / `e2i` (nodes visible to lookups)
  runs : List Run := []           -- published L0 runs, oldest first
  segs : List (Nat × List Nat) := []   -- published segments, newest first (key, edges)
  epoch : Nat := 0
  ckpt : Nat := 0
  proot : Nat := 0
  ptop : Bool := false
  walOpen : Bool := true
  tailChecked : Bool := false     -- `Wal.tail_checked`
  catRootM : Nat := 0
  catEntries : List Nat := []
deriving DecidableEq, Repr, Inhabited

inductive Step where
  | ww (f : Frag)
  | ws
  | wt (n : Nat)                   -- truncate the log to n fragments
  | pg (e : PEff) (pid : Nat)      -- `set_len` (pid = new length in pages) or a page write
  | ps
  | tc | tw | ts
  | rn (new : List Frag)
deriving Repr, Inhabited

def Step.label : Step → String
  | .ww _ => "ww"
  | .ws => "ws"
  | .wt _ => "wt"
  | .pg (.setLen _) n => s!"sl{n}"
  | .pg _ n => s!"pw{n}"
  | .ps => "ps"
  | .tc => "tc"
  | .tw => "tw"
  | .ts => "ts"
  | .rn _ => "rn"

inductive Action where
  | io (s : Step) (onFail : List Step)   -- `onFail`: what the error path of this call site performs
  | mem (f : Mem → Mem)
  | fail (e : Err)                       -- the operation returns this error here
deriving Inhabited

/-! ## file-system state -/

structure FS where
  pd : PImg := {}                  -- durable image of the page file
  pj : List PEff := []             -- unsynced pager operations, issue order
  wf : List Frag := []             -- the log as the process sees it
  wdur : Nat := 0                  -- its durable prefix (fragments)
  ren : Option (List Frag) := none -- durable log before an unsynced rename
deriving Repr, Inhabited

/-- the page file as the process sees it (page cache) -/
def FS.pv (fs : FS) : PImg := applyEffs fs.pj fs.pd

def FS.step (fs : FS) : Step → FS
  | .ww f => { fs with wf := fs.wf ++ [f] }
  | .ws => { fs with wdur := fs.wf.length, ren := none }
  | .wt n => { fs with wf := fs.wf.take n, wdur := min fs.wdur n }
  | .pg e _ => { fs with pj := fs.pj ++ [e] }
  | .ps => { fs with pd := fs.pv, pj := [] }
  | .tc => fs
  | .tw => fs
  | .ts => fs
  | .rn new => { fs with ren := some (fs.wf.take fs.wdur), wf := new, wdur := new.length }

/-- what a crash leaves.  `proc`: process death, everything written persists.
    `power sel wk loseRename`: the durable images, plus the selected unsynced pager operations,
    plus the first `wk` unsynced log fragments; an unsynced rename may be lost. -/
inductive CrashMode where
  | proc
  | power (sel : List Sel) (wk : Nat) (loseRename : Bool)
deriving Repr, Inhabited

def zipSel (es : List PEff) (sel : List Sel) : List (PEff × Sel) :=
  match es, sel with
  | [], _ => []
  | e :: es, [] => (e, .drop) :: zipSel es []
  | e :: es, s :: ss => (e, s) :: zipSel es ss

def FS.crash (fs : FS) : CrashMode → FS
  | .proc => { pd := fs.pv, pj := [], wf := fs.wf, wdur := fs.wf.length, ren := none }
  | .power sel wk lose =>
    let p := applySel (zipSel fs.pj sel) fs.pd
    let w := match fs.ren, lose with
      | some old, true => old
      | _, _ => fs.wf.take (fs.wdur + wk)
    { pd := p, pj := [], wf := w, wdur := w.length, ren := none }

/-! ## program builder: a scratch copy of memory and of the volatile page file is threaded
    through so that later steps see earlier ones -/

structure B where
  mem : Mem
  vol : PImg
  wlen : Nat
  wvalid : Nat := 0       -- length of the decodable prefix of the log (read by the tail check)
  acts : List Action      -- reversed
  err : Option Err := none

namespace B

def io (b : B) (s : Step) (onFail : List Step := []) : B :=
  if b.err.isSome then b else
  let vol := match s with | .pg e _ => applyEff e b.vol | _ => b.vol
  let wlen := match s with
    | .ww _ => b.wlen + 1
    | .wt n => min b.wlen n
    | .rn new => new.length
    | _ => b.wlen
  { b with vol := vol, wlen := wlen, acts := .io s onFail :: b.acts }

def setMem (b : B) (f : Mem → Mem) : B :=
  if b.err.isSome then b else { b with mem := f b.mem, acts := .mem f :: b.acts }

def fail (b : B) (e : Err) : B :=
  if b.err.isSome then b else { b with err := some e, acts := .fail e :: b.acts }

/-- `Pager::flush_meta_and_bitmap` -/
def flush (b : B) : B :=
  ((b.io (.pg (.hdr b.mem.pm) 0)).io (.pg .bitmap 1)).io .ps

/-- `Pager::ensure_allocated(pid)` for a data page (the in-memory meta already covers it) -/
def ensure (b : B) (pid : Nat) : B :=
  let b := if b.mem.pm.nextPage ≤ pid then b.setMem (fun m => { m with pm := { m.pm with nextPage := pid + 1 } }) else b
  let b := if b.vol.len < pid + 1 then b.io (.pg (.setLen (pid + 1)) (pid + 1)) else b
  b.flush

/-- `Pager::allocate_page` (no page is ever freed on these paths: the candidate is `next_page_id`) -/
def alloc (b : B) : B × Nat :=
  let pid := b.mem.pm.nextPage
  let b := b.setMem (fun m => { m with pm := { m.pm with nextPage := pid + 1 } })
  (b.ensure pid, pid)

/-- `Wal::append`: three writes; on a failed write the frame start is restored (`walRollback`) -/
def append (cfg : Cfg) (b : B) (r : Rec) : B :=
  if !b.mem.walOpen then b.fail .walClosed else
  let b :=
    if cfg.tailTolerant && !b.mem.tailChecked then
      let b := if b.wvalid < b.wlen then b.io (.wt b.wvalid) else b
      b.setMem (fun m => { m with tailChecked := true })
    else b
  let start := b.wlen
  let onFail := if cfg.walRollback then [Step.wt start] else []
  ((b.io (.ww (.len r)) onFail).io (.ww (.crc r)) onFail).io (.ww (.body r)) onFail

def appends (cfg : Cfg) (b : B) (rs : List Rec) : B := rs.foldl (append cfg) b

/-- `IdMap::apply_create_node_multi_label` -/
def applyCreateNode (cfg : Cfg) (b : B) (ext iid : Nat) : B :=
  if b.err.isSome then b else
  if iid ≠ b.mem.idLen then b.fail .nonDense else
  if ext ≠ 0 ∧ b.mem.exts.contains ext then b.fail .dupExt else
  let b :=
    if b.mem.idStart = 0 then
      let (b, p) := b.alloc
      let b := b.setMem (fun m => { m with pm := { m.pm with i2eStart := p } })
      let b := b.flush
      b.setMem (fun m => { m with idStart := p })
    else b
  let page := b.mem.idStart          -- + iid / 512; histories stay below 512 nodes
  let b := b.ensure page
  let b := b.io (.pg (.slot iid ext) page)
  let b := if cfg.syncSlot then b.io .ps else b
  let b := b.setMem (fun m => { m with idLen := m.idLen + 1 })
  let b := b.setMem (fun m => { m with pm := { m.pm with i2eLen := m.idLen } })
  let b := b.flush
  let b := b.setMem (fun m => { m with pm := { m.pm with nextInt := m.idLen } })
  let b := b.flush
  b.setMem (fun m => { m with exts := m.exts ++ [ext] })

end B

/-! ## operations -/

def txRecs (txid base : Nat) (tx : Tx) : List Rec :=
  [.begin txid] ++ (tx.nodes.zipIdx.map (fun (x, j) => Rec.node x (base + j)))
    ++ tx.edges.map .edge ++ tx.props.map .prop ++ [.commit txid]

/-- `begin_write` + staging + `WriteTxn::commit` -/
def commitProg (cfg : Cfg) (mem : Mem) (vol : PImg) (w : List Frag) (tx : Tx) : B :=
  let wlen := w.length
  let b : B := { mem := mem, vol := vol, wlen := wlen, wvalid := validLen w, acts := [] }
  let txid := mem.nextTxid
  let b := b.setMem (fun m => { m with nextTxid := m.nextTxid + 1 })
  let base := mem.idLen
  let txStart := wlen
  let recs := txRecs txid base tx
  let b := B.appends cfg b recs
  let b := if !b.mem.walOpen then b else
    b.io .ws (if cfg.walRollback then [Step.wt txStart] else [])
  let b := (tx.nodes.zipIdx).foldl (fun b (x, j) => B.applyCreateNode cfg b x (base + j)) b
  let b := if tx.edges.isEmpty && tx.props.isEmpty then b else
    b.setMem (fun m => { m with runs := m.runs ++ [{ txid := txid, edges := tx.edges, props := tx.props }] })
  b.setMem (fun m => { m with nextTxid := m.nextTxid + 1 })

def insertSorted (q : Nat) : List (Option Nat) → List (Option Nat)
  | [] => [some q]
  | e :: es => if optLt e q then e :: insertSorted q es else some q :: e :: es

/-- one `BlobStore::write` + `BTree::insert` of compaction's property sinking.  Keys ascend with
    time, so the target is always the last leaf; the internal root has room for ~280 children and
    is never split at the sizes considered. -/
def sinkOne (cfg : Cfg) (key : Nat) (b : B) (q : Nat) : B :=
  if b.err.isSome then b else
  let (b, bp) := b.alloc
  let b := b.io (.pg (.blob key q) bp)
  match b.vol.trees.find? (fun t => t.key == key) with
  | none => b.fail .idxBad
  | some t =>
    let li := t.leaves.length - 1
    let leaf := t.leaves.getD li ⟨[], false, key⟩
    let es := insertSorted q leaf.entries
    if leaf.entries.length < cfg.leafCap then
      b.io (.pg (.leaf key li es leaf.sib leaf.pid) leaf.pid)
    else
      -- leaf split (`BTree::insert` Err arm): left half rewritten in place, right half on a new
      -- page, then the parent (a new internal root the first time)
      let mid := es.length / 2
      let left := es.take mid
      let right := es.drop mid
      let sep := (right.headD none).getD 0
      let (b, rp) := b.alloc
      let b := b.io (.pg (.leaf key li left true leaf.pid) leaf.pid)
      let b := b.io (.pg (.leaf key (li + 1) right leaf.sib rp) rp)
      match t.inode with
      | none =>
        let (b, np) := b.alloc
        b.io (.pg (.inode key [sep] np) np)
      | some seps => b.io (.pg (.inode key (seps ++ [sep]) t.inodePid) t.inodePid)

def sortNat (xs : List Nat) : List Nat := xs.foldr (fun x acc => (acc.filter (· < x)) ++ [x] ++ acc.filter (fun y => ¬ y < x)) []

/-- `GraphEngine::compact` -/
def compactProg (cfg : Cfg) (mem : Mem) (vol : PImg) (w : List Frag) : B :=
  let b : B := { mem := mem, vol := vol, wlen := w.length, wvalid := validLen w, acts := [] }
  if mem.runs.isEmpty then b else
  let edges := mem.runs.flatMap (·.edges)
  let props := sortNat (mem.runs.flatMap (·.props))
  -- seg.persist: offsets page, then (if there are edges) edges, in_offsets, in_edges pages, meta page
  let nData := if edges.isEmpty then 1 else 4
  let need := nData + 1
  let (b, k0) := b.alloc
  let b := b.io (.pg (.segPart k0 0 need edges) k0)
  let b := (List.range (nData - 1)).foldl (fun b j =>
    let (b, p) := B.alloc b
    b.io (.pg (.segPart k0 (j + 1) need edges) p)) b
  let (b, mp) := b.alloc
  let b := b.io (.pg (.segPart k0 nData need edges) mp)
  let b := b.io .ps
  let upTo := (mem.runs.map (·.txid)).foldl max 0
  let epoch := mem.epoch + 1
  -- property sinking into the live tree
  let (b, root, top) :=
    if props.isEmpty then (b, mem.proot, mem.ptop) else
    let (b, key) :=
      if mem.proot = 0 then
        let (b, r) := b.alloc
        (b.io (.pg (.treeNew r) r), r)
      else (b, mem.proot)
    let b := props.foldl (sinkOne cfg key) b
    let top := match b.vol.trees.find? (fun t => t.key == key) with
      | some t => t.inode.isSome
      | none => false
    (b, key, top)
  -- statistics blob
  let (b, sp) := b.alloc
  let b := b.io (.pg .stats sp)
  let sys := mem.nextTxid
  let b := b.setMem (fun m => { m with nextTxid := m.nextTxid + 1 })
  let segKeys := k0 :: mem.segs.map (·.1)
  let b := B.appends cfg b [.begin sys, .manifest epoch segKeys root top, .checkpoint upTo epoch root top, .commit sys]
  let b := if !b.mem.walOpen then b else b.io .ws
  b.setMem (fun m => { m with ckpt := upTo, proot := root, ptop := top, runs := [], segs := (k0, edges) :: m.segs, epoch := epoch })

/-- `GraphEngine::checkpoint_on_close` (followed by dropping the handle) -/
def closeProg (_cfg : Cfg) (mem : Mem) (vol : PImg) (w : List Frag) : B :=
  let b : B := { mem := mem, vol := vol, wlen := w.length, wvalid := validLen w, acts := [] }
  if !mem.runs.isEmpty then
    let b := b.io .ps
    if !b.mem.walOpen then b.fail .walClosed else b.io .ws
  else
    let b := b.io .ps
    let upTo := mem.nextTxid - 1
    let sys := mem.nextTxid
    let b := b.setMem (fun m => { m with nextTxid := m.nextTxid + 1 })
    let recs : List Rec := [.begin sys, .manifest mem.epoch (mem.segs.map (·.1)) mem.proot mem.ptop,
      .checkpoint upTo mem.epoch mem.proot mem.ptop, .commit sys]
    -- rewrite_as_snapshot: the handle is given up first; it comes back only after the rename
    let b := b.setMem (fun m => { m with walOpen := false })
    let b := b.io .tc
    let b := recs.foldl (fun b _ => b.io .tw) b
    let b := b.io .ts
    let b := b.io (.rn (frames recs))
    let b := { b with wvalid := b.wlen }
    let b := b.setMem (fun m => { m with walOpen := true })
    b.io .ws

/-- `replay_graph_transactions` for one committed transaction (performs node-table I/O) -/
def replayTx (cfg : Cfg) (b : B) (tx : CTx) : B × Run :=
  let step := fun (acc : B × Run) (op : Rec) =>
    let (b, run) := acc
    if b.err.isSome then acc else
    match op with
    | .node ext iid =>
      match (if ext = 0 then none else b.mem.exts.idxOf? ext) with
      | some existing => if existing ≠ iid then (b.fail .remapped, run) else (b, run)
      | none => (B.applyCreateNode cfg b ext iid, run)
    | .edge e => (b, { run with edges := run.edges ++ [e] })
    | .prop q => (b, { run with props := run.props ++ [q] })
    | _ => (b, run)
  tx.ops.foldl step (b, { txid := tx.txid, edges := [], props := [] })

/-- `GraphEngine::open` on the files as they are (`vol` = page file, `w` = log) -/
def openProg (cfg : Cfg) (vol : PImg) (w : List Frag) : B :=
  let b : B := { mem := {}, vol := vol, wlen := w.length, acts := [] }
  -- Pager::open
  let fresh := vol.len = 0 || (cfg.freshZero && (vol.len < 2 || !vol.hdr.init))
  let b :=
    if fresh then
      let b := b.setMem (fun m => { m with pm := { init := true } })
      let b := b.io (.pg (.setLen 2) 2)
      b.flush
    else if !vol.hdr.init then b.fail .io
    else b.setMem (fun m => { m with pm := vol.hdr })
  -- IdMap::load
  let b := b.setMem (fun m =>
    let st := m.pm.i2eStart
    let n := if st = 0 then 0 else m.pm.i2eLen
    { m with idStart := st, idLen := m.pm.i2eLen, exts := (List.range n).map (getSlot vol.i2e) })
  -- IndexCatalog::open_or_create + the two reserved HNSW indexes
  let b :=
    if b.err.isSome then b else
    if b.mem.pm.catRoot = 0 then
      let (b, c) := b.alloc
      let b := b.io (.pg (.cat []) c)
      let b := if cfg.syncCreate then b.io .ps else b
      let b := b.setMem (fun m => { m with pm := { m.pm with catRoot := c } })
      let b := b.flush
      b.setMem (fun m => { m with catRootM := c, catEntries := [] })
    else
      match vol.cat with
      | none => b.fail .catBad
      | some es => b.setMem (fun m => { m with catRootM := m.pm.catRoot, catEntries := es })
  let mkIndex := fun (b : B) (i : Nat) =>
    if b.err.isSome then b else
    if i < b.mem.catEntries.length then b else
    let id := if b.mem.pm.nextIdx = 0 then 1 else b.mem.pm.nextIdx
    let b := b.setMem (fun m => { m with pm := { m.pm with nextIdx := id + 1 } })
    let b := b.flush
    let (b, r) := b.alloc
    let b := b.io (.pg (.idxRoot r) r)
    let b := if cfg.syncCreate then b.io .ps else b
    let b := b.setMem (fun m => { m with catEntries := m.catEntries ++ [r] })
    let b := b.io (.pg (.cat b.mem.catEntries) b.mem.catRootM)
    if cfg.syncCreate then b.io .ps else b
  let b := mkIndex (mkIndex b 0) 1
  -- HnswIndex::load reads both roots
  let b := if b.err.isSome then b else
    if b.mem.catEntries.all (fun r => b.vol.idx.contains r) then b else b.fail .idxBad
  -- log replay
  if b.err.isSome then b else
  match committed (readAll w) with
  | .error e => b.fail e
  | .ok txs =>
    let st := scan txs
    -- CsrSegment::load for every manifest entry
    let segs := st.segs.map (fun k => (k, b.vol.segs.find? (fun s => s.key == k && s.complete)))
    if segs.any (fun s => s.2.isNone) then b.fail .segMissing else
    let b := b.setMem (fun m => { m with
      segs := segs.map (fun s => (s.1, (s.2.map (·.edges)).getD [])),
      epoch := st.epoch, ckpt := st.ckpt, proot := st.proot, ptop := st.ptop,
      nextTxid := max (st.maxTxid + 1) 1 })
    let replay := fun (b : B) (tx : CTx) =>
      if b.err.isSome then b else
      if tx.txid ≤ st.ckpt then b else
      let (b, run) := replayTx cfg b tx
      if run.edges.isEmpty && run.props.isEmpty then b else
      b.setMem (fun m => { m with runs := m.runs ++ [run] })
    txs.foldl replay b

/-! ## execution -/

inductive Stop where
  | none
  | crashAt (k : Nat)
  | faultAt (k : Nat)
deriving Repr, Inhabited

structure Outcome where
  fs : FS
  mem : Option Mem          -- `none`: no handle (dead / error in open)
  err : Option Err
  steps : List Step         -- performed (for the step log)
  fired : Bool
  dead : Bool
deriving Inhabited

/-- run the actions; the k-th I/O step (0-based) is where the process dies / the error is injected -/
def runActs : List Action → Stop → Nat → FS → Mem → List Step → Outcome
  | [], _, _, fs, mem, log => { fs := fs, mem := some mem, err := none, steps := log.reverse, fired := false, dead := false }
  | .mem f :: rest, st, n, fs, mem, log => runActs rest st n fs (f mem) log
  | .fail e :: _, _, _, fs, mem, log => { fs := fs, mem := some mem, err := some e, steps := log.reverse, fired := false, dead := false }
  | .io s onFail :: rest, st, n, fs, mem, log =>
    match st with
    | .crashAt k =>
      if n = k then { fs := fs, mem := none, err := none, steps := log.reverse, fired := true, dead := true }
      else runActs rest st (n + 1) (fs.step s) mem (s :: log)
    | .faultAt k =>
      if n = k then
        let fs' := onFail.foldl FS.step fs
        { fs := fs', mem := some mem, err := some .io, steps := (onFail.reverse ++ log).reverse, fired := true, dead := false }
      else runActs rest st (n + 1) (fs.step s) mem (s :: log)
    | .none => runActs rest st (n + 1) (fs.step s) mem (s :: log)

def B.run (b : B) (st : Stop) (fs : FS) (mem0 : Mem) : Outcome := runActs b.acts.reverse st 0 fs mem0 []

end Nervus.Crash
