/-
  Nervus.Model.IOSteps — every engine operation as the list of I/O steps the code performs, in
  code order (validated line by line against the H1 step log of the real engine), the file-system
  state (durable image + unsynced operations), crash images, and the model of
  `GraphEngine::{open, commit, compact, checkpoint_on_close}` at the abstraction of
  `Model/Recovery`.  In-memory updates are interleaved with the I/O steps exactly where the code
  performs them, so that stopping a program at step k (process death, power loss, injected error)
  leaves the memory and the files in the state the code leaves them.
-/
import Nervus.Model.Recovery
import Nervus.Model.Generated.CrashCfg
namespace Nervus.Crash

/-- switches regenerated from the source (`Generated.CrashCfg`) -/
structure Cfg where
  tailTolerant : Bool    -- the first `Wal::append` through a handle cuts an undecodable tail off (C17's fix)
  syncSlot : Bool        -- node-table slot is synced before `i2e_len` counts it
  syncCreate : Bool      -- catalog / index root pages are synced before they are referenced
  freshZero : Bool       -- a zero/short meta page is treated as a fresh file
  walRollback : Bool     -- failed append / failed commit fsync take the bytes out of the log again
  leafCap : Nat          -- entries per property-tree leaf (page size, header and key length)
deriving DecidableEq, Repr, Inhabited

def cfgOfSource : Cfg :=
  { tailTolerant := Generated.walAppendCutsTail
    syncSlot := Generated.idmapSyncsSlotBeforeLen
    syncCreate := Generated.catalogSyncsBeforeReference
    freshZero := Generated.pagerReinitsZeroMeta
    walRollback := Generated.walRollsBackFailedCommit
    leafCap := (Generated.crashPageSize - Generated.crashBtreeLeafHeader) / (1 + Generated.propKeyLen + 8 + 2) }

structure Run where
  txid : Nat
  edges : List Nat
  props : List Nat
deriving DecidableEq, Repr, Inhabited

/-- in-memory state of an open `GraphEngine` (the parts that decide I/O and visibility) -/
structure Mem where
  nextTxid : Nat := 1
  pm : Meta := {}                 -- `Pager.meta`
  bm : Nat := 2                   -- `Pager.bitmap`: data pages 2 … bm-1 are marked allocated
  idLen : Nat := 0                -- `IdMap.i2e_len` (= next internal id)
  idStart : Nat := 0              -- `IdMap.i2e_start`
  exts : List Nat := []           -- `IdMap.i2e` / `e2i` (nodes visible to lookups)
  runs : List Run := []           -- published L0 runs, oldest first
  segs : List (Nat × List Nat) := []   -- published segments, newest first (key, edges)
  epoch : Nat := 0
  ckpt : Nat := 0
  proot : Nat := 0
  ptop : Bool := false
  walOpen : Bool := true
  tailChecked : Bool := false     -- `Wal.tail_checked`
  catRootM : Nat := 0
  catEntries : List Nat := []
deriving DecidableEq, Repr, Inhabited

inductive Step where
  | ww (f : Frag)
  | ws
  | wt (n : Nat)                   -- truncate the log to n fragments
  | pg (e : PEff) (pid : Nat)      -- `set_len` (pid = new length in pages) or a page write
  | ps
  | tc | tw | ts
  | rn (new : List Frag)
deriving Repr, Inhabited

def Step.label : Step → String
  | .ww _ => "ww"
  | .ws => "ws"
  | .wt _ => "wt"
  | .pg (.setLen _) n => s!"sl{n}"
  | .pg _ n => s!"pw{n}"
  | .ps => "ps"
  | .tc => "tc"
  | .tw => "tw"
  | .ts => "ts"
  | .rn _ => "rn"

/-- the in-memory updates of the engine, one constructor per assignment in the code -/
inductive MemUpd where
  | bumpTxid                              -- `next_txid.fetch_add(1)`
  | setPm (m : Meta)                      -- `Pager.meta` := m
  | setBm (b : Nat)                       -- `Pager.bitmap.set_allocated`
  | setIdStart (p : Nat)                  -- `IdMap.i2e_start`
  | incIdLen                              -- `IdMap.i2e_len += 1`
  | pushExt (x : Nat)                     -- `e2i.insert`, `i2l.push`, `i2e.push`
  | pushRun (r : Run)                     -- `publish_run`
  | compacted (ckpt proot : Nat) (ptop : Bool) (key : Nat) (edges : List Nat) (epoch : Nat)
  | walOpen (b : Bool)                    -- `Wal.file` taken / restored
  | tailChecked
  | catalog (root : Nat) (entries : List Nat)
  | loaded (m : Mem)                      -- `GraphEngine::open`: the state assembled from the files
  | setRuns (rs : List Run)
deriving Repr, Inhabited

def applyUpd (m : Mem) : MemUpd → Mem
  | .bumpTxid => { m with nextTxid := m.nextTxid + 1 }
  | .setPm pm => { m with pm := pm }
  | .setBm b => { m with bm := b }
  | .setIdStart p => { m with idStart := p }
  | .incIdLen => { m with idLen := m.idLen + 1 }
  | .pushExt x => { m with exts := m.exts ++ [x] }
  | .pushRun r => { m with runs := m.runs ++ [r] }
  | .compacted ck pr pt key es ep =>
    { m with ckpt := ck, proot := pr, ptop := pt, runs := [], segs := (key, es) :: m.segs, epoch := ep }
  | .walOpen b => { m with walOpen := b }
  | .tailChecked => { m with tailChecked := true }
  | .catalog r es => { m with catRootM := r, catEntries := es }
  | .loaded m' => m'
  | .setRuns rs => { m with runs := rs }

inductive Action where
  | io (s : Step) (onFail : List Step)   -- `onFail`: what the error path of this call site performs
  | mem (u : MemUpd)
  | fail (e : Err)                       -- the operation returns this error here
deriving Repr, Inhabited

abbrev ioA (s : Step) : Action := .io s []
abbrev memA (u : MemUpd) : Action := .mem u

/-! ## file-system state -/

structure FS where
  pd : PImg := {}                  -- durable image of the page file
  pj : List PEff := []             -- unsynced pager operations, issue order
  wf : List Frag := []             -- the log as the process sees it
  wdur : Nat := 0                  -- its durable prefix (fragments)
  ren : Option (List Frag) := none -- durable log before an unsynced rename
deriving Repr, Inhabited

/-- the page file as the process sees it (page cache) -/
def FS.pv (fs : FS) : PImg := applyEffs fs.pj fs.pd

def FS.step (fs : FS) : Step → FS
  | .ww f => { fs with wf := fs.wf ++ [f] }
  | .ws => { fs with wdur := fs.wf.length, ren := none }
  | .wt n => { fs with wf := fs.wf.take n, wdur := min fs.wdur n }
  | .pg e _ => { fs with pj := fs.pj ++ [e] }
  | .ps => { fs with pd := fs.pv, pj := [] }
  | .tc => fs
  | .tw => fs
  | .ts => fs
  | .rn new => { fs with ren := some (fs.wf.take fs.wdur), wf := new, wdur := new.length }

def FS.steps (fs : FS) (ss : List Step) : FS := ss.foldl FS.step fs

/-- what a crash leaves.  `proc`: process death, everything written persists.
    `power sel wk loseRename`: the durable images, plus the selected unsynced pager operations
    (lost / persisted / torn, in issue order), plus the first `wk` unsynced log fragments; an
    unsynced rename may be lost. -/
inductive CrashMode where
  | proc
  | power (sel : List Sel) (wk : Nat) (loseRename : Bool)
deriving Repr, Inhabited

def zipSel : List PEff → List Sel → List (PEff × Sel)
  | [], _ => []
  | e :: es, [] => (e, .drop) :: zipSel es []
  | e :: es, s :: ss => (e, s) :: zipSel es ss

/-- the page file and the log after the crash -/
def FS.crashP (fs : FS) : CrashMode → PImg
  | .proc => fs.pv
  | .power sel _ _ => applySel (zipSel fs.pj sel) fs.pd

def FS.crashW (fs : FS) : CrashMode → List Frag
  | .proc => fs.wf
  | .power _ wk lose =>
    match fs.ren, lose with
    | some old, true => old
    | _, _ => fs.wf.take (fs.wdur + wk)

def FS.crash (fs : FS) (m : CrashMode) : FS :=
  { pd := fs.crashP m, pj := [], wf := fs.crashW m, wdur := (fs.crashW m).length, ren := none }

/-! ## building blocks (each mirrors one function of the code; the small scratch records carry
    what later steps of the same operation depend on) -/

/-- pager scratch: `Pager.meta`, the file length in pages, and the allocation bitmap (no page is
    ever freed on these paths, so the allocated data pages are `2 … bm-1`) -/
structure PS where
  pm : Meta
  len : Nat
  bm : Nat := 2
deriving Repr, Inhabited

/-- `Pager::flush_meta_and_bitmap` -/
def flushA (pm : Meta) (bm : Nat) : List Action :=
  [ioA (.pg (.hdr pm) 0), ioA (.pg (.bitmap bm) 1), ioA .ps]

/-- `Pager::ensure_allocated(pid)` for a data page -/
def ensureA (ps : PS) (pid : Nat) : List Action × PS :=
  let grow := ps.pm.nextPage ≤ pid
  let pm := if grow then { ps.pm with nextPage := pid + 1 } else ps.pm
  let a1 := if grow then [memA (.setPm pm)] else []
  let bm := if pid < ps.bm then ps.bm else pid + 1
  let ext := ps.len < pid + 1
  let a2 := if ext then [ioA (.pg (.setLen (pid + 1)) (pid + 1))] else []
  (a1 ++ [memA (.setBm bm)] ++ a2 ++ flushA pm bm, { pm := pm, len := if ext then pid + 1 else ps.len, bm := bm })

/-- `Pager::allocate_page`: the first page below `next_page_id` that the bitmap does not mark
    (there is one only after a power loss that kept a meta page write and lost the bitmap write
    of the same flush), else `next_page_id` -/
def allocA (ps : PS) : List Action × PS × Nat :=
  let hole := ps.bm < ps.pm.nextPage
  let pid := if hole then ps.bm else ps.pm.nextPage
  let pm := if hole then ps.pm else { ps.pm with nextPage := pid + 1 }
  let r := ensureA { ps with pm := pm } pid
  (memA (.setPm pm) :: r.1, r.2, pid)

/-- log scratch: handle state, file length and decodable length in fragments -/
structure WS where
  isOpen : Bool
  checked : Bool
  len : Nat
  valid : Nat
deriving Repr, Inhabited

/-- `Wal::append`: (C17's repair: the first append through a handle cuts an undecodable tail
    off) then three writes; on a failed write the frame start is restored (`walRollback`) -/
def appendA (cfg : Cfg) (ws : WS) (r : Rec) : List Action × WS :=
  if !ws.isOpen then ([.fail .walClosed], ws) else
  let cut := cfg.tailTolerant && !ws.checked
  let a0 := if cut then (if ws.valid < ws.len then [ioA (.wt ws.valid)] else []) ++ [memA .tailChecked] else []
  let len0 := if cut then min ws.len ws.valid else ws.len
  let onFail := if cfg.walRollback then [Step.wt len0] else []
  (a0 ++ [.io (.ww (.len r)) onFail, .io (.ww (.crc r)) onFail, .io (.ww (.body r)) onFail],
   { ws with checked := ws.checked || cut, len := len0 + 3, valid := if cut then len0 + 3 else ws.valid })

def appendsA (cfg : Cfg) : WS → List Rec → List Action × WS
  | ws, [] => ([], ws)
  | ws, r :: rs =>
    let (a, ws1) := appendA cfg ws r
    let (as, ws2) := appendsA cfg ws1 rs
    (a ++ as, ws2)

/-- node-table scratch: `IdMap.i2e_start`, `IdMap.i2e_len` -/
structure IdSt where
  start : Nat
  len : Nat
deriving Repr, Inhabited

/-- first node ever: the node-table page is allocated and recorded in the meta page -/
def startA (ps : PS) (id : IdSt) : List Action × PS × Nat :=
  if id.start = 0 then
    let r := allocA ps
    let pm := { r.2.1.pm with i2eStart := r.2.2 }
    (r.1 ++ [memA (.setPm pm)] ++ flushA pm r.2.1.bm ++ [memA (.setIdStart r.2.2)], { r.2.1 with pm := pm }, r.2.2)
  else ([], ps, id.start)

/-- `IdMap::apply_create_node_multi_label` for the next internal id (`iid = i2e_len`; the density
    and duplicate checks are decided by the callers) -/
def nodeA (cfg : Cfg) (ps : PS) (id : IdSt) (ext : Nat) : List Action × PS × IdSt :=
  let r0 := startA ps id
  let r1 := ensureA r0.2.1 r0.2.2          -- page = start + iid / 512; histories stay below 512 nodes
  let pm1 := { r1.2.pm with i2eLen := id.len + 1 }
  let pm2 := { pm1 with nextInt := id.len + 1 }
  (r0.1 ++ r1.1 ++ [ioA (.pg (.slot id.len ext) r0.2.2)] ++ (if cfg.syncSlot then [ioA .ps] else [])
      ++ [memA .incIdLen, memA (.setPm pm1)] ++ flushA pm1 r1.2.bm ++ [memA (.setPm pm2)] ++ flushA pm2 r1.2.bm
      ++ [memA (.pushExt ext)],
   { r1.2 with pm := pm2 }, { start := r0.2.2, len := id.len + 1 })

def nodesA (cfg : Cfg) : PS → IdSt → List Nat → List Action × PS × IdSt
  | ps, id, [] => ([], ps, id)
  | ps, id, x :: xs =>
    let r := nodeA cfg ps id x
    let rs := nodesA cfg r.2.1 r.2.2 xs
    (r.1 ++ rs.1, rs.2)

/-! ## operations -/

def nodeRecs : Nat → List Nat → List Rec
  | _, [] => []
  | iid, x :: xs => .node x iid :: nodeRecs (iid + 1) xs

def txRecs (txid base : Nat) (tx : Tx) : List Rec :=
  [.begin txid] ++ nodeRecs base tx.nodes ++ tx.edges.map .edge ++ tx.props.map .prop ++ [.commit txid]

def Mem.ps (m : Mem) (vol : PImg) : PS := { pm := m.pm, len := vol.len, bm := m.bm }
def Mem.ws (m : Mem) (w : List Frag) : WS :=
  { isOpen := m.walOpen, checked := m.tailChecked, len := w.length, valid := validLen w }

/-- `begin_write` + staging + `WriteTxn::commit` -/
def commitA (cfg : Cfg) (m : Mem) (vol : PImg) (w : List Frag) (tx : Tx) : List Action :=
  let txid := m.nextTxid
  let ws0 := m.ws w
  let (aw, ws1) := appendsA cfg ws0 (txRecs txid m.idLen tx)
  let txStart := if cfg.tailTolerant && !ws0.checked then min ws0.len ws0.valid else ws0.len
  let sync : List Action := if ws1.isOpen then [.io .ws (if cfg.walRollback then [Step.wt txStart] else [])] else []
  let an := (nodesA cfg (m.ps vol) { start := m.idStart, len := m.idLen } tx.nodes).1
  let pub := if tx.edges.isEmpty && tx.props.isEmpty then []
    else [memA (.pushRun { txid := txid, edges := tx.edges, props := tx.props })]
  [memA .bumpTxid] ++ aw ++ sync ++ an ++ pub ++ [memA .bumpTxid]

def insertSorted (q : Nat) : List (Option Nat) → List (Option Nat)
  | [] => [some q]
  | e :: es => if optLt e q then e :: insertSorted q es else some q :: e :: es

/-- one `BlobStore::write` + `BTree::insert` of compaction's property sinking, on the tree as it
    is in the volatile image (`t`).  Keys ascend with time, so the target is always the last leaf;
    the internal root has room for ~280 children and is never split at the sizes considered. -/
def sinkOneA (cfg : Cfg) (ps : PS) (t : TreeImg) (q : Nat) : List Action × PS × TreeImg :=
  let (a0, ps, bp) := allocA ps
  let a1 := [ioA (.pg (.blob t.key q) bp)]
  let t := { t with blobs := q :: t.blobs }
  let li := t.leaves.length - 1
  let leaf0 := t.leaves.getD li ⟨[], false, t.key⟩
  -- `replace_property_entry`: an entry the key already has (left there, in place, by a compaction
  -- that died before its manifest was durable) is deleted first — one more write of the leaf
  -- a leaf with an unreadable cell (left by a torn write) misleads the binary searches of
  -- `cursor_lower_bound` / `leaf_lower_bound`: the existing entry may not be found (no delete) and
  -- the new one goes where the search ends — modelled literally in that case
  let clean := leaf0.entries.all Option.isSome
  let k := lowerBound leaf0.entries q
  let found := decide (k < leaf0.entries.length) && leaf0.entries.getD k none == some q
  let kept := if clean then leaf0.entries.filter (fun e => e != some q)
    else if found then leaf0.entries.eraseIdx k else leaf0.entries
  let ad := if kept.length < leaf0.entries.length then [ioA (.pg (.leaf t.key li kept leaf0.sib leaf0.pid) leaf0.pid)] else []
  let leaf : LeafImg := { leaf0 with entries := kept }
  let j := lowerBound kept q
  let es := if clean then insertSorted q leaf.entries else kept.take j ++ [some q] ++ kept.drop j
  if leaf.entries.length < cfg.leafCap then
    (a0 ++ a1 ++ ad ++ [ioA (.pg (.leaf t.key li es leaf.sib leaf.pid) leaf.pid)], ps,
     { t with leaves := setLeaf t.leaves li ⟨es, leaf.sib, leaf.pid⟩ })
  else
    -- leaf split (`BTree::insert` Err arm): left half rewritten in place, right half on a new
    -- page, then the parent (a new internal root the first time)
    let mid := es.length / 2
    let left := es.take mid
    let right := es.drop mid
    let sep := (right.headD none).getD 0
    let (a2, ps, rp) := allocA ps
    let a3 := [ioA (.pg (.leaf t.key li left true leaf.pid) leaf.pid),
               ioA (.pg (.leaf t.key (li + 1) right leaf.sib rp) rp)]
    let leaves := setLeaf (setLeaf t.leaves li ⟨left, true, leaf.pid⟩) (li + 1) ⟨right, leaf.sib, rp⟩
    match t.inode with
    | none =>
      let (a4, ps, np) := allocA ps
      (a0 ++ a1 ++ ad ++ a2 ++ a3 ++ a4 ++ [ioA (.pg (.inode t.key [sep] np) np)], ps,
       { t with leaves := leaves, inode := some [sep], inodePid := np })
    | some seps =>
      (a0 ++ a1 ++ ad ++ a2 ++ a3 ++ [ioA (.pg (.inode t.key (seps ++ [sep]) t.inodePid) t.inodePid)], ps,
       { t with leaves := leaves, inode := some (seps ++ [sep]) })

def sinkA (cfg : Cfg) : PS → TreeImg → List Nat → List Action × PS × TreeImg
  | ps, t, [] => ([], ps, t)
  | ps, t, q :: qs =>
    let (a, ps1, t1) := sinkOneA cfg ps t q
    let (as, ps2, t2) := sinkA cfg ps1 t1 qs
    (a ++ as, ps2, t2)

def sortNat (xs : List Nat) : List Nat :=
  xs.foldr (fun x acc => (acc.filter (· < x)) ++ [x] ++ acc.filter (fun y => ¬ y < x)) []

/-- data pages of a persisted segment after the first one: edges, in_offsets, in_edges -/
def segPartsA (key need : Nat) (edges : List Nat) : PS → List Nat → List Action × PS
  | ps, [] => ([], ps)
  | ps, j :: js =>
    let (a, ps1, p) := allocA ps
    let (as, ps2) := segPartsA key need edges ps1 js
    (a ++ [ioA (.pg (.segPart key j need edges) p)] ++ as, ps2)

/-- `GraphEngine::compact` -/
def compactA (cfg : Cfg) (m : Mem) (vol : PImg) (w : List Frag) : List Action :=
  if m.runs.isEmpty then [] else
  let edges := m.runs.flatMap (·.edges)
  let props := sortNat (m.runs.flatMap (·.props))
  -- seg.persist: offsets page, then (if there are edges) edges, in_offsets, in_edges pages, meta page
  let nData := if edges.isEmpty then 1 else 4
  let need := nData + 1
  let (a0, ps, k0) := allocA (m.ps vol)
  let a1 := [ioA (.pg (.segPart k0 0 need edges) k0)]
  let (a2, ps) := segPartsA k0 need edges ps ((List.range (nData - 1)).map (· + 1))
  let (a3, ps, mp) := allocA ps
  let a4 := [ioA (.pg (.segPart k0 nData need edges) mp), ioA .ps]
  let upTo := (m.runs.map (·.txid)).foldl max 0
  let epoch := m.epoch + 1
  -- property sinking into the live tree
  let (a5, ps, root, top) :=
    if props.isEmpty then ([], ps, m.proot, m.ptop) else
    let (ac, ps, t) :=
      if m.proot = 0 then
        let (a, ps, r) := allocA ps
        (a ++ [ioA (.pg (.treeNew r) r)], ps,
         ({ key := r, leaves := [⟨[], false, r⟩], inode := none, blobs := [] } : TreeImg))
      else ([], ps, (vol.trees.find? (fun t => t.key == m.proot)).getD
              { key := m.proot, leaves := [⟨[], false, m.proot⟩], inode := none, blobs := [] })
    let (as, ps, t) := sinkA cfg ps t props
    (ac ++ as, ps, t.key, t.inode.isSome)
  -- statistics blob
  let (a6, _, sp) := allocA ps
  let a7 := [ioA (.pg .stats sp)]
  let sys := m.nextTxid
  let segKeys := k0 :: m.segs.map (·.1)
  let (a8, ws1) := appendsA cfg (m.ws w)
    [.begin sys, .manifest epoch segKeys root top, .checkpoint upTo epoch root top, .commit sys]
  let a9 : List Action := if ws1.isOpen then [ioA .ws] else []
  a0 ++ a1 ++ a2 ++ a3 ++ a4 ++ a5 ++ a6 ++ a7 ++ [memA .bumpTxid] ++ a8 ++ a9
    ++ [memA (.compacted upTo root top k0 edges epoch)]

/-- `GraphEngine::checkpoint_on_close` (the caller drops the handle afterwards) -/
def closeA (_cfg : Cfg) (m : Mem) (_vol : PImg) (_w : List Frag) : List Action :=
  if !m.runs.isEmpty then
    [ioA .ps] ++ (if m.walOpen then [ioA .ws] else [.fail .walClosed])
  else
    let upTo := m.nextTxid - 1
    let sys := m.nextTxid
    let recs : List Rec := [.begin sys, .manifest m.epoch (m.segs.map (·.1)) m.proot m.ptop,
      .checkpoint upTo m.epoch m.proot m.ptop, .commit sys]
    -- rewrite_as_snapshot: the handle is given up first; it comes back only after the rename
    [ioA .ps, memA .bumpTxid, memA (.walOpen false), ioA .tc] ++ recs.map (fun _ => ioA .tw)
      ++ [ioA .ts, ioA (.rn (frames recs)), memA (.walOpen true), ioA .ws]

/-! ### open -/

/-- `replay_graph_transactions`: which logged nodes have to be applied to the node table (those
    not yet in it), the runs, and the error that stops the replay, if any -/
structure Plan where
  apply : List Nat := []
  runs : List Run := []
  err : Option Err := none
deriving Repr, Inhabited

/-- `e2i.get(ext)`: the internal id of an external id -/
def posOf (x : Nat) : List Nat → Option Nat
  | [] => none
  | y :: ys => if y = x then some 0 else (posOf x ys).map (· + 1)

/-- the node-table part of replaying the operations of one transaction: a logged node that is
    already mapped must be mapped to the logged id (then it is skipped), one that is not must get
    the next dense id -/
def planNodes : List Rec → List Nat → Nat → List Nat → Option Err × List Nat × Nat × List Nat
  | [], exts, len, acc => (none, exts, len, acc)
  | .node ext iid :: rest, exts, len, acc =>
    match (if ext = 0 then none else posOf ext exts) with
    | some existing =>
      if existing ≠ iid then (some .remapped, exts, len, acc) else planNodes rest exts len acc
    | none =>
      if iid ≠ len then (some .nonDense, exts, len, acc)
      else planNodes rest (exts ++ [ext]) (len + 1) (acc ++ [ext])
  | _ :: rest, exts, len, acc => planNodes rest exts len acc

def edgesOf : List Rec → List Nat
  | [] => []
  | .edge e :: rest => e :: edgesOf rest
  | _ :: rest => edgesOf rest

def propsOf : List Rec → List Nat
  | [] => []
  | .prop q :: rest => q :: propsOf rest
  | _ :: rest => propsOf rest

/-- the memtable replay builds from the operations of one transaction -/
def runOf (tx : CTx) : Run := { txid := tx.txid, edges := edgesOf tx.ops, props := propsOf tx.ops }

def planTxs (ckpt : Nat) : List CTx → List Nat → Nat → Plan → Plan
  | [], _, _, pl => pl
  | tx :: rest, exts, len, pl =>
    if tx.txid ≤ ckpt then planTxs ckpt rest exts len pl else
    let (err, exts', len', acc) := planNodes tx.ops exts len []
    let pl := { pl with apply := pl.apply ++ acc }
    match err with
    | some e => { pl with err := some e }
    | none =>
      let run := runOf tx
      let pl := if run.edges.isEmpty && run.props.isEmpty then pl else { pl with runs := pl.runs ++ [run] }
      planTxs ckpt rest exts' len' pl

/-- creation of one of the two reserved HNSW indexes if the catalog does not have it yet -/
def mkIndexA (cfg : Cfg) (ps : PS) (catRoot : Nat) (entries : List Nat) (i : Nat) :
    List Action × PS × List Nat :=
  if i < entries.length then ([], ps, entries) else
  let id := if ps.pm.nextIdx = 0 then 1 else ps.pm.nextIdx
  let pm := { ps.pm with nextIdx := id + 1 }
  let bm0 := ps.bm
  let (a1, ps, r) := allocA { ps with pm := pm }
  let sync : List Action := if cfg.syncCreate then [ioA .ps] else []
  let entries := entries ++ [r]
  ([memA (.setPm pm)] ++ flushA pm bm0 ++ a1 ++ [ioA (.pg (.idxRoot r) r)] ++ sync
     ++ [memA (.catalog catRoot entries), ioA (.pg (.cat entries) catRoot)] ++ sync,
   ps, entries)

/-- what `GraphEngine::open` has in hand after `Pager::open`, `IdMap::load`, the catalog and the two
    reserved indexes -/
structure BootRes where
  acts : List Action
  ps : PS
  catRoot : Nat
  entries : List Nat
  m0 : Mem
deriving Repr, Inhabited

/-- first half of `GraphEngine::open`: everything before the log is read.  An error carries the
    actions performed before it. -/
def bootA (cfg : Cfg) (vol : PImg) : Except (List Action × Err) BootRes :=
  -- Pager::open
  let fresh := vol.len = 0 || (cfg.freshZero && (vol.len < 2 || !vol.hdr.init))
  if !fresh && !vol.hdr.init then .error ([], .io) else
  let pm0 : Meta := if fresh then { init := true } else vol.hdr
  let a0 : List Action :=
    if fresh then [memA (.setPm pm0), ioA (.pg (.setLen 2) 2)] ++ flushA pm0 2 else [memA (.setPm pm0)]
  let ps : PS := { pm := pm0, len := if fresh then max vol.len 2 else vol.len, bm := if fresh then 2 else vol.bm }
  -- IdMap::load
  let st := pm0.i2eStart
  let n := if st = 0 then 0 else pm0.i2eLen
  let exts0 := (List.range n).map (getSlot vol.i2e)
  let m0 : Mem := { pm := pm0, bm := ps.bm, idStart := st, idLen := pm0.i2eLen, exts := exts0 }
  -- IndexCatalog::open_or_create
  let catStep : Except Err (List Action × PS × Nat × List Nat) :=
    if pm0.catRoot = 0 then
      let (a, ps, c) := allocA ps
      let sync : List Action := if cfg.syncCreate then [ioA .ps] else []
      let pm := { ps.pm with catRoot := c }
      .ok (a ++ [ioA (.pg (.cat []) c)] ++ sync ++ [memA (.setPm pm)] ++ flushA pm ps.bm ++ [memA (.catalog c [])],
           { ps with pm := pm }, c, [])
    else
      match vol.cat with
      | none => .error .catBad
      | some es => .ok ([memA (.catalog pm0.catRoot es)], ps, pm0.catRoot, es)
  match catStep with
  | .error e => .error (a0 ++ [memA (.loaded m0)], e)
  | .ok (a1, ps, catRoot, entries0) =>
    let (a2, ps, entries) := mkIndexA cfg ps catRoot entries0 0
    let (a3, ps, entries) := mkIndexA cfg ps catRoot entries 1
    let acts := a0 ++ [memA (.loaded m0)] ++ a1 ++ a2 ++ a3
    -- HnswIndex::load reads both roots (those created just now are there)
    let created := entries.drop entries0.length
    if !(entries.all (fun r => created.contains r || vol.idx.contains r)) then .error (acts, .idxBad) else
    .ok { acts := acts, ps := ps, catRoot := catRoot, entries := entries, m0 := m0 }

/-- second half of `GraphEngine::open`: `replay_committed`, `scan_recovery_state`, the segments of
    the manifest, `replay_graph_transactions` (which applies logged nodes to the node table) -/
def replayA (cfg : Cfg) (vol : PImg) (w : List Frag) (b : BootRes) : List Action :=
  match committed (readAll w) with
  | .error e => [.fail e]
  | .ok txs =>
    let sc := scan txs
    -- CsrSegment::load for every manifest entry
    let segs := sc.segs.map (fun k => (k, vol.segs.find? (fun s => s.key == k && s.complete)))
    if segs.any (fun s => s.2.isNone) then [.fail .segMissing] else
    let m1 : Mem := { b.m0 with
      pm := b.ps.pm, bm := b.ps.bm, catRootM := b.catRoot, catEntries := b.entries,
      segs := segs.map (fun s => (s.1, (s.2.map (·.edges)).getD [])),
      epoch := sc.epoch, ckpt := sc.ckpt, proot := sc.proot, ptop := sc.ptop,
      nextTxid := max (sc.maxTxid + 1) 1 }
    let pl := planTxs sc.ckpt txs b.m0.exts b.m0.idLen {}
    let an := (nodesA cfg b.ps { start := b.m0.idStart, len := b.m0.idLen } pl.apply).1
    [memA (.loaded m1)] ++ an ++
      (match pl.err with
       | some e => [.fail e]
       | none => [memA (.setRuns pl.runs)])

/-- `GraphEngine::open` on the files as they are (`vol` = page file, `w` = log) -/
def openA (cfg : Cfg) (vol : PImg) (w : List Frag) : List Action :=
  match bootA cfg vol with
  | .error (a, e) => a ++ [.fail e]
  | .ok b => b.acts ++ replayA cfg vol w b

/-! ## execution -/

inductive Stop where
  | none
  | crashAt (k : Nat)
  | faultAt (k : Nat)
deriving Repr, Inhabited

structure Outcome where
  fs : FS
  mem : Mem
  err : Option Err
  steps : List Step         -- performed (for the step log)
  fired : Bool
  dead : Bool
deriving Inhabited

/-- run the actions; the k-th I/O step (0-based) is where the process dies / the error is injected -/
def runActs : List Action → Stop → Nat → FS → Mem → List Step → Outcome
  | [], _, _, fs, mem, log => { fs := fs, mem := mem, err := none, steps := log.reverse, fired := false, dead := false }
  | .mem u :: rest, st, n, fs, mem, log => runActs rest st n fs (applyUpd mem u) log
  | .fail e :: _, _, _, fs, mem, log => { fs := fs, mem := mem, err := some e, steps := log.reverse, fired := false, dead := false }
  | .io s onFail :: rest, st, n, fs, mem, log =>
    match st with
    | .crashAt k =>
      if n = k then { fs := fs, mem := mem, err := none, steps := log.reverse, fired := true, dead := true }
      else runActs rest st (n + 1) (fs.step s) mem (s :: log)
    | .faultAt k =>
      if n = k then
        { fs := fs.steps onFail, mem := mem, err := some .io, steps := (onFail.reverse ++ log).reverse, fired := true, dead := false }
      else runActs rest st (n + 1) (fs.step s) mem (s :: log)
    | .none => runActs rest st (n + 1) (fs.step s) mem (s :: log)

def run (acts : List Action) (st : Stop) (fs : FS) (mem : Mem) : Outcome := runActs acts st 0 fs mem []

/-- the I/O steps of a program, in order -/
def ioSteps : List Action → List Step
  | [] => []
  | .io s _ :: rest => s :: ioSteps rest
  | .fail _ :: _ => []
  | _ :: rest => ioSteps rest

/-! ## histories -/

/-- what a handle shows: nodes in internal-id order, edges of segments and runs, properties of the
    runs and those readable through the property tree of the manifest -/
def treeEntries (t : TreeImg) : List Nat := t.leaves.flatMap (fun l => l.entries.filterMap id)

def content (m : Mem) (vol : PImg) : Content :=
  { nodes := m.exts
    edges := m.segs.flatMap (·.2) ++ m.runs.flatMap (·.edges)
    props := m.runs.flatMap (·.props) ++
      (if m.proot = 0 then [] else
        match vol.trees.find? (fun t => t.key == m.proot) with
        | some t => (treeEntries t).filter (treeHas vol m.proot m.ptop)
        | none => []) }

/-- `GraphEngine::open` run to completion on the files `fs` -/
def recover (cfg : Cfg) (fs : FS) : Except Err (Mem × FS) :=
  let out := run (openA cfg fs.pv fs.wf) .none fs {}
  match out.err with
  | none => .ok (out.mem, out.fs)
  | some e => .error e

/-- an operation through the open handle that returns to the caller -/
inductive HOp where
  | commit (tx : Tx)
  | compact
deriving Repr, Inhabited

/-- where the process dies in one incarnation (`k` past the last I/O step of the operation: right
    after it returned) -/
inductive Death where
  | inOpen (k : Nat)                 -- inside `open`, at its I/O step k
  | inCommit (tx : Tx) (k : Nat)     -- inside the commit of `tx`, at its I/O step k
  | inCompact (k : Nat)              -- inside `compact`, at its I/O step k
  | inClose (k : Nat)                -- inside `checkpoint_on_close`, at its I/O step k
  | idle                             -- between two operations
deriving Repr, Inhabited

/-- one incarnation of the process: open, some commits / compactions that return, death -/
structure Round where
  ops : List HOp
  death : Death
  mode : CrashMode
deriving Repr, Inhabited

def commitsOf : List HOp → List Tx
  | [] => []
  | .commit tx :: rest => tx :: commitsOf rest
  | .compact :: rest => commitsOf rest

/-- operations run to completion through one handle -/
def runOps (cfg : Cfg) : FS → Mem → List HOp → FS × Mem
  | fs, m, [] => (fs, m)
  | fs, m, .commit tx :: rest =>
    let out := run (commitA cfg m fs.pv fs.wf tx) .none fs m
    runOps cfg out.fs out.mem rest
  | fs, m, .compact :: rest =>
    let out := run (compactA cfg m fs.pv fs.wf) .none fs m
    runOps cfg out.fs out.mem rest

/-- the files after one incarnation that started on the files `fs` -/
def Round.after (cfg : Cfg) (fs : FS) (r : Round) : FS :=
  match r.death with
  | .inOpen k => (run (openA cfg fs.pv fs.wf) (.crashAt k) fs {}).fs.crash r.mode
  | .idle =>
    let o := run (openA cfg fs.pv fs.wf) .none fs {}
    (runOps cfg o.fs o.mem r.ops).1.crash r.mode
  | .inCommit tx k =>
    let o := run (openA cfg fs.pv fs.wf) .none fs {}
    let s := runOps cfg o.fs o.mem r.ops
    (run (commitA cfg s.2 s.1.pv s.1.wf tx) (.crashAt k) s.1 s.2).fs.crash r.mode
  | .inCompact k =>
    let o := run (openA cfg fs.pv fs.wf) .none fs {}
    let s := runOps cfg o.fs o.mem r.ops
    (run (compactA cfg s.2 s.1.pv s.1.wf) (.crashAt k) s.1 s.2).fs.crash r.mode
  | .inClose k =>
    let o := run (openA cfg fs.pv fs.wf) .none fs {}
    let s := runOps cfg o.fs o.mem r.ops
    (run (closeA cfg s.2 s.1.pv s.1.wf) (.crashAt k) s.1 s.2).fs.crash r.mode

/-- what the caller has seen of the incarnation -/
def Round.obs (r : Round) : Spec.RoundObs :=
  match r.death with
  | .inOpen _ => ⟨[], none⟩
  | .inCommit tx _ => ⟨commitsOf r.ops, some tx⟩
  | _ => ⟨commitsOf r.ops, none⟩

def afterRounds (cfg : Cfg) : FS → List Round → FS
  | fs, [] => fs
  | fs, r :: rest => afterRounds cfg (r.after cfg fs) rest

/-! ## single operations on a world (files + optional handle), as the streams execute them -/

inductive Op where
  | openOp
  | commit (tx : Tx)
  | compact
  | close
  | drop
deriving Repr, Inhabited

structure World where
  fs : FS := {}
  mem : Option Mem := none
deriving Inhabited

/-- the program of an operation and the memory it starts from (`none`: needs a handle, has none) -/
def World.acts (cfg : Cfg) (w : World) : Op → Option (List Action × Mem)
  | .openOp => some (openA cfg w.fs.pv w.fs.wf, {})
  | .commit tx => w.mem.map (fun m => (commitA cfg m w.fs.pv w.fs.wf tx, m))
  | .compact => w.mem.map (fun m => (compactA cfg m w.fs.pv w.fs.wf, m))
  | .close => w.mem.map (fun m => (closeA cfg m w.fs.pv w.fs.wf, m))
  | .drop => none

/-- run one operation; `st` = where it is cut short, `mode` = what the crash leaves (if it dies).
    Returns the new world and the error the caller sees, if any. -/
def World.step (cfg : Cfg) (w : World) (op : Op) (st : Stop := .none) (mode : CrashMode := .proc) : World × Option Err :=
  match op, w.acts cfg op with
  | .drop, _ => ({ w with mem := none }, none)
  | _, none => (w, some .walClosed)
  | op, some (acts, m0) =>
    let out := run acts st w.fs m0
    if out.dead then ({ fs := out.fs.crash mode, mem := none }, none)
    else
      let keep := match op, out.err with
        | .openOp, some _ => false      -- open returned Err: no handle
        | .close, _ => false            -- the handle is dropped after checkpoint_on_close
        | _, _ => true
      ({ fs := out.fs, mem := if keep then some out.mem else none }, out.err)

/-- a freshly created database: `open` on no files, handle dropped -/
def created (cfg : Cfg) : FS := (run (openA cfg ({} : FS).pv ({} : FS).wf) .none {} {}).fs

end Nervus.Crash
