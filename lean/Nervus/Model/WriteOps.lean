/-
  The write side of the executor as far as errors and limit checks go
  (nervusdb-query/src/executor/write_orchestration.rs execute_write_with_rows, write_path.rs
  execute_set & co., foreach_ops.rs execute_foreach).

  `execute_write_with_rows` is STRICT and STAGED: every clause of a write query is run to the end
  before the next one starts —
    * a read clause (Filter, Project, Aggregate, OrderBy, Skip, Limit, Distinct, Unwind,
      ProcedureCall, Match*, Apply; CartesianProduct / Union with two inputs) runs the READ operator
      of `Model/PlanOps.lean` over `Values { rows }`, the rows of the stage below:
      `execute_plan(snapshot, &staged, params).collect::<Result<Vec<_>>>()?`;
    * a write clause (Create, Delete, Set*, Remove*) loops `for row in execute_plan(Values{rows}) {
      let row = row?; … txn.…()? }` and hands on the rows (with an overlay of what it wrote);
    * Foreach evaluates its list per row (`ensure…?`, not a list ⇒ error) and runs its sub-plan
      (`execute_write`, the `Values` leaf replaced by the one row) per item.
  Every `?` aborts the statement: the first error of any stage is the statement's error.
  What a write does to the graph is abstract (`WSem`); the transaction is discarded by the caller
  when the statement fails (outside this model).
  core-only imports.
-/
import Nervus.Model.PlanOps
namespace Nervus.PlanOps

/-- the effect of the write clauses on an abstract graph state `τ` -/
structure WSem (ω ρ ε τ : Type) where
  /-- one input row of a write clause: the number of modifications and the new state, or the
      error of `ensure…?` / `convert_executor_value_to_property(..)?` / `txn.…()?` -/
  apply : ω → ρ → τ → Except ε (Nat × τ)
  /-- the rows handed on (`apply_set_property_overlay_to_rows` & co.) -/
  overlay : ω → τ → List ρ → List ρ
  /-- "FOREACH expression must evaluate to a list" -/
  notList : ε

/-- write plans: what `execute_write_with_rows` dispatches on -/
inductive WPlan (χ ρ ε α ω : Type) where
  /-- a plan without a write clause below it (the `_ =>` arm and the leaves):
      `execute_plan(plan).collect()?` -/
  | read (p : Plan χ ρ ε α)
  /-- a read clause over the rows of the stage below: `op (Values rows)` -/
  | stage (op : Plan χ ρ ε α → Plan χ ρ ε α) (inp : WPlan χ ρ ε α ω)
  /-- CartesianProduct / Union: both inputs staged, left first -/
  | stage2 (op : Plan χ ρ ε α → Plan χ ρ ε α → Plan χ ρ ε α) (l r : WPlan χ ρ ε α ω)
  /-- Create / Delete / SetProperty / SetPropertiesFromMap / SetLabels / RemoveProperty / RemoveLabels -/
  | write (w : ω) (inp : WPlan χ ρ ε α ω)
  /-- Foreach: list expression, loop variable, sub-plan (its leaf is the one row `Plan.arg`) -/
  | foreach (list : χ) (var : String) (sub : WPlan χ ρ ε α ω) (inp : WPlan χ ρ ε α ω)

/-- the list expressions of the FOREACH clauses of a write plan -/
def WPlan.lists {χ ρ ε α ω : Type} : WPlan χ ρ ε α ω → List χ
  | .read _ => []
  | .stage _ inp => inp.lists
  | .stage2 _ l r => l.lists ++ r.lists
  | .write _ inp => inp.lists
  | .foreach list _ sub inp => list :: (sub.lists ++ inp.lists)

section
variable {χ ρ ν ε κ α ω τ : Type} [DecidableEq κ]

/-- the rows of one write clause, in order: the first failing row aborts -/
def writeRows (W : WSem ω ρ ε τ) (w : ω) : List ρ → Nat → τ → Except ε (Nat × τ)
  | [], n, t => .ok (n, t)
  | r :: rs, n, t =>
    match W.apply w r t with
    | .error e => .error e
    | .ok (k, t') => writeRows W w rs (n + k) t'

/-- execute_foreach, the loop over the input rows: per row the list (`ensure…?`, evaluate, must be
    a list), per item the sub-plan (`run i j row' t` = `execute_write` of the sub-plan for item `j`
    of row `i`, the loop variable bound); the first error aborts -/
def foreachLoop (S : Sem χ ρ ν ε κ α) (W : WSem ω ρ ε τ) (coll : String → Nat → Option ε) (list : χ)
    (var : String) (env : ρ) (run : Nat → Nat → ρ → τ → Except ε (Nat × List ρ × τ))
    (rows : List ρ) (t : τ) : Except ε (Nat × τ) :=
  (rows.zipIdx.map (fun x => (x.2, x.1))).foldlM (fun (acc : Nat × τ) (ir : Nat × ρ) =>
    match S.eval coll list env ir.2 with
    | .error e => .error e
    | .ok v =>
      match S.listView v with
      | .list xs =>
        (xs.zipIdx.map (fun x => (x.2, x.1))).foldlM (fun (acc : Nat × τ) (jx : Nat × ν) =>
          match run ir.1 jx.1 (S.set ir.2 var jx.2) acc.2 with
          | .error e => .error e
          | .ok (k, _, t') => .ok (acc.1 + k, t')) acc
      | _ => .error W.notList) (0, t)

/-- `execute_write_with_rows`: modifications, rows handed on, graph state — or the first error.
    Every stage builds a fresh iterator tree: its checks have their own oracles (`site`). -/
def execW (S : Sem χ ρ ν ε κ α) (Q : Quirks) (L : LimEnv ε) (W : WSem ω ρ ε τ) :
    Site → ρ → WPlan χ ρ ε α ω → τ → Except ε (Nat × List ρ × τ)
  | site, env, .read p, t =>
    match collect (runL S Q L site env p) with
    | .error e => .error e
    | .ok rows => .ok (0, rows, t)
  | site, env, .stage op inp, t =>
    match execW S Q L W (.left site) env inp t with
    | .error e => .error e
    | .ok (n, rows, t1) =>
      match collect (runL S Q L (.inner site) env (op (.scan rows))) with
      | .error e => .error e
      | .ok out => .ok (n, out, t1)
  | site, env, .stage2 op l r, t =>
    match execW S Q L W (.left site) env l t with
    | .error e => .error e
    | .ok (n, lrows, t1) =>
      match execW S Q L W (.right site) env r t1 with
      | .error e => .error e
      | .ok (m, rrows, t2) =>
        match collect (runL S Q L (.inner site) env (op (.scan lrows) (.scan rrows))) with
        | .error e => .error e
        | .ok out => .ok (n + m, out, t2)
  | site, env, .write w inp, t =>
    match execW S Q L W (.left site) env inp t with
    | .error e => .error e
    | .ok (n, rows, t1) =>
      -- `for row in execute_plan(Values { rows })`: the guard of the Values node checks every row
      match collect (runL S Q L (.inner site) env (.scan rows)) with
      | .error e => .error e
      | .ok rows' =>
        match writeRows W w rows' 0 t1 with
        | .error e => .error e
        | .ok (m, t2) => .ok (n + m, W.overlay w t2 rows, t2)
  | site, env, .foreach list var sub inp, t =>
    match execW S Q L W (.left site) env inp t with
    | .error e => .error e
    | .ok (n, rows, t1) =>
      match collect (runL S Q L (.inner site) env (.scan rows)) with
      | .error e => .error e
      | .ok rows' =>
        match foreachLoop S W L.coll list var env
            (fun i j row' t' => execW S Q L W (.exec j (.exec i site)) (S.bind env row') sub t') rows' t1 with
        | .error e => .error e
        | .ok (m, t2) => .ok (n + m, rows, t2)

end

end Nervus.PlanOps
