/-
  Nervus.Model.Bytes — byte strings, fixed-width integer codecs, hex, byte-wise order.
  Import-free (core only) so that the driver links as a native executable.
-/
namespace Nervus

abbrev Bytes := List UInt8

/-- results are compared in counterexample theorems and by the drivers -/
instance {ε α : Type} [DecidableEq ε] [DecidableEq α] : DecidableEq (Except ε α)
  | .ok a, .ok b => if h : a = b then isTrue (by rw [h]) else isFalse (by intro e; cases e; exact h rfl)
  | .error a, .error b => if h : a = b then isTrue (by rw [h]) else isFalse (by intro e; cases e; exact h rfl)
  | .ok _, .error _ => isFalse (by intro e; cases e)
  | .error _, .ok _ => isFalse (by intro e; cases e)

/-- `n` little-endian bytes of `v` (mirrors `to_le_bytes` for `n = 4, 8`). -/
def leBytes : Nat → Nat → Bytes
  | 0, _ => []
  | n+1, v => UInt8.ofNat (v % 256) :: leBytes n (v / 256)

/-- little-endian decoding of a byte list (mirrors `from_le_bytes`). -/
def leVal : Bytes → Nat
  | [] => 0
  | b :: bs => b.toNat + 256 * leVal bs

/-- `n` big-endian bytes of `v` (mirrors `to_be_bytes`). -/
def beBytes : Nat → Nat → Bytes
  | 0, _ => []
  | n+1, v => beBytes n (v / 256) ++ [UInt8.ofNat (v % 256)]

def beVal (bs : Bytes) : Nat := bs.foldl (fun acc b => acc * 256 + b.toNat) 0

/-- two's complement: `i as u64` for an `i64`. -/
def toU64 (i : Int) : Nat := (i % 18446744073709551616).toNat

/-- `u as i64` for a `u64`. -/
def ofU64 (u : Nat) : Int := if u < 9223372036854775808 then (u : Int) else (u : Int) - 18446744073709551616

def I64.inRange (i : Int) : Prop := -9223372036854775808 ≤ i ∧ i < 9223372036854775808
instance (i : Int) : Decidable (I64.inRange i) := by unfold I64.inRange; exact inferInstance

/-- Byte-wise lexicographic order, the order of Rust's `Vec<u8>`/`[u8]` `Ord`
    (a proper prefix is smaller). -/
def bytesLt : Bytes → Bytes → Bool
  | [], [] => false
  | [], _ :: _ => true
  | _ :: _, [] => false
  | a :: as, b :: bs => if a < b then true else if b < a then false else bytesLt as bs

/-- `a` is a proper prefix of `b`. -/
def properPrefix : Bytes → Bytes → Bool
  | [], [] => false
  | [], _ :: _ => true
  | _ :: _, [] => false
  | a :: as, b :: bs => a == b && properPrefix as bs

/-! hex -/
def hexDigit (n : Nat) : Char :=
  if n < 10 then Char.ofNat (48 + n) else Char.ofNat (87 + n)

def hexOfBytes (bs : Bytes) : String :=
  String.ofList (bs.flatMap fun b => [hexDigit (b.toNat / 16), hexDigit (b.toNat % 16)])

def hexVal (c : Char) : Option Nat :=
  if '0' ≤ c ∧ c ≤ '9' then some (c.toNat - 48)
  else if 'a' ≤ c ∧ c ≤ 'f' then some (c.toNat - 87)
  else if 'A' ≤ c ∧ c ≤ 'F' then some (c.toNat - 55)
  else none

def bytesOfHexChars : List Char → Option Bytes
  | [] => some []
  | [_] => none
  | a :: b :: rest =>
    match hexVal a, hexVal b, bytesOfHexChars rest with
    | some x, some y, some r => some (UInt8.ofNat (16 * x + y) :: r)
    | _, _, _ => none

/-- `-` denotes the empty byte string on the wire. -/
def bytesOfHex (s : String) : Option Bytes :=
  if s == "-" then some [] else bytesOfHexChars s.toList

def hexOrDash (bs : Bytes) : String := if bs.isEmpty then "-" else hexOfBytes bs

end Nervus
