/-
  Nervus.Model.ExtId — node identity allocation (C32): internal ids (dense counter over the I2E table)
  and external ids of Cypher-created nodes (clock-derived hint → first free id).

  Mirrors, as the code is after fix 39e1c0b:
    nervusdb-storage/src/engine.rs   WriteTxn::{create_node, fresh_external_id, commit (step 3)}, GraphEngine::open
    nervusdb-storage/src/idmap.rs    IdMap::{load, next_internal_id, apply_create_node_multi_label}
    nervusdb-query/src/executor/{create_delete_ops,merge_execute_support,merge_helpers}.rs   (the hint expression)
  and, as `…Legacy`, the allocation of the pinned tree before the fix (kept for the counterexample theorems).
  Core only.  The constants of `Generated.ExtIdSites` are re-read from the source on every check.
-/
import Nervus.Model.Generated.ExtIdSites
namespace Nervus.ExtId

def two64 : Nat := 18446744073709551616
def two32 : Nat := 4294967296

/-- `i64 as u64` (two's complement). -/
def i64AsU64 (i : Int) : Nat := (i % (two64 : Int)).toNat

/-- The hint expression of the three allocation sites:
    `(created_count as u64).wrapping_add(chrono::Utc::now().timestamp_nanos_opt().unwrap_or(0) as u64)`.
    `reading = none` is chrono's "out of range" (`timestamp_nanos_opt() = None`). -/
def hintOf (count : Nat) (reading : Option Int) : Nat :=
  match reading with
  | some t => (count + i64AsU64 t) % two64
  | none => (count + Generated.extIdClockDefault) % two64

/-- Outcomes of the pinned tree's expression `created_count as u64 + now as u64`: the addition is checked in
    debug builds (panic) and wraps in release builds; we keep the panic visible. -/
inductive LegacyHint where
  | ok (ext : Nat)
  | overflowPanic
deriving Repr, DecidableEq

/-- mirrors the pre-fix expression `created_count as u64 + now.unwrap_or(0) as u64` -/
def hintLegacy (count : Nat) (reading : Option Int) : LegacyHint :=
  let now := match reading with | some t => i64AsU64 t | none => 0
  if count + now < two64 then .ok (count + now) else .overflowPanic

/-- The identity part of the engine state.
    `i2e`  : the persisted I2E table, index = internal id, value = external id (0 = "none"); `i2e_len = i2e.length`
    `e2i`  : key set of the in-memory `e2i` hash map
    `floor`: `next_fresh_external_id` (in memory only) -/
structure Engine where
  i2e : List Nat
  e2i : List Nat
  floor : Nat
deriving Repr, DecidableEq

/-- `created_nodes` of a write transaction, in creation order: (external id, internal id).
    `created_external_ids` is always the set of first components (inserted together, see `createNode`). -/
structure Txn where
  created : List (Nat × Nat)
deriving Repr, DecidableEq

def Txn.empty : Txn := ⟨[]⟩
def Txn.exts (t : Txn) : List Nat := t.created.map Prod.fst
def Txn.iids (t : Txn) : List Nat := t.created.map Prod.snd

inductive Err where
  | dupEngine   -- "external id already exists"
  | dupTx       -- "duplicate external id in same tx"
  | idSpace     -- u32 internal-id arithmetic would overflow (not modelled further)
  | nonDense    -- commit: "non-dense internal id"
  | dupCommit   -- commit: "duplicate external id"
deriving Repr, DecidableEq

/-- mirrors `WriteTxn::create_node`: engine-wide lookup, then the per-transaction set, then
    `internal_id = idmap.next_internal_id() + created_nodes.len()` (u32 arithmetic made explicit). -/
def createNode (e : Engine) (t : Txn) (ext : Nat) : Except Err (Txn × Nat) :=
  if ext ∈ e.e2i then .error .dupEngine
  else if ext ∈ t.exts then .error .dupTx
  else
    let iid := e.i2e.length + t.created.length
    if two32 ≤ iid then .error .idSpace
    else .ok (⟨t.created ++ [(ext, iid)]⟩, iid)

/-- `id.wrapping_add(1).max(1)` -/
def next (id : Nat) : Nat := if two64 ≤ id + 1 then Generated.extIdFreshMin else id + 1

/-- mirrors the loop of `WriteTxn::fresh_external_id`:
    `while taken(id) { id = id.wrapping_add(1).max(1) }`.
    Each iteration discards the id it has just seen from the list and uses up one unit of fuel; the fuel is the
    number of ids in use, so it only runs out when the list is empty and the test is false anyway (the Rust loop
    runs at most that often for the same reason: it cannot see an id twice before it has been round the whole
    u64 range). -/
def probeAux : Nat → List Nat → Nat → Nat
  | 0, _, id => id
  | f + 1, taken, id => if id ∈ taken then probeAux f (taken.erase id) (next id) else id

def probe (taken : List Nat) (id : Nat) : Nat := probeAux taken.length taken id

/-- mirrors `WriteTxn::fresh_external_id(hint)`: start at `hint.max(floor).max(1)`, probe, remember `id+1`. -/
def freshExternalId (e : Engine) (t : Txn) (hint : Nat) : Nat × Engine :=
  let start := max (max hint e.floor) Generated.extIdFreshMin
  let id := probe (e.e2i ++ t.exts) start
  (id, { e with floor := (id + 1) % two64 })

/-- The external id an allocation site hands to `create_node`: through `fresh_external_id` when the sites call it
    (regenerated flag), the bare hint otherwise (the pinned tree). -/
def allocExt (e : Engine) (t : Txn) (hint : Nat) : Nat × Engine :=
  if Generated.extIdSitesCallFresh then freshExternalId e t hint else (hint, e)

/-- One node-creating executor call after the fix: for every node, derive the hint, pick a fresh id, `create_node`.
    Stops at the first error (the nodes created before it stay in the transaction: C13). -/
def createAll (e : Engine) (t : Txn) : List Nat → Engine × Txn × Option Err
  | [] => (e, t, none)
  | h :: hs =>
    let r := allocExt e t h
    match createNode r.2 t r.1 with
    | .ok (t', _) => createAll r.2 t' hs
    | .error err => (r.2, t, some err)

/-- The same executor call on the pinned tree: the hint itself is the external id. -/
def createAllLegacy (e : Engine) (t : Txn) : List Nat → Txn × Option Err
  | [] => (t, none)
  | h :: hs =>
    match createNode e t h with
    | .ok (t', _) => createAllLegacy e t' hs
    | .error err => (t, some err)

/-- mirrors `IdMap::apply_create_node_multi_label` (identity part): density check, duplicate check, append. -/
def applyCreate (e : Engine) (ext iid : Nat) : Except Err Engine :=
  if iid ≠ e.i2e.length then .error .nonDense
  else if ext ∈ e.e2i then .error .dupCommit
  else .ok { e with i2e := e.i2e ++ [ext], e2i := ext :: e.e2i }

/-- mirrors step 3 of `WriteTxn::commit`: `for (ext, label, iid) in created_nodes { idmap.apply_create_node(..)? }`.
    A failure leaves the id map half applied, exactly like the `?` in the Rust loop. -/
def commitNodes (e : Engine) : List (Nat × Nat) → Engine × Option Err
  | [] => (e, none)
  | (ext, iid) :: rest =>
    match applyCreate e ext iid with
    | .ok e' => commitNodes e' rest
    | .error err => (e, some err)

/-- mirrors `GraphEngine::open` / `IdMap::load` (after `Db::close`, i.e. with an empty WAL tail):
    the I2E table is what persists; `e2i` is rebuilt *skipping external id 0*; the floor starts at 1. -/
def reopen (e : Engine) : Engine :=
  { i2e := e.i2e, e2i := if Generated.idmapLoadSkipsZero then e.i2e.filter (· ≠ 0) else e.i2e, floor := 1 }

def Engine.init : Engine := { i2e := [], e2i := [], floor := 1 }

/-! ### histories -/

structure State where
  eng : Engine
  txn : Option Txn
deriving Repr, DecidableEq

def State.init : State := ⟨Engine.init, none⟩

/-- Operations of a history.  `stmt`/`tstmt` carry the clock-derived hints of the nodes the statement creates,
    in creation order, grouped by executor call (`CREATE … CREATE …` is two calls): arbitrary numbers, because the
    clock is arbitrary. -/
inductive Op where
  | stmt (hints : List Nat)      -- auto-commit statement (capi `execute_write_count`)
  | begin
  | tstmt (hints : List Nat)     -- statement inside the explicit transaction (capi `execute_write_in_txn`)
  | commit
  | rollback
  | raw (ext : Nat)              -- low-level `create_node(ext)` in its own transaction (caller-chosen id)
  | compact                      -- `GraphEngine::compact` does not touch the id map
  | del                          -- DETACH DELETE: tombstones only, the I2E table is append-only
  | reopen
deriving Repr, DecidableEq

inductive Out where
  | ok
  | err (e : Err)
  | bad        -- op not applicable in this state (protocol misuse, e.g. `commit` without `begin`)
deriving Repr, DecidableEq

def finish (r : Engine × Option Err) : State × Out :=
  match r.2 with
  | none => (⟨r.1, none⟩, .ok)
  | some err => (⟨r.1, none⟩, .err err)

def step (s : State) : Op → State × Out
  | .stmt hs =>
    match s.txn with
    | some _ => (s, .bad)
    | none =>
      match createAll s.eng Txn.empty hs with
      | (e, t, none) => finish (commitNodes e t.created)
      | (e, _, some err) => (⟨e, none⟩, .err err)          -- transaction dropped
  | .begin =>
    match s.txn with
    | some _ => (s, .bad)
    | none => (⟨s.eng, some Txn.empty⟩, .ok)
  | .tstmt hs =>
    match s.txn with
    | none => (s, .bad)
    | some t =>
      match createAll s.eng t hs with
      | (e, t', none) => (⟨e, some t'⟩, .ok)
      | (e, t', some err) => (⟨e, some t'⟩, .err err)
  | .commit =>
    match s.txn with
    | none => (s, .bad)
    | some t => finish (commitNodes s.eng t.created)
  | .rollback =>
    match s.txn with
    | none => (s, .bad)
    | some _ => (⟨s.eng, none⟩, .ok)
  | .raw ext =>
    match s.txn with
    | some _ => (s, .bad)
    | none =>
      match createNode s.eng Txn.empty ext with
      | .ok (t, _) => finish (commitNodes s.eng t.created)
      | .error err => (s, .err err)
  | .compact => (s, match s.txn with | none => .ok | some _ => .bad)
  | .del => (s, match s.txn with | none => .ok | some _ => .bad)
  | .reopen =>
    match s.txn with
    | some _ => (s, .bad)
    | none => (⟨reopen s.eng, none⟩, .ok)

def run (s : State) : List Op → State
  | [] => s
  | op :: ops => run (step s op).1 ops

/-- the outputs of a history, paired with their operations -/
def trace (s : State) : List Op → List (Op × Out)
  | [] => []
  | op :: ops => (op, (step s op).2) :: trace (step s op).1 ops

/-- The pinned tree's statement (before the fix): hints are used as external ids. -/
def stepLegacyStmt (s : State) (hs : List Nat) : State × Out :=
  match s.txn with
  | some t =>
    match createAllLegacy s.eng t hs with
    | (t', none) => (⟨s.eng, some t'⟩, .ok)
    | (t', some err) => (⟨s.eng, some t'⟩, .err err)
  | none =>
    match createAllLegacy s.eng Txn.empty hs with
    | (t, none) => finish (commitNodes s.eng t.created)
    | (_, some err) => (s, .err err)

/-! ### bounds: how large ids can get along a history (decidable on the op sequence) -/

/-- after one allocation with hint `h`, every id in use is at most `max h K + 1` -/
def bumpHint (K h : Nat) : Nat := max h K + 1

def bump (K : Nat) : Op → Nat
  | .stmt hs => hs.foldl bumpHint K
  | .tstmt hs => hs.foldl bumpHint K
  | .raw x => max x K
  | _ => K

/-- the largest id a history can reach when it starts with all ids `≤ K` -/
def peak (K : Nat) (ops : List Op) : Nat := ops.foldl bump K

/-- number of node creations a history attempts -/
def volume : List Op → Nat
  | [] => 0
  | .stmt hs :: ops => hs.length + volume ops
  | .tstmt hs :: ops => hs.length + volume ops
  | .raw _ :: ops => 1 + volume ops
  | _ :: ops => volume ops

end Nervus.ExtId
