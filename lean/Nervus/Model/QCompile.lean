/-
  Model of the planner of nervusdb-query for fragment F1: query_api/compile_core.rs `compile_m3_plan`,
  match_compile.rs, match_anchor.rs, binding_analysis.rs `extract_output_var_kinds`, ast_walk.rs
  `extract_predicates`, projection_compile.rs `compile_projection_aggregation`, return_with.rs.
  Quirks are kept (anonymous-id allocation order, WHERE equalities pushed down as extra filters + IndexSeek,
  property maps of ANONYMOUS relationships dropped … whatever the source does).  `BTreeMap`s are key-sorted association lists.
-/
import Nervus.Model.QPlan
namespace Nervus.Cy.Compile
open Nervus.Cy

/-! ### BTreeMap<String, _> as a sorted association list -/

def insertSorted {β} (m : List (String × β)) (k : String) (v : β) : List (String × β) :=
  match m with
  | [] => [(k, v)]
  | (k', v') :: rest =>
    if k < k' then (k, v) :: (k', v') :: rest
    else if k == k' then (k, v) :: rest
    else (k', v') :: insertSorted rest k v

abbrev Kinds := List (String × Kind)

/-- binding_analysis.rs `merge_binding_kind` -/
def mergeKind (m : Kinds) (k : String) (v : Kind) : Kinds :=
  match m.lookup k with
  | some e => if e == v then m else insertSorted m k .unknown
  | none => insertSorted m k v

/-- internal_alias.rs `is_internal_path_alias` (`starts_with`, written on character lists so that the kernel can
    evaluate it in closed counterexamples) -/
def isInternalPath (a : String) : Bool := a.toList.take 23 == "__nervus_internal_path_".toList

/-- binding_analysis.rs `infer_expression_binding_kind` -/
def inferKind (vars : Kinds) : Expr → Kind
  | .var x => (vars.lookup x).getD .unknown
  | .lit .null => .unknown
  | _ => .scalar

def matchKinds (vars : Kinds) (src : String) (edge : Option String) (dst : String) (path : Option String) : Kinds :=
  let vars := mergeKind vars src .node
  let vars := mergeKind vars dst .node
  let vars := match edge with | some e => mergeKind vars e .rel | none => vars
  match path with
  | some p => if isInternalPath p then vars else mergeKind vars p .path
  | none => vars

/-- binding_analysis.rs `extract_output_var_kinds` -/
def outKindsAcc : Plan → Kinds → Kinds
  | .returnOne, vars => vars
  | .nodeScan a _, vars => mergeKind vars a .node
  | .matchOut i s _ e d _ _ p, vars => matchKinds (outKindsAcc i vars) s e d p
  | .matchIn i s _ e d _ _ p, vars => matchKinds (outKindsAcc i vars) s e d p
  | .matchUndirected i s _ e d _ _ p, vars => matchKinds (outKindsAcc i vars) s e d p
  | .filter i _, vars => outKindsAcc i vars
  | .skip i _, vars => outKindsAcc i vars
  | .limit i _, vars => outKindsAcc i vars
  | .orderBy i _, vars => outKindsAcc i vars
  | .distinct i, vars => outKindsAcc i vars
  | .optionalWhereFixup o f ns, vars =>
    let vars := outKindsAcc o (outKindsAcc f vars)
    ns.foldl (fun vars a => if isInternalPath a then vars else insertSorted vars a .unknown) vars
  | .project i ps, vars =>
    let vars := outKindsAcc i vars
    let vars := ps.foldl (fun vars (a, e) => insertSorted vars a (inferKind vars e)) vars
    vars.filter fun (k, _) => ps.any (·.1 == k)
  | .aggregate i gb as, vars =>
    let vars := outKindsAcc i vars
    let vars := gb.foldl (fun vars k => insertSorted vars k ((vars.lookup k).getD .unknown)) vars
    let vars := as.foldl (fun vars (_, a) => insertSorted vars a .unknown) vars
    vars.filter fun (k, _) => gb.contains k || as.any (·.2 == k)
  | .unwind i _ a, vars => insertSorted (outKindsAcc i vars) a .unknown
  | .cartesianProduct l r, vars => outKindsAcc r (outKindsAcc l vars)
  | .indexSeek a _ _ _ fb, vars => mergeKind (outKindsAcc fb vars) a .node

def outKinds (p : Plan) : Kinds := outKindsAcc p []

def boundAsNode (known : Kinds) (a : String) : Bool :=
  match known.lookup a with | some .node => true | some .unknown => true | _ => false

/-! ### predicates -/

abbrev Preds := List (String × List (String × Expr))

def predsInsert (m : Preds) (x k : String) (v : Expr) : Preds :=
  insertSorted m x (insertSorted ((m.lookup x).getD []) k v)

/-- ast_walk.rs `extract_predicates`: `x.k = <literal|parameter>` conjuncts of a WHERE -/
def extractPredicates : Expr → Preds → Preds
  | .bool .and a b, m => extractPredicates b (extractPredicates a m)
  | .cmp .eq a b, m =>
    let chk (l r : Expr) (m : Preds) : Preds :=
      match l, r with
      | .prop x k, .lit v => predsInsert m x k (.lit v)
      | .prop x k, .param p => predsInsert m x k (.param p)
      | _, _ => m
    chk b a (chk a b m)
  | _, m => m

/-- match_compile.rs `extend_predicates_from_properties` -/
def extendPreds (m : Preds) (x : String) (props : List (String × Expr)) : Preds :=
  props.foldl (fun m (k, e) => predsInsert m x k e) m

def andChain : List Expr → Option Expr
  | [] => none
  | e :: es => some (es.foldl (fun acc x => .bool .and acc x) e)

/-- match_compile.rs `apply_filters_for_alias` -/
def applyFilters (p : Plan) (x : String) (m : Preds) : Plan :=
  match m.lookup x with
  | some fields => match andChain (fields.map fun (k, v) => .cmp .eq (.prop x k) v) with
    | some e => .filter p e
    | none => p
  | none => p

/-- match_compile.rs `apply_label_filters_for_alias` -/
def applyLabelFilters (p : Plan) (x : String) (labels : List String) : Plan :=
  match andChain (labels.map fun l => .bool .or (.isNull (.var x)) (.hasLabel (.var x) l)) with
  | some e => .filter p e
  | none => p

/-! ### MATCH -/

structure St where
  nextAnon : Nat := 0

def genName (s : St) : String × St := ("_gen_" ++ toString s.nextAnon, { s with nextAnon := s.nextAnon + 1 })
def genPath (s : St) : String × St :=
  ("__nervus_internal_path_" ++ toString s.nextAnon, { s with nextAnon := s.nextAnon + 1 })

def flipDir : Dir → Dir
  | .out => .inn | .inn => .out | .both => .both

/-- the chain as (last node, reversed steps) read from the other end -/
def reversePath (p : PathPat) : PathPat :=
  let rec go (cur : NodePat) (steps : List (RelPat × NodePat)) (acc : List (RelPat × NodePat)) : PathPat :=
    match steps with
    | [] => ⟨cur, acc⟩
    | (rp, np) :: rest => go np rest (({ rp with dir := flipDir rp.dir }, cur) :: acc)
  go p.start p.steps []

def lastNode (p : PathPat) : NodePat := match p.steps.getLast? with | some (_, n) => n | none => p.start

/-- match_anchor.rs `maybe_reanchor_pattern` -/
def maybeReanchor (p : PathPat) (known : Kinds) : PathPat :=
  if p.steps.isEmpty then p else
  let b (n : NodePat) := match n.var with | some x => boundAsNode known x | none => false
  if b p.start || !(b (lastNode p)) then p else reversePath p

/-- binding_analysis.rs `validate_match_pattern_bindings` (node variables must not be bound to a non-node;
    re-using a bound relationship variable would compile to MatchBoundRel, which is outside the model) -/
def validatePattern (p : PathPat) (known : Kinds) : Except Err Unit := do
  let nodeVar (x : Option String) : Except Err Unit :=
    match x with
    | some x => match known.lookup x with
      | some .node => .ok () | some .unknown => .ok () | none => .ok ()
      | some _ => .error .syntax
    | none => .ok ()
  nodeVar p.start.var
  for (rp, np) in p.steps do
    match rp.var with
    | some x => if (known.lookup x).isSome then throw .other
    | none => pure ()
    nodeVar np.var

/-- match_compile.rs `pattern_uses_outer_bindings` (the predicate part never fires: extracted predicate values
    are literals or parameters) -/
def usesOuter (p : PathPat) (known : Kinds) : Bool :=
  if known.isEmpty then false else
  let uses (locals : List String) (props : List (String × Expr)) : Bool :=
    props.any fun (_, e) => e.vars.any fun v => (known.lookup v).isSome && !locals.contains v
  let l0 := p.start.var.toList
  if uses l0 p.start.props then true else
  let rec go (locals : List String) : List (RelPat × NodePat) → Bool
    | [] => false
    | (rp, np) :: rest =>
      let l1 := locals ++ rp.var.toList
      if uses l1 rp.props then true else
      let l2 := l1 ++ np.var.toList
      if uses l2 np.props then true else go l2 rest
  go l0 p.steps

def mkHop (d : Dir) (input : Plan) (src : String) (rels : List String) (edge : Option String) (dst : String)
    (dstLabels : List String) (pre : Bool) (path : Option String) : Plan :=
  match d with
  | .out => .matchOut input src rels edge dst dstLabels pre path
  | .inn => .matchIn input src rels edge dst dstLabels pre path
  | .both => .matchUndirected input src rels edge dst dstLabels pre path

/-- match_compile.rs `compile_pattern_chain` -/
def compileChain (input : Option Plan) (p : PathPat) (preds : Preds) (known : Kinds) (s : St) : Plan × St :=
  let (src, s) := match p.start.var with | some v => (v, s) | none => genName s
  let srcLabel := p.start.labels.head?
  let lp := extendPreds preds src p.start.props
  let plan0 : Plan :=
    match input with
    | some existing =>
      if boundAsNode known src then
        applyLabelFilters (applyFilters existing src lp) src p.start.labels
      else
        let joined := Plan.cartesianProduct existing (.nodeScan src srcLabel)
        applyLabelFilters (applyFilters joined src lp) src p.start.labels
    | none =>
      let start : Plan := .nodeScan src srcLabel
      let start := match srcLabel, (lp.lookup src).bind (·.head?) with
        | some l, some (field, v) => Plan.indexSeek src l field v start
        | _, _ => start
      applyLabelFilters (applyFilters start src lp) src p.start.labels
  -- `chain_path_alias` is allocated before the hop loop (also for a single-node pattern)
  let (path, s) := genPath s
  let rec hops (plan : Plan) (cur : String) (lp : Preds) (localBound : List String) (s : St) :
      List (RelPat × NodePat) → Plan × St
    | [] => (plan, s)
    | (rp, np) :: rest =>
      let (dst, s) := match np.var with | some v => (v, s) | none => genName s
      let pre := localBound.contains cur || boundAsNode known cur
      let plan := mkHop rp.dir plan cur rp.types rp.var dst np.labels pre (some path)
      let lp := extendPreds lp dst np.props
      -- properties of an anonymous relationship are not turned into predicates (`if let Some(ea) = &edge_alias`)
      let lp := match rp.var with | some ea => extendPreds lp ea rp.props | none => lp
      let plan := applyFilters plan dst lp
      let plan := match rp.var with | some ea => applyFilters plan ea lp | none => plan
      hops plan dst lp (localBound ++ [dst] ++ rp.var.toList) s rest
  hops plan0 src lp [] s p.steps

/-- match_compile.rs `compile_match_plan` -/
def compileMatch (input : Option Plan) (pats : List PathPat) (preds : Preds) (s : St) :
    Except Err (Plan × St) := do
  let mut plan := input
  let mut known : Kinds := match input with | some p => outKinds p | none => []
  let mut s := s
  for raw in pats do
    let p := maybeReanchor raw known
    validatePattern p known
    -- `first_node_alias`: an anonymous first node consumes an id here and another one in the chain
    let (first, s1) := match p.start.var with | some v => (v, s) | none => genName s
    s := s1
    -- `mentions_bound_node` (fix 0536246): a bound node variable anywhere in the pattern joins it
    let mentionsBound := (p.start :: p.steps.map (·.2)).any fun np =>
      match np.var with | some v => boundAsNode known v | none => false
    if boundAsNode known first || usesOuter p known || mentionsBound then
      let (pl, s2) := compileChain plan p preds known s
      plan := some pl; s := s2
    else
      let (sub, s2) := compileChain none p preds known s
      s := s2
      plan := some (match plan with | some existing => .cartesianProduct existing sub | none => sub)
    known := match plan with | some p => outKinds p | none => []
  match plan with
  | some p => return (p, s)
  | none => throw .other

/-- compile_core.rs `collect_optional_match_aliases` ∪ new output variables, as a sorted set -/
def optionalAliases (pats : List PathPat) (before after : Kinds) : List String :=
  let fromPats := pats.flatMap fun p =>
    p.start.var.toList ++ p.steps.flatMap fun (rp, np) => np.var.toList ++ rp.var.toList
  let fromKinds := after.map (·.1)
  let all := (fromPats ++ fromKinds).filter fun a => (before.lookup a).isNone
  (all.foldl (fun (m : List (String × Unit)) a => insertSorted m a ()) []).map (·.1)

/-! ### projections -/

def exprVarsOk (known : Kinds) (e : Expr) : Except Err Unit :=
  if e.vars.all fun v => (known.lookup v).isSome then .ok () else .error .syntax

/-- projection_compile.rs `validate_projection_expression_bindings` (fragment): undefined variable, property
    access on a path / relationship list -/
def validateProjExpr (known : Kinds) : Expr → Except Err Unit
  | .prop x k => match known.lookup x with
    | none => .error .syntax
    | some .path => .error .syntax
    | some .relList => .error .syntax
    | some _ => let _ := k; .ok ()
  | .var x => if (known.lookup x).isSome then .ok () else .error .syntax
  | .cmp _ a b => do validateProjExpr known a; validateProjExpr known b
  | .bool _ a b => do validateProjExpr known a; validateProjExpr known b
  | .not a => validateProjExpr known a
  | .isNull a => validateProjExpr known a
  | .isNotNull a => validateProjExpr known a
  | .hasLabel a _ => validateProjExpr known a
  | _ => .ok ()

def itemExprOf : ItemExpr → Expr
  | .plain e => e | .agg _ a => a

def isAggItem (it : Item) : Bool := match it.expr with | .agg _ _ => true | .plain _ => false

/-- projection_compile.rs `compile_projection_aggregation` → (plan, project_cols) -/
def compileProjection (input : Plan) (items : List Item) : Except Err (Plan × List String) := do
  let known := outKinds input
  for it in items do
    match it.expr with
    | .plain e => validateProjExpr known e
    | .agg .countStar _ => pure ()
    | .agg _ a => validateProjExpr known a
  let aliases := items.map (·.alias)
  if aliases.eraseDups.length != aliases.length then throw .syntax       -- ColumnNameConflict
  if !items.any isAggItem then
    return (.project input (items.map fun it => (it.alias, itemExprOf it.expr)), aliases)
  -- grouping keys become a pre-projection; aggregate arguments keep the variables they mention
  let keyItems := items.filter (!isAggItem ·)
  let pre0 : List (String × Expr) := keyItems.map fun it => (it.alias, itemExprOf it.expr)
  let groupBy := keyItems.map (·.alias)
  -- collect_aggregate_calls: one `__agg_i` per distinct aggregate expression
  let aggs : List (AggFn × String) := items.foldl (fun (acc : List (AggFn × String)) it =>
    match it.expr with
    | .agg k a =>
      let f : AggFn := ⟨k, if k == .countStar then .lit .null else a⟩
      if acc.any (·.1 == f) then acc else acc ++ [(f, "__agg_" ++ toString acc.length)]
    | .plain _ => acc) []
  let pre := aggs.foldl (fun (pre : List (String × Expr)) (f, _) =>
    if f.kind == .countStar then pre else
    f.arg.vars.foldl (fun pre v => if pre.any (·.1 == v) then pre else pre ++ [(v, .var v)]) pre) pre0
  let final : List (String × Expr) := items.map fun it =>
    match it.expr with
    | .agg k a =>
      let f : AggFn := ⟨k, if k == .countStar then .lit .null else a⟩
      (it.alias, .var ((aggs.find? (·.1 == f)).map (·.2) |>.getD "__agg_?"))
    | .plain _ => (it.alias, .var it.alias)
  let plan := if pre.isEmpty then input else .project input pre
  return (.project (.aggregate plan groupBy aggs) final, aliases)

/-- projection_compile.rs `rewrite_order_expression` -/
def rewriteOrder (bindings : List (Expr × String)) (e : Expr) : Expr :=
  match bindings.find? (·.1 == e) with
  | some (_, a) => .var a
  | none => match e with
    | .cmp op a b => .cmp op (rewriteOrder bindings a) (rewriteOrder bindings b)
    | .bool op a b => .bool op (rewriteOrder bindings a) (rewriteOrder bindings b)
    | .not a => .not (rewriteOrder bindings a)
    | .isNull a => .isNull (rewriteOrder bindings a)
    | .isNotNull a => .isNotNull (rewriteOrder bindings a)
    | e => e

def sortDedup (xs : List String) : List String :=
  (xs.foldl (fun (m : List (String × Unit)) a => insertSorted m a ()) []).map (·.1)

/-- return_with.rs `validate_skip_or_limit_expression` on a literal -/
def validateWindow : Lit → Except Err Unit
  | .int i => if i < 0 then .error .syntax else .ok ()
  | _ => .error .syntax

def pushProjections (plan : Plan) (names : List String) : Plan :=
  match plan with
  | .project i ps => if names.isEmpty then plan else .project i (ps ++ names.map fun n => (n, .var n))
  | p => p

/-- return_with.rs `compile_with_plan` / `compile_return_plan` (the latter has no WHERE) -/
def compileProj (input : Plan) (p : Proj) (wher : Option Expr) : Except Err Plan := do
  let hasAgg := p.items.any isAggItem
  let inputKinds := outKinds input
  let (plan0, cols) ← compileProjection input p.items
  let mut plan := plan0
  match wher with
  | some w =>
    let whereKinds := (outKinds plan) ++ (if hasAgg then [] else inputKinds)
    exprVarsOk whereKinds w
    let pass := if hasAgg then [] else
      sortDedup (w.vars.filter fun n => !cols.contains n && (inputKinds.lookup n).isSome)
    plan := pushProjections plan pass
    plan := .filter plan w
    if !pass.isEmpty then plan := .project plan (cols.map fun c => (c, .var c))
  | none => pure ()
  -- DISTINCT applies to the projected rows, before ORDER BY / SKIP / LIMIT (fix ceade13)
  if p.distinct then plan := .distinct plan
  if !p.orderBy.isEmpty then
    let bindings := p.items.map fun it => (itemExprOf it.expr, it.alias)
    let items := p.orderBy.map fun (e, asc) => (rewriteOrder bindings e, asc)
    let pass := if hasAgg || p.distinct then [] else
      sortDedup ((items.flatMap (·.1.vars)).filter fun n => !cols.contains n && (inputKinds.lookup n).isSome)
    plan := pushProjections plan pass
    -- validate_order_by_scope
    let scope := cols ++ pass ++ (if p.distinct then [] else p.items.flatMap fun it => (itemExprOf it.expr).vars)
    if !(items.all fun (e, _) => e.vars.all scope.contains) then throw .syntax
    plan := .orderBy plan items
    if !pass.isEmpty then plan := .project plan (cols.map fun c => (c, .var c))
  match p.skip with
  | some n => validateWindow n; plan := .skip plan n
  | none => pure ()
  match p.limit with
  | some n => validateWindow n; plan := .limit plan n
  | none => pure ()
  return plan

/-! ### the clause loop -/

structure Loop where
  plan : Option Plan := none
  st : St := {}
  pending : Option (Plan × List String) := none       -- pending_optional_where_fixup

/-- compile_core.rs `compile_m3_plan` -/
def compileClauses : Query → Loop → Except Err Plan
  | [], l => match l.plan with | some p => .ok p | none => .error .notimpl
  | .match_ opt pats :: rest, l => do
    let preds := match rest with | .where_ w :: _ => extractPredicates w [] | _ => []
    let previous := l.plan.getD .returnOne
    let before := match l.plan with | some p => outKinds p | none => []
    let (plan, st) ← compileMatch l.plan pats preds l.st
    if opt then
      let aliases := optionalAliases pats before (outKinds plan)
      match rest with
      | .where_ _ :: _ => compileClauses rest { plan := some plan, st, pending := some (previous, aliases) }
      | _ => compileClauses rest { plan := some (.optionalWhereFixup previous plan aliases), st }
    else compileClauses rest { plan := some plan, st }
  | .where_ w :: rest, l => do
    let some plan := l.plan | throw .other
    let kinds := outKinds plan ++ (match l.pending with | some (_, as) => as.map (·, Kind.unknown) | none => [])
    exprVarsOk kinds w
    let filtered := Plan.filter plan w
    match l.pending with
    | some (outer, aliases) =>
      compileClauses rest { plan := some (.optionalWhereFixup outer filtered aliases), st := l.st }
    | none => compileClauses rest { plan := some filtered, st := l.st }
  | .with_ p w :: rest, l => do
    let plan ← compileProj (l.plan.getD .returnOne) p w
    compileClauses rest { plan := some plan, st := l.st }
  | .unwind e x :: rest, l =>
    compileClauses rest { plan := some (.unwind (l.plan.getD .returnOne) e x), st := l.st }
  | .return_ p :: rest, l => do
    let plan ← compileProj (l.plan.getD .returnOne) p none
    if rest.isEmpty then return plan else throw .notimpl

def compile (q : Query) : Except Err Plan := compileClauses q {}

end Nervus.Cy.Compile
