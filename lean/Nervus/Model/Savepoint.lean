/-
  Nervus.Model.Savepoint — how a write transaction takes back the staged writes of a failed statement (C13).
  Mirrors nervusdb-storage/src/engine.rs WriteTxn::{savepoint, rollback_to}: today a *copy* of the staged MemTable
  is kept and put back (`Generated.txnSavepointMechanism`).  An undo journal is the other way to do it: every staged
  write records the previous content of the slot it touches; the savepoint is a journal position; rolling back
  replays the recorded entries.  Slots are abstract here (a node property, an edge property, a label, an edge's
  multiplicity, a tombstone flag): a slot id and an optional value.  Core only.
-/
import Nervus.Model.Generated.TxnSavepoint
namespace Nervus.Savepoint

/-- staged state: slot ↦ content (`none` = nothing staged for the slot) -/
abbrev Store := Nat → Option Nat

def write (σ : Store) (slot : Nat) (v : Option Nat) : Store := fun k => if k = slot then v else σ k

/-- a statement's staged writes, in the order they are made -/
abbrev Writes := List (Nat × Option Nat)

def applyWrites (σ : Store) : Writes → Store
  | [] => σ
  | (s, v) :: ws => applyWrites (write σ s v) ws

/-- clone-based savepoint: keep the state, put it back -/
def restoreClone (saved _current : Store) : Store := saved

/-- the journal a statement leaves: for every write the slot and its PREVIOUS content, oldest entry first -/
def journal (σ : Store) : Writes → List (Nat × Option Nat)
  | [] => []
  | (s, v) :: ws => (s, σ s) :: journal (write σ s v) ws

/-- replay a list of journal entries in the order given -/
def replay (σ : Store) (entries : List (Nat × Option Nat)) : Store := entries.foldl (fun σ e => write σ e.1 e.2) σ

/-- the correct undo: newest entry first -/
def undoNewestFirst (current : Store) (j : List (Nat × Option Nat)) : Store := replay current j.reverse
/-- the faulty undo: oldest entry first -/
def undoOldestFirst (current : Store) (j : List (Nat × Option Nat)) : Store := replay current j

end Nervus.Savepoint
