/-
  Model/Triggers.lean — decidable trigger predicates of the known findings of C04, C05, C07
  (history-level; those of C05 look at the engine state a compaction starts from).
  The `…_partial` theorems take exactly the negations as hypotheses; the driver prints the ids.
  core/Std imports only.
-/
import Nervus.Model.EngineRun
import Nervus.Spec.History
namespace Nervus.StorageTriggers
open Nervus.Storage Nervus.GraphSpec

/-! ### C04 -/

/-- a transaction deletes a relationship and creates it again -/
def txRecreates : List TxOp → Bool
  | [] => false
  | .tombEdge s t d :: ops => ops.contains (.edge s t d) || txRecreates ops
  | _ :: ops => txRecreates ops

def isLabelOp : TxOp → Bool
  | .labelAdd _ _ => true
  | .labelDel _ _ => true
  | _ => false

def isCheckpointing : Op → Bool
  | .compact => true
  | .close => true
  | _ => false

/-- a committed label change of an existing node is followed by a checkpoint (compact / close) -/
def labelChangeThenCheckpoint : List Op → Bool
  | [] => false
  | .tx ops true :: h => (ops.any isLabelOp && h.any isCheckpointing) || labelChangeThenCheckpoint h
  | _ :: h => labelChangeThenCheckpoint h

def tombBeforeCreate (c : Cfg) : Bool :=
  c.commitOrder.idxOf .tombstoneEdge < c.commitOrder.idxOf .createEdge

/-- commit logs CreateEdge before TombstoneEdge and some committed transaction re-creates a relationship -/
def trigRecreate (c : Cfg) (h : List Op) : Bool :=
  !tombBeforeCreate c && anyCommitted (fun _ => txRecreates) {} h

def c04TriggerList (c : Cfg) (h : List Op) : List String :=
  (if trigRecreate c h then ["C04-recreate-in-one-tx-lost-on-reopen"] else []) ++
  (if labelChangeThenCheckpoint h then ["C04-label-change-lost-after-checkpoint"] else []) ++
  (if trigExtZero h then ["C04-external-id-zero-not-indexed-on-reload"] else [])

def c04Triggers (c : Cfg) (h : List Op) : String := " ".intercalate (c04TriggerList c h)

/-! ### C05 (state a compaction starts from) -/

def segEdges (s : Engine) : List Edge := s.segs.flatMap (·.expand)

/-- compaction drops the runs and with them every node tombstone -/
def dropsNodeTombstone (s : Engine) : Bool := s.runs.any (fun r => !r.tombNodes.isEmpty)

/-- an edge tombstone in the runs hides an edge that sits in an older segment -/
def dropsEdgeTombstone (s : Engine) : Bool :=
  s.runs.any (fun r => r.tombEdges.any (fun e => (segEdges s).contains e))

def storeHasN (s : Engine) (k : Nat × Nat) : Bool := s.store.any (·.1 == SKey.node k.1 k.2)
def storeHasE (s : Engine) (k : Edge × Nat) : Bool := s.store.any (·.1 == SKey.edge k.1 k.2)

/-- a removed property key still has a value in an older run or in the store: property sinking
    ignores removals, and reads fall through to the store -/
def removalOverValue : List Run → (Nat × Nat → Bool) → (Edge × Nat → Bool) → Bool
  | [], _, _ => false
  | r :: rs, sn, se =>
    r.nDel.any (fun k => sn k || rs.any (fun o => o.nprops.any (·.1 == k))) ||
    r.eDel.any (fun k => se k || rs.any (fun o => o.eprops.any (·.1 == k))) ||
    removalOverValue rs sn se

def dropsPropRemoval (s : Engine) : Bool := removalOverValue s.runs (storeHasN s) (storeHasE s)

/-- a key that is already in the store is sunk again: the whole-map read then returns the OLDEST entry -/
def sinksKeyTwice (s : Engine) : Bool :=
  s.runs.any (fun r => r.nprops.any (fun p => storeHasN s p.1) || r.eprops.any (fun p => storeHasE s p.1))

/-- a run holds an edge together with its own tombstone (delete + re-create in one transaction) -/
def ownTombstone (s : Engine) : Bool := s.runs.any (fun r => r.tombEdges.any r.edges.contains)

/-- a run holds an edge and the tombstone of one of its end nodes -/
def ownNodeTombstone (s : Engine) : Bool :=
  s.runs.any (fun r => r.edges.any (fun e => r.tombNodes.contains e.src || r.tombNodes.contains e.dst))

def edgeFree (c : Cfg) (s : Engine) : Bool :=
  !s.runs.isEmpty && (collectRunEdges (!c.compactOwnLast) s.runs [] []).isEmpty

/-- triggers that hold when a compaction starts from `s` -/
def compactTriggers (c : Cfg) (s : Engine) : List String :=
  if s.runs.isEmpty then [] else
  (if dropsNodeTombstone s then ["C05-compact-drops-node-tombstone"] else []) ++
  (if dropsEdgeTombstone s then ["C05-compact-drops-edge-tombstone"] else []) ++
  (if dropsPropRemoval s then ["C05-compact-drops-property-removal"] else []) ++
  (if sinksKeyTwice s then ["C05-whole-map-read-returns-oldest-sunk-value"] else []) ++
  (if !c.compactOwnLast && ownTombstone s then ["C05-compact-drops-recreated-edge"] else []) ++
  (if ownNodeTombstone s then ["C05-edge-and-endpoint-delete-in-one-tx"] else []) ++
  (if !c.csrGuard && edgeFree c s then ["C05-edge-free-segment-panics"] else [])

/-- triggers visible without a further compaction: a removal over a value that is in the store -/
def stateTriggers (s : Engine) : List String :=
  if s.runs.any (fun r => r.nDel.any (storeHasN s) || r.eDel.any (storeHasE s))
  then ["C05-compact-drops-property-removal"] else []

def c05Scan (c : Cfg) : Engine → List Op → List String
  | s, [] => stateTriggers s
  | s, op :: h =>
    let here := (match op with | .compact => compactTriggers c s | _ => []) ++ stateTriggers s
    match runOp c s op with
    | .ok s' => here ++ c05Scan c s' h
    | .error _ => here

def c05TriggerList (c : Cfg) (h : List Op) : List String := Nervus.GraphSpec.dedup (c05Scan c {} h)

def c05Triggers (c : Cfg) (h : List Op) : String := " ".intercalate (c05TriggerList c h)

/-! ### C07 -/

def hasVec (ops : List TxOp) : Bool := ops.any (fun o => match o with | .vec _ _ => true | _ => false)

/-- an abandoned transaction wrote a vector (and `set_vector` writes through) -/
def trigAbortedVec (c : Cfg) (h : List Op) : Bool :=
  !c.vecStaged && h.any (fun o => match o with | .tx ops false => hasVec ops | _ => false)

def c07Triggers (c : Cfg) (h : List Op) : String :=
  if trigAbortedVec c h then "C07-set-vector-writes-through" else ""

end Nervus.StorageTriggers
