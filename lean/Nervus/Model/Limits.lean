/-
  Limits and consumption accounting for the operator model.

  * `Opts` = `ExecuteOptions`; `collFails` / `applyFails` / `rowLimitFor` mirror
    `Params::check_collection_size`, `check_apply_rows_per_outer`, `note_emitted_row`
    (query_api.rs) with the defaults and the default-profile relaxations regenerated from the
    source (Generated/Limits.lean).  `LimEnv.ofOpts` packages them for `runL`; the row-budget and
    clock verdicts stay oracles (one global counter, wall clock).
  * `trace` = every item that is handed from one iterator to its consumer while the root
    iterator answers `d` calls of `next()` (demand-driven: what the query CONSUMES), computed from
    `Trans.need`.  `emittedRows` = the number of `Ok` rows handed to guard iterators = the value of
    `ExecutionRuntimeState::emitted_rows` (validated against the engine through a verif hook).
  core-only imports.
-/
import Nervus.Model.PlanOps
import Nervus.Model.Generated.Limits
namespace Nervus.PlanOps

/-- `ExecuteOptions` (query_api.rs) -/
structure Opts where
  maxRows : Nat
  maxColl : Nat
  timeoutMs : Nat
  maxApply : Nat
  deriving DecidableEq, Repr

/-- `ExecuteOptions::default()` -/
def Opts.default : Opts :=
  ⟨Generated.defaultMaxIntermediateRows, Generated.defaultMaxCollectionItems,
   Generated.defaultSoftTimeoutMs, Generated.defaultMaxApplyRowsPerOuter⟩

/-- `ResourceLimitKind` -/
inductive LimitKind where
  | rows | coll | time | apply
  deriving DecidableEq, Repr

/-- the effective collection limit of `check_collection_size(stage, _)` -/
def collLimitFor (o : Opts) (stage : String) : Nat :=
  if o.maxColl == Generated.defaultMaxCollectionItems && Generated.relaxedCollStages.contains stage
  then max o.maxColl Generated.relaxedCollLimit else o.maxColl

/-- `check_collection_size` fails: `observed > limit` -/
def collFails (o : Opts) (stage : String) (observed : Nat) : Bool := observed > collLimitFor o stage

/-- the effective row budget of `note_emitted_row(stage)` -/
def rowLimitFor (o : Opts) (stage : String) : Nat :=
  if o.maxRows == Generated.defaultMaxIntermediateRows && Generated.relaxedRowStages.contains stage
  then max o.maxRows Generated.relaxedRowLimit else o.maxRows

/-- `check_apply_rows_per_outer` fails -/
def applyFails (o : Opts) (observed : Nat) : Bool := observed > o.maxApply

/-- the limit environment of an execution under `o`: size checks are exact, the row budget and
    the clock are the given oracles (`mk` builds the `ResourceLimitExceeded` error) -/
def LimEnv.ofOpts {ε : Type} (mk : LimitKind → ε) (o : Opts)
    (rowFires timeFires : Site → Nat → Bool) : LimEnv ε where
  coll stage n := if collFails o stage n then some (mk .coll) else none
  apply n := if applyFails o n then some (mk .apply) else none
  row site i := if rowFires site i then some (mk .rows) else none
  time site i := if o.timeoutMs != 0 && timeFires site i then some (mk .time) else none

/-! ## what is consumed -/

/-- an item handed over between two iterators; `toGuard` = from a node's operator to its guard;
    `late` = an `Err` had been handed over at the same place before this item (the consumer pulled
    again after it had received an error) -/
structure Handed (ε ρ : Type) where
  toGuard : Bool
  item : Except ε ρ
  late : Bool
  deriving DecidableEq

section trace
variable {χ ρ ν ε κ α : Type} [DecidableEq κ]

def handedFrom (toGuard : Bool) : Bool → Stream ε ρ → List (Handed ε ρ)
  | _, [] => []
  | seen, x :: xs => ⟨toGuard, x, seen⟩ :: handedFrom toGuard (seen || !Item.isOk x) xs

/-- the items handed over at one place, in order -/
def handed (toGuard : Bool) (s : Stream ε ρ) : List (Handed ε ρ) := handedFrom toGuard false s

/-- demand of the driver's `collect`: every item through the first `Err`, or all items and the end -/
def driverDemand (s : Stream ε ρ) : Nat :=
  if allOk s then s.length + 1 else collectDemand s

/-- the batches of a per-row expansion that are touched while `d` items are demanded:
    (index, outer row, demand on the batch) — the next outer row is pulled only when the demand
    exceeds what the batches so far have yielded -/
def batches (g : Nat → ρ → Stream ε ρ) : Nat → Stream ε ρ → Nat → List (Nat × ρ × Nat)
  | _, [], _ => []
  | k, x :: xs, d =>
    if d = 0 then []
    else match x with
      | .error _ => batches g (k + 1) xs (d - 1)
      | .ok r => (k, r, d) :: batches g (k + 1) xs (d - (g k r).length)

/-- a node with one input: items the guard takes from the operator, items the operator takes from
    the child's guard, and whatever the child consumes for that -/
def unaryTrace {σ : Type} (L : LimEnv ε) (site : Site) (t : Trans σ ε ρ) (st : σ) (c : Stream ε ρ)
    (childTrace : Nat → List (Handed ε ρ)) (pre : Nat) (d : Nat) : List (Handed ε ρ) :=
  let d1 := guardNeed L site (t.run st c) d
  let d2 := t.need st c (max d1 pre)
  handed true ((t.run st c).take d1) ++ handed false (c.take d2) ++ childTrace d2

/-- the same for an operator that can park failures: every failure parked while the pulled rows
    were processed counts as an error handed to the node's guard -/
def parkTrace {σ : Type} (L : LimEnv ε) (site : Site) (t : Trans σ ε ρ) (parks : σ → Except ε ρ → Option ε)
    (flushParks : σ → Option ε) (drop : Bool) (st : σ) (c : Stream ε ρ)
    (childTrace : Nat → List (Handed ε ρ)) (pre : Nat) (d : Nat) : List (Handed ε ρ) :=
  unaryTrace L site (parkT t parks flushParks drop) (st, none) c childTrace pre d ++
    (parkEvents t parks flushParks st c (guardNeed L site ((parkT t parks flushParks drop).run (st, none) c) d)).map
      (fun e => ⟨true, .error e, false⟩)

/-- `execute_order_by` / `execute_aggregate` drain their input when the iterator tree is BUILT
    (`execute_plan`), before anything is demanded of them: with `eager` the accounting includes that
    (the engine's row counter does); without it the accounting is purely demand-driven (what the
    query's RESULT depends on — the notion of "consumed" of C22) -/
def eagerPre (eager : Bool) : Nat := if eager then 1 else 0

/-- a node whose body does not touch any input (leaf, or SKIP/LIMIT with a failing argument) -/
def leafTrace (L : LimEnv ε) (site : Site) (body : Stream ε ρ) (d : Nat) : List (Handed ε ρ) :=
  handed true (body.take (guardNeed L site body d))

/-- everything handed over below (and at) the node `p` while its iterator answers `d` calls
    (`eager`: see `eagerPre`) -/
def trace (eager : Bool) (S : Sem χ ρ ν ε κ α) (Q : Quirks) (L : LimEnv ε) :
    Site → ρ → Plan χ ρ ε α → Nat → List (Handed ε ρ)
  | site, _, .scan rows, d => leafTrace L site (rows.map .ok) d
  | site, _, .fail e, d => leafTrace L site [.error e] d
  | site, env, .arg, d => leafTrace L site [.ok env] d
  | site, env, .indexSeek key value fb, d =>
    let c := runL S Q L (.left site) env fb
    let body := parkHead (S.park L.coll value env S.empty) Q.guardDropsFailureAtEnd (seekBody S L env key value c)
    let d1 := guardNeed L site body d
    -- the failure parked while the seek value was evaluated is handed to the guard on its first pull
    handed true (body.take d1) ++
      (if d1 = 0 then [] else (S.park L.coll value env S.empty).toList.map (fun e => ⟨true, .error e, false⟩)) ++
      (match S.eval L.coll value env S.empty with
       | .error _ => []
       | .ok v =>
         match S.lookup key v with
         | some _ => []
         | none => handed false (c.take d1) ++ trace eager S Q L (.left site) env fb d1)
  | site, env, .filter pred inp, d =>
    unaryTrace L site (dropErrT (Q.dropsErr .filter) (filterT S Q L env pred)) () (runL S Q L (.left site) env inp)
      (trace eager S Q L (.left site) env inp) 0 d
  | site, env, .filterExists sub inp, d =>
    let g := fun k r => existsRow Q r (runL S Q L (.exec k site) (S.bind env r) sub)
    let c := runL S Q L (.left site) env inp
    unaryTrace L site (dropErrT (Q.dropsErr .filter) (flatMapT g)) 0 c (trace eager S Q L (.left site) env inp) 0 d ++
      ((batches g 0 c (guardNeed L site ((dropErrT (Q.dropsErr .filter) (flatMapT g)).run 0 c) d)).map (fun b =>
        trace eager S Q L (.exec b.1 site) (S.bind env b.2.1) sub 1)).flatten
  | site, env, .project projs inp, d =>
    parkTrace L site (dropErrT (Q.dropsErr .project) (projectT S L env projs)) (rowParks S L env (projs.map (·.2))) noFlushParks
      Q.guardDropsFailureAtEnd () (runL S Q L (.left site) env inp) (trace eager S Q L (.left site) env inp) 0 d
  | site, env, .distinct inp, d =>
    unaryTrace L site (distinctT S Q.distinctDropsErr) [] (runL S Q L (.left site) env inp)
      (trace eager S Q L (.left site) env inp) 0 d
  | site, env, .unwind e alias inp, d =>
    parkTrace L site (dropErrT (Q.dropsErr .unwind) (flatMapT (unwindRow S L site env e alias))) (rowParks S L env [e]) noFlushParks
      Q.guardDropsFailureAtEnd 0 (runL S Q L (.left site) env inp) (trace eager S Q L (.left site) env inp) 0 d
  | site, env, .expand kind g inp, d =>
    unaryTrace L site (dropErrT (Q.dropsErr kind.op) (flatMapT (fun _ r => g r))) 0 (runL S Q L (.left site) env inp)
      (trace eager S Q L (.left site) env inp) 0 d
  | site, env, .procedureCall name args inp, d =>
    parkTrace L site (dropErrT (Q.dropsErr .procedureCall) (flatMapT (fun _ r => procRow S L env name args r)))
      (rowParks S L env args) noFlushParks
      Q.guardDropsFailureAtEnd 0 (runL S Q L (.left site) env inp) (trace eager S Q L (.left site) env inp) 0 d
  | site, env, .fixup nulls outer filtered, d =>
    -- both inputs are drained when the iterator is built (like OrderBy / Aggregate): without
    -- `eager` they are accounted for as soon as one item is demanded of the node
    let c1 := runL S Q L (.left site) env outer
    let c2 := runL S Q L (.right site) env filtered
    let lo := dropErrT (ρ := ρ) (Q.dropsErr .fixupOuter) (loopT L (.inner site) "OptionalWhereFixup.outer")
    let lf := dropErrT (ρ := ρ) (Q.dropsErr .fixupFiltered) (loopT L (.inner (.inner site)) "OptionalWhereFixup.filtered")
    let body := fixupBody S Q L site nulls c1 c2
    let d1 := guardNeed L site body d
    if max d1 (eagerPre eager) = 0 then []
    else
      let d2 := lo.need ⟨0, 0, false⟩ c1 (driverDemand (lo.run ⟨0, 0, false⟩ c1))
      handed true (body.take d1) ++ handed false (c1.take d2) ++ trace eager S Q L (.left site) env outer d2 ++
        (if allOk (lo.run ⟨0, 0, false⟩ c1) then
           let d3 := lf.need ⟨0, 0, false⟩ c2 (driverDemand (lf.run ⟨0, 0, false⟩ c2))
           handed false (c2.take d3) ++ trace eager S Q L (.right site) env filtered d3
         else [])
  | site, env, .skip n inp, d =>
    (match S.window n env with
     | .error e => leafTrace L site [.error e] d
     | .ok k => unaryTrace L site (skipT Q.skipDropsErr) k (runL S Q L (.left site) env inp)
         (trace eager S Q L (.left site) env inp) 0 d)
  | site, env, .limit n inp, d =>
    (match S.window n env with
     | .error e => leafTrace L site [.error e] d
     | .ok k => unaryTrace L site limitT k (runL S Q L (.left site) env inp)
         (trace eager S Q L (.left site) env inp) 0 d)
  | site, env, .orderBy keys inp, d =>
    parkTrace L site (orderByT S Q L site env keys) (fun _ _ => none) (orderByFlushParks S L env keys)
      Q.guardDropsFailureAtEnd ⟨[], 0, false⟩ (runL S Q L (.left site) env inp)
      (trace eager S Q L (.left site) env inp) (eagerPre eager) d
  | site, env, .aggregate groupBy aggs inp, d =>
    parkTrace L site (dropErrT (Q.dropsErr .aggregate) (aggregateT S L site env groupBy aggs)) (fun _ _ => none) (aggregateFlushParks S L env aggs)
      Q.guardDropsFailureAtEnd ⟨[], 0, false⟩ (runL S Q L (.left site) env inp)
      (trace eager S Q L (.left site) env inp) (eagerPre eager) d
  | site, env, .union all l r, d =>
    let cl := runL S Q L (.left site) env l
    let cr := runL S Q L (.right site) env r
    if all then
      let d1 := guardNeed L site (cl ++ cr) d
      handed true ((cl ++ cr).take d1) ++
        trace eager S Q L (.left site) env l d1 ++ trace eager S Q L (.right site) env r (d1 - cl.length)
    else
      let t := distinctT (ρ := ρ) S Q.unionDropsErr
      let d1 := guardNeed L site (t.run [] (cl ++ cr)) d
      let d2 := t.need [] (cl ++ cr) d1
      handed true ((t.run [] (cl ++ cr)).take d1) ++ handed false ((cl ++ cr).take d2) ++
        trace eager S Q L (.left site) env l d2 ++ trace eager S Q L (.right site) env r (d2 - cl.length)
  | site, env, .cartesian l r, d =>
    let g := fun k lrow => (dropErrs (Q.dropsErr .cartesianRight) (runL S Q L (.exec k site) env r)).map (joinItem S lrow)
    let c := runL S Q L (.left site) env l
    let t := dropErrT (Q.dropsErr .cartesianLeft) (flatMapT g)
    unaryTrace L site t 0 c (trace eager S Q L (.left site) env l) 0 d ++
      ((batches g 0 c (guardNeed L site (t.run 0 c) d)).map (fun b =>
        trace eager S Q L (.exec b.1 site) env r b.2.2)).flatten
  | site, env, .apply inp sub, d =>
    (match L.time (.inner site) 0 with
     | some e => leafTrace L site [.error e] d
     | none =>
       let g := fun k r => applyRow S L site k r (dropErrs (Q.dropsErr .applySub) (runL S Q L (.exec k site) (S.bind env r) sub))
       let c := runL S Q L (.left site) env inp
       let t := dropErrT (Q.dropsErr .apply) (flatMapT g)
       unaryTrace L site t 0 c (trace eager S Q L (.left site) env inp) 0 d ++
         ((batches g 0 c (guardNeed L site (t.run 0 c) d)).map (fun b =>
           trace eager S Q L (.exec b.1 site) (S.bind env b.2.1) sub
             (driverDemand (runL S Q L (.exec b.1 site) (S.bind env b.2.1) sub)))).flatten)

/-- `ExecutionRuntimeState::emitted_rows` after the driver's `collect`: `Ok` rows handed to guards -/
def emittedRows (S : Sem χ ρ ν ε κ α) (Q : Quirks) (L : LimEnv ε) (params : ρ) (p : Plan χ ρ ε α) : Nat :=
  ((trace true S Q L .root params p (driverDemand (runL S Q L .root params p))).filter
    (fun h => h.toGuard && Item.isOk h.item)).length

end trace

end Nervus.PlanOps
