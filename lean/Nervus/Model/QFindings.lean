/-
  Decidable trigger predicates of the known findings of C11 (one per line of known_findings.jsonl).
  `NoKnownTrigger` = none of them holds; it is the extra hypothesis of `C11_partial`.
-/
import Nervus.Model.QCompile
import Nervus.Model.QExec
namespace Nervus.Cy.Findings
open Nervus.Cy

def hasParallel (g : Graph) : Bool := g.rels.any (·.mult ≥ 2)

def matchClauses (q : Query) : List (Bool × List PathPat) :=
  q.filterMap fun | .match_ o ps => some (o, ps) | _ => none

/-- C11-parallel-rel-reuse: a relationship identity with ≥ 2 copies and a pattern chain with ≥ 2 relationship
    elements (path_usage.rs lets an identity be re-used until its copies are used up) -/
def parallelReuse (g : Graph) (q : Query) : Bool :=
  hasParallel g && (matchClauses q).any fun (_, ps) => ps.any (·.steps.length ≥ 2)

/-- C11-cross-pattern-rel-uniqueness: one MATCH clause with ≥ 2 comma-separated patterns that each contain a
    relationship (uniqueness is tracked per chain only) -/
def crossPattern (q : Query) : Bool :=
  (matchClauses q).any fun (_, ps) => (ps.filter (!·.steps.isEmpty)).length ≥ 2

def hasDup : Table → Bool
  | [] => false
  | r :: rest => rest.contains r || hasDup rest

/-- the `outer` tables of all OptionalWhereFixup nodes of a plan -/
def optionalOuters (A : Algebra) (env : Env) : Plan → List Table
  | .optionalWhereFixup o f _ =>
    (match Exec.exec A env o with | .ok t => [t] | .error _ => []) ++ optionalOuters A env o ++ optionalOuters A env f
  | .matchOut i .. => optionalOuters A env i
  | .matchIn i .. => optionalOuters A env i
  | .matchUndirected i .. => optionalOuters A env i
  | .filter i _ => optionalOuters A env i
  | .project i _ => optionalOuters A env i
  | .aggregate i _ _ => optionalOuters A env i
  | .orderBy i _ => optionalOuters A env i
  | .skip i _ => optionalOuters A env i
  | .limit i _ => optionalOuters A env i
  | .distinct i => optionalOuters A env i
  | .unwind i _ _ => optionalOuters A env i
  | .indexSeek _ _ _ _ fb => optionalOuters A env fb
  | .cartesianProduct l r => optionalOuters A env l ++ optionalOuters A env r
  | _ => []

/-- C11-optional-duplicate-outer-rows: the rows entering an OPTIONAL MATCH contain two equal rows
    (OptionalWhereFixup re-associates matches to outer rows by value) -/
def optionalDupOuter (A : Algebra) (env : Env) (q : Query) : Bool :=
  match Compile.compile q with
  | .ok plan => (optionalOuters A env plan).any hasDup
  | .error _ => false

def projections (q : Query) : List Proj :=
  q.filterMap fun | .with_ p _ => some p | .return_ p => some p | _ => none

/-- C11-order-by-alias-shadow: a WITH / RETURN with ORDER BY gives a new meaning to a name that another item still
    reads (`WITH x AS y, y AS x ORDER BY x`): `rewrite_order_expression` replaces an ORDER BY expression equal to a
    projected expression by that item's alias, although the name now denotes a different output column -/
def orderAliasShadow (q : Query) : Bool :=
  (projections q).any fun p => !p.orderBy.isEmpty && p.items.any fun it =>
    it.expr != .plain (.var it.alias) &&
      p.items.any fun it' => (Compile.itemExprOf it'.expr).vars.contains it.alias

def nodeVarsOf (pats : List PathPat) : List String :=
  pats.flatMap fun p => p.start.var.toList ++ p.steps.flatMap fun (_, np) => np.var.toList

/-- C11-match-null-bound-variable: a MATCH pattern names a node variable that an earlier OPTIONAL MATCH introduced
    (so it may be null): the planner joins on the bound variable with a label filter `v IS NULL OR v:L` and keeps the
    row, where the reference (and openCypher) finds no match for a null node -/
def nullBoundMatch (q : Query) : Bool :=
  let rec go (optVars : List String) : Query → Bool
    | [] => false
    | .match_ opt pats :: rest =>
      (nodeVarsOf pats).any optVars.contains ||
        go (if opt then optVars ++ nodeVarsOf pats else optVars) rest
    | .with_ p _ :: rest => go (optVars.filter fun v => p.items.any fun it => it.expr == .plain (.var v) && it.alias == v) rest
    | _ :: rest => go optVars rest
  go [] q

def triggers (A : Algebra) (env : Env) (q : Query) : List String :=
  (if parallelReuse env.g q then ["C11-parallel-rel-reuse"] else []) ++
  (if crossPattern q then ["C11-cross-pattern-rel-uniqueness"] else []) ++
  (if optionalDupOuter A env q then ["C11-optional-duplicate-outer-rows"] else []) ++
  (if orderAliasShadow q then ["C11-order-by-alias-shadow"] else []) ++
  (if nullBoundMatch q then ["C11-match-null-bound-variable"] else [])

end Nervus.Cy.Findings
