/-
  Nervus.Model.LockLTS — threads acquiring non-re-entrant locks according to an
  acquisition relation, and the finite check "no feasible cycle".

  mirrors the locking discipline of nervusdb-storage/src/engine.rs, api.rs, nervusdb/src/lib.rs and
  nervusdb-capi/src/lib.rs: every `x.lock()` / `x.read()` / `x.write()` site is an acquisition
  `(held, want)`: the set of locks the thread already holds there and the lock it asks for
  (table `Generated.LockOrder`, regenerated from the source).  `std::sync::Mutex` is not re-entrant;
  `RwLock` is treated as exclusive (a reader queued behind a waiting writer blocks like a writer, so a
  read lock is not safely re-entrant either).  Locks are numbered `0 … nLocks-1`.
-/
namespace Nervus.LockLTS

/-- one acquisition site: asks for `want` while holding exactly the set `held` -/
structure Acq where
  held : List Nat
  want : Nat
  deriving DecidableEq, Repr

structure TState where
  held : List Nat
  wait : Option Nat        -- `some l`: blocked in `l.lock()`

/-- any number of threads -/
abbrev State := Nat → TState

def upd (s : State) (t : Nat) (x : TState) : State := fun u => if u = t then x else s u

def SameSet (a b : List Nat) : Prop := ∀ x, x ∈ a ↔ x ∈ b

/-- atomic steps: a thread calls `lock()` at a site of the relation (and blocks), the lock is
    granted when nobody holds it, a running thread drops a guard -/
inductive Step (A : List Acq) : State → State → Prop where
  | request (s : State) (t : Nat) (a : Acq) :
      (s t).wait = none → a ∈ A → SameSet a.held (s t).held →
      Step A s (upd s t { held := (s t).held, wait := some a.want })
  | grant (s : State) (t l : Nat) :
      (s t).wait = some l → (∀ u, l ∉ (s u).held) →
      Step A s (upd s t { held := l :: (s t).held, wait := none })
  | release (s : State) (t l : Nat) :
      (s t).wait = none →
      Step A s (upd s t { held := (s t).held.filter (· ≠ l), wait := none })

def init : State := fun _ => { held := [], wait := none }

/-- reachability: any number of threads, any interleaving, any length -/
inductive Reach (A : List Acq) : State → Prop where
  | init : Reach A init
  | step {s s'} : Reach A s → Step A s s' → Reach A s'

/-- `t` is blocked on a lock that `u` holds -/
def WaitsFor (s : State) (t u : Nat) : Prop := ∃ l, (s t).wait = some l ∧ l ∈ (s u).held

/-- `cur → u₁ → … → uₖ → first` in the wait-for graph -/
def waitChain (s : State) (cur : Nat) : List Nat → Nat → Prop
  | [], first => WaitsFor s cur first
  | u :: rest, first => WaitsFor s cur u ∧ waitChain s u rest first

/-- a cycle of distinct threads in the wait-for graph (length 1 = a thread waiting for a lock it
    holds itself) -/
def WaitCycle (s : State) : List Nat → Prop
  | [] => False
  | t :: rest => (t :: rest).Nodup ∧ waitChain s t rest t

/-- a set of threads that wait on each other forever -/
def Deadlock (s : State) : Prop := ∃ ts, WaitCycle s ts

/-- `u` can take a step: it is running (it can release a guard, or return), or it is blocked on a lock
    that nobody holds (the `grant` step is enabled) -/
def Runnable (s : State) (u : Nat) : Prop :=
  (s u).wait = none ∨ ∃ l, (s u).wait = some l ∧ ∀ v, l ∉ (s v).held

/-- reflexive-transitive closure of the wait-for relation -/
inductive WaitsStar (s : State) : Nat → Nat → Prop where
  | refl (t : Nat) : WaitsStar s t t
  | step {t u v : Nat} : WaitsFor s t u → WaitsStar s u v → WaitsStar s t v

/-! ### the finite check on the relation -/

/-- `cur → b₁ → … → bₖ → first` in the lock graph: each acquisition asks for a lock that the next
    one holds -/
def chainTo (cur : Acq) : List Acq → Acq → Prop
  | [], first => cur.want ∈ first.held
  | b :: rest, first => cur.want ∈ b.held ∧ chainTo b rest first

def Disj (a b : Acq) : Prop := ∀ x, x ∈ a.held → x ∉ b.held

/-- A *feasible* cycle of the acquisition relation: a cycle whose acquisitions have pairwise
    disjoint held-sets (they can belong to different threads at the same time).  A gate lock such
    as `write_lock` that is in the held-set of two edges makes the cycle infeasible. -/
def FeasibleCycle (A : List Acq) : List Acq → Prop
  | [] => False
  | a :: rest => (∀ b ∈ a :: rest, b ∈ A) ∧ (a :: rest).Pairwise Disj ∧ chainTo a rest a

def disjointL (a b : List Nat) : Bool := a.all (fun x => !b.contains x)

/-- depth-first search for a feasible cycle through `first`; `used` = union of the held-sets on the path -/
def dfs (A : List Acq) : Nat → List Nat → Acq → Acq → Bool
  | 0, _, _, _ => false
  | fuel + 1, used, cur, first =>
    first.held.contains cur.want ||
      A.any (fun b => b.held.contains cur.want && disjointL b.held used && dfs A fuel (b.held ++ used) b first)

def hasFeasibleCycle (A : List Acq) (nLocks : Nat) : Bool := A.any (fun a => dfs A nLocks a.held a a)

/-- every lock number in the table is `< nLocks` -/
def wellFormed (A : List Acq) (nLocks : Nat) : Bool :=
  A.all (fun a => decide (a.want < nLocks) && a.held.all (fun x => decide (x < nLocks)))

end Nervus.LockLTS
