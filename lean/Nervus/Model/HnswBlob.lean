/-
  Nervus.Model.HnswBlob — how a stored vector / neighbour list travels through the blob store (C31:
  "what is stored is what is read back, for every size, across page boundaries, with a cold cache").

  Mirrors
    nervusdb-storage/src/blob_store.rs          BlobStore::write_direct (`data.chunks(MAX_DATA_PER_PAGE)`,
                                                an empty blob is one page of length 0), read_direct
                                                (payloads of the chain concatenated)
    nervusdb-storage/src/index/hnsw/storage.rs  insert_vector / set_neighbors (4-byte little-endian
                                                words), get_vector / get_neighbors (cache miss path:
                                                length check `% 4`, `chunks_exact(4)` → from_le_bytes)
  A word is its `u32` bit pattern (`f32::to_bits` for vectors, the id for neighbour lists).
  `P` = payload bytes per blob page (`Generated.blobPagePayload`, regenerated from blob_store.rs);
  `perPage` = the decoders walk the pages one by one instead of the concatenated buffer
  (`Generated.hnswWordsDecodedPerPage`, regenerated from storage.rs).  Core-only imports.
-/
import Nervus.Model.Bytes
import Nervus.Model.Generated.HnswFlags
namespace Nervus.HnswBlob
open Nervus

/-- `slice::chunks(P)`: consecutive pieces of `P` bytes, the last one shorter; fuel = length suffices
    for `P ≥ 1` (with `P = 0` Rust panics; the engine's `P` is a positive constant) -/
def chunksAux (P : Nat) : Nat → Bytes → List Bytes
  | 0, _ => []
  | fuel + 1, l => if l.isEmpty then [] else l.take P :: chunksAux P fuel (l.drop P)

def chunks (P : Nat) (l : Bytes) : List Bytes := chunksAux P l.length l

/-- mirrors `BlobStore::write_direct`: the payloads of the page chain, first page first -/
def writeBlob (P : Nat) (data : Bytes) : List Bytes :=
  if data.isEmpty then [[]] else chunks P data

/-- mirrors `BlobStore::read_direct` -/
def readBlob (pages : List Bytes) : Bytes := pages.flatten

/-- `to_le_bytes` of every word -/
def encodeWords (ws : List Nat) : Bytes := ws.flatMap (leBytes 4)

/-- `chunks_exact(4)` + `from_le_bytes` (a trailing piece shorter than 4 bytes is ignored) -/
def decodeWords : Bytes → List Nat
  | a :: b :: c :: d :: rest => leVal [a, b, c, d] :: decodeWords rest
  | _ => []

inductive Err
  | badLength
  deriving Repr, DecidableEq

/-- the cache-miss path of `get_vector` / `get_neighbors` -/
def getWords (perPage : Bool) (pages : List Bytes) : Except Err (List Nat) :=
  if (readBlob pages).length % 4 != 0 then .error .badLength
  else if perPage then .ok (pages.flatMap decodeWords)
  else .ok (decodeWords (readBlob pages))

/-- `insert_vector` / `set_neighbors` followed by a cold `get_vector` / `get_neighbors` -/
def roundTrip (perPage : Bool) (P : Nat) (ws : List Nat) : Except Err (List Nat) :=
  getWords perPage (writeBlob P (encodeWords ws))

def pagePayload : Nat := Generated.blobPagePayload
def decodesPerPage : Bool := Generated.hnswWordsDecodedPerPage

end Nervus.HnswBlob
