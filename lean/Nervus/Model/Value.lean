/-
  Nervus.Model.Value — the Cypher runtime value (`enum Value` of
  nervusdb-query/src/executor/core_types.rs) and the two *derived* relations Rust gives it:
  `#[derive(PartialEq)]`  (`Value.deq`, used by `==`: DISTINCT, `v == Value::Null`, the fall-through of
                           `cypher_equals`) and
  `#[derive(PartialOrd)]` (`Value.dcmp`, used by `order_compare_non_null` for maps).

  Strings are UTF-8 byte strings (`Str = Bytes`): Rust's `String: Ord` is the byte-wise order.
  Floats are bit patterns (`Nat < 2^64`), interpreted through `F64.ofBits`.
  Maps (`BTreeMap<String, Value>`) are key-sorted association lists; sortedness is part of `Value.wf`.
  `Node/Relationship/ReifiedPath` (reified graph values carrying labels and property maps) are not
  modelled: the value-level operators of C20/C21/C23 see them only through their ids, which is what
  `nodeId/edgeKey/path` carry.   Import-free (core only).
-/
import Nervus.Model.Bytes
import Nervus.Model.F64
import Nervus.Model.Generated.Rank
namespace Nervus

abbrev Str := Bytes

/-- `EdgeKey { src, rel, dst }` -/
abbrev EKey := Nat × Nat × Nat

inductive Value
  | null
  | bool (b : Bool)
  | int (i : Int)
  | float (bits : Nat)
  | str (s : Str)
  | list (xs : List Value)
  | map (kvs : List (Str × Value))
  | nodeId (n : Nat)
  | externalId (n : Nat)
  | edgeKey (k : EKey)
  | dateTime (i : Int)
  | blob (b : Bytes)
  | path (nodes : List Nat) (edges : List EKey)
  deriving Repr, Inhabited

namespace Value

/-! ### structural equality (`DecidableEq`; the deriving handler does not cover nested inductives) -/

mutual
/-- structural equality, floats by bit pattern -/
def same : Value → Value → Bool
  | null, null => true
  | bool a, bool b => a == b
  | int a, int b => a == b
  | float a, float b => a == b
  | str a, str b => a == b
  | list a, list b => sameList a b
  | map a, map b => sameMap a b
  | nodeId a, nodeId b => a == b
  | externalId a, externalId b => a == b
  | edgeKey a, edgeKey b => a == b
  | dateTime a, dateTime b => a == b
  | blob a, blob b => a == b
  | path n e, path n' e' => n == n' && e == e'
  | _, _ => false
def sameList : List Value → List Value → Bool
  | [], [] => true
  | x :: xs, y :: ys => same x y && sameList xs ys
  | _, _ => false
def sameMap : List (Str × Value) → List (Str × Value) → Bool
  | [], [] => true
  | (k, x) :: xs, (k', y) :: ys => k == k' && same x y && sameMap xs ys
  | _, _ => false
end

mutual
theorem same_sound : ∀ (a b : Value), same a b = true → a = b
  | null, b, h => by cases b <;> simp_all [same]
  | bool _, b, h => by cases b <;> simp_all [same]
  | int _, b, h => by cases b <;> simp_all [same]
  | float _, b, h => by cases b <;> simp_all [same]
  | str _, b, h => by cases b <;> simp_all [same]
  | list xs, b, h => by
    cases b <;> simp only [same, Bool.false_eq_true] at h
    rw [sameList_sound xs _ h]
  | map xs, b, h => by
    cases b <;> simp only [same, Bool.false_eq_true] at h
    rw [sameMap_sound xs _ h]
  | nodeId _, b, h => by cases b <;> simp_all [same]
  | externalId _, b, h => by cases b <;> simp_all [same]
  | edgeKey _, b, h => by cases b <;> simp_all [same]
  | dateTime _, b, h => by cases b <;> simp_all [same]
  | blob _, b, h => by cases b <;> simp_all [same]
  | path _ _, b, h => by cases b <;> simp_all [same]
theorem sameList_sound : ∀ (a b : List Value), sameList a b = true → a = b
  | [], b, h => by cases b <;> simp_all [sameList]
  | x :: xs, b, h => by
    cases b with
    | nil => simp [sameList] at h
    | cons y ys =>
      simp only [sameList, Bool.and_eq_true] at h
      rw [same_sound x y h.1, sameList_sound xs ys h.2]
theorem sameMap_sound : ∀ (a b : List (Str × Value)), sameMap a b = true → a = b
  | [], b, h => by cases b <;> simp_all [sameMap]
  | (k, x) :: xs, b, h => by
    cases b with
    | nil => simp [sameMap] at h
    | cons y ys =>
      obtain ⟨k', y⟩ := y
      simp only [sameMap, Bool.and_eq_true, beq_iff_eq] at h
      rw [h.1.1, same_sound x y h.1.2, sameMap_sound xs ys h.2]
end

mutual
theorem same_refl : ∀ (a : Value), same a a = true
  | null | bool _ | int _ | float _ | str _ | nodeId _ | externalId _ | edgeKey _ | dateTime _ | blob _
  | path _ _ => by simp [same]
  | list xs => by simp only [same]; exact sameList_refl xs
  | map xs => by simp only [same]; exact sameMap_refl xs
theorem sameList_refl : ∀ (a : List Value), sameList a a = true
  | [] => rfl
  | x :: xs => by simp only [sameList, same_refl x, sameList_refl xs, Bool.and_self]
theorem sameMap_refl : ∀ (a : List (Str × Value)), sameMap a a = true
  | [] => rfl
  | (k, x) :: xs => by simp only [sameMap, same_refl x, sameMap_refl xs, beq_self_eq_true, Bool.and_self]
end

instance : DecidableEq Value := fun a b =>
  if h : same a b = true then isTrue (same_sound a b h)
  else isFalse (fun e => h (e ▸ same_refl a))

/-! ### three-way comparisons of the leaf types (`Ord::cmp`) -/

export F64 (cmpInt cmpNat)

def cmpBool (a b : Bool) : Ordering :=
  match a, b with
  | false, true => .lt
  | true, false => .gt
  | _, _ => .eq

/-- `Vec<u8>::cmp` / `String::cmp`: byte-wise lexicographic -/
def cmpBytes (a b : Bytes) : Ordering :=
  if bytesLt a b then .lt else if bytesLt b a then .gt else .eq

/-- derived `Ord` of `EdgeKey`: lexicographic `(src, rel, dst)` -/
def cmpEKey (a b : EKey) : Ordering :=
  (cmpNat a.1 b.1).then ((cmpNat a.2.1 b.2.1).then (cmpNat a.2.2 b.2.2))

/-- `Vec<u64>::cmp` -/
def cmpNatList : List Nat → List Nat → Ordering
  | [], [] => .eq
  | [], _ :: _ => .lt
  | _ :: _, [] => .gt
  | a :: as, b :: bs => (cmpNat a b).then (cmpNatList as bs)

/-- `Vec<EdgeKey>::cmp` -/
def cmpEKeyList : List EKey → List EKey → Ordering
  | [], [] => .eq
  | [], _ :: _ => .lt
  | _ :: _, [] => .gt
  | a :: as, b :: bs => (cmpEKey a b).then (cmpEKeyList as bs)

/-! ### tables regenerated from the source -/

/-- mirrors `value_order_rank` (evaluator_compare.rs), numbers from `Generated/Rank.lean`. -/
def rank : Value → Nat
  | null => Generated.rankNull
  | bool _ => Generated.rankBool
  | int _ => Generated.rankInt
  | float _ => Generated.rankFloat
  | str _ => Generated.rankString
  | list _ => Generated.rankList
  | map _ => Generated.rankMap
  | nodeId _ => Generated.rankNodeId
  | externalId _ => Generated.rankExternalId
  | edgeKey _ => Generated.rankEdgeKey
  | dateTime _ => Generated.rankDateTime
  | blob _ => Generated.rankBlob
  | path _ _ => Generated.rankPath

/-- declaration index of the variant in `enum Value` (what the derived `PartialOrd` compares first). -/
def vidx : Value → Nat
  | null => Generated.vidxNull
  | bool _ => Generated.vidxBool
  | int _ => Generated.vidxInt
  | float _ => Generated.vidxFloat
  | str _ => Generated.vidxString
  | list _ => Generated.vidxList
  | map _ => Generated.vidxMap
  | nodeId _ => Generated.vidxNodeId
  | externalId _ => Generated.vidxExternalId
  | edgeKey _ => Generated.vidxEdgeKey
  | dateTime _ => Generated.vidxDateTime
  | blob _ => Generated.vidxBlob
  | path _ _ => Generated.vidxPath

def isNull : Value → Bool
  | null => true
  | _ => false

/-! ### `#[derive(PartialEq)]` -/

mutual
/-- mirrors the derived `PartialEq` of `Value` (`==`): structural, floats by IEEE `==`
    (NaN ≠ NaN, −0.0 == +0.0), different variants unequal. -/
def deq : Value → Value → Bool
  | null, null => true
  | bool a, bool b => a == b
  | int a, int b => a == b
  | float a, float b => F64.eqv (F64.ofBits a) (F64.ofBits b)
  | str a, str b => a == b
  | list a, list b => deqList a b
  | map a, map b => deqMap a b
  | nodeId a, nodeId b => a == b
  | externalId a, externalId b => a == b
  | edgeKey a, edgeKey b => a == b
  | dateTime a, dateTime b => a == b
  | blob a, blob b => a == b
  | path n e, path n' e' => n == n' && e == e'
  | _, _ => false
/-- `Vec<Value> == Vec<Value>` -/
def deqList : List Value → List Value → Bool
  | [], [] => true
  | x :: xs, y :: ys => deq x y && deqList xs ys
  | _, _ => false
/-- `BTreeMap<String, Value> == BTreeMap<String, Value>`: same length and pairwise equal entries -/
def deqMap : List (Str × Value) → List (Str × Value) → Bool
  | [], [] => true
  | (k, x) :: xs, (k', y) :: ys => k == k' && deq x y && deqMap xs ys
  | _, _ => false
end

/-! ### `#[derive(PartialOrd)]` -/

/-- continue a lexicographic `partial_cmp`: `Some(Equal)` ⇒ look at the rest, anything else decides. -/
def thenP (o : Option Ordering) (rest : Option Ordering) : Option Ordering :=
  match o with
  | some .eq => rest
  | other => other

mutual
/-- mirrors the derived `PartialOrd` of `Value`: same variant ⇒ compare the payloads
    (`f64::partial_cmp` for floats: `none` on NaN), different variants ⇒ compare declaration indices. -/
def dcmp : Value → Value → Option Ordering
  | null, null => some .eq
  | bool a, bool b => some (cmpBool a b)
  | int a, int b => some (cmpInt a b)
  | float a, float b => F64.cmp (F64.ofBits a) (F64.ofBits b)
  | str a, str b => some (cmpBytes a b)
  | list a, list b => dcmpList a b
  | map a, map b => dcmpMap a b
  | nodeId a, nodeId b => some (cmpNat a b)
  | externalId a, externalId b => some (cmpNat a b)
  | edgeKey a, edgeKey b => some (cmpEKey a b)
  | dateTime a, dateTime b => some (cmpInt a b)
  | blob a, blob b => some (cmpBytes a b)
  | path n e, path n' e' => some ((cmpNatList n n').then (cmpEKeyList e e'))
  | a, b => some (cmpNat (vidx a) (vidx b))
/-- `Vec<Value>::partial_cmp` (lexicographic, a shorter prefix is smaller) -/
def dcmpList : List Value → List Value → Option Ordering
  | [], [] => some .eq
  | [], _ :: _ => some .lt
  | _ :: _, [] => some .gt
  | x :: xs, y :: ys => thenP (dcmp x y) (dcmpList xs ys)
/-- `BTreeMap::partial_cmp`: lexicographic over the `(key, value)` entries in key order -/
def dcmpMap : List (Str × Value) → List (Str × Value) → Option Ordering
  | [], [] => some .eq
  | [], _ :: _ => some .lt
  | _ :: _, [] => some .gt
  | (k, x) :: xs, (k', y) :: ys =>
    thenP (thenP (some (cmpBytes k k')) (dcmp x y)) (dcmpMap xs ys)
end

/-! ### well-formedness (what a Rust `Value` can be) -/

def i64Ok (i : Int) : Bool := decide (-9223372036854775808 ≤ i) && decide (i < 9223372036854775808)
def u32Ok (n : Nat) : Bool := decide (n < 4294967296)
def u64Ok (n : Nat) : Bool := decide (n < 18446744073709551616)
def ekeyOk (k : EKey) : Bool := u32Ok k.1 && u32Ok k.2.1 && u32Ok k.2.2

/-- keys strictly increasing (a `BTreeMap` iterates in key order, no duplicates) -/
def keysSorted : List (Str × Value) → Bool
  | [] => true
  | [_] => true
  | (k, _) :: (k', v') :: rest => bytesLt k k' && keysSorted ((k', v') :: rest)

mutual
def wf : Value → Bool
  | null => true
  | bool _ => true
  | int i => i64Ok i
  | float b => decide (b < F64.two64)
  | str _ => true
  | list xs => wfList xs
  | map kvs => keysSorted kvs && wfMap kvs
  | nodeId n => u32Ok n
  | externalId n => u64Ok n
  | edgeKey k => ekeyOk k
  | dateTime i => i64Ok i
  | blob _ => true
  | path ns es => ns.all u32Ok && es.all ekeyOk
def wfList : List Value → Bool
  | [] => true
  | x :: xs => wf x && wfList xs
def wfMap : List (Str × Value) → Bool
  | [] => true
  | (_, x) :: xs => wf x && wfMap xs
end

/-- `BTreeMap::get` -/
def lookup (k : Str) : List (Str × Value) → Option Value
  | [] => none
  | (k', v) :: rest => if k == k' then some v else lookup k rest

/-- `BTreeMap::insert` into a key-sorted association list -/
def insertKV (k : Str) (v : Value) : List (Str × Value) → List (Str × Value)
  | [] => [(k, v)]
  | (k', v') :: rest =>
    if bytesLt k k' then (k, v) :: (k', v') :: rest
    else if k == k' then (k, v) :: rest
    else (k', v') :: insertKV k v rest

/-! ### the grouping / DISTINCT key: `==` made total and consistent with `Hash` -/

def canonNaNBits : Nat := 0x7ff8000000000000

/-- mirrors `normalize_key` (projection_sort.rs): every NaN becomes the one canonical NaN, `-0.0` becomes
    `+0.0`, recursively through lists and maps; everything else is unchanged. -/
def norm : Value → Value
  | float b =>
    if (F64.ofBits b).isNaN then float canonNaNBits
    else if F64.eqv (F64.ofBits b) (F64.ofBits 0) then float 0 else float b
  | list xs => list (normList xs)
  | map kvs => map (normMap kvs)
  | v => v
where
  normList : List Value → List Value
    | [] => []
    | x :: xs => norm x :: normList xs
  normMap : List (Str × Value) → List (Str × Value)
    | [] => []
    | (k, x) :: xs => (k, norm x) :: normMap xs

/-- mirrors `key_eq ∘ normalize_key`: the equivalence used for grouping keys and DISTINCT
    (structural equality of the normalised values; floats by bit pattern) -/
def keyEq (a b : Value) : Bool := same (norm a) (norm b)

/-- what `impl Hash for Value` (core_types.rs) feeds to the hasher, as a token sequence: floats by
    `to_bits()`, `Null` as `0u8`, collections with their length prefix.  The hash function itself is
    abstract: equal inputs hash alike, different inputs are assumed to hash differently. -/
def vhash : Value → List Int
  | null => [0]
  | bool b => [if b then 1 else 0]
  | int i => [i]
  | float b => [(b : Int)]
  | str s => s.map (fun c => (c.toNat : Int)) ++ [255]
  | list xs => (xs.length : Int) :: vhashList xs
  | map kvs => (kvs.length : Int) :: vhashMap kvs
  | nodeId n => [(n : Int)]
  | externalId n => [(n : Int)]
  | edgeKey k => [(k.1 : Int), (k.2.1 : Int), (k.2.2 : Int)]
  | dateTime i => [i]
  | blob b => (b.length : Int) :: b.map (fun c => (c.toNat : Int))
  | path ns es => (ns.length : Int) :: ns.map (fun (n : Nat) => (n : Int)) ++
      (es.length : Int) :: es.flatMap (fun (k : EKey) => [(k.1 : Int), (k.2.1 : Int), (k.2.2 : Int)])
where
  vhashList : List Value → List Int
    | [] => []
    | x :: xs => vhash x ++ vhashList xs
  vhashMap : List (Str × Value) → List Int
    | [] => []
    | (k, x) :: xs => (k.map (fun c => (c.toNat : Int)) ++ [255]) ++ vhash x ++ vhashMap xs

end Value
end Nervus
