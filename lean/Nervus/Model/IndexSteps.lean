/-
  Model.IndexSteps — the minimal index-content component of the crash model.

  A property index (`create_index(label, key)`) is a B-tree of its own in the page file.  When a
  transaction sets an indexed property, `WriteTxn::commit` writes the index leaf page (and the index
  catalog page) IN PLACE, after the staged records were appended to the log and BEFORE the `CommitTx`
  record is appended — and without any log record of its own (observed step order of such a commit:
  9 log fragments, index leaf `pw5`, catalog `pw2`, 3 fragments of CommitTx, `ws`, node table).

  The component: the index content is a list of entries (key value, internal node id); an indexed
  commit is the plain commit (`commitA`) with the index leaf write — its entries — and the catalog
  write spliced in before the CommitTx fragments; the writes are pager writes: unsynced until the
  next page sync, kept by a process death, kept or lost one by one by a power loss.
  Everything else of the model (`FS`, `Step`, `commitA`, `recover`, `content`) is untouched, the
  files without the index are the `fs` component.
-/
import Nervus.Model.IOSteps
namespace Nervus.Crash

/-- files with index content: `ixd` durable entries, `ixj` written and unsynced -/
structure IFS where
  fs : FS := {}
  ixd : List (Nat × Nat) := []
  ixj : List (Nat × Nat) := []
deriving Repr, Inhabited

inductive IStep where
  | base (s : Step)
  | ixLeaf (entries : List (Nat × Nat))   -- the index leaf page with the new entries
  | ixCat                                 -- the index catalog page (entry count; no content here)
deriving Repr, Inhabited

def IFS.step (g : IFS) : IStep → IFS
  | .base .ps => { fs := g.fs.step .ps, ixd := g.ixd ++ g.ixj, ixj := [] }
  | .base s => { g with fs := g.fs.step s }
  | .ixLeaf es => { g with ixj := g.ixj ++ es }
  | .ixCat => g

def IFS.steps (g : IFS) (ss : List IStep) : IFS := ss.foldl IFS.step g

/-- a crash: the mode of the files as before, plus — for a power loss — which of the unsynced
    index entries reached the disk (process death keeps them all) -/
structure ICrash where
  mode : CrashMode
  keepIx : List Bool := []

def selIx : List (Nat × Nat) → List Bool → List (Nat × Nat)
  | [], _ => []
  | _ :: es, [] => selIx es []
  | e :: es, b :: bs => if b then e :: selIx es bs else selIx es bs

def IFS.crash (g : IFS) (c : ICrash) : IFS :=
  { fs := g.fs.crash c.mode
    ixd := g.ixd ++ (match c.mode with | .proc => g.ixj | .power _ _ _ => selIx g.ixj c.keepIx)
    ixj := [] }

/-- the base steps of a list -/
def baseSteps : List IStep → List Step
  | [] => []
  | .base s :: rest => s :: baseSteps rest
  | _ :: rest => baseSteps rest

/-- position of the first CommitTx fragment among the I/O steps of a commit -/
def commitPos (cfg : Cfg) (m : Mem) (w : List Frag) (tx : Tx) : Nat :=
  (ioSteps (appendsA cfg (m.ws w) (txRecs m.nextTxid m.idLen tx).dropLast).1).length

/-- **the I/O steps of a commit that sets indexed properties**: those of `commitA`, with the index
    leaf and catalog writes in front of the CommitTx fragments -/
def commitIxSteps (cfg : Cfg) (m : Mem) (vol : PImg) (w : List Frag) (tx : Tx) (ixs : List (Nat × Nat)) : List IStep :=
  let S := ioSteps (commitA cfg m vol w tx)
  let k := commitPos cfg m w tx
  (S.take k).map .base ++ (if ixs.isEmpty then [] else [.ixLeaf ixs, .ixCat]) ++ (S.drop k).map .base

/-- the step of the plain commit that a death at step `n` of the indexed commit corresponds to
    (`k` = position of the index writes, `len` = their number) -/
def plainStep (k len n : Nat) : Nat := if n ≤ k then n else if n ≤ k + len then k else n - len

/-- an incarnation on the files `fs` with index content `ixd`: open, operations that return, then
    the commit of `tx` with the index entries `ixs`, death at its I/O step `n`, crash `c` -/
def indexedDeath (cfg : Cfg) (fs : FS) (ixd : List (Nat × Nat)) (ops : List HOp) (tx : Tx) (ixs : List (Nat × Nat))
    (n : Nat) (c : ICrash) : IFS :=
  let o := run (openA cfg fs.pv fs.wf) .none fs {}
  let s := runOps cfg o.fs o.mem ops
  ((⟨s.1, ixd, []⟩ : IFS).steps ((commitIxSteps cfg s.2 s.1.pv s.1.wf tx ixs).take n)).crash c

/-- `lookup_index`: the internal ids the index has for a key value (unsynced entries included:
    the page cache) -/
def IFS.lookup (g : IFS) (key : Nat) : List Nat :=
  ((g.ixd ++ g.ixj).filter (fun e => e.1 == key)).map (·.2)

/-- the witness scenario of finding C02-index-before-commit (`idx k` lines of the crash stream:
    label L, index on L.k, node 1 {k:1} committed, death at I/O step `n` of the commit of node 2
    {k:2}): the nodes the next open shows and what `lookup_index(L,k,2)` returns -/
def ixTx1 : Tx := ⟨[1001], [], [10000]⟩
def ixTx2 : Tx := ⟨[2001], [], [20000]⟩
def ixProbe (cfg : Cfg) (n : Nat) (c : ICrash) : Option (List Nat × List Nat) :=
  let g := indexedDeath cfg (created cfg) [(1, 0)] [.commit ixTx1] ixTx2 [(2, 1)] n c
  match recover cfg g.fs with
  | .ok (m, fs) => some ((content m fs.pv).nodes, g.lookup 2)
  | .error _ => none

/-- what a correct index may contain after the committed list `T`, given the entries each
    transaction set: exactly the entries of committed transactions -/
def ixOf (committed : List (List (Nat × Nat))) : List (Nat × Nat) := committed.flatten

end Nervus.Crash
