/-
  Model/Bulk.lean — mirrors nervusdb-storage/src/bulkload.rs (BulkLoader::commit: validate, label
  interner, idmap, one CSR segment, property tree, WAL with label definitions + manifest + checkpoint)
  and the transactional load of the same data (`txLoad`).  core/Std imports only.
-/
import Nervus.Model.EngineRun
namespace Nervus.Storage
open Nervus.GraphSpec (TxOp Op)

/-- bulkload.rs BulkNode (names and values are opaque tokens; `props` is a BTreeMap: key-sorted, unique) -/
structure BulkNode where
  ext : Nat
  label : Nat
  props : List (Nat × PV)
deriving Repr

/-- bulkload.rs BulkEdge -/
structure BulkEdge where
  src : Nat
  rel : Nat
  dst : Nat
  props : List (Nat × PV)
deriving Repr

/-- BulkLoader::validate -/
def bulkValid (ns : List BulkNode) (es : List BulkEdge) : Bool :=
  (ns.map (·.ext)).Nodup &&
  es.all (fun e => ns.any (·.ext == e.src) && ns.any (·.ext == e.dst))

/-- LabelInterner::get_or_create on a bare interner -/
def internName (t : Interner) (name : Nat) : Interner :=
  match t.getId name with
  | some _ => t
  | none => t ++ [name]

/-- BulkLoader::build_label_interner: node labels first, then relationship types -/
def bulkInterner (ns : List BulkNode) (es : List BulkEdge) : Interner :=
  (es.map (·.rel)).foldl internName ((ns.map (·.label)).foldl internName [])

/-- `external_to_internal[&ext]` (internal id = position) -/
def bulkIid (ns : List BulkNode) (x : Nat) : Nat := (ns.map (·.ext)).idxOf x

def bulkEdges (ns : List BulkNode) (es : List BulkEdge) : List Edge :=
  let t := bulkInterner ns es
  es.map (fun e => ⟨bulkIid ns e.src, (t.getId e.rel).getD 0, bulkIid ns e.dst⟩)

/-- BulkLoader::write_properties: node properties in node order, then relationship properties in edge
    order; the store keeps the NEWEST entry of a key first -/
def bulkStore (ns : List BulkNode) (es : List BulkEdge) : Store :=
  let t := bulkInterner ns es
  let nodeIns := ns.zipIdx.flatMap (fun p => p.1.props.map (fun kv => (SKey.node p.2 kv.1, kv.2)))
  let edgeIns := es.flatMap (fun e => e.props.map (fun kv =>
    (SKey.edge ⟨bulkIid ns e.src, (t.getId e.rel).getD 0, bulkIid ns e.dst⟩ kv.1, kv.2)))
  (nodeIns ++ edgeIns).reverse

/-- BulkLoader::commit: the files it leaves behind (`none` = validation error) -/
def bulkLoad (ns : List BulkNode) (es : List BulkEdge) : Option Disk :=
  if !bulkValid ns es then none
  else
    let t := bulkInterner ns es
    some { wal := [.beginTx 0] ++ t.zipIdx.map (fun p => WalRec.createLabel p.1 p.2) ++
                  [.manifestSwitch 0 [0] 1, .checkpoint 0 0 1, .commitTx 0],
           i2e := ns.map (fun n => ⟨n.ext, (t.getId n.label).getD 0⟩),
           segStore := [(buildForward 0 (bulkEdges ns es)).persist],
           store := bulkStore ns es, storeRoot := 1,
           vecs := [] }

/-- the same data through one write transaction: nodes (with their properties) first, then relationships -/
def txLoad (ns : List BulkNode) (es : List BulkEdge) : List TxOp :=
  ns.zipIdx.flatMap (fun p => TxOp.node p.1.ext (some p.1.label) :: p.1.props.map (fun kv => TxOp.nprop p.2 kv.1 kv.2)) ++
  es.flatMap (fun e => TxOp.edge (bulkIid ns e.src) e.rel (bulkIid ns e.dst) ::
    e.props.map (fun kv => TxOp.eprop (bulkIid ns e.src) e.rel (bulkIid ns e.dst) kv.1 kv.2))

/-- trigger of the one difference of the pinned tree: two parallel bulk relationships carry the same
    property key (the whole-map read of the store returned the OLDEST duplicate; fixed together with
    C05-whole-map-read-returns-oldest-sunk-value) -/
def bulkDupEdgeKey (es : List BulkEdge) : Bool :=
  let keys := es.flatMap (fun e => e.props.map (fun kv => (e.src, e.rel, e.dst, kv.1)))
  !keys.Nodup

end Nervus.Storage
