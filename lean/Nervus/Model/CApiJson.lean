/-
  Nervus.Model.CApiJson — `value_to_json` of nervusdb-capi/src/lib.rs (C34): the JSON a C caller gets for a value.
  serde_json facts used: `json!(f64)` is `Number::from_f64(f)`, which is `null` for NaN/±∞; `json!({..})` and
  `serde_json::Map` (no `preserve_order`) keep keys sorted; integers and floats are different JSON numbers
  (`1` vs `1.0`).  Floats are IEEE-754 bit patterns.  Core only.
-/
namespace Nervus.CApiJson

mutual
inductive Json where
  | null
  | bool (b : Bool)
  | int (i : Int)
  | float (bits : Nat)
  | str (s : String)
  | arr (xs : Jsons)
  | obj (kvs : JKVs)
inductive Jsons where
  | nil
  | cons (x : Json) (xs : Jsons)
inductive JKVs where
  | nil
  | cons (k : String) (v : Json) (rest : JKVs)
end

mutual
/-- `nervusdb_query::Value` as the read API returns it (after `reify`) -/
inductive Value where
  | null
  | bool (b : Bool)
  | int (i : Int)
  | float (bits : Nat)
  | str (s : String)
  | datetime (ts : Int)
  | blob (bytes : List Nat)
  | list (vs : Values)
  | map (kvs : VKVs)
  | node (id : Nat) (labels : List String) (props : VKVs)
  | rel (src dst : Nat) (relType : String) (props : VKVs)
  | nodeId (id : Nat)
  | externalId (id : Nat)
inductive Values where
  | nil
  | cons (v : Value) (vs : Values)
inductive VKVs where
  | nil
  | cons (k : String) (v : Value) (rest : VKVs)
end

/-- IEEE-754 double: exponent field all ones ⇔ NaN or ±∞ -/
def isFinite (bits : Nat) : Bool := (bits / 4503599627370496) % 2048 != 2047

def strs : List String → Jsons
  | [] => .nil
  | s :: ss => .cons (.str s) (strs ss)

mutual
/-- mirrors `value_to_json` -/
def toJson : Value → Json
  | .null => .null
  | .bool b => .bool b
  | .int i => .int i
  | .float f => if isFinite f then .float f else .null
  | .str s => .str s
  | .datetime ts => .obj (.cons "type" (.str "datetime") (.cons "value" (.int ts) .nil))
  | .blob bytes => .obj (.cons "len" (.int bytes.length) (.cons "type" (.str "blob") .nil))
  | .list vs => .arr (toJsons vs)
  | .map kvs => .obj (toJsonKVs kvs)
  | .node id labels props =>
    .obj (.cons "id" (.int id) (.cons "labels" (.arr (strs labels)) (.cons "properties" (.obj (toJsonKVs props))
      (.cons "type" (.str "node") .nil))))
  | .rel src dst ty props =>
    .obj (.cons "dst" (.int dst) (.cons "properties" (.obj (toJsonKVs props)) (.cons "rel_type" (.str ty)
      (.cons "src" (.int src) (.cons "type" (.str "relationship") .nil)))))
  | .nodeId id => .obj (.cons "type" (.str "node_id") (.cons "value" (.int id) .nil))
  | .externalId id => .obj (.cons "type" (.str "external_id") (.cons "value" (.int id) .nil))
def toJsons : Values → Jsons
  | .nil => .nil
  | .cons v vs => .cons (toJson v) (toJsons vs)
def toJsonKVs : VKVs → JKVs
  | .nil => .nil
  | .cons k v rest => .cons k (toJson v) (toJsonKVs rest)
end

def noTypeKey : VKVs → Bool
  | .nil => true
  | .cons k _ rest => k != "type" && noTypeKey rest

mutual
/-- values on which the conversion loses nothing: finite floats, no blobs, and no user map that uses the
    key `"type"` (the conversion tags datetime / node / relationship / id values with it) -/
def Faithful : Value → Bool
  | .float f => isFinite f
  | .blob _ => false
  | .list vs => FaithfulList vs
  | .map kvs => noTypeKey kvs && FaithfulKVs kvs
  | .node _ _ props => FaithfulKVs props
  | .rel _ _ _ props => FaithfulKVs props
  | _ => true
def FaithfulList : Values → Bool
  | .nil => true
  | .cons v vs => Faithful v && FaithfulList vs
def FaithfulKVs : VKVs → Bool
  | .nil => true
  | .cons _ v rest => Faithful v && FaithfulKVs rest
end

end Nervus.CApiJson
