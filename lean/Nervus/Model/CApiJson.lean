/-
  Nervus.Model.CApiJson — `value_to_json` of nervusdb-capi/src/lib.rs (C34): the JSON a C caller gets for a value.
  serde_json facts used: `json!(f64)` is `Number::from_f64(f)`, which is `null` for NaN/±∞; `json!({..})` and
  `serde_json::Map` (no `preserve_order`) keep keys sorted; integers and floats are different JSON numbers
  (`1` vs `1.0`).  Floats are IEEE-754 bit patterns.  Core only.
-/
import Nervus.Model.Generated.CapiRows
namespace Nervus.CApiJson

mutual
inductive Json where
  | null
  | bool (b : Bool)
  | int (i : Int)
  | float (bits : Nat)
  | str (s : String)
  | arr (xs : Jsons)
  | obj (kvs : JKVs)
inductive Jsons where
  | nil
  | cons (x : Json) (xs : Jsons)
inductive JKVs where
  | nil
  | cons (k : String) (v : Json) (rest : JKVs)
end

mutual
/-- `nervusdb_query::Value` as the read API returns it (after `reify`) -/
inductive Value where
  | null
  | bool (b : Bool)
  | int (i : Int)
  | float (bits : Nat)
  | str (s : String)
  | datetime (ts : Int)
  | blob (bytes : List Nat)
  | list (vs : Values)
  | map (kvs : VKVs)
  | node (id : Nat) (labels : List String) (props : VKVs)
  | rel (src dst : Nat) (relType : String) (props : VKVs)
  | nodeId (id : Nat)
  | externalId (id : Nat)
inductive Values where
  | nil
  | cons (v : Value) (vs : Values)
inductive VKVs where
  | nil
  | cons (k : String) (v : Value) (rest : VKVs)
end

/-- IEEE-754 double: exponent field all ones ⇔ NaN or ±∞ -/
def isFinite (bits : Nat) : Bool := (bits / 4503599627370496) % 2048 != 2047

def strs : List String → Jsons
  | [] => .nil
  | s :: ss => .cons (.str s) (strs ss)

mutual
/-- mirrors `value_to_json` -/
def toJson : Value → Json
  | .null => .null
  | .bool b => .bool b
  | .int i => .int i
  | .float f => if isFinite f then .float f else .null
  | .str s => .str s
  | .datetime ts => .obj (.cons "type" (.str "datetime") (.cons "value" (.int ts) .nil))
  | .blob bytes => .obj (.cons "len" (.int bytes.length) (.cons "type" (.str "blob") .nil))
  | .list vs => .arr (toJsons vs)
  | .map kvs => .obj (toJsonKVs kvs)
  | .node id labels props =>
    .obj (.cons "id" (.int id) (.cons "labels" (.arr (strs labels)) (.cons "properties" (.obj (toJsonKVs props))
      (.cons "type" (.str "node") .nil))))
  | .rel src dst ty props =>
    .obj (.cons "dst" (.int dst) (.cons "properties" (.obj (toJsonKVs props)) (.cons "rel_type" (.str ty)
      (.cons "src" (.int src) (.cons "type" (.str "relationship") .nil)))))
  | .nodeId id => .obj (.cons "type" (.str "node_id") (.cons "value" (.int id) .nil))
  | .externalId id => .obj (.cons "type" (.str "external_id") (.cons "value" (.int id) .nil))
def toJsons : Values → Jsons
  | .nil => .nil
  | .cons v vs => .cons (toJson v) (toJsons vs)
def toJsonKVs : VKVs → JKVs
  | .nil => .nil
  | .cons k v rest => .cons k (toJson v) (toJsonKVs rest)
end

def noTypeKey : VKVs → Bool
  | .nil => true
  | .cons k _ rest => k != "type" && noTypeKey rest

mutual
/-- values on which the conversion loses nothing: finite floats, no blobs, and no user map that uses the
    key `"type"` (the conversion tags datetime / node / relationship / id values with it) -/
def Faithful : Value → Bool
  | .float f => isFinite f
  | .blob _ => false
  | .list vs => FaithfulList vs
  | .map kvs => noTypeKey kvs && FaithfulKVs kvs
  | .node _ _ props => FaithfulKVs props
  | .rel _ _ _ props => FaithfulKVs props
  | _ => true
def FaithfulList : Values → Bool
  | .nil => true
  | .cons v vs => Faithful v && FaithfulList vs
def FaithfulKVs : VKVs → Bool
  | .nil => true
  | .cons _ v rest => Faithful v && FaithfulKVs rest
end


/-! ### rows: reification and conversion (nervusdb-capi execute_read_rows, row_to_json, make_result_handle_from_rows) -/

mutual
/-- mirrors `Value::reify`: node references are replaced by the materialised node (`look`), recursively through
    lists and maps; everything else is unchanged -/
def reify (look : Nat → Value) : Value → Value
  | .nodeId id => look id
  | .list vs => .list (reifyList look vs)
  | .map kvs => .map (reifyKVs look kvs)
  | v => v
def reifyList (look : Nat → Value) : Values → Values
  | .nil => .nil
  | .cons v vs => .cons (reify look v) (reifyList look vs)
def reifyKVs (look : Nat → Value) : VKVs → VKVs
  | .nil => .nil
  | .cons k v rest => .cons k (reify look v) (reifyKVs look rest)
end

mutual
/-- "still refers to graph entities by id" -/
def holdsRef : Value → Bool
  | .nodeId _ => true
  | .list vs => holdsRefList vs
  | .map kvs => holdsRefKVs kvs
  | _ => false
def holdsRefList : Values → Bool
  | .nil => false
  | .cons v vs => holdsRef v || holdsRefList vs
def holdsRefKVs : VKVs → Bool
  | .nil => false
  | .cons _ v rest => holdsRef v || holdsRefKVs rest
end

/-- a result row: column name ↦ value, in column order -/
abbrev Row := List (String × Value)

/-- one row, converted on its own: every value is reified and turned into JSON -/
def rowJson (look : Nat → Value) (r : Row) : List (String × Json) :=
  r.map (fun kv => (kv.1, toJson (reify look kv.2)))

/-- a conversion that decides from the FIRST row which columns need reification (not what the code does; the shape
    of seeded fault C34-seed1) -/
def rowsJsonFirstRowPolicy (look : Nat → Value) (rows : List Row) : List (List (String × Json)) :=
  match rows with
  | [] => []
  | first :: _ =>
    let cols := first.map (fun kv => holdsRef kv.2)
    rows.map (fun r => (r.zip (cols ++ List.replicate r.length true)).map
      (fun p => (p.1.1, toJson (if p.2 then reify look p.1.2 else p.1.2))))

/-- mirrors `execute_read_rows` + `make_result_handle_from_rows`; the policy flag is read off the source -/
def rowsJson (look : Nat → Value) (rows : List Row) : List (List (String × Json)) :=
  if Generated.capiReifiesPerRow then rows.map (rowJson look) else rowsJsonFirstRowPolicy look rows

end Nervus.CApiJson
