/-
  Nervus.Model.Agg — aggregation (nervusdb-query/src/executor/projection_sort.rs `execute_aggregate`).

  Every aggregate is a function of the list of values its argument expression takes on the rows of one
  group, in row order.  Grouping: `HashMap<GroupKey, _>` over normalised keys (one NaN, −0.0 → +0.0) compared
  bit-wise, so that `Eq` is total and agrees with `Hash` — the iteration order of the map is arbitrary, the model lists groups in first-occurrence order and every
  statement about the output is up to permutation.  Assumption: the `i128` accumulator of `sum` does not
  overflow (more than 2^64 rows).   Import-free (core only).
-/
import Nervus.Model.Eval
namespace Nervus
namespace Agg
open Eval Value

/-- rows whose value is not `Null` (`!matches!(v, Value::Null)` / `v == Value::Null`) -/
def nonNull (vs : List Value) : List Value := vs.filter (fun v => !v.isNull)

/-- `AggregateFunction::Count(None)` -/
def countStar (vs : List Value) : Value := .int vs.length

/-- `AggregateFunction::Count(Some(expr))` -/
def count (vs : List Value) : Value := .int (nonNull vs).length

/-- the `distinct_values` loop shared by all `…Distinct` aggregates: skip nulls, keep the first of every
    class of `distinct_eq` (= `keyEq`: the derived `==` with every NaN equal to every NaN; −0.0 ~ +0.0). -/
def dedupInto (seen : List Value) : List Value → List Value
  | [] => seen
  | v :: vs =>
    if v.isNull then dedupInto seen vs
    else if seen.any (fun e => keyEq e v) then dedupInto seen vs
    else dedupInto (seen ++ [v]) vs

def distinctVals (vs : List Value) : List Value := dedupInto [] vs

/-- accumulator of `AggregateFunction::Sum` -/
structure SumAcc where
  sawFloat : Bool
  intSum : Int      -- i128
  floatSum : Nat    -- f64 bits
  deriving Repr, DecidableEq

def sumInit : SumAcc := ⟨false, 0, 0⟩

/-- loop body of `Sum`: integers feed both accumulators, floats the float one, everything else is skipped -/
def sumStep (F : FArith) (acc : SumAcc) : Value → SumAcc
  | .int i => { acc with intSum := acc.intSum + i, floatSum := F.add acc.floatSum (castF i) }
  | .float f => { sawFloat := true, intSum := acc.intSum, floatSum := F.add acc.floatSum f }
  | _ => acc

/-- after the `fix:` commit for C21: an integer total that does not fit an `i64` becomes the Float sum
    (the rule of `numeric_binop`) instead of wrapping. -/
def sumFinish (acc : SumAcc) : Value :=
  if acc.sawFloat then .float acc.floatSum
  else if inI64 acc.intSum then .int acc.intSum else .float acc.floatSum

/-- `AggregateFunction::Sum` -/
def sum (F : FArith) (vs : List Value) : Value := sumFinish (vs.foldl (sumStep F) sumInit)

/-- `AggregateFunction::SumDistinct` -/
def sumDistinct (F : FArith) (vs : List Value) : Value := sum F (distinctVals vs)

/-- `Value::Float(f) => Some(f), Value::Int(i) => Some(i as f64), _ => None` -/
def asF64 : Value → Option Nat
  | .float f => some f
  | .int i => some (castF i)
  | _ => none

/-- bits of −0.0: the start value of `Iterator::sum::<f64>()` in the pinned toolchain's std -/
def negZero : Nat := 0x8000000000000000

/-- `AggregateFunction::Avg`: `values.iter().sum::<f64>() / values.len() as f64`, `Null` on no numbers -/
def avg (F : FArith) (vs : List Value) : Value :=
  let fs := vs.filterMap asF64
  if fs.isEmpty then .null
  else .float (F.div (fs.foldl F.add negZero) (castF fs.length))

/-- `AggregateFunction::AvgDistinct` -/
def avgDistinct (F : FArith) (vs : List Value) : Value := avg F (distinctVals vs)

/-- `Iterator::min_by`: `reduce(|x, y| match cmp(&x, &y) { Greater => y, _ => x })` — the FIRST minimum -/
def minBy {α} (cmp : α → α → Ordering) : List α → Option α
  | [] => none
  | x :: xs => some (xs.foldl (fun m y => if cmp m y == .gt then y else m) x)

/-- `Iterator::max_by`: `reduce(|x, y| match cmp(&x, &y) { Greater => x, _ => y })` — the LAST maximum -/
def maxBy {α} (cmp : α → α → Ordering) : List α → Option α
  | [] => none
  | x :: xs => some (xs.foldl (fun m y => if cmp m y == .gt then m else y) x)

/-- `AggregateFunction::Min` / `Max` (and the DISTINCT forms): `min_by(order_compare)` / `max_by(order_compare)` — THE
    comparator of ORDER BY (`Generated.minMaxUseOrderCompare`, table `Comparators`, regenerated; any other comparator
    at one of the four sites makes the recogniser fail) -/
def min (E : Env) (vs : List Value) : Value := (minBy (orderCompare E) (nonNull vs)).getD .null
def max (E : Env) (vs : List Value) : Value := (maxBy (orderCompare E) (nonNull vs)).getD .null
def minDistinct (E : Env) (vs : List Value) : Value := (minBy (orderCompare E) (distinctVals vs)).getD .null
def maxDistinct (E : Env) (vs : List Value) : Value := (maxBy (orderCompare E) (distinctVals vs)).getD .null

/-- `AggregateFunction::Collect` / `CollectDistinct` / `CountDistinct` -/
def collect (vs : List Value) : Value := .list (nonNull vs)
def collectDistinct (vs : List Value) : Value := .list (distinctVals vs)
def countDistinct (vs : List Value) : Value := .int (distinctVals vs).length

/-- key equality of `HashMap<GroupKey, _>` (after the `fix:` commit for C21): the keys are normalised
    (`normalize_key`) and compared bit-wise (`normalized_eq`); the derived `Hash` of the normalised key agrees
    with it, so the map behaves as a function of this equivalence. -/
def groupKeyEq (a b : List Value) : Bool := sameList (norm.normList a) (norm.normList b)

/-- `groups.entry(GroupKey(normalised key)).or_insert_with(|| (key, vec![])).1.push(row)`: the group keeps the
    key values of its first row -/
def groupInsert {α} (k : List Value) (row : α) : List (List Value × List α) → List (List Value × List α)
  | [] => [(k, [row])]
  | (k', rs) :: rest =>
    if groupKeyEq k' k then (k', rs ++ [row]) :: rest else (k', rs) :: groupInsert k row rest

/-- the grouping loop of `execute_aggregate`; `noKeys` = `group_by.is_empty()` (one group on empty input) -/
def groupRows {α} (noKeys : Bool) (rows : List (List Value × α)) : List (List Value × List α) :=
  let g := rows.foldl (fun g kr => groupInsert kr.1 kr.2 g) []
  if g.isEmpty && noKeys then [([], [])] else g

/-! the pinned tree (before the `fix:` commits): `Value::Int(int_sum as i64)` wraps; grouping on
    `HashMap<Vec<Value>, _>` (same group iff derived `==` and same `Hash` input), DISTINCT by the derived `==` -/
namespace Pinned
def groupKeyEq (a b : List Value) : Bool := deqList a b && sameList a b
def dedupInto (seen : List Value) : List Value → List Value
  | [] => seen
  | v :: vs =>
    if v.isNull then dedupInto seen vs
    else if seen.any (fun e => deq e v) then dedupInto seen vs
    else dedupInto (seen ++ [v]) vs
def sumFinish (acc : SumAcc) : Value :=
  if acc.sawFloat then .float acc.floatSum else .int (wrapI64 acc.intSum)
def sum (F : FArith) (vs : List Value) : Value := sumFinish (vs.foldl (sumStep F) sumInit)
end Pinned

end Agg
end Nervus
