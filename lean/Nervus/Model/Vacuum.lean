/-
  Nervus.Model.Vacuum — typed page graph of a closed database, vacuum's mark phase, and the pages a
  reader dereferences (C28).

  A page is reached in a ROLE (the code that reads it decides how its bytes are interpreted):
    i2e      node-table page (IdMap::load: `start + i`, i < ceil(len / 512))           no pointers
    catalog  index catalog page: entries (root, payloads-are-blob-ids)                  → tree roots
    tree b   B-tree page (index/btree.rs): internal → children + right sibling;
             leaf → right sibling, and the payloads as blob ids when `b`               (property store,
             `__sys_hnsw_vec`, `__sys_hnsw_graph`; user indexes hold node ids)
    blob     blob_store.rs chain page: next pointer
    csrMeta  CSR segment meta page: the page lists (offsets, edges, in_offsets, in_edges)
    csrData  a page of one of those lists                                               no pointers
  Roots: the node table range and the catalog page from the meta page; properties root, statistics
  root and segment meta pages from the newest manifest in the WAL.

  `succV` mirrors vacuum.rs mark_reachable_pages / BTree::mark_reachable_pages / mark_blob_chain /
  mark_csr_segment_pages (how many page lists it reads and whether it accepts the magic come from the
  regenerated `Layout`); `succR` is what GraphEngine::open and the read paths follow.
  `mark` is the executable mark phase with vacuum's failure modes, `vacuum` keeps the marked pages
  (Pager::write_vacuum_copy).  Core only.
-/
import Nervus.Model.BTree
namespace Nervus.Vacuum
open Nervus

inductive Role where
  | i2e | catalog | tree (blobs : Bool) | blob | csrMeta | csrData
  deriving Repr, DecidableEq

inductive Page where
  | raw
  | catalog (entries : List (Nat × Bool))
  | leaf (payloads : List Nat) (right : Nat)
  | internal (kids : List Nat) (right : Nat)
  | blob (next : Nat)
  | csrMeta (lists : List (List Nat))
  deriving Repr, DecidableEq

abbrev Node := Nat × Role

structure Db where
  pages : BTree.PageMap Page
  i2eStart : Nat          -- meta.i2e_start_page_id (0 = none)
  i2eLen : Nat            -- meta.i2e_len
  catalogRoot : Nat       -- meta.index_catalog_root (0 = none)
  propsRoot : Nat         -- manifest.properties_root
  statsRoot : Nat         -- manifest.stats_root
  segments : List Nat     -- manifest.segments[*].meta_page_id
  deriving Repr, DecidableEq

/-- how vacuum reads a CSR meta page (regenerated: `Generated/Layout.lean`) -/
structure Layout where
  magicOk : Bool          -- vacuum's META_MAGIC is the one csr.rs writes
  csrLists : Nat          -- how many page lists vacuum reads
  recsPerPage : Nat       -- I2E records per page
  deriving Repr, DecidableEq

def nz (l : List Nat) : List Nat := l.filter (· ≠ 0)

/-- the pages referenced by a page read in a role; `k` = number of CSR page lists followed -/
def succOf (k : Nat) (role : Role) (pg : Option Page) : List Node :=
  match role, pg with
  | .catalog, some (.catalog entries) => (entries.filter (·.1 ≠ 0)).map (fun e => (e.1, Role.tree e.2))
  | .tree b, some (.leaf payloads right) =>
    (nz [right]).map (·, Role.tree b) ++ (if b then (nz payloads).map (·, Role.blob) else [])
  | .tree b, some (.internal kids right) => (nz [right]).map (·, Role.tree b) ++ (nz kids).map (·, Role.tree b)
  | .blob, some (.blob next) => (nz [next]).map (·, Role.blob)
  | .csrMeta, some (.csrMeta lists) => (nz (lists.take k).flatten).map (·, Role.csrData)
  | _, _ => []

/-- everything a page list can hold -/
def allLists : Nat := 1000000

/-- what vacuum follows from a node -/
def succV (L : Layout) (d : Db) (n : Node) : List Node := succOf L.csrLists n.2 (d.pages.get n.1)
/-- what open + the read paths follow from a node (CsrSegment::load reads every list) -/
def succR (d : Db) (n : Node) : List Node := succOf allLists n.2 (d.pages.get n.1)

/-- the roots: node-table range, catalog, property store, statistics, segments -/
def roots (L : Layout) (d : Db) : List Node :=
  (if d.i2eStart = 0 then [] else
    (List.range ((d.i2eLen + L.recsPerPage - 1) / L.recsPerPage)).map (fun i => (d.i2eStart + i, Role.i2e))) ++
  (nz [d.catalogRoot]).map (·, Role.catalog) ++
  (nz [d.propsRoot]).map (·, Role.tree true) ++
  (nz [d.statsRoot]).map (·, Role.blob) ++
  (nz d.segments).map (·, Role.csrMeta)

/-- reachability from the roots along a successor function -/
inductive Reach (succ : Node → List Node) (rs : List Node) : Node → Prop where
  | root {n : Node} : n ∈ rs → Reach succ rs n
  | step {n m : Node} : Reach succ rs n → m ∈ succ n → Reach succ rs m

/-! ### executable mark phase -/

inductive Err where
  | magic | unreadable | blobCycle | zeroChild | badKind | loop
  deriving Repr, DecidableEq

/-- vacuum's checks when it reads a page in a role (`pager.read_page` fails on an unallocated page;
    `Page::kind` on a non-B-tree page; the CSR magic; zero child pointers) -/
def checkV (L : Layout) (role : Role) (pg : Option Page) : Except Err Unit :=
  match role, pg with
  | .i2e, _ => .ok ()                       -- inserted by arithmetic, never read
  | .csrData, _ => .ok ()                   -- inserted from the list, never read
  | _, none => .error .unreadable
  | .csrMeta, some _ => if L.magicOk then .ok () else .error .magic
  | .tree _, some (.internal kids _) => if kids.any (· == 0) then .error .zeroChild else .ok ()
  | .tree _, some (.leaf _ _) => .ok ()
  | .tree _, some _ => .error .badKind
  | _, some _ => .ok ()

/-- pages 0 (meta) and 1 (bitmap) are always kept: `reachable.insert(PageId::new(0)); …(1)` -/
def fixed : List Node := [(0, Role.i2e), (1, Role.i2e)]

def seenPage (done : List Node) (p : Nat) : Bool := done.any (·.1 == p)

/-- worklist marking: `done` are the marked pages with the role they were read in (the BTreeSet of
    page ids is `done.map fst`).  A blob page that is already marked makes vacuum fail
    (`cycle detected in blob chain`); every other revisit is skipped. -/
def markLoop (L : Layout) (d : Db) : Nat → List Node → List Node → Except Err (List Node)
  | 0, [], done => .ok done
  | 0, _ :: _, _ => .error .loop
  | _ + 1, [], done => .ok done
  | f + 1, n :: work, done =>
    if seenPage done n.1 then
      (if n.2 = Role.blob then .error .blobCycle else markLoop L d f work done)
    else
      match checkV L n.2 (d.pages.get n.1) with
      | .error e => .error e
      | .ok () => markLoop L d f (succV L d n ++ work) (n :: done)

/-- mirrors vacuum.rs mark_reachable_pages: the set of page ids to keep -/
def mark (L : Layout) (d : Db) (fuel : Nat) : Except Err (List Nat) :=
  match markLoop L d fuel (roots L d) fixed with
  | .ok done => .ok (done.map (·.1))
  | .error e => .error e

/-- mirrors Pager::write_vacuum_copy: only the marked pages survive -/
def keepPages (d : Db) (keep : List Nat) : Db :=
  { d with pages := d.pages.filter (fun x => keep.contains x.1) }

def vacuum (L : Layout) (d : Db) (fuel : Nat) : Except Err Db :=
  match mark L d fuel with
  | .ok keep => .ok (keepPages d keep)
  | .error e => .error e

def okOf {α : Type} : Except Err α → Option α
  | .ok a => some a
  | .error _ => none

def errOf {α : Type} : Except Err α → Option Err
  | .ok _ => none
  | .error e => some e

/-- executable reader reachability (for examples and the driver) -/
def reachLoop (succ : Node → List Node) : Nat → List Node → List Node → List Node
  | 0, _, seen => seen
  | _ + 1, [], seen => seen
  | f + 1, n :: work, seen =>
    if seen.contains n then reachLoop succ f work seen else reachLoop succ f (succ n ++ work) (n :: seen)

def reachR (L : Layout) (d : Db) (fuel : Nat) : List Node := reachLoop (succR d) fuel (roots L d) []

/-! ### which manifest of the WAL is the current one

  vacuum.rs `scan_wal_roots` and engine.rs `scan_recovery_state` both fold over the committed
  transactions of the log, in order.  A ManifestSwitch is accepted when `epoch <cmp> state.manifest_epoch`
  (both: `>=`), a Checkpoint refreshes the property / statistics roots when `epoch <cmp> state.manifest_epoch`
  (both: `==`); the state starts at `Default` (epoch 0, no segments).  The comparison operators are
  regenerated from BOTH sources (`Generated/Layout.lean`). -/

inductive Rec where
  | manifest (epoch : Nat) (segments : List Nat) (props stats : Nat)     -- WalRecord::ManifestSwitch
  | checkpoint (upTo epoch props stats : Nat)                            -- WalRecord::Checkpoint
  | other
  deriving Repr, DecidableEq

structure Tx where
  txid : Nat
  ops : List Rec
  deriving Repr, DecidableEq

structure ScanOps where
  manifestCmp : String
  checkpointCmp : String
  initEpoch : Nat
  deriving Repr, DecidableEq

def cmpHolds (op : String) (a b : Nat) : Bool :=
  if op == ">=" then decide (a ≥ b) else if op == ">" then decide (a > b) else if op == "==" then decide (a = b)
  else if op == "<=" then decide (a ≤ b) else if op == "<" then decide (a < b) else if op == "!=" then decide (a ≠ b)
  else false

/-- vacuum.rs WalRoots -/
structure VRoots where
  epoch : Nat
  segments : List Nat
  props : Nat
  stats : Nat
  deriving Repr, DecidableEq

/-- engine.rs RecoveryState -/
structure ERoots where
  epoch : Nat
  segments : List Nat
  ckptTxid : Nat
  maxTxid : Nat
  props : Nat
  stats : Nat
  deriving Repr, DecidableEq

/-- one record of vacuum.rs scan_wal_roots -/
def vacuumStep (o : ScanOps) (s : VRoots) : Rec → VRoots
  | .manifest e segs p st => if cmpHolds o.manifestCmp e s.epoch then ⟨e, segs, p, st⟩ else s
  | .checkpoint _ e p st => if cmpHolds o.checkpointCmp e s.epoch then { s with props := p, stats := st } else s
  | .other => s

def vacuumScan (o : ScanOps) (log : List Tx) : VRoots :=
  log.foldl (fun s tx => tx.ops.foldl (vacuumStep o) s) ⟨o.initEpoch, [], 0, 0⟩

/-- one record of engine.rs scan_recovery_state -/
def engineStep (o : ScanOps) (s : ERoots) : Rec → ERoots
  | .manifest e segs p st =>
    if cmpHolds o.manifestCmp e s.epoch then { s with epoch := e, segments := segs, ckptTxid := 0, props := p, stats := st }
    else s
  | .checkpoint up e p st =>
    if cmpHolds o.checkpointCmp e s.epoch then { s with ckptTxid := max s.ckptTxid up, props := p, stats := st } else s
  | .other => s

def engineScan (o : ScanOps) (log : List Tx) : ERoots :=
  log.foldl (fun s tx => tx.ops.foldl (engineStep o) { s with maxTxid := max s.maxTxid tx.txid })
    ⟨o.initEpoch, [], 0, 0, 0, 0⟩

/-- what both scans are for: (segment meta pages, properties root, statistics root) -/
def VRoots.roots (r : VRoots) : List Nat × Nat × Nat := (r.segments, r.props, r.stats)
def ERoots.roots (r : ERoots) : List Nat × Nat × Nat := (r.segments, r.props, r.stats)

/-- a database file seen with the roots a WAL scan selected -/
def Db.withRoots (d : Db) (r : List Nat × Nat × Nat) : Db :=
  { d with segments := r.1, propsRoot := r.2.1, statsRoot := r.2.2 }

end Nervus.Vacuum
