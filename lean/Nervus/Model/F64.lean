/-
  Nervus.Model.F64 — a concrete, kernel-evaluable model of IEEE-754 binary64 *values* and of
  their comparison; floating ARITHMETIC is not modelled (see `FArith`).

  * `F64`            dyadic value: `nan | inf sign | fin sign mant exp`,
                     value of `fin s m e` = (−1)^s · m · 2^(e − 1074)   (e is the biased-by-1074 exponent,
                     so every binary64 — subnormals included — has `e ≥ 0`; −0.0 is `fin true 0 _`)
  * `F64.ofBits`     exact decoding of the IEEE-754 fields of a bit pattern (mirrors `f64::from_bits`)
  * `F64.cmp`        mirrors `f64::partial_cmp`: both sides are scaled to the common exponent −1074 and
                     compared as integers (`key`); `none` iff a NaN is involved; ±0.0 compare equal
  * `F64.ofIntBits`  mirrors `i64 as f64` (round-to-nearest-even to 53 significant bits), result as a bit
                     pattern; pure integer arithmetic
  * `FArith`         the floating operations the evaluator needs, on bit patterns — a PARAMETER of the
                     model.  Theorems quantify over every `FArith`; the driver instantiates it with Lean's
                     native `Float` through `Float.ofBits/toBits`.

  Import-free (core only): closed `decide`s evaluate in the kernel, the driver links natively.
-/
namespace Nervus

/-- dyadic model of a binary64 value; `fin neg mant exp` denotes (−1)^neg · mant · 2^(exp − 1074). -/
inductive F64
  | nan
  | inf (neg : Bool)
  | fin (neg : Bool) (mant : Nat) (exp : Nat)
  deriving Repr, DecidableEq, Inhabited

namespace F64

def two52 : Nat := 4503599627370496
def two53 : Nat := 9007199254740992
def two63 : Nat := 9223372036854775808
def two64 : Nat := 18446744073709551616

/-- a bit pattern is a `u64` -/
def IsBits (b : Nat) : Prop := b < two64
instance (b : Nat) : Decidable (IsBits b) := by unfold IsBits; exact inferInstance

/-- mirrors `f64::from_bits`: sign = bit 63, biased exponent = bits 52..62, fraction = bits 0..51. -/
def ofBits (b : Nat) : F64 :=
  let neg := decide (two63 ≤ b % two64)
  let e := (b / two52) % 2048
  let m := b % two52
  if e = 2047 then (if m = 0 then .inf neg else .nan)
  else if e = 0 then .fin neg m 0
  else .fin neg (two52 + m) (e - 1)

def isNaN : F64 → Bool
  | nan => true
  | _ => false

def isFinite : F64 → Bool
  | fin _ _ _ => true
  | _ => false

/-- three-way comparison of integers (`Ord::cmp`) -/
def cmpInt (a b : Int) : Ordering := if a < b then .lt else if a = b then .eq else .gt

/-- three-way comparison of naturals (`Ord::cmp`) -/
def cmpNat (a b : Nat) : Ordering := if a < b then .lt else if a = b then .eq else .gt

/-- the value scaled by 2^1074: an integer. -/
def key (neg : Bool) (m e : Nat) : Int :=
  if neg then -((m * 2 ^ e : Nat) : Int) else ((m * 2 ^ e : Nat) : Int)

/-- position on the extended line: −∞ < every finite value < +∞ (< NaN, used only by the
    NaN-last ordering `cmpNanLast`).  `(tier, scaled value)` compared lexicographically. -/
def tier : F64 → Nat
  | inf true => 0
  | fin _ _ _ => 1
  | inf false => 2
  | nan => 3

def skey : F64 → Int
  | fin s m e => key s m e
  | _ => 0

/-- lexicographic comparison of `(tier, skey)` -/
def cmpTK (a b : F64) : Ordering :=
  if tier a < tier b then .lt else if tier b < tier a then .gt else cmpInt (skey a) (skey b)

/-- mirrors `f64::partial_cmp`: `none` iff one side is NaN. -/
def cmp (a b : F64) : Option Ordering :=
  if a.isNaN || b.isNaN then none else some (cmpTK a b)

def lt (a b : F64) : Bool := cmp a b == some .lt
def le (a b : F64) : Bool := cmp a b == some .lt || cmp a b == some .eq
/-- IEEE `==` (false on NaN, ±0.0 equal) -/
def eqv (a b : F64) : Bool := cmp a b == some .eq

/-- mirrors `compare_f64_with_nan` of evaluator_compare.rs: NaN is greatest, NaN ~ NaN. -/
def cmpNanLast (a b : F64) : Ordering := cmpTK a b

/-- an integer as an (unrounded) dyadic value: `fin (i<0) |i| 1074`, value exactly `i`. -/
def exact (i : Int) : F64 := .fin (decide (i < 0)) i.natAbs 1074

/-- `f.trunc()` for a finite value (rounds toward zero), as an integer. -/
def truncInt : F64 → Int
  | fin s m e =>
    let q : Nat := if e ≥ 1074 then m * 2 ^ (e - 1074) else m / 2 ^ (1074 - e)
    if s then -(q : Int) else (q : Int)
  | _ => 0

/-! ### `i64 as f64` -/

/-- number of significant bits of `n` (fuelled; exact for `n < 2^fuel`) -/
def bitLenAux : Nat → Nat → Nat
  | 0, _ => 0
  | f + 1, n => if n = 0 then 0 else 1 + bitLenAux f (n / 2)

def bitLen (n : Nat) : Nat := bitLenAux 64 n

/-- magnitude part of `i64 as f64`: bit pattern (without sign) of `n` rounded to nearest-even
    at 53 significant bits.  `n ≤ 2^63`. -/
def ofNatBits (n : Nat) : Nat :=
  if n = 0 then 0 else
  let L := bitLen n
  if L ≤ 53 then (L - 1 + 1023) * two52 + (n * 2 ^ (53 - L) - two52)
  else
    let sh := L - 53
    let q := n / 2 ^ sh
    let r := n % 2 ^ sh
    let half := 2 ^ (sh - 1)
    let q' := if half < r ∨ (r = half ∧ q % 2 = 1) then q + 1 else q
    -- a carry out of the 53-bit significand (q' = 2^53) propagates into the exponent field
    (52 + sh + 1023) * two52 + (q' - two52)

/-- mirrors `i as f64` for an `i64`: round-to-nearest-even, as a bit pattern. -/
def ofIntBits (i : Int) : Nat :=
  (if i < 0 then two63 else 0) + ofNatBits i.natAbs

/-- `i as f64` as a value -/
def ofInt (i : Int) : F64 := ofBits (ofIntBits i)

/-- the integer `i as f64` denotes (`round53`); meaningful because `ofInt` is always finite. -/
def round53 (i : Int) : Int := truncInt (ofInt i)

/-- unary minus on a bit pattern: flips the sign bit (also of NaN), mirrors `-f`. -/
def negBits (b : Nat) : Nat := if two63 ≤ b then b - two63 else b + two63

end F64

/-- Floating operations needed by the evaluator, on `u64` bit patterns.  A PARAMETER of the model:
    no theorem looks inside.  Mirrors Rust's `+ - * / %`, `f64::powf`. -/
structure FArith where
  add : Nat → Nat → Nat
  sub : Nat → Nat → Nat
  mul : Nat → Nat → Nat
  div : Nat → Nat → Nat
  rem : Nat → Nat → Nat
  pow : Nat → Nat → Nat

end Nervus
